"""C03 - un / anti produce true inverses with the dual signature."""
from common import *

HDR = ("From Coq Require Import List ZArith NArith Bool. Import ListNotations.\n"
       "From UV Require Import Model.Node Model.Sig Model.TreeOk Model.Invert.\n")


def opt(s):
    return "(Some %s)" % s if s else "None"


def finding_key(v):
    """canonical keys of the defect classes the search can hit (suppressed via known_findings.json)"""
    t, law, inp = v["term"], v["violation"], v["input"]
    # un.rs JoinPat: every directed entry is a regression now (8f54207, 2e21ff6, 6d27c00): a failure is a violation
    if t.startswith("directed:"):
        return None
    if law in ("unun", "left", "left-node", "right") and ("char" in inp or "box" in inp) and \
            any(k in t for k in ("neg", "add1", "sub2", "rsub5", "mul2", "div2", "not")):
        return "algebra-reassociates-on-characters"
    return None


def ties(r, n):
    rc, out, err = run_bin("c03", ["export", n], seed=r.seed, timeout=1200)
    recs = json_lines(out)
    terms = [c for c in recs if "f" in c]
    summ = [c for c in recs if c.get("summary")]
    if rc != 0 or not terms:
        r.broken_obligation("tie-harness", "c03 export failed", (out + err)[-2000:])
        return 0, 0
    with_un = [c for c in terms if "un" in c]
    # ---- (a) signature duality, evaluated by Coq's model of the checker on the real trees:
    #      root_sig(°F) = sig_inverse(root_sig F), the same for °°F vs °F, anti: sig_anti
    jobs, shard = [], 120
    for si, ch in enumerate(chunks(with_un, shard)):
        body = ";\n".join("(%s, %s, %s, %s)" % (c["f"], c["un"], c.get("unun", "(Run [])") if "unun" in c else c["f"],
                                                  c.get("anti", "(Run [])")) for c in ch)
        # ⌝ is in the property for dyadic BLOCKS only (depth 1); anti-inverses of composites are counted, not judged
        flags = ";".join("(%s,%s)" % ("true" if "unun" in c else "false", "true" if ("anti" in c and c["depth"] == 1) else "false") for c in ch)
        jobs.append(("c03_sig_%d" % si, HDR +
                     "Definition dual (a b : node) : N := match root_sig a, root_sig b with\n"
                     "  | Some x, Some y => if sig_eqb y (sig_inverse x) && Nat.eqb (sua x) 0 && Nat.eqb (suo x) 0 then 0%%N else 1%%N\n"
                     "  | _, _ => 2%%N end.\n"
                     "Definition antid (a b : node) : N := match root_sig a, root_sig b with\n"
                     "  | Some x, Some y => match sig_anti x with Some z => if sig_eqb y z then 0%%N else 1%%N | None => 1%%N end\n"
                     "  | _, _ => 2%%N end.\n"
                     "Definition cases : list (node * node * node * node) := [\n%s\n].\n"
                     "Definition flags : list (bool * bool) := [%s].\n"
                     "Eval vm_compute in (map (fun cf : (node * node * node * node) * (bool * bool) => let '(f, u, uu, an) := fst cf in\n"
                     "  (dual f u, if fst (snd cf) then dual u uu else 0%%N, if snd (snd cf) then antid f an else 0%%N)) (combine cases flags)).\n"
                     % (body, flags)))
    # ---- (b) the validator on the real templates
    vshard = 150
    vjobs = []
    for si, ch in enumerate(chunks(with_un, vshard)):
        body = ";\n".join("(%s, %s, %s)" % (c["f_tn"], c["un_tn"], c.get("unun_tn", "[]")) for c in ch)
        vjobs.append(("c03_val_%d" % si, HDR + "Definition cases : list (list tn * list tn * list tn) := [\n%s\n].\n"
                      "Eval vm_compute in (map (fun c => let '(f, u, uu) := c in (check_un_code f u, check_un_code u uu, check_un_code u f)) cases).\n" % body))
    res = coq_eval_many(jobs + vjobs, timeout=1200)
    nsig = len(jobs)
    sig_bad, sig_unc, sig_ok = [], 0, 0
    for si, (rc2, o) in enumerate(res[:nsig]):
        if rc2 != 0:
            r.broken_obligation("tie-eval", "Coq evaluation of a signature-duality shard failed", o[-1500:])
            continue
        ints = coq_ints(o)
        for i in range(0, len(ints) - 2, 3):
            c = with_un[si * shard + i // 3]
            trip = ints[i:i + 3]
            if 1 in trip:
                sig_bad.append((c, trip))
            elif 2 in trip:
                sig_unc += 1
            else:
                sig_ok += 1
    # the real checker's own verdict on the same pairs (Node::sig on both sides)
    def usig(s):
        m = re.match(r"\(Sig (\d+) (\d+) (\d+) (\d+)\)", s or "")
        return tuple(int(x) for x in m.groups()) if m else None
    rust_bad = []
    for c in with_un:
        a, b = usig(c.get("f_sig")), usig(c.get("un_sig"))
        if a and b and not (b[0] == a[1] and b[1] == a[0] and b[2] == 0 and b[3] == 0):
            rust_bad.append(c)
    codes = {"f_un": {0: 0, 1: 0, 2: 0}, "un_unun": {0: 0, 1: 0, 2: 0}, "un_f": {0: 0, 1: 0, 2: 0}}
    leaf_differs = []
    both_dir = 0
    for si, (rc2, o) in enumerate(res[nsig:]):
        if rc2 != 0:
            r.broken_obligation("tie-eval", "Coq evaluation of a validator shard failed", o[-1500:])
            continue
        ints = coq_ints(o)
        for i in range(0, len(ints) - 2, 3):
            c = with_un[si * vshard + i // 3]
            codes["f_un"][ints[i]] += 1
            if "unun_tn" in c:
                codes["un_unun"][ints[i + 1]] += 1
            codes["un_f"][ints[i + 2]] += 1
            if ints[i] == 0 and ints[i + 2] == 0:
                both_dir += 1
            if ints[i] == 1 and c["depth"] == 1:
                leaf_differs.append(c)
    r.coverage["tie_sig_duality"] = {"kind": "V", "terms": len(terms), "with_inverse": len(with_un),
                                     "no_inverse_or_compile_error": len(terms) - len(with_un),
                                     "dual_in_model_of_checker": sig_ok, "not_covered_by_checker_model": sig_unc,
                                     "not_dual": len(sig_bad), "not_dual_by_real_checker": len(rust_bad),
                                     "anti_pairs_checked(blocks)": sum(1 for c in with_un if "anti" in c and c["depth"] == 1),
                                     "anti_of_composites_not_judged": sum(1 for c in with_un if "anti" in c and c["depth"] > 1),
                                     "depth_hist": {str(d): sum(1 for c in terms if c.get("depth") == d) for d in range(1, 6)},
                                     "depth2_exhaustive": (summ[0] if summ else {})}
    r.coverage["tie_validator"] = {"kind": "V", "pairs": len(with_un),
                                   "F_unF": {"validated": codes["f_un"][0], "differs_from_model_derivation": codes["f_un"][1], "outside_catalogue_model": codes["f_un"][2]},
                                   "unF_ununF": {"validated": codes["un_unun"][0], "differs": codes["un_unun"][1], "outside": codes["un_unun"][2]},
                                   "validated_in_both_directions(right law)": both_dir}
    r.log("signature duality: %d pairs dual, %d outside the checker model, %d NOT dual (real checker: %d)" % (sig_ok, sig_unc, len(sig_bad), len(rust_bad)))
    r.log("validator: F/°F validated %d, differs %d, outside the catalogue model %d; both directions %d" %
          (codes["f_un"][0], codes["f_un"][1], codes["f_un"][2], both_dir))
    for c in with_un[:2] + with_un[60:61]:
        r.sample({"F": c["src"], "F_tn": c["f_tn"][:200], "unF_tn": c["un_tn"][:200], "F_sig": c.get("f_sig"), "unF_sig": c.get("un_sig")})
    if sig_bad or rust_bad:
        c = (sig_bad[0][0] if sig_bad else rust_bad[0])
        r.broken_obligation("tie:inv_sig", "the signature of an emitted inverse is not the mirror image of F's (%d pairs)" % max(len(sig_bad), len(rust_bad)),
                            json.dumps({"F": c["src"], "F_sig": c.get("f_sig"), "unF_sig": c.get("un_sig")}, ensure_ascii=False))
    if leaf_differs:
        c = leaf_differs[0]
        r.broken_obligation("tie:Invert.v~un.rs", "the engine emits another inverse for a catalogue block than the transcribed table (%d blocks)" % len(leaf_differs),
                            json.dumps({"F": c["src"], "F_tn": c["f_tn"], "unF_tn": c["un_tn"]}, ensure_ascii=False))
    return len(with_un), codes["f_un"][0]


def sem_tie(r, n):
    """C: the reference semantics of the templates (Model/Invert.v trun over Model/Prims.v arrays) replayed by
    Coq on the inputs and results of the real interpreter, for catalogue terms and their emitted inverses"""
    rc, out, err = run_bin("c03", ["sem", n], seed=r.seed, timeout=1200)
    recs = [c for c in json_lines(out) if "sem" in c]
    if rc != 0 or not recs:
        r.broken_obligation("tie-harness", "c03 sem failed", (out + err)[-2000:])
        return 0
    hdr = ("From Coq Require Import List ZArith NArith Bool. Import ListNotations.\n"
           "From UV Require Import Model.Prims Model.Invert.\n"
           "Definition code (c : list tn * list arr * list arr) : N := let '(f, i, o) := c in\n"
           "  match trun f (i, []) with\n"
           "  | Ok (o', []) => if list_eqb arr_eqb o' o then 0%N else 1%N\n"
           "  | Ok _ => 1%N | Err => 1%N | Unspec => 2%N end.\n")
    jobs, shard = [], 150
    for si, ch in enumerate(chunks(recs, shard)):
        body = ";\n".join("(%s, %s, %s)" % (c["tn"], c["ins"], c["outs"]) for c in ch)
        jobs.append(("c03_sem_%d" % si, hdr + "Definition cases : list (list tn * list arr * list arr) := [\n%s\n].\nEval vm_compute in (map code cases).\n" % body))
    res = coq_eval_many(jobs, timeout=1200)
    agree, decl, bad = 0, 0, []
    prims_agree = {}
    for si, (rc2, o) in enumerate(res):
        if rc2 != 0:
            r.broken_obligation("tie-eval", "Coq evaluation of a semantics shard failed", o[-1500:])
            continue
        for i, k in enumerate(coq_ints(o)):
            if k == 0:
                agree += 1
                for m in set(re.findall(r"P_\w+|TDipN|TBoth|TUnBoth|TBracket|TUnBracket|TDip|TPush", recs[si * shard + i]["tn"])):
                    prims_agree[m] = prims_agree.get(m, 0) + 1
            elif k == 2:
                decl += 1
            else:
                bad.append(recs[si * shard + i])
    prims = {}
    for c in recs:
        for m in re.findall(r"P_\w+|TDipN|TBoth|TUnBoth|TBracket|TUnBracket|TDip|TPush", c["tn"]):
            prims[m] = prims.get(m, 0) + 1
    r.coverage["tie_semantics"] = {"kind": "C", "runs": len(recs), "model_agrees": agree, "model_declines(outside its exact sub-domain)": decl,
                                   "mismatches": len(bad), "template_constructors_in_runs": prims,
                                   "template_constructors_in_agreeing_runs": prims_agree}
    need = ["P_Mul", "P_Div", "P_Flip", "TDipN", "P_Join", "P_UnJoin", "P_Add", "P_Sub", "P_Rotate", "P_AntiRotate", "P_Couple", "P_UnCouple", "P_Box", "P_UnBox"]
    missing = [m for m in need if not prims_agree.get(m)]
    if missing and len(recs) >= 500:
        r.broken_obligation("tie:semantics-coverage", "modelled template constructors never replayed in agreement: %s" % missing, json.dumps(prims_agree))
    if False:
        pass
    r.log("semantics tie: %d interpreter runs replayed by trun: %d agree, %d outside the model's domain, %d mismatches" % (len(recs), agree, decl, len(bad)))
    if bad:
        c = bad[0]
        r.broken_obligation("tie:Invert.v-trun~interpreter", "the template semantics and the interpreter disagree on %d of %d runs" % (len(bad), len(recs)),
                            json.dumps(c, ensure_ascii=False)[:1500])
    return len(recs)


def run(r):
    quick = r.tier == "quick"
    r.trusted += TRUSTED_COMMON + [
        "exporters of uiua::Node trees: to the spine's node type (harness/src/lib.rs Export) and to the template type tn (harness/src/bin/c03.rs, primitives by name)",
        "the reference semantics of the templates (Model/Invert.v trun / prim_sem over Model/Prims.v arrays) is tied to the implementation by the semantics correspondence of this check (interpreter runs of catalogue terms and their emitted inverses replayed by Coq) and by C08's correspondence, not by proof",
        "operands of both/bracket are modelled as run on exactly their arguments (C02_sig_sound justifies this)",
    ]
    r.assumptions += ["states are admissible: arrays well-formed, integers below 2^53 in magnitude, valid code points (st_okb)",
                      "F succeeds on the state (domain of F); couple on equal shapes/types, rotate by a scalar, +c/-c with a literal integer c, join / un-join of a scalar and a list",
                      "catalogue covered by the theorems: identity, flip, neg, not, reverse, box/unbox, fix/unfix, couple/uncouple, join/un-join, +c, -c, ×c / ÷c with a non-zero literal integer (exact: products below 2^53, whole quotients), "
                      "the flipped subtraction `c : -`, rotate/anti-rotate by a literal, dip over several values, "
                      "closed under sequencing (incl. the un-join rule: every piece before a join inverted in place, in reverse order), dip, both/un-both, bracket/un-bracket; "
                      "everything else (transpose, join-with-literal template, chain links `⊙⊂` and counted un-joins, bits, utf8, on/by, rows, fill, the algebra solver's re-derivations) "
                      "is covered by the search and the directed families only",
                      "the records C03_*_refuted_pre are about models of OLD engines (before 8f54207; at 8f54207), kept with their regression inputs",
                      "anti-inverses are judged for dyadic blocks only (the property's quantifier); anti of composites is counted",
                      "chains of joins with a bare `⊙⊂` link return that part as a one-row list: such terms are outside the calibrated domain of the random search and covered by the directed family"]
    if not r.harness(["c03"]):
        return
    r.proofs()
    a = ties(r, 500 if quick else 6000)
    nsem = sem_tie(r, 600 if quick else 6000)
    m = 4000 if quick else 120000
    if r.broken:
        m *= 3
    rc, out, err = run_bin("c03", ["search", m], seed=r.seed, timeout=3000)
    recs = json_lines(out)
    viols = [x for x in recs if "violation" in x]
    summ = [x for x in recs if x.get("summary")]
    if rc != 0 or not summ:
        r.broken_obligation("search-harness", "c03 search failed", (out + err)[-2000:])
    s = summ[0] if summ else {}
    r.coverage["search"] = dict(s, violations=len(viols))
    for tag in ("directed", "regress", "arith", "power"):
        for x in recs:
            if x.get(tag) is True:
                r.coverage["search_" + tag] = {k: v for k, v in x.items() if k != tag}
    ar = r.coverage.get("search_arith", {})
    cls = ar.get("chains_by_class_slope_gt1_eq1_0to1_m1to0_eqm1_ltm1_x_const_zero_nonzero", [])
    if not ar or 0 in cls:
        r.broken_obligation("search:arith-classes", "the arithmetic-chain family no longer reaches every slope/constant class of the algebra solver", json.dumps(ar))
    seen = set()
    for v in viols:
        key = finding_key(v) or "%s|%s|%s" % (v["violation"], v["src"], v["input"])
        if key in seen:
            continue
        seen.add(key)
        r.violation(key, "inverse law `%s` fails on the implementation for %s: %s" % (v["violation"], v["src"], v["detail"][:300]), v,
                    theorem={"left": "C03_inv_left", "left-node": "C03_inv_left", "right": "C03_inv_right", "right-range": "C03_inv_right",
                             "unun": "C03_inv_inv_same", "anti": "C03_anti"}.get(v["violation"], "C03_inv_left"))
    r.log("search: %s terms, in domain %s, skipped (outside the domain) %s, left %s right %s(+%s on the range) °° %s anti %s" %
          (s.get("terms"), s.get("in_domain"), s.get("outside_domain_skipped"), s.get("left_checked"), s.get("right_checked"),
           s.get("right_range_checked"), s.get("unun_checked"), s.get("anti_checked")))
    r.coverage["evaluations"] = a[0] + s.get("evaluations", 0)
    r.coverage["distinct_nontrivial"] = a[0] + s.get("in_domain", 0)
    r.coverage["rule"] = ("C: interpreter runs of catalogue terms of depth <= 3 and of their emitted inverses (arguments of every type, integer-valued results) replayed by "
                          "Coq's trun; the run is broken if a modelled template constructor is never replayed in agreement; V: the depth-2 closure of the catalogue (blocks, dip/both/fill/rows of a block, every sequence and bracket of two blocks; "
                          "quick: a seeded subset, thorough: all) plus seeded terms of depth 3-4; search: all blocks, then terms of depth 2/3/4 in equal "
                          "parts, arguments of every element type (num, byte, char, complex, box) and rank 0-3, neighbours often sharing shape and type; "
                          "inputs outside a block's domain (decided by running the term with per-block guards) are skipped and counted; "
                          "directed: un-join family (17 programs), regression programs of repaired anti defects, and every 2-step plus a seeded sample of "
                          "3-step arithmetic chains over +c -c ×c ÷c (c of both signs) ¯ ¬ ˜-c reaching the algebra solver with every class of net slope "
                          "(>1, 1, (0,1), (-1,0), -1, <-1) x net constant (zero, non-zero), on numeric scalars and arrays; powers through the algebra solver "
                          "(°(ⁿk …), F °F, ⍜(ⁿk …) for k from 2 to 1e15, up to rounding, each within 30 s)")
