"""C08 - core array primitives agree with an independent executable model (coq/Model/Prims.v)."""
from common import *
import collections
import resource

# large list literals: coqc parses them recursively
try:
    _soft, _hard = resource.getrlimit(resource.RLIMIT_STACK)
    resource.setrlimit(resource.RLIMIT_STACK, (_hard, _hard))
except (ValueError, OSError):
    pass

# ------------------------------------------------------------------ compact case -> Gallina term


class Toks:
    def __init__(self, line):
        self.t = line.split()
        self.i = 0

    def next(self):
        x = self.t[self.i]
        self.i += 1
        return x

    def peek(self):
        return self.t[self.i] if self.i < len(self.t) else None


TY = {"n": "TNum", "c": "TChar", "b": "TBox"}


def zlit(x):
    x = int(x)
    return "(%d)" % x if x < 0 else "%d" % x


def p_arr(tk, build=True):
    """-> (ty, shape list, [elem terms]); build=False only walks the tokens"""
    assert tk.next() == "a"
    ty = tk.next()
    rank = int(tk.next())
    shape = [int(tk.next()) for _ in range(rank)]
    n = 1
    for d in shape:
        n *= d
    elems = []
    if not build:
        if ty == "b":
            for _ in range(n):
                p_arr(tk, False)
        else:
            tk.i += n
        return ty, shape, None
    for _ in range(n):
        if ty == "n":
            elems.append("ENum %s" % zlit(tk.next()))
        elif ty == "c":
            elems.append("EChar %s" % tk.next())
        else:
            t2, s2, e2 = p_arr(tk)
            elems.append("EBox %s %s %s" % (TY[t2], nat_list(s2), elem_list(e2)))
    return ty, shape, elems


def nat_list(s):
    return "[" + ";".join(str(x) for x in s) + "]%nat" if s else "[]"


def elem_list(e):
    return "[" + ";".join(e) + "]"


def arr_term(a):
    ty, shape, elems = a
    return "(Arr %s %s %s)" % (TY[ty], nat_list(shape), elem_list(elems))


def p_amt(tok):
    special = {"inf": "AInf false", "ninf": "AInf true", "frac": "AFrac", "nan": "ANaN"}
    if tok in special:
        return special[tok]
    assert tok.startswith("i")
    return "AInt %s" % zlit(tok[1:])


def parse_info(line):
    """cheap scan of a compact case: argument shapes/types and program length only"""
    tk = Toks(line)
    if tk.next() != "f0":
        tk.i += 2
    tk.next()
    k = int(tk.next())
    for _ in range(k):
        if tk.next() == "OLit":
            tk.i += 2
            m = int(tk.next())
            tk.i += m
    tk.next()
    stack = [p_arr(tk, False) for _ in range(int(tk.next()))]
    return {"stack": stack, "out": None, "nops": k}


def parse_case(line):
    """compact case -> (Gallina tcase term, dict with parsed parts)"""
    tk = Toks(line)
    f = tk.next()
    if f == "f0":
        fill = "None"
    else:
        t = tk.next()
        v = tk.next()
        fill = "(Some (ENum %s))" % zlit(v) if t == "n" else "(Some (EChar %s))" % v
    assert tk.next() == "p"
    k = int(tk.next())
    ops = []
    for _ in range(k):
        o = tk.next()
        if o == "OLit":
            aop = tk.next()
            sc = tk.next() == "1"
            m = int(tk.next())
            amts = [p_amt(tk.next()) for _ in range(m)]
            ops.append("OLit %s %s [%s]" % (aop, "true" if sc else "false", ";".join(amts)))
        else:
            ops.append(o.replace(":", " "))
    assert tk.next() == "s"
    k = int(tk.next())
    stack = [p_arr(tk) for _ in range(k)]
    r = tk.next()
    if r == "err":
        exp = "None"
        out = None
    else:
        assert r == "ok", r
        k = int(tk.next())
        out = [p_arr(tk) for _ in range(k)]
        exp = "(Some [%s])" % ";".join(arr_term(a) for a in out)
    assert tk.peek() is None
    term = "TC %s [%s] [%s] %s" % (fill, ";".join(ops), ";".join(arr_term(a) for a in stack), exp)
    return term, {"stack": stack, "out": out, "nops": len(ops)}


HEADER = ("From Coq Require Import List ZArith NArith. Import ListNotations.\n"
          "From UV Require Import Model.Prims.\n")


def shard_text(terms):
    return HEADER + "Definition cases : list tcase := [\n%s\n].\nEval vm_compute in (check_from 0%%N cases).\n" % ";\n".join(terms)


def parse_pairs(out):
    m = re.search(r"=\s*(.*?)\n\s*:\s", out, re.S)
    body = m.group(1) if m else ""
    xs = [int(x) for x in re.findall(r"\d+", body)]
    return list(zip(xs[0::2], xs[1::2]))


def finding_key(c):
    """canonical key of a disagreement: first primitive of the program / outcome kinds"""
    return "prim:%s" % "+".join(o.split(":")[-1] for o in c["ops"])


def evaluate_coq(cases, shard=120, max_bytes=250000, timeout=900, tag="tie"):
    """-> (mismatch indices, unspec indices, failed shards); shards are bounded in cases and in text size"""
    groups, cur, size = [], [], 0
    for i, c in enumerate(cases):
        if cur and (len(cur) >= shard or size + len(c["term"]) > max_bytes):
            groups.append(cur)
            cur, size = [], 0
        cur.append(i)
        size += len(c["term"])
    if cur:
        groups.append(cur)
    jobs = [("c08_%s_%d" % (tag, si), shard_text([cases[i]["term"] for i in g])) for si, g in enumerate(groups)]
    results = coq_eval_many(jobs, timeout=timeout)
    mism, unspec, failed = [], [], []
    for si, (rc, o) in enumerate(results):
        if rc != 0:
            failed.append((si, o[-1500:]))
            continue
        for i, k in parse_pairs(o):
            (mism if k == 1 else unspec).append(groups[si][i])
    return mism, unspec, failed


def localize(cases, idxs, limit=60):
    """for mismatching cases: find the first single primitive application (on the observed
    intermediate stacks) on which reference and implementation disagree.
    -> {case index: (op token, single-op compact case) or None}"""
    singles = []
    for i in idxs[:limit]:
        c = cases[i]
        n = len(c["ops"])
        optoks, stacks = c["steps"][:n], c["steps"][n:]
        tk = c["line"].split()
        fill = "f0" if tk[0] == "f0" else " ".join(tk[:3])
        m = re.search(r" (s \d+ .*?) (ok \d+|err)( |$)", c["line"])
        prev = m.group(1) if m else None
        for j, st in enumerate(stacks):
            if prev is None or st == "skip":
                break
            line = "%s p 1 %s %s %s" % (fill, optoks[j], prev, st)
            try:
                term, _ = parse_case(line)
            except Exception:
                break
            singles.append({"case": i, "step": j, "op": optoks[j], "line": line, "term": term})
            if st == "err":
                break
            prev = "s" + st[2:]
    res = {i: None for i in idxs}
    if not singles:
        return res
    mism, _, _ = evaluate_coq(singles, tag="loc")
    for k in sorted(mism):
        s1 = singles[k]
        if res.get(s1["case"]) is None:
            res[s1["case"]] = s1
    return res


def features(line, crash=False):
    """coarse canonical description of a single-primitive case, used in finding keys"""
    _, info = parse_case(line)
    head = line.split(" s ", 1)[0]
    f = []
    if not line.startswith("f0"):
        f.append("fill")
    if re.search(r"\bi-\d", head):
        f.append("neg-amount")
    if re.search(r" OLit \w+ 1 ", head):
        f.append("scalar-amount")
    for w in ("inf", "ninf", "frac", "nan"):
        if re.search(r" %s\b" % w, head):
            f.append(w)
    st = info["stack"]
    ptoks = head.split(" p 1 ", 1)[1].split()
    op = ptoks[0] if ptoks[0] != "OLit" else "OLit:" + ptoks[1]
    if op.startswith("OAmt") and len(st) >= 2:
        ty, shape, elems = st[0]
        if len(shape) == 0:
            f.append("scalar-amount")
        if ty == "n" and any(e.startswith("ENum (-") for e in elems):
            f.append("neg-amount")
        if len(shape) >= 2 and shape[0] == 0:
            f.append("empty-index-rank2+")
        st = st[1:]
    if op.startswith("OP2") and len(st) >= 2:
        sa, sb = st[0][1], st[1][1]
        k = min(len(sa), len(sb))
        mx = [max(x, y) for x, y in zip(sa, sb)] + list(sa[k:]) + list(sb[k:])   # shape after padding with the fill
        if mx != st[0][1] and mx != st[1][1]:
            f.append("result-shape-differs")   # padded shape equals neither argument's shape
        if st[0][0] == st[1][0]:
            f.append("same-type")
        if 0 in sa and 0 in sb:
            f.append("both-empty")             # neither argument has an element
    if op in ("OMember", "OIndexIn") and len(st) >= 2 and 0 in st[1][1]:
        f.append("empty-needle")
    if st and any(0 in a[1] for a in st[:2 if op[:3] in ("OP2", "OMa", "OCo", "OJo", "OMe", "OIn", "OFi") else 1]):
        f.append("empty-axis")
    if op.split(":")[-1] in ("ATake", "ADrop", "ARotate") and st:
        # more amounts than the array has axes
        if op.startswith("OAmt"):
            ish = info["stack"][0][1]
            namt = ish[0] if len(ish) == 1 else 0
        else:
            namt = 0 if ptoks[2] == "1" else int(ptoks[3])
        if namt > len(st[0][1]):
            f.append("too-many-axes")
    zero_amt = bool(re.search(r"\bi0\b", head)) or (op.startswith("OAmt") and any(e == "ENum 0" for e in (info["stack"][0][2] or [])))
    if (op.endswith("ATake") or op.endswith("APick")) and st and (0 in st[0][1] or (zero_amt and op.endswith("ATake"))):
        f.append("empty-array")   # the array, or the result of an earlier axis, has no elements
    outcome = "impl-crash" if crash else "impl-error" if line.rstrip().endswith(" err") else "impl-ok"
    return ",".join(sorted(set(f)) + [outcome])


def is_crash(err):
    return bool(err) and ("crashed" in err or "PANIC" in err or "panicked" in err)


# ------------------------------------------------------------------ extraction (thorough tier)

EXTRACT_DIR = os.path.join(ROOT, "extract")


def build_extracted(r):
    """extract Model/Prims.v with ExtrOcamlBasic only and build the OCaml line driver"""
    work = os.path.join(CACHE, "c08_extract")
    os.makedirs(work, exist_ok=True)
    text = ("Require Extraction. Require Import ExtrOcamlBasic.\nFrom UV Require Import Model.Prims.\n"
            "Extraction \"prims.ml\" run check_case arr_eqb.\n")
    with Lock("c08_extract"):
        vfile = os.path.join(work, "extract_prims.v")
        with open(vfile, "w") as f:
            f.write(text)
        for fn in ("prims.ml", "prims.mli", "c08_driver"):
            try:
                os.remove(os.path.join(work, fn))
            except OSError:
                pass
        rc, out = sh(["timeout", "600", "coqc", "-noglob", "-Q", COQ, "UV", vfile], cwd=work, timeout=620)
        if rc != 0 or not os.path.exists(os.path.join(work, "prims.ml")):
            r.broken_obligation("extraction", "extraction of Model/Prims.v failed", out[-2000:])
            return None
        for fn in ("driver.ml",):
            sh(["cp", os.path.join(EXTRACT_DIR, fn), work])
        rc, out = sh("ocamlfind ocamlopt -package str prims.mli prims.ml driver.ml -o c08_driver", cwd=work, timeout=600)
        if rc != 0:
            r.broken_obligation("extraction-build", "the OCaml driver no longer builds", out[-2000:])
            return None
    return os.path.join(work, "c08_driver")


# ------------------------------------------------------------------ the check

CARVE_OUTS = [
    "numbers are integers with |x| < 2^53; complex arrays and non-integer data are outside the reference (cases whose observed result is not integer-valued, or has more than 20000 elements, are rejected by the generator and counted)",
    "pervasive functions on box arrays, comparisons/min/max between a number and a character, multiply with characters, character arithmetic leaving [0, 0xD7FF], monadic pervasive functions on character arrays",
    "fill + pervasive/couple/join when the ranks differ, and fill + pervasive when a matched pair of axes has lengths 1 and n (repeat or pad?); equal-rank padding incl. arguments with empty rows IS compared",
    "a fill of another element type than the array counts as no fill (number and character arrays); any fill with a BOX array is left open (the implementation boxes the fill); couple/join of a box array with a non-box array",
    "scalar reshape (copies) with a fill set, and with a negative count",
    "first/last of an empty array with a fill value; match of two EMPTY arrays of different element type",
    "join with an empty rank-1 list (shape [0]) on either side (implementation special-cases it; documentation silent)",
    "sort/rise/fall of box arrays (box order only described as 'lexicographic'); rise/fall/classify/deduplicate of a scalar",
    "take/drop/rotate/select/keep on a scalar array; take by negative infinity; drop by an infinity; amounts of rank >= 2 for take/drop/rotate/reshape/keep",
    "NOT carved out: more amounts than axes is an error for take and drop; for rotate it is an error unless the array has no elements, which is then returned unchanged (source: tests/dyadic.ua:72-73, the doc comment is silent)",
    "select/pick with an infinite or non-integer index when a fill is set; pick with a negative index when a fill is set",
    "reshape: scalar infinite shape, derived axis when the other axes multiply to 0, cycling an empty array",
    "keep: counts longer than the array, non-integer scalar count, non-number fill (NOT carved out: a negative scalar count keeps |count| copies and reverses the rows; source: tests/dyadic.ua:164, the doc sentence about negative counts concerns lists)",
    "memberof/indexin: searched-for array of rank lower than the rows of the searched-in array, mismatching cell shape, scalar searched-in array, different element types",
    "find: pattern of higher rank than the array, empty pattern, scalar array, different element types, any fill value set",
    "un box of a non-box or of a non-scalar box array; range/where of box arrays and of |n| > 4096; range of a vector longer than 8",
    "resource guards of the reference: take amounts / reshape dims / keep counts beyond 64, results beyond 100000 elements",
    "generator restriction: reshape to more than 8 axes is not generated (the implementation refuses 99 or more axes; the documentation gives no limit); the reference itself computes any rank",
]


def run(r):
    quick = r.tier == "quick"
    r.trusted += TRUSTED_COMMON + [
        "the reference coq/Model/Prims.v is a reading of the prose and examples of parser/src/defs.rs (two rules rest on the repository's own tests instead, "
        "because the doc comment is silent and upstream asserts them: negative scalar keep reverses, tests/dyadic.ua:164; rotate with extra amounts leaves an element-less array unchanged, "
        "tests/dyadic.ua:72-73); its [Unspec] outcomes (documentation silent) are excluded from the comparison, counted, and listed as carve-outs; interpreter crashes are reported even there",
        "lib/c08.py: compact case -> Gallina term renderer, localisation of a disagreement to the first diverging single primitive (on the OBSERVED intermediate stacks) and feature-based finding keys; "
        "harness/src/bin/c08.rs: generator, Value <-> compact conversion (byte or float storage chosen at random for small naturals), regression corpus replay (corpus/c08.txt, replayed first on every run)",
        "thorough tier: the reference is extracted with exactly `Require Extraction. Require Import ExtrOcamlBasic. Extraction \"prims.ml\" run check_case arr_eqb.` (no other Extract directive: "
        "nat/positive/N/Z stay the Coq datatypes; bool/option/list/prod/unit map to OCaml's by ExtrOcamlBasic), compiled with ocamlfind ocamlopt together with extract/driver.ml "
        "(compact case -> extracted datatypes, prints Prims.check_case per line); about 1500 evenly spaced verdicts (every ~80th of 120000 cases) plus up to 200 disagreements are re-evaluated with vm_compute and must agree",
        "quick tier: vm_compute of Prims.check_case on all cases (shards of <= 120 cases / 250 kB); the coq stack limit is raised for the large list literals",
    ]
    r.assumptions += ["arrays satisfy length(data) = product(shape) (premise wf of the law theorems; C05's invariant)",
                      "numbers are integers (exactly representable doubles, |x| < 2^53); the 33 law theorems (shapes, reverse, couple/join/fix/deshape, take-drop-join, rotate composition and inverse, select/pick/first, reshape-deshape, rise/sort, classify/deduplicate, member/indexin, match, negative keep) are proved of the reference for all well-formed arrays, the implementation is only sampled against it",
                      "the law theorems with size premises (reshape_deshape: dims <= 64 and <= 100000 elements; keep_neg_scalar: count <= 64) are limited by the reference's resource guards, not by the laws",
                      "map keys, sortedness / boolean marks and labels of values are outside the reference (arguments are built without them; results are compared as shape + element type + data)"]
    r.coverage["carve_outs"] = CARVE_OUTS
    if not r.harness(["c08"]):
        return
    r.proofs()

    n = 1500 if quick else 120000
    corpus = os.path.join(ROOT, "corpus", "c08.txt")   # former failing inputs, replayed first
    rc, out, err = run_bin("c08", ["tie", n, corpus], seed=r.seed, timeout=3000)
    lines = json_lines(out)
    cases = [l for l in lines if "line" in l]
    meta = [l for l in lines if "rejected" in l]
    if rc != 0 or not cases:
        r.broken_obligation("tie-harness", "c08 tie failed to run", (out[-1000:] + err[-2000:]))
        return
    for c in cases:
        if quick:
            c["term"], c["info"] = parse_case(c["line"])
        else:
            c["info"] = parse_info(c["line"])

    mism, unspec = [], []
    if quick:
        mism, unspec, failed = evaluate_coq(cases)
        for si, o in failed:
            r.broken_obligation("tie-eval", "Coq evaluation of tie shard %d failed" % si, o)
    else:
        drv = build_extracted(r)
        if drv is None:
            return
        rc, out, err = sh2([drv], stdin="\n".join(c["line"] for c in cases) + "\n", timeout=3000)
        codes = [l.split() for l in out.split("\n") if l.strip()]
        if rc != 0 or len(codes) != len(cases):
            r.broken_obligation("tie-driver", "the extracted driver failed (%d results for %d cases)" % (len(codes), len(cases)), (out[-500:] + err[-1500:]))
            return
        ovf = [i for i, k in enumerate(codes) if k[0] == "9"]
        if ovf:
            r.broken_obligation("tie-driver-stack", "the extracted reference ran out of stack on %d cases (an artefact of the reference, not an outcome)" % len(ovf),
                                json.dumps([cases[i]["line"][:600] for i in ovf[:3]]))
        for i, k in enumerate(codes):
            if k[0] == "1":
                mism.append(i)
            elif k[0] == "2":
                unspec.append(i)
        # re-evaluate a sample of the extracted verdicts inside Coq (vm_compute)
        step = max(1, len(cases) // 1500)
        idx = list(range(0, len(cases), step)) + mism[:200]
        idx = sorted(set(idx))
        sample = [cases[i] for i in idx]
        for c in sample:
            c["term"], _ = parse_case(c["line"])
        m2, u2, failed = evaluate_coq(sample)
        for si, o in failed:
            r.broken_obligation("tie-eval", "Coq re-evaluation shard %d failed" % si, o)
        ext = {i: (1 if i in set(mism) else 2 if i in set(unspec) else 0) for i in idx}
        coq = {i: 0 for i in idx}
        for j in m2:
            coq[idx[j]] = 1
        for j in u2:
            coq[idx[j]] = 2
        diff = [i for i in idx if ext[i] != coq[i]]
        r.coverage["extraction_crosscheck"] = {"sampled": len(idx), "disagreements": len(diff)}
        if diff:
            r.broken_obligation("extraction-crosscheck", "extracted OCaml and vm_compute disagree on %d sampled cases" % len(diff),
                                json.dumps([cases[i]["line"] for i in diff[:3]]))

    # ---- statistics
    compared = len(cases) - len(unspec)
    first_hist = collections.Counter(c["first"].split(":")[-1] for c in cases)
    op_hist = collections.Counter(o.split(":")[-1] for c in cases for o in c["ops"])
    uns_hist = collections.Counter(cases[i]["first"].split(":")[-1] for i in unspec)
    rank_hist = collections.Counter(len(a[1]) for c in cases for a in c["info"]["stack"])
    ty_hist = collections.Counter(a[0] for c in cases for a in c["info"]["stack"])
    empties = sum(1 for c in cases for a in c["info"]["stack"] if 0 in a[1])
    shapes = set(tuple(a[1]) for c in cases for a in c["info"]["stack"])
    r.coverage["tie"] = {
        "kind": "C", "cases": len(cases), "compared": compared, "unspecified_by_docs": len(unspec), "mismatches": len(mism),
        "errors_observed": sum(1 for c in cases if c["err"] is not None),
        "with_fill": sum(1 for c in cases if not c["line"].startswith("f0")),
        "program_length": dict(collections.Counter(c["info"]["nops"] for c in cases)),
        "special_amounts": sum(1 for c in cases if re.search(r" (inf|ninf|frac|nan)\b", c["line"])),
        "first_primitive": dict(first_hist), "primitive_uses": dict(op_hist), "unspecified_by_first_primitive": dict(uns_hist),
        "argument_ranks": dict(rank_hist), "argument_types": dict(ty_hist), "arguments_with_empty_axis": empties,
        "distinct_argument_shapes": len(shapes), "rejected_non_integer_or_oversize_results": meta[0]["rejected"] if meta else None,
        "regression_corpus_cases": meta[0].get("corpus") if meta else None,
        "engine": "vm_compute shards" if quick else "extracted OCaml (ExtrOcamlBasic only) + vm_compute sample",
    }
    okc = [c for i, c in enumerate(cases) if i not in set(unspec)]
    for c in okc[:2] + okc[-2:]:
        r.sample({"src": c["src"], "case": c["line"][:400], "error": c["err"]})
    r.coverage["evaluations"] = compared
    r.coverage["distinct_nontrivial"] = len(set(c["line"] for i, c in enumerate(cases) if i not in set(unspec) and c["info"]["stack"] and any(a[1] for a in c["info"]["stack"])))
    r.coverage["rule"] = ("first the regression corpus (former failing inputs, both number storages), then generated cases: a case = optional scalar number/character fill + "
                          "straight-line program of 1-4 modelled primitives (chosen op first, arguments generated to suit it: agreeing / padded / disagreeing shapes for pervasives, "
                          "rows / suffixes for couple and join, windows for find, searched-in arrays with repeated rows and searched-for cells out of order for memberof/indexin, "
                          "in- and out-of-range / negative / too many amounts; later ops chosen on the observed intermediate stacks; amount arguments from the stack or as "
                          "rank-0/1 literals incl. infinities, fractions, NaN) + argument arrays (number/character/box, rank 0-4, axis lengths 0-4, half of the shapes by "
                          "exhaustive sweep over all 781 shapes); verdict per case by Prims.check_case: agree / disagree / Unspec; a disagreement or an interpreter crash is a violation "
                          "keyed by the first diverging primitive and its input class; non-trivial = compared (not Unspec) and some argument has rank >= 1")
    r.log("tie: %d cases, %d compared, %d unspecified, %d mismatches" % (len(cases), compared, len(unspec), len(mism)))

    # ---- disagreements: every one is a concrete input on which implementation and documented reference differ;
    #      crashes of the interpreter count even where the reference leaves the outcome open
    crashes = [i for i, c in enumerate(cases) if is_crash(c["err"])]
    bad = sorted(set(mism) | set(crashes))
    loc = localize(cases, bad, limit=3000) if bad else {}
    r.coverage["tie"]["crashes"] = len(crashes)
    reported = collections.Counter()
    for i in bad:
        c = cases[i]
        l = loc.get(i)
        if l is None and i in crashes:
            # the crashing step is the first one whose observed outcome is an error
            n_ops = len(c["ops"])
            for j, st in enumerate(c["steps"][n_ops:]):
                if st == "err":
                    tk = c["line"].split()
                    fill = "f0" if tk[0] == "f0" else " ".join(tk[:3])
                    prev = ("s" + c["steps"][n_ops + j - 1][2:]) if j > 0 else re.search(r" (s \d+ .*?) (ok \d+|err)( |$)", c["line"]).group(1)
                    l = {"op": c["steps"][j], "line": "%s p 1 %s %s err" % (fill, c["steps"][j], prev)}
                    break
        if l is not None:
            opname = l["op"].split()[0] + (":" + l["op"].split()[1] if l["op"].startswith("OLit") else "")
            key = "prim:%s/%s" % (opname, features(l["line"], crash=i in crashes))
            single = l["line"]
        else:
            names = [o.split(":")[-1] for o in c["ops"]]
            fused = [(x, y) for x, y in zip(names, names[1:]) if x in ("ORise", "OFall") and y in ("OFirst", "OLast")]
            # no single step diverges: the composition itself does (fused `first rise` etc.)
            key = ("fused:%s+%s/%s" % (fused[0][0], fused[0][1], "impl-error" if c["err"] else "impl-ok")) if fused else "prog:%s" % c["src"]
            single = None
        reported[key] += 1
        if reported[key] > 1:
            continue
        r.violation(key, "implementation and documented reference disagree: `%s`%s" % (c["src"], " (interpreter crash)" if i in crashes else ""),
                    {"src": c["src"], "case": c["line"][:3000], "first_diverging_single_primitive_case": single and single[:3000],
                     "observed_error": c["err"], "grammar": "see harness/src/bin/c08.rs header",
                     "cmd": "VERIF_SEED=%d c08 tie %d" % (r.seed, n)}, theorem="tie:Prims.v~interpreter")
    r.coverage["tie"]["disagreement_keys"] = dict(reported)
    unknown = [k for k in reported if not r.match_known(k)]
    if unknown:
        r.broken_obligation("tie:Prims.v~interpreter", "%d of %d compared cases disagree (%d distinct keys not in known findings)" % (len(mism), compared, len(unknown)),
                            json.dumps(unknown[:20], ensure_ascii=False))
