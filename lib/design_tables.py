#!/usr/bin/env python3
"""Rewrites the generated tables of DESIGN.md (between the SEEDS-TABLE markers)."""
import os, subprocess, re
ROOT = os.path.dirname(os.path.dirname(os.path.abspath(__file__)))
p = os.path.join(ROOT, "DESIGN.md")
s = open(p).read()
tab = subprocess.run(["python3", os.path.join(ROOT, "lib", "seeds_table.py")], capture_output=True, text=True).stdout
a = s.index("<!-- SEEDS-TABLE-BEGIN -->")
b = s.index("<!-- SEEDS-TABLE-END -->")
s = s[:a] + "<!-- SEEDS-TABLE-BEGIN -->\n" + tab + s[b:]
open(p, "w").write(s)
print("tables rewritten")
