"""C16 - map arrays behave as insertion-ordered finite maps under every history."""
from common import *

# classes of the four defects repaired by d33ad92 / 1d73a86 / ca07ac6 / 5017b06: the keys stay stable should one come back
KNOWN_CLASSES = {
    "map-key-nan": "a NaN key behaves differently from an ordinary key (it used to compare equal to the empty/tombstone placeholder cells)",
    "map-drop-all": "dropping every row of a map (drop n with n >= length) leaves keys behind",
    "map-join-overlap": "joining two maps that share two or more keys leaves keys and rows misaligned",
    "map-dup-keys": "a map built from a key list with repeated keys has keys and rows misaligned",
}


def tie_text(ch):
    lines = ["From Coq Require Import List NArith ZArith Bool.", "Import ListNotations.",
             "From UV Require Import Model.Map.", "Import NInst.", "Open Scope nat_scope."]
    names = []
    for c in ch:
        keq = "keq_negzero" if c["class"] == "negzero" else "N.eqb"
        lines.append("Definition h%d : option nat := replay %s %s %s%%N %s%%N (empty_map N N) %s 0." %
                     (c["id"], keq, c["tbl"], c["he"], c["ht"], c["obs"]))
        names.append("h%d" % c["id"])
    # result: list of (history id, failing step) for the histories that disagree
    lines.append("Eval vm_compute in (flat_map (fun p => match snd p with Some s => [(fst p, s)] | None => [] end) [%s])." %
                 "; ".join("(%d, %s)" % (c["id"], "h%d" % c["id"]) for c in ch))
    return "\n".join(lines) + "\n"


def run(r):
    quick = r.tier == "quick"
    r.trusted += TRUSTED_COMMON + [
        "the hash function is abstracted to an arbitrary function key -> N; the tie instantiates it with the low 63 bits of the real hash of every key used (capacities are powers of two, checked)",
        "len / capacity > 0.75 in f64 equals 4*len > 3*capacity (capacities far below 2^50)",
        "sort_unstable_by_key on row indices is modelled by a stable insertion sort; under the proved invariant the indices are exactly 0..n-1, so any correct sort gives the same list (Proofs/MapSort.v: a sorted permutation is unique)",
        "harness association list (Vec<(Value, Value)> with Value ==) as executable specification of the search",
    ]
    r.assumptions += [
        "refinement theorem: keys are compared by an equivalence keq that the hash respects (C15; NaN, -0 and byte/float keys are ordinary keys); outside the statement: keys with an element bit-identical to a placeholder value (f64 0x7ff8000000000001/2, chars U+2FFFF/U+2FFFE, also nested in boxes), which the code cannot tell from an empty/tombstone cell",
        "refinement theorem covers histories of insert/remove/get/has/length/un-map with growth (un-map with normalized()'s sort by row index: C16_map_refines_alist); present_indices - the sort step of MapKeys::reverse/rotate/take/drop - is characterised after every such history (C16_present_indices_spec); the index rewriting of reverse/rotate/take/drop, join and map-construction are covered by the tie and the search only",
    ]
    if not r.harness(["c16"]):
        return
    r.proofs()

    # ---------------- tie: model state = implementation state after every step
    n, maxlen = (240, 40) if quick else (4000, 120)
    rc, out, err = run_bin("c16", ["tie", n, maxlen], seed=r.seed, timeout=1500)
    cases = json_lines(out)
    if rc != 0 or not cases:
        r.broken_obligation("tie-harness", "c16 tie failed to run", (out + err)[-2000:])
    probs = [c for c in cases if c.get("problem")]
    for c in probs[:3]:
        r.broken_obligation("tie-harness:" + c["problem"][:60], "harness self-check failed: %s" % c["problem"], json.dumps({"history": c["history"], "class": c["class"]}))
    shard = 40 if quick else 100
    jobs = [("c16_tie_%d" % si, tie_text(ch)) for si, ch in enumerate(chunks(cases, shard))]
    results = coq_eval_many(jobs, timeout=1500)
    mism = []
    byid = {c["id"]: c for c in cases}
    for si, (rc2, o) in enumerate(results):
        if rc2 != 0:
            r.broken_obligation("tie-eval", "Coq evaluation of tie shard %d failed" % si, o[-1500:])
            continue
        ints = coq_ints(o)
        for i in range(0, len(ints) - 1, 2):
            mism.append((byid[ints[i]], ints[i + 1]))
    steps = sum(c["steps"] for c in cases)
    opk = {}
    for c in cases:
        for t in c["history"].split():
            opk[t[0]] = opk.get(t[0], 0) + 1
    r.coverage["tie"] = {"kind": "C", "histories": len(cases), "steps_compared": steps, "mismatches": len(mism),
                         "classes": {k: sum(1 for c in cases if c["class"] == k) for k in sorted(set(c["class"] for c in cases))},
                         "max_capacity": max([c["max_capacity"] for c in cases] + [0]),
                         "histories_reaching_capacity_ge_16": sum(1 for c in cases if c["max_capacity"] >= 16),
                         "op_kinds": opk, "histories_ending_in_error": sum(c["errors"] for c in cases),
                         "histories_ending_at_a_corrupting_step": sum(c.get("corrupt", 0) for c in cases),
                         "compared": "cells, indices, len, rows and the output after every step"}
    for c in cases[:3]:
        r.sample({"tie_history": c["history"], "class": c["class"], "steps": c["steps"], "max_capacity": c["max_capacity"]})
    r.coverage["tie"]["corpus_histories"] = sum(1 for c in cases if c.get("corpus"))
    for c in [c for c in cases if c.get("corrupt")][:3]:
        r.violation("tie-corrupt:%s:%s" % (c["class"], c["history"]), "the last step of this history leaves a map that check_value rejects",
                    {"class": c["class"], "history": c["history"], "cmd": "c16 one %s \"%s\"" % (c["class"], c["history"])}, theorem="C16_map_inv_run")
    r.log("tie: %d histories, %d steps, %d mismatches" % (len(cases), steps, len(mism)))
    if mism:
        c, s = mism[0]
        r.broken_obligation("tie:Map.v~MapKeys", "model and implementation disagree on the table state or output after a step (%d of %d histories)" % (len(mism), len(cases)),
                            json.dumps({"class": c["class"], "history": c["history"], "first_differing_step": s,
                                        "cmd": "c16 one %s \"%s\"" % (c["class"], c["history"])}, ensure_ascii=False))

    # ---------------- search: implementation vs association list
    # memoised on the concrete state (key table, indices, len, rows, storage type, association list)
    depth = 6 if quick else 9
    rc, out, err = run_bin("c16", ["exh", depth, "memo"], seed=r.seed, timeout=3000)
    lines = json_lines(out)
    if rc != 0:
        r.broken_obligation("search-harness", "c16 exh failed to run", (out + err)[-2000:])
    nr, ln = (300, 200) if quick else (6000, 200)
    rc, out, err = run_bin("c16", ["rand", nr, ln], seed=r.seed, timeout=3000)
    lines2 = json_lines(out)
    if rc != 0:
        r.broken_obligation("search-harness", "c16 rand failed to run", (out + err)[-2000:])
    phases = [l for l in lines + lines2 if "phase" in l]
    evals = sum(l.get("evaluations", 0) for l in phases)
    viols = [l for l in lines + lines2 if "violation" in l]
    r.coverage["search"] = {"evaluations": evals, "phases": phases,
                            "violation_classes": sorted(set(v["violation"].split(":")[0] for v in viols)),
                            "unclassified_divergences": sum(1 for v in viols if v["violation"].startswith("general:"))}
    seen = set()
    general = 0
    for v in sorted(viols, key=lambda v: (len(v["history"].split()), len(v["history"]), v["history"])):
        key = v["violation"]
        if key in seen:
            continue
        seen.add(key)
        if key.startswith("general:"):
            general += 1
            if general > 5:      # unclassified divergences: the five shortest are enough to act on
                continue
        what = KNOWN_CLASSES.get(key, "map and association list disagree")
        r.violation(key, "%s: `%s` - %s" % (what, v["program"], v["detail"]),
                    {"class": v["class"], "history": v["history"], "program": v["program"], "detail": v["detail"],
                     "occurrences": sum(x["count"] for x in viols if x["violation"] == key),
                     "cmd": "c16 one %s \"%s\"" % (v["class"], v["history"])},
                    theorem="C16_map_refines_alist")
    r.coverage["evaluations"] = steps + evals
    r.coverage["distinct_nontrivial"] = sum(l.get("histories", 0) for l in phases) + len(cases)
    r.coverage["rule"] = ("tie: the regression corpus, then random histories over {insert, remove, get, has, length, un-map, reverse, rotate, take, drop, join with "
                          "repeated and shared keys} on universes of 4/12/40 integer, character, NaN-containing and -0-containing key sets, run through the interpreter; "
                          "search: the regression corpus first, then every history of mutators (8 inserts, 4 removes, reverse, rotate 1, take 0/1/2, drop 1/2, 3 joins) up to depth 6 (quick) / 9 (thorough), one less for the non-integer classes, memoised on the concrete state, from the empty map with every observer "
                          "(get/has of each key, length, un-map, check_value) at every node, for number, character, NaN, -0, string and boxed keys; "
                          "all key lists up to length 4 for map construction; random histories to length 200 over 6/24/60 keys; "
                          "non-trivial = distinct histories")
