"""C19 - every reported source position lies inside the source and is self-consistent."""
from common import *

CLS = {0: "CNl", 1: "CCr", 2: "CWs", 3: "COther"}


def coq_segs(segs):
    return "[" + ";".join("[" + ";".join("(%d,%s)" % (n, CLS[c]) for n, c in seg) + "]" for seg in segs) + "]"


def coq_span(s, e):
    # harness order: byte, char, line, col
    return "(mk_loc4 %d %d %d %d, mk_loc4 %d %d %d %d)" % (s[0], s[1], s[2], s[3], e[0], e[1], e[2], e[3])


def coq_case(c):
    toks = [coq_span(s, e) for k, s, e in c["spans"] if k == "tok"]
    errs = [coq_span(s, e) for k, s, e in c["spans"] if k == "lexerr"]
    others = [coq_span(s, e) for k, s, e in c["spans"] if k not in ("tok", "lexerr")]
    out = "[" + ";".join("(%d,%s)" % (n, CLS[k]) for n, k in (c.get("out") or [])) + "]"
    gout = [coq_span(s, e) for s, e in (c.get("gout") or [])]
    def parts(p, kids):
        return "(%s,[%s])" % (coq_span(p[0], p[1]), ";".join(coq_span(k[0], k[1]) for k in kids))
    merges = [parts(p, kids) for kind, p, kids in (c.get("merges") or [])]
    contains = [parts(p, kids) for p, kids in (c.get("contains") or [])]
    return "TC %s [%s] [%s] [%s] %s [%s] [%s] [%s]" % (coq_segs(c["segs"]), ";".join(toks), ";".join(errs), ";".join(others), out, ";".join(gout),
                                                    ";".join(merges), ";".join(contains))


def vkey(cause, key, inp):
    if key == "loc-u16-saturation":
        return key
    return "%s:%s|%s" % (cause, key, inp)


def run(r):
    quick = r.tier == "quick"
    r.trusted += TRUSTED_COMMON + [
        "the tokeniser's control flow is abstracted to consume/rewind/emit/error actions over the positions the lexer has been at (Model/Lex.v header lists every span-producing site of lex.rs; "
        "the split-identifier path is the action macro split_actions); token recognition itself is not modelled; the index discipline `disc` is a premise justified by reading lex.rs and observed by the tie (token order)",
        "the segmentation of the input (unicode-segmentation's extended grapheme clusters + the prefix split of Lexer::new / `segments`) is re-derived in the harness with the same crate and exported to Coq",
        "parser: span merging is modelled (merge over the derived Ord of Loc, end_to, merge_all, the span tree) and proved sound for lists and trees of parts; the tie recomputes merge_all in Coq on the exported parts of every strand and modified word "
        "(parse.rs:1127-1131, 1198-1202) and checks containment for strands, modified and subscripted words; which parts a node merges elsewhere (modules = opening delimiter only, arrays/packs without their leading down-arrow, bindings ...) is span CHOICE and not carried; "
        "just_start/just_end are defined, not proved; all other parser / compiler / language-server spans are checked functionally (tie in Coq + search in Rust) against loc_of_prefix",
        "formatter: end_loc, its compositionality, the running location of `struct Output` over push/pop (not remove_spaces) and the size guard's error span are modelled and proved; "
        "the later shift of glyph-map entries for aligned end-of-line comments and which fragments are pushed are only checked (push_ok on the final output text, tie + search)",
        "AST spans are collected from the serde serialisation of the AST (every CodeSpan field is serialised); compiler spans with a source other than the input (macros, builtins) are skipped",
        "the Rust monitor used at volume in the search is cross-checked against the Coq predicates on every tie case (any disagreement is a broken obligation)",
    ]
    r.assumptions += ["input shorter than 2^32 bytes (fits32)",
                      "no line number and no column above 65535 (fits16): PROVED for every input accepted by the size guard of `lex` (C19_guard_excludes_saturation); "
                      "the unguarded bookkeeping saturates (C19_saturation_refuted_pre)",
                      "segments are non-empty (segs_pos)", "the index discipline `disc` of the control flow (a token starts at or after the previous token's end and not after the current position; no rewind before the last token's end)",
                      "action sequences of the current code contain no arithmetic split (split_free): since d7485e2 every split-token end is a position the lexer has been at (split_actions); the old arithmetic ASplit is kept only for the _pre records",
                      "formatter output side: columns above 65535 are clamped (open finding C19-fmt-out-col, C19_end_loc_saturation_refuted); line is a wrapping u16 (outputs of more than 65535 lines are outside the theorems' bounds)",
                      "coverage (text outside all tokens is whitespace or inside a lexing-error span) is checked by the tie and the search, not proved"]
    if not r.harness(["c19"]):
        return
    r.proofs()

    # ---- tie: every reported span of the implementation against loc_of_prefix in Coq, and against the Rust monitor
    n = 1200 if quick else 12000
    rc, out, err = run_bin("c19", ["tie", n], seed=r.seed, timeout=1500)
    cases = json_lines(out)
    if rc != 0 or not cases:
        r.broken_obligation("tie-harness", "c19 tie failed to run", (out + err)[-2000:])
    hangs = [c for c in cases if "hang" in c]
    cases = [c for c in cases if "segs" in c]
    for h in hangs:
        r.violation("hang|" + h["hang"], "an input did not finish in 120 s", {"input": h["hang"]}, theorem="C19_loc_spec")
    shard = 150
    jobs = []
    for si, ch in enumerate(chunks(cases, shard)):
        body = ";\n".join(coq_case(c) for c in ch)
        text = ("From Coq Require Import List NArith. Import ListNotations.\nFrom UV Require Import Model.Lex.\nOpen Scope N_scope.\n"
                "Definition cases : list tcase := [\n%s\n].\nEval vm_compute in (failing_from tcase_ok 0 cases).\n" % body)
        jobs.append(("c19_tie_%d" % si, text))
    results = coq_eval_many(jobs, timeout=900)
    coq_fail = set()
    for si, (rc2, o) in enumerate(results):
        if rc2 != 0:
            r.broken_obligation("tie-eval", "Coq evaluation of tie shard %d failed" % si, o[-1500:])
            continue
        for i in coq_ints(o):
            coq_fail.add(si * shard + i)
    # kinds of monitor verdicts the Coq case predicate also decides
    def coq_decidable(key):
        # the output side of the glyph map is decided in Coq too (push_ok: both ends = end_loc of the output prefix)
        return not key.startswith("panic/")
    disagree = []
    nspans = 0
    kinds = {}
    cats = {}
    impl_viol = 0
    for idx, c in enumerate(cases):
        nspans += len(c["spans"])
        cats[c["cat"]] = cats.get(c["cat"], 0) + 1
        for k, s, e in c["spans"]:
            kinds[k] = kinds.get(k, 0) + 1
        rust_fail = any(coq_decidable(v[0]) for v in c["viol"])
        if c["panics"]:
            pass  # no token list: the Coq coverage predicate is not meaningful; reported below from the monitor
        elif rust_fail != (idx in coq_fail):
            disagree.append(c)
        for key, cause, small, detail in c["viol"]:
            impl_viol += 1
            r.violation(vkey(cause, key, small), "reported position is wrong: %s on input %r (%s)" % (key, small, detail),
                        {"kind": key, "cause": cause, "input": small, "detail": detail, "found_in": c["src"], "cmd": "printf %%s %r | c19 probe" % small},
                        theorem="C19_loc_spec")
    r.coverage["tie"] = {"kind": "C", "cases": len(cases), "spans_checked": nspans, "by_span_kind": kinds, "by_input_category": cats,
                         "coq_failing_cases": len(coq_fail), "glyph_map_output_entries_checked_in_coq": sum(len(c.get("gout") or []) for c in cases),
                         "output_comment_eval_cases": sum(1 for c in cases if c["cat"] == "output-comment-eval"),
                         "strand_and_modified_spans_recomputed_by_merge_all_in_coq": sum(len(c.get("merges") or []) for c in cases),
                         "containment_cases_checked_in_coq": sum(len(c.get("contains") or []) for c in cases),
                         "multi_line_fragments": sum(1 for c in cases for s, e in (c.get("gout") or []) if e[2] > s[2]), "monitor_vs_model_disagreements": len(disagree),
                         "implementation_violations": impl_viol, "max_segments": max([len(c["segs"]) for c in cases] or [0])}
    for c in cases[:2] + cases[-2:]:
        r.sample({"input": c["src"], "segments": len(c["segs"]), "tokens": c["ntok"], "lex_errors": c["nlexerr"], "spans": len(c["spans"]), "violations": [v[0] for v in c["viol"]]})
    r.log("tie: %d inputs, %d spans, Coq flags %d, monitor/model disagreements %d" % (len(cases), nspans, len(coq_fail), len(disagree)))
    if disagree:
        c = disagree[0]
        r.broken_obligation("tie:Lex.v~lexer/monitor", "the Coq functional specification (loc_of_prefix, ordered, coverage) and the Rust monitor disagree on %d of %d inputs" % (len(disagree), len(cases)),
                            json.dumps({"input": c["src"], "rust_monitor": c["viol"], "coq_case": coq_case(c)}, ensure_ascii=False)[:3000])

    # ---- search: the functional monitor at volume, plus the deliberately huge inputs
    m = 6000 if quick else 150000
    if r.broken:
        m *= 3
    rc, out, err = run_bin("c19", ["search", m], seed=r.seed, timeout=3000)
    lines = json_lines(out)
    summ = [l for l in lines if "evaluations" in l]
    if rc != 0 or not summ:
        r.broken_obligation("search-harness", "c19 search failed to run", (out + err)[-2000:])
    for h in [l for l in lines if "hang" in l]:
        r.violation("hang|" + h["hang"], "an input did not finish in 120 s", {"input": h["hang"]}, theorem="C19_loc_spec")
    viols = [l for l in lines if "violation" in l]
    for v in viols:
        r.violation(vkey(v["cause"], v["violation"], v["input"]),
                    "reported position is wrong: %s on input %r (%s)" % (v["violation"], v["input"], v["detail"]),
                    {"kind": v["violation"], "cause": v["cause"], "span_kind": v["span_kind"], "input": v["input"], "input_len": v["input_len"], "detail": v["detail"],
                     "cmd": "VERIF_SEED=%d c19 search %d" % (r.seed, m)}, theorem="C19_loc_spec")
    s = summ[0] if summ else {}
    r.coverage["search"] = {"evaluations": s.get("evaluations", 0), "spans_checked": s.get("spans", 0), "by_span_kind": s.get("by_kind"),
                            "by_input_category": s.get("by_cat"), "violation_counts": s.get("violation_counts"), "reported": len(viols)}
    r.coverage["evaluations"] = len(cases) + s.get("evaluations", 0)
    r.coverage["distinct_nontrivial"] = len(set(c["src"] for c in cases if len(c["spans"]) >= 3))
    r.coverage["rule"] = ("inputs: random token soup over uiua's glyphs, ASCII primitive names and a fixed list of hard pieces (escapes, combining sequences, CR/CRLF, "
                          "multi-line strings, output comments (unevaluated soup and EVALUATED `##` at line start / end of line, indent 0-3 in modules and multi-line functions, values scalar/list/rank-2/rank-3/boxed), unterminated constructs, subscripts, `?` chains), mutated lines of /repo/tests and /repo/examples, "
                          "preceded by the 22 former failing inputs of the repaired defect classes (escape + split identifier, combining mark, end-of-line-comment glyph map, non-ASCII-whitespace identifier before an end-of-line comment; also the first tie cases), by 9 fixed inputs with evaluated output comments (incl. several-line values on indented lines) and by a fixed regression corpus of 16 huge inputs around the 16-bit limits (9 that the guard must reject with the ordinary too-long error, 5 just inside the guard that must lex cleanly, 2 for the formatter output side: a 65535-character formatted line must be exact, a 65536-character one may only be clamped, never wrapped); every 4th search input (and every evaluated-output-comment input) also goes through the compiler, the language server and the formatter; checked per input: every token / lex error / AST / parse error+diagnostic / compile error+diagnostic / highlight / glyph-map source span against the position recomputed from the byte prefix, token order and coverage, both output-side positions of every glyph-map entry against the formatted text, the span of every strand / modified word against the merge of its parts and containment of the parts, slicing under catch; non-trivial = at least 3 reported spans")
