#!/usr/bin/env python3
"""Prints the markdown table 'which checks catch which seeded changes' from seeded/*/ (meta.json, result_*.json)."""
import glob, json, os
ROOT = os.path.dirname(os.path.dirname(os.path.abspath(__file__)))
rows = []
for d in sorted(glob.glob(os.path.join(ROOT, "seeded", "*"))):
    name = os.path.basename(d)
    try:
        meta = json.load(open(os.path.join(d, "meta.json")))
    except Exception:
        continue
    res = []
    for f in sorted(glob.glob(os.path.join(d, "result_*.json"))):
        r = json.load(open(f))
        res.append("%s %s: %s" % (r["property"], r["tier"], ("caught, concrete input" if r.get("concrete_input") else "caught, no-failing-input-found") if r["caught"] else "MISSED"))
    what = meta.get("what_breaks", "").split(". ")[0][:170].replace("|", "/").replace("\n", " ")
    rows.append("| %s | %s | %s | %s |" % (name, ", ".join(meta.get("files_touched", [])), what, "; ".join(res) or "not run yet"))
print("| seed | file | change | result |\n|---|---|---|---|")
print("\n".join(rows))
