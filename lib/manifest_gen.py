#!/usr/bin/env python3
"""Regenerates /verif/MANIFEST.json from the table below (run from /verif)."""
import json
import os
import subprocess

ROOT = os.path.dirname(os.path.dirname(os.path.abspath(__file__)))
LEVELS = json.load(open(os.path.join(ROOT, "lib", "levels.json")))["levels"]
BASE = json.load(open("/root/.vp/BASELINE.json"))

COMMON_NOTE = ("Trusted: Coq 8.16.1 kernel + vm_compute (no native_compute, no axioms: every property theorem is "
               "'Closed under the global context'); the hand-written Gallina model is a transcription of the Rust code and only the "
               "tie connects it to /repo; the harness exporters/printers and python drivers; rustc and uiua's dependencies. ")

T = {
 "C01": dict(
  text="Coq model of the peephole optimiser (rule table in source order, fix-point driver, operand recursion, Node::push inlining) with per-rule soundness theorems over a reference semantics of the primitives ('reference succeeds => rewritten succeeds with the same result'), an accounting lemma that every rule of the transcribed table is either proved or listed as unproved, validation of the real optimiser's outputs against the model driver, and a three-configuration differential (no rewrites / optimiser / optimiser+pre-evaluation) on the real interpreter that decides the unproved rules and pre-evaluation.",
  note="Partial: unproved rules and compile-time evaluation are decided by the differential search only; float round-off of arithmetic rewrites is outside the integer reference semantics.",
  technique="Coq rule-soundness proofs + validated optimiser outputs + rewrite-configuration differential on the implementation"),
 "C02": dict(
  text="Machine-checked frame theorem (Coq, closed): for every tree accepted by a Gallina transcription of the signature checker (src/check.rs) that satisfies the stored-signature invariant, for EVERY semantics of the primitives, every function table, every stack and every failure point, the interpreter model (src/run.rs exec_impl; run_prim_mod's routing modifiers incl. by, both/un-both and on with numeric subscripts; try with ANY number of handlers, case, fill, switch with a scalar selector, calls, arrays, constant globals, under-stack instructions; the iterating modifiers rows/each/inventory/reduce/scan/fold/table/tuples/group/partition/stencil/reduce-content, repeat and repeat-with-inverse, do-loops whose body undoes what the condition leaves, with the array side abstracted by oracles that decide how often the operand runs and on what) consumes exactly the counted arguments, produces the counted outputs, leaves everything beneath untouched on the stack and on the hidden context stack, and restores fill stack, fill boundaries and call depth; the run-time frame check can never fire. Tied every run: (V) the checker model equals Node::sig() on every function body/operand/root of compiled corpus programs and the invariant is evaluated on them; (C) the interpreter model equals the real interpreter on generated integer programs; (search) sentinel experiment on the implementation.",
  note="Not carried by the theorem: primitives whose Rust body pops/pushes differently from its table entry, and that the iterating modifiers' Rust bodies push exactly sa values and pop so results per step (tie/search only); do-loops with preserved or collected values, dynamic functions, array-selector switches, unfill / sided fills, sided both, undo-rows, iterated operands that touch the under stack and fork/bracket operands with under effects are outside the proved fragment (the model returns Unk / the invariant excludes them; measured share reported in the evidence: 304 of 369 corpus programs fully inside); u16 truncation of signatures.",
  technique="Coq proof by simulation between the checker's counters and the real stack (induction on fuel), validated on compiler output + interpreter correspondence + sentinel search"),
 "C03": dict(
  text="Verified validator for inverses: an inductive relation of exactly-invertible templates with a decision procedure proved sound, left/right inverse laws proved by induction on the derivation over the reference semantics, signature duality checked on every exported (F, un F, un un F, anti F) of the real compiler for the catalogue to depth 4, plus the inverse laws searched directly on the implementation.",
  note="Inverses outside the catalogue (transcendentals, pattern-matching partial inverses, custom inverses, the algebra solver beyond the linear case) are search only.",
  technique="Coq proof of a validator + validation of the compiler's inverses + law search on the implementation"),
 "C04": dict(
  text="Under balance is a corollary of the frame theorem: for exported (before, after) pairs of the real under-inversion the checker model shows before pushes k context values and after pops k, hence (proved for every G, every input, also when G fails at any point) no residue is left in the hidden context; lens laws (get-put, put-get/frame) proved for the modelled undo primitives; the laws and the residue are searched on the implementation.",
  note="Patterns for partition/group/fold/repeat/regex/system handles are search only.",
  technique="Coq frame-theorem corollaries + lens proofs + validated under-inversion outputs + implementation search"),
 "C05": dict(
  text="Coq model of the flag algebra (sorted-up/down, boolean marks) and of the concrete flag behaviour of the modelled primitives, with soundness theorems under the side conditions each call site must meet; tied by comparing concrete marks and storage of results with the implementation; a release-mode deep validator (hook) is applied to every value of every stack after every generated program and cross-checked against the Coq predicate.",
  note="The ~130 flag sites of primitives outside the model are covered by the monitor only (partial).",
  technique="Coq proofs about the flag algebra + concrete-flag correspondence + release-mode well-formedness monitor"),
 "C06": dict(
  text="Machine-checked refinement (Coq, closed): for every history of copy-on-write buffer operations over any number of handles the visible contents equal the same history on independent plain lists, other handles are never modified, refcounts are exact (model of cowslice.rs over EcoVec incl. in-place conditions and left-sided fills); a proved model of the sorted-mark min/max reduce shortcuts (byte arm); tie: real CowSlice histories compared on contents/is_unique/is_copy_of after every step; search: storage-variant differential {byte,float} x {marks kept/cleared/recomputed} x {fresh, shared, slice of shared, slice of dead buffer} over primitives and modifiers.",
  note="Unsafe code inside ecow is summarised, not verified; primitives other than the buffer layer and the reduce shortcut are search only.",
  technique="Coq refinement proof over operation histories + CowSlice correspondence + storage-variant differential"),
 "C07": dict(
  text="Coq definitions of rows/each/inventory/table/reduce/scan/fold/repeat ('apply F by hand and assemble') and transcriptions of the specialised depth-kernels, with theorems that kernels equal definitions for the modelled operands at every depth and shape, and routing specifications over the interpreter model; tied to the implementation on generated arrays; metamorphic search (named wrapper / noise / by-hand assembly) on the implementation.",
  note="Kernels for stencil/tuples/group/partition and unmodelled operands are search only.",
  technique="Coq kernel-equals-definition proofs + correspondence + metamorphic search"),
 "C08": dict(
  text="Correspondence at volume with a documentation-derived Gallina reference of ~40 primitives whose documented laws (shapes, involutions, take/drop/join, rise/sort, classify/deduplicate, member/index-in, match) are machine-checked for all arrays; quick: vm_compute shards; thorough: the reference extracted with ExtrOcamlBasic only and an OCaml line driver on >=10^5 cases, cross-checked by vm_compute; disagreements are narrowed to one primitive; interpreter crashes always count.",
  note="Universal only for the reference; outcomes the documentation leaves open are Unspec in the reference and skipped (counted); integer data only.",
  technique="Gallina reference with proved laws + differential correspondence (vm_compute / extraction)"),
 "C09": dict(
  text="Partial: Coq theorems for the logic part (size guard arithmetic with explicit wrap-around, checker depth cut-off, lexer span asserts, totality of the interpreter model as a labelled half-property) tied on boundary inputs; the deciding part is a search in isolated worker processes over random bytes, token soup, mutated corpus, deep nesting and generated programs for every toolchain stage, with panic hooks, crash-message scan and shrinking.",
  note="Arbitrary Rust panics, real stack exhaustion and OOM cannot be exhibited by a theorem: they are searched, not proved.",
  technique="Coq proofs of guards + isolated-process fuzzing of lex/parse/format/spans/compile/run"),
 "C10": dict(
  text="Partial: Coq model of the formatter's token adjacency (spacing decisions) with theorems that re-lexing the rendered tokens returns them and that rendering is idempotent, and a verified structural equality on IR trees; tied by byte-comparing the real formatter with the model on generated token sequences and by comparing compiled trees of s and format(s); idempotence, parse/compile preservation and run equality are searched over corpus and generated sources for every configuration.",
  note="Layout (multi-line, alignment, comments) and name-to-glyph resolution have no theorem.",
  technique="Coq adjacency proofs + validated compile equality + formatter search over all configurations"),
 "C11": dict(
  text="Machine-checked (Coq, closed): if the first function of try fails at ANY point (arbitrary primitive semantics and failure points), the handler starts in exactly the original state - same stack (error value slipped in beneath the arguments iff asked for), same hidden context stack, fill stack, fill boundaries and call depth - so try behaves like the handler alone; for ANY number of handlers and any position in the chain the next function starts from exactly the try's original arguments when the current one fails (the loop of algorithm::try_ is transcribed; the loop of the pinned commit is kept and refuted); at every failure point the values beneath a checked function's arguments are intact. Proved on the interpreter model of exec_clean_stack/try_ with F ranging over every modelled construct (nested through rows/each/reduce/repeat/fill/switch/calls with the array side abstract); tied by running generated try programs with injected failures on model and implementation; searched by comparing try with the handler alone (sentinels, hidden-stack depths, inside fill/dip/nested try) and REPL-style sessions.",
  note="try_rollback / try_success are stated for one handler, try_every_handler_sees_original for chains; pattern/case and unmodelled scoped state (recur, memo, channels, unfill stack) are search only; errors raised through `case` pass through a plain try by design.",
  technique="Coq proof on the interpreter model (frame theorem + try rollback) + interpreter correspondence + failure-injection search"),
 "C12": dict(
  text="Coq theorems about a generic memo table (invisible for every history iff the key determines the cached function, also in hashed-key form) and, per thread-local cache, which ingredients of a model node the key feeds versus what the cached computation reads: sufficient for the signature and comptime caches, refuted with witnesses mirroring real failing pairs for the inverse, fast-row-function and purity caches, sufficiency proved for repaired keys; tied by three correspondences (real keys equal/unequal on one-ingredient pairs, real cache hit behaviour, equal deps give equal results); searched by program histories against fresh threads and multi-thread runs.",
  note="The inversion/signature/purity algorithms are not modelled, only their dependencies; 64-bit hash collisions assumed absent.",
  technique="Coq memo-transparency proofs + key/dependency correspondences + history differential with per-cache attribution"),
 "C13": dict(
  text="Coq small-step interleaving model of spawn/pool/wait/send/recv with theorems over ALL schedules: determinism for side-effect-free bodies, wait order, FIFO channels, progress for every nesting depth, task count and pool size on the admission rule of the code (spawn-only and flat programs for either rule), with the nested-pool deadlock of the code before its repair kept as machine-checked records and a regression corpus that runs first; tied by running generated task trees in isolated child processes with pool sizes {1,2,4,all} against the model's verdict and sequential evaluation.",
  note="OS scheduler fairness and the threadpool/crossbeam contracts are trusted; values abstracted to numbers; tasks that receive messages from their parent are outside the side-effect-free premise of the progress theorems.",
  technique="Coq proofs over all schedules of an interleaving model + child-process correspondence on task trees"),
 "C14": dict(
  text="Coq theorems over the interpreter model: a call equals its body when no fill is visible (frame theorem discharges the height check), the call boundary hides and restores the fill (the documented exception, stated positively), function-table extension does not change compiled code (rebinding), and a verified structural equality used to validate that the real compiler produces equal IR for a program and its naming-transformed variant (inline a call, abstract under a fresh name, hand-expand an index macro, move into a module); values and messages compared on the implementation.",
  note="Name resolution, macro hygiene and import caching are reached only through validation/search.",
  technique="Coq proofs on the interpreter model + validated compile equality + naming-transformation search"),
 "C15": dict(
  text="Coq theorems (total preorder, match = compares-equal, equal values feed the hasher identically, for all values of every element type, shape and nesting) about a Gallina transcription of Eq/Ord/Hash of Value/Array/elements; tied every run by a correspondence on generated pairs (eq, cmp and the exact sequence of hasher writes must agree); the laws and classify/deduplicate/member/index-in/rise/fall/sort against a pairwise spec are searched on the implementation.",
  note="IEEE comparison = sign-magnitude key comparison; hasher abstracted to its write sequence; premises wf_shape (C05) and sentinel-freeness.",
  technique="Coq proof of ordering/equality/hash laws + model/implementation correspondence + law search"),
 "C16": dict(
  text="Machine-checked refinement (Coq, closed): the open-addressing MapKeys table (probe loops with tombstone look-ahead, growth re-inserting every cell, load factor) refines an insertion-ordered association list for EVERY hash function and every history of insert/remove/get/has/length; tied by comparing the full concrete table state after every step of real histories with the model instantiated with the real hashes; row operations, join and map construction by correspondence and exhaustive/random history search against an association list.",
  note="Premises: key equality is an equivalence respected by the hash (C15); keys one of whose elements is bit-identical to a placeholder cell value are outside the statement (the code cannot tell them from empty/tombstone cells); key coercion and fix-stack are search only.",
  technique="Coq refinement proof + per-step state correspondence with real hashes + exhaustive history search"),
 "C17": dict(
  text="Coq model of the .uasm framing (to_uasm and the section-splitting cascade of from_uasm with its trims and line iterators) with the round-trip theorem under its (necessary) premise, refutation witnesses confirmed on the implementation, and an executable model of the value<->JSON (un)tagging tied to serde on every run; run-behaviour equality of original and re-read assemblies is searched on corpus and generated programs.",
  note="Node serialisation and per-line parsers are search only; the general value-JSON round trip is not a theorem (refutations + tie).",
  technique="Coq framing proofs + serde correspondence + round-trip-and-run search"),
 "C18": dict(
  text="Machine-checked round-trip theorems over all inputs for bits (|n|<2^53), scalar base (given sufficient row length), UTF-8 in both directions, UTF-16, every integer byte format wider than one byte in either endianness, and the width selection and element casts of `binary`, about Gallina models tied byte for byte to the real encoders and decoders on every run; round trips of all codecs (incl. repr, number printing, json, csv, compress) searched on the implementation.",
  note="binary's container (header, shape, size validation, payload) round trip is proved for all 64-bit patterns under the size invariant every array constructor enforces; the f32 cast model is tied bit for bit (NaN payloads, subnormals); repr/json/csv/compress/float printing are search only.",
  technique="Coq codec proofs + byte-level encoder/decoder correspondence + round-trip search"),
 "C19": dict(
  text="Machine-checked (Coq, closed): the lexer's position bookkeeping computes the functional specification of a byte offset (line, column, character index) for every input within the u16/u32 limits on every control path of the tokeniser abstracted as consume/rewind/emit actions; make_span's asserts hold; tokens are ordered and non-overlapping; span merging preserves validity. Every span reported by lexer, parser, compiler, language server and formatter is checked on every run against the same specification evaluated in Coq (tie) and at volume in Rust (search).",
  note="Split-identifier path is modelled and refuted (escape sequences); token recognition, parser span choice and formatter output-side positions are validated by the monitor only.",
  technique="Coq invariant proofs over action sequences + span correspondence + functional position monitor"),
 "C20": dict(
  text="Coq model of the purity gate (is_min_purity, limit-boundedness, matches_nodes per pre-evaluation mode, backend choice of compile-time evaluation) with theorems that gated code emits no backend call (default modes) / only read-only calls (editor mode) for every primitive semantics; ties: the purity table and the SysBackend method list are regenerated from the source every run, each system function is executed on a recording deny-all backend; compile-time effects searched with the recording backend over programs mixing pure code and system functions; static containment scan as supporting evidence.",
  note="That a primitive labelled Pure has no host effect inside its Rust body is established by the recording backend and the source scan, not by a theorem.",
  technique="Coq proof of the purity gate + regenerated tables + recording-backend monitor"),
}

DESIGN_REF = {k: "DESIGN.md §4 " + k for k in T}


def main():
    props = [json.loads(l) for l in open(os.path.join(ROOT, "properties.jsonl"))]
    built = [p["id"] for p in props if os.path.exists(os.path.join(ROOT, "lib", p["id"].lower() + ".py"))
             and os.path.exists(os.path.join(ROOT, "coq", "Props", p["id"] + ".v"))]
    hooks = subprocess.run(["git", "-C", "/repo", "log", "--format=%h", "--grep=^verif hooks"], capture_output=True, text=True).stdout.split()
    checks = []
    for pid in built:
        t = T[pid]
        checks.append({
            "property_id": pid, "quick_cmd": "./check %s quick" % pid, "thorough_cmd": "./check %s thorough" % pid,
            "evidence_file": "evidence/%s.json" % pid, "replay_cmd_template": "./check %s --replay {path}" % pid,
            "engine": "coq-proof+tie",
            "level_claimed": {"category": LEVELS[pid], "text": t["text"], "design_ref": DESIGN_REF[pid]},
            "level_note": COMMON_NOTE + t["note"], "technique": t["technique"]})
    m = {"version": 1, "setup_cmd": "./check --setup",
         "hooks": {"guard": "verif_hooks",
                   "enable": "cargo feature uiua/verif_hooks, switched on by harness/Cargo.toml's path dependency on /repo (checks rebuild the harness from /repo's working tree)",
                   "baseline_off_cmd": BASE["cmd"], "source_commits": hooks, "add_only": True},
         "engines": [{"name": "coq-proof+tie", "path": "check", "serves_properties": built,
                      "kind_free_text": "Coq 8.16 development under coq/ (Base, Model, Proofs, Props), Rust harness under harness/ (path dependency on /repo with feature verif_hooks), python driver check + lib/"}],
         "checks": checks,
         "notes": "See DESIGN.md. known_findings.json lists recorded (open) findings and the fix: commits made for repaired defects.",
         "not_applicable": [{"property_id": p["id"], "reason": "check not built yet (work in progress; not a claim that the technique cannot apply)"}
                            for p in props if p["id"] not in built]}
    json.dump(m, open(os.path.join(ROOT, "MANIFEST.json"), "w"), indent=1, ensure_ascii=False)
    print("claimed:", built)


if __name__ == "__main__":
    main()
