"""C11 - a caught error leaves no trace: try is all-or-nothing."""
from common import *
import c02


def run(r):
    quick = r.tier == "quick"
    r.trusted += TRUSTED_COMMON + [
        "exporter of uiua::Node trees to the model's node type (harness/src/lib.rs Export)",
        "primitives are abstract in the theorems (any psem, any failure point); the error value is an opaque constant",
    ]
    r.assumptions += ["the try node satisfies tree_okb (stored operand signatures fit the checker's, no under-signature on the operands)",
                      "C11_try_rollback/C11_try_success are stated for one handler (⍣F G); chains of handlers are covered by C11_try_every_handler_sees_original (the loop of algorithm::try_ at any position, any number of handlers) and by the tie (3-branch tries are generated and run by the model); pattern (⍣ with ⍩ case) and unmodelled scoped state (recur, memo, thread channels) are search only",
                      "errors raised through `case` pass through a plain try by design and are excluded from 'behaves like G alone'"]
    if not r.harness(["c11"]):
        return
    r.proofs()
    b = c02.exec_tie(r, 1000 if quick else 20000, bin_="c11", mode="exec")
    m = 400 if quick else 8000
    if r.broken:
        m *= 4
    rc, out, err = run_bin("c11", ["search", m], seed=r.seed, timeout=2400)
    recs = json_lines(out)
    viols = [x for x in recs if "violation" in x]
    summ = [x for x in recs if x.get("summary")]
    if rc != 0 or not summ:
        r.broken_obligation("search-harness", "c11 search failed", (out + err)[-2000:])
    r.coverage["search"] = dict(summ[0] if summ else {}, violations=len(viols))
    seen = set()
    for v in viols:
        key = "%s|%s" % (v["violation"], v.get("try", v.get("lines")))
        if key in seen:
            continue
        seen.add(key)
        r.violation(key, "%s: got %s, expected %s" % (v["violation"], v["got"][:300], v["want"][:300]), v, theorem="C11_try_rollback")
    r.coverage["evaluations"] = b[0] + (summ[0]["cases"] + summ[0]["sessions"] if summ else 0)
    r.coverage["distinct_nontrivial"] = b[1] + (summ[0]["handler_ran"] if summ else 0)
    r.coverage["rule"] = ("tie: generated ⍣(F_j)(G) programs (a failing assertion injected after step j of F; also nested, under dip, chained) run on the "
                          "implementation and on the interpreter model; search: for each F (k steps) and each j<=k, ⍣(F_j) G vs G alone with the same "
                          "signature, in 8 contexts (plain, inside a fill with the handler judged in the same fill, behind dip, nested try, a failure escaping from inside a fill / a nested fill, two handlers where the middle one takes the error as an argument and fails, two handlers where the middle one is GIVEN the error beneath the arguments - no outputs - and fails while the last has the try's outputs), sentinels beneath and hidden-stack depths compared, the frame hook on; "
                          "non-trivial = the handler actually ran")
