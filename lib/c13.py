"""C13 - spawn / pool / wait are transparent and always finish."""
from common import *

KNOWN_KEY = "pool-nested-saturation"


def run(r):
    quick = r.tier == "quick"
    r.trusted += TRUSTED_COMMON + [
        "OS scheduler fairness (a runnable thread eventually runs); the model's schedules are finite lists of thread ids",
        "the threadpool crate by its documented contract (execute enqueues, a free worker dequeues, active_count = running jobs), crossbeam channels as unbounded FIFOs, parking_lot::Mutex as a lock",
        "wall-clock caps (>= 200 x the sequential time, >= 2 s, confirmed with a 2.5 x longer cap) separate 'hangs' from 'slow'",
        "the hook uiua::verif::set_pool_max_threads replaces available_parallelism() as the pool size (same code path otherwise)",
    ]
    r.assumptions += ["task bodies are side-effect free (no send/recv) in the determinism and progress theorems",
                      "thread creation does not fail; values of tasks are abstracted to numbers, a pure F to 'sum the stack'"]
    if not r.harness(["c13"]):
        return
    r.proofs()

    # ---- which admission rule does the code have?  The model of the code as written deadlocks on
    # every schedule for `wait pool(wait pool(+1)) 5` with one worker (C13_pool_deadlock_every_schedule);
    # under the repaired rule it returns 6.  The probe selects the model variant for the tie.
    rc, out, err = run_bin("c13", ["one", 1, "wait pool(wait pool(+1)) 5", 3000], seed=r.seed, timeout=60)
    probe = (json_lines(out) or [{}])[0]
    if probe.get("outcome") == "timeout":
        repaired = False
    elif probe.get("outcome") == "value" and probe.get("value") == "6":
        repaired = True
    else:
        r.broken_obligation("tie-probe", "the nested-pool probe neither hangs nor returns 6", json.dumps(probe))
        repaired = False
    rp = "true" if repaired else "false"
    r.coverage["admission_rule"] = "repaired (pool inside a pool task gets a dedicated thread)" if repaired else "as written (waits for a worker while holding the pool lock)"
    r.log("probe: %s -> model variant rep=%s" % (probe.get("outcome"), rp))

    # ---- tie: generated task trees x pool sizes; isolated runs vs model verdict vs sequential value
    n = 18 if quick else 120
    rc, out, err = run_bin("c13", ["tie", n], seed=r.seed, timeout=3000)
    cases = json_lines(out)
    r.log("tie harness done: %d runs" % len(cases))
    if rc != 0 or not cases:
        r.broken_obligation("tie-harness", "c13 tie failed to run", (out + err)[-2000:])
        return
    jobs = []
    shard = 12
    for si, ch in enumerate(chunks(cases, shard)):
        lines = []
        for c in ch:
            budget = 30000 if c["tasks"] <= 9 else 0
            lines.append("(verdict %d %s %d %s)" % (c["mx"], rp, budget, c["coq"]))
            # the repaired rule on the same tree: C13_pool_progress_repaired says no deadlock
            lines.append("(verdict %d true %d %s)" % (c["mx"], budget if c["nested_pool"] else 0, c["coq"]))
        text = ("From Coq Require Import List NArith. Import ListNotations.\nFrom UV Require Import Model.Pool.\n"
                "Eval vm_compute in [\n%s\n].\n" % ";\n".join(lines))
        jobs.append(("c13_tie_%d" % si, text))
    results = coq_eval_many(jobs, timeout=1500)
    verdicts = []
    rverdicts = []
    for si, (rc2, o) in enumerate(results):
        k = len(cases[si * shard:(si + 1) * shard])
        ints = coq_ints(o) if rc2 == 0 else []
        if rc2 != 0 or len(ints) != 16 * k:
            r.broken_obligation("tie-eval", "Coq evaluation of tie shard %d failed" % si, o[-1500:])
            verdicts += [None] * k
            rverdicts += [None] * k
        else:
            verdicts += [ints[16 * j:16 * j + 8] for j in range(k)]
            rverdicts += [ints[16 * j + 8:16 * j + 16] for j in range(k)]
    stats = {"safe_by_theorem": 0, "must_deadlock": 0, "may_deadlock": 0, "no_deadlock_found": 0, "timeouts": 0, "values": 0}
    mism = []
    known_n = 0
    dist = {"max": {}, "depth": {}, "tasks": {"1-4": 0, "5-16": 0, "17+": 0}}
    nontriv = set()
    for c, v, rv in zip(cases, verdicts, rverdicts):
        if v is None:
            continue
        flat, pdepth, seqv, sdead, lowval, complete, ddead, dfin = v
        dist["max"][str(c["mx"])] = dist["max"].get(str(c["mx"]), 0) + 1
        dist["depth"][str(c["depth"])] = dist["depth"].get(str(c["depth"]), 0) + 1
        dist["tasks"]["1-4" if c["tasks"] <= 4 else "5-16" if c["tasks"] <= 16 else "17+"] += 1
        if c["tasks"] >= 2:
            nontriv.add(c["src"])
        dead = bool(sdead or ddead)
        must = bool(complete and ddead and not dfin)
        cls = "safe_by_theorem" if (flat or repaired) else "must_deadlock" if must else "may_deadlock" if dead else "no_deadlock_found"
        stats[cls] += 1
        want = str(c["want"])
        problems = []
        # (i) sequential evaluation: implementation (sequential counterpart), Rust arithmetic and the model agree
        if c["seq"] != want:
            problems.append("sequential counterpart gives %s, expected %s" % (c["seq"], want))
        if seqv != c["want"] + 2:
            problems.append("model's sequential value %d differs from %s" % (seqv - 2, want))
        if lowval not in (0, c["want"] + 2):
            problems.append("model's parallel value %d differs from %s" % (lowval - 2, want))
        if (flat or repaired) and (dead or (complete and not dfin)):
            problems.append("model finds a deadlock where a progress theorem applies (flat tree or repaired rule)")
        if rv[3] or rv[6] or (rv[5] and not rv[7]) or rv[4] != c["want"] + 2:
            problems.append("the repaired model deadlocks or returns another value (contradicts pool_progress_repaired / determinism): %s" % rv)
        if flat != (0 if c["nested_pool"] else 1):
            problems.append("harness and model disagree on flatness")
        # (ii) outcome vs verdict
        if c["outcome"] == "value":
            stats["values"] += 1
            if c["value"] != want:
                r.violation("tie:value:%s" % c["src"], "wait spawn/pool F x differs from F x: got %s, sequential %s" % (c["value"], want),
                            {"program": c["src"], "pool_threads": c["mx"], "got": c["value"], "want": want}, theorem="C13_determinism")
            if must:
                problems.append("model: every schedule deadlocks, implementation returned %s" % c["value"])
        elif c["outcome"] == "timeout":
            stats["timeouts"] += 1
            if flat or repaired:
                r.violation("tie:timeout-flat:%s" % c["src"], "a spawn/pool program for which the model proves progress did not finish within %d ms (sequential: %d ms)" % (c["ms"], c["seq_ms"]),
                            {"program": c["src"], "pool_threads": c["mx"]}, theorem="C13_pool_progress_flat")
            elif dead:
                known_n += 1
                if known_n == 1:
                    r.violation(KNOWN_KEY, "nested pool deadlocks: no result after %d ms with %d pool threads (sequential value %s); the model has a stuck schedule" % (c["ms"], c["mx"], want),
                                {"program": c["src"], "pool_threads": c["mx"], "cmd": "c13 one %d '%s'" % (c["max"], c["src"])}, theorem="C13_pool_deadlock_refuted")
            else:
                problems.append("implementation timed out, the model finds no deadlock")
        else:
            r.violation("tie:%s:%s" % (c["outcome"], c["src"]), "program failed: %s %s" % (c["outcome"], c["value"]),
                        {"program": c["src"], "pool_threads": c["mx"], "outcome": c["outcome"], "text": c["value"]}, theorem="C13_determinism")
        if problems:
            mism.append((c, v, problems))
    r.coverage["tie"] = {"kind": "C", "cases": len(cases), "mismatches": len(mism), "verdicts": stats, "distribution": dist,
                         "trees": len(set(c["src"] for c in cases))}
    shown = set()
    for c, v in zip(cases, verdicts):
        if v is not None and (c["name"], c["outcome"]) not in shown and len(shown) < 6:
            shown.add((c["name"], c["outcome"]))
            r.sample({"program": c["src"], "pool_threads": c["mx"], "outcome": c["outcome"], "value": c["value"], "sequential": c["want"], "model_verdict": v})
    r.log("coq verdicts done")
    r.log("tie: %d runs of %d trees, %s, %d mismatches" % (len(cases), r.coverage["tie"]["trees"], stats, len(mism)))
    if mism:
        c, v, problems = mism[0]
        r.broken_obligation("tie:Pool.v~spawn/pool/wait", "model and implementation disagree (%d of %d): %s" % (len(mism), len(cases), problems[0]),
                            json.dumps({"program": c["src"], "pool_threads": c["mx"], "outcome": c["outcome"], "value": c["value"], "verdict": v, "problems": problems, "coq": c["coq"]}, ensure_ascii=False))

    # ---- search: larger trees, wait order, message order
    m = 30 if quick else 400
    if r.broken:
        m *= 3
    rc, out, err = run_bin("c13", ["search", m], seed=r.seed, timeout=6000)
    lines = json_lines(out)
    evals = sum(l.get("evaluations", 0) for l in lines)
    viols = [l for l in lines if "violation" in l]
    summ = [l for l in lines if "evaluations" in l]
    if rc != 0 or not summ:
        r.broken_obligation("search-harness", "c13 search failed to run", (out + err)[-2000:])
    r.coverage["search"] = {"evaluations": evals, "violations": len(viols), "kinds": summ[0].get("kinds") if summ else None}
    seen_known = False
    for v in viols:
        key = v["key"]
        if key == KNOWN_KEY:
            known_n += 1
            if seen_known:
                continue
            seen_known = True
        if key != KNOWN_KEY:
            key = key + "|" + v["src"]
        r.violation(key, "%s: %s" % (v["violation"], v["detail"]),
                    {"program": v["src"], "pool_threads": v.get("max"), "detail": v["detail"], "cmd": "VERIF_SEED=%d c13 search %d" % (r.seed, m)},
                    theorem="C13_pool_deadlock_refuted" if v["key"] == KNOWN_KEY else "C13_" + v["violation"].replace("-", "_"))
    r.coverage["known_deadlock_timeouts"] = known_n
    r.coverage["evaluations"] = len(cases) + evals
    r.coverage["distinct_nontrivial"] = len(nontriv)
    r.coverage["rule"] = ("task trees: flat families up to 4-6 x cores tasks, nested pool families (n pool tasks each waiting for a nested pool / spawn-then-pool task), "
                          "random trees of depth 1-3 with spawn/pool mixes, work loops of 0-60 iterations, array waits in id order / reversed / permuted; "
                          "every tree run with 1, 2, 4 and all pool threads in an isolated child process; non-trivial = at least two tasks")
