"""C17 - a saved assembly (.uasm) runs exactly like the program it was compiled from."""
import struct

from common import *

NO_MSGS = ["No dependencies", "No exports", "No bindings", "No functions", "No index macros", "No code macros",
           "No spans", "No files", "No macro expansions"]

# violation keys of the search / ties (all repaired in /repo; they stay as regression classes):
#   uasm-marker-in-text:<MARKER> (0f91cb1), uasm-test-assert-count-lost (69a2f06), uasm-string-reads-as-number:<s> (6da1960),
#   uasm-complex-nonfinite (c00f690), uasm-float-not-roundtrip (41a5003), uasm-nan-sign-lost (1df8995),
#   uasm-read-panics:<mutation>:<msg> (c00f690), uasm-read-crashes:<mutation> (61c09df), uasm-reread-marks-wrong / uasm-reread-constant-malformed / uasm-reread-constant-count,
#   uasm-reread-value-marks-wrong, uasm-value-meta-roundtrip-wrong, uasm-one-row-box-map-reads-as-list (55312e0), uasm-read-fails:<msg>, uasm-write-panics:<msg>, uasm-run-differs:<kind>:<program>, uasm-map-layout-differs


def coq_text(s):
    return "[" + ";".join(str(ord(c)) for c in s) + "]%N"


def coq_lists(out):
    """the printed value of `Eval vm_compute in (e : list (list N))` as a list of int lists"""
    m = re.search(r"=\s*(.*?)\n\s*:\s*list", out, re.S)
    body = m.group(1) if m else ""
    return [[int(x) for x in re.findall(r"\d+", grp)] for grp in re.findall(r"\[([^\[\]]*)\]", body)]


# ---------------------------------------------------------------- JSON text -> Gallina `json`

class _F(float):
    """a float literal of a JSON text; keeps its spelling so that the text can be reproduced"""
    def __new__(cls, lit):
        o = float.__new__(cls, lit)
        o.lit = lit
        return o


def dump_json(j):
    """the text of a parsed tree exactly as serde_json writes it (compact); with parse_json this is the identity on
    the texts the implementation writes, which is checked: the tree comparison is then a byte-for-byte comparison"""
    if j is None:
        return "null"
    if j is True:
        return "true"
    if j is False:
        return "false"
    if isinstance(j, _F):
        return j.lit
    if isinstance(j, int):
        return str(j)
    if isinstance(j, str):
        return json.dumps(j, ensure_ascii=False)
    if isinstance(j, list):
        return "[" + ",".join(dump_json(x) for x in j) + "]"
    return "{" + ",".join(json.dumps(k, ensure_ascii=False) + ":" + dump_json(v) for k, v in j.items()) + "}"


def f64_bits(x):
    return struct.unpack("<Q", struct.pack("<d", float(x)))[0]


def coq_json(j):
    if j is None:
        return "JNull"
    if j is True:
        return "(JBool true)"
    if j is False:
        return "(JBool false)"
    if isinstance(j, _F):
        return "(JFloat %d)" % f64_bits(j)
    if isinstance(j, int):
        if j < 0:
            return "(JNeg %d)" % (-j)
        return "(JInt %d)" % j
    if isinstance(j, str):
        return "(JStr %s)" % coq_text(j)
    if isinstance(j, list):
        return "(JArr [" + ";".join(coq_json(x) for x in j) + "])"
    if isinstance(j, dict):
        return "(JObj [" + ";".join("(%s,%s)" % (coq_text(k), coq_json(v)) for k, v in j.items()) + "])"
    raise ValueError(j)


def parse_json(text):
    return json.loads(text, parse_float=_F, parse_int=int)


def coq_opt_text(s):
    return "None" if s is None else "(Some %s)" % coq_text(s)


def coq_mval(rec):
    """harness value record {v,label,keys} -> Gallina `mval`"""
    return "(MV %s %s %s)" % (rec["v"], coq_opt_text(rec["label"]), "None" if rec["keys"] is None else "(Some %s)" % rec["keys"])


def run(r):
    quick = r.tier == "quick"
    r.trusted += TRUSTED_COMMON + [
        "serde / serde_json themselves: the derive semantics of tagged and untagged enums (first variant that parses), of tuple variants, of structs read from sequences, of unit variants read from {name:null} and of deny_unknown_fields is transcribed by hand in UasmValue.v and tied to the implementation on every run; number printing/parsing is not modelled: a float literal is taken to denote the nearest double (serde_json with float_roundtrip), and that the written literal is the shortest one is not modelled (python reproduces every written text byte for byte from the tree it hands to Coq, float literals verbatim)",
        "searching / comparing a text by code points equals doing it by UTF-8 bytes",
        "the per-line parsers of from_uasm other than values (nodes, spans, bindings, dependency/export lines, index/code macro payloads, file and macro-expansion lines) are not modelled: covered by the round-trip-and-run search and by the never-panics mutation stream only",
        "uiua's own Node equality (hash based), Value equality / ordering (C15) and Value::show are used to compare re-read trees, run results and rows; uiua::verif::check_value and ::flags (hooks) are used to judge re-read constants",
        "labels and map keys are modelled at the top level of a value only (proved: C17_label_json_roundtrip, C17_map_json_roundtrip; labels / keys nested inside boxes are not modelled); ArrayRep::Full carrying a MapKeys struct (label together with keys, maps that carry marks, raw hash tables with tombstones) is covered by the search (directed family) only",
    ]
    r.assumptions += [
        "C17_framing_roundtrip (current reader: whole-line markers, TEST ASSERTS cut off first): every written line is newline-free, not blank, does not end in white space, the first line of a trimmed section does not start with white space (sections_wf) and every written line contains a character other than A-Z and blank (written_shape); both are checked on the real to_uasm output of every generated assembly by the framing tie",
        "C17_framing_roundtrip_pre / _refuted_pre / _mid / C17_test_asserts_lost_pre are records about the models of the readers before /repo 0f91cb1 and 69a2f06",
        "C17_value_json_roundtrip(_fuel,_exact): only invariants of the term encoding - length(data) = product(shape) (wf_shape, C05), bytes <= 255, binary64 patterns < 2^64 (repr_ok); the result is the value itself except that an empty number array comes back with byte storage (norm); C17_label_json_roundtrip / C17_map_json_roundtrip / C17_meta_json_roundtrip add a top-level label or top-level map keys (ArrayRep::Full / ArrayRep::Map) under the same invariants with no further premise (C17_map1_refuted_pre is the record of the one-row box map defect repaired by /repo 55312e0; its programs `map [5] ≡□[1]` ... run first in the regression corpus); the reader's shape-against-data check (/repo 61c09df) is part of the model (check_shape, applied after the variant is chosen), dimensions are evaluated as unary numbers, so texts with dimensions above a few thousand are not given to the model; the value tie evaluates meta_expect on every written value and compares it with what the implementation read back",
        "C17_value_json_refuted_{string,complex,nan,map}_pre are records about the model of the representation before /repo 6da1960, c00f690, 1df8995, 71ff4d9",
        "C17_reread_marks_truthful is about the reader's scan over the comparisons of adjacent rows; that rows are compared as C15 models it is not re-proved here: the harness recomputes the comparisons with Value::cmp and the tie compares the model's marks with the implementation's flags",
        "run behaviour of the re-read assembly is compared on finitely many run-time argument stacks per program (search), not proved for all arguments; runs cut off by the 2 s execution limit are compared on the error only; programs whose original assembly gives different results on two runs (random numbers, clocks) are left out and counted",
        "from_uasm on malformed texts: the mutation stream demands an error (never a panic, never a crash); mutated texts are read in a child process so that a crash of the reader is a reported violation (uasm-read-crashes:<kind>) instead of the end of the stream; the texts that used to crash it (`{\"push\":[[2,4294967296000],\"\"]}`, repaired by /repo 61c09df) run first; in the value tie the model must refuse a malformed value text exactly when the implementation refuses it (shape/data mismatches, boxes given as sequences, unknown metadata fields, keys of the wrong length are silently dropped by both)",
        "constants that check_value already rejects in the ORIGINAL assembly (one in tests/map.ua: a fixed empty map whose keys are rows without elements, a limit of the validator) are skipped and counted (constants_malformed_already_in_the_original)",
    ]
    if not r.harness(["c17"]):
        return
    r.proofs()

    # ---------------------------------------------------------------- tie (b): framing
    n = 120 if quick else 1500
    rc, out, err = run_bin("c17", ["tie-framing", n], seed=r.seed, timeout=1500)
    cases = [c for c in json_lines(out) if "f" in c]
    if rc != 0 or not cases:
        r.broken_obligation("tie-harness-framing", "c17 tie-framing failed to run", (out + err)[-2000:])
    shard = 40
    jobs = []
    for si, ch in enumerate(chunks(cases, shard)):
        body = ";\n".join(coq_text(c["text"]) for c in ch)
        text = ("From Coq Require Import List NArith. Import ListNotations.\nFrom UV Require Import Model.Uasm.\n"
                "Definition cases : list text := [\n%s\n].\n"
                "Eval vm_compute in (map (fun t => summary (from_uasm t)) cases).\n" % body)
        jobs.append(("c17_frame_%d" % si, text))
    results = coq_eval_many(jobs, timeout=900)
    mism, kinds, outcomes, unparseable, premises_checked = [], {}, {"ok": 0, "no-marker": 0, "other-error": 0, "panic": 0}, 0, 0
    panics = []
    crashes = []
    for si, (rc2, o) in enumerate(results):
        ch = cases[si * shard:(si + 1) * shard]
        sums = coq_lists(o)
        if rc2 != 0 or len(sums) != len(ch):
            r.broken_obligation("tie-eval-framing", "Coq evaluation of framing shard %d failed" % si, o[-1500:])
            continue
        for c, s in zip(ch, sums):
            kinds[c["kind"]] = kinds.get(c["kind"], 0) + 1
            oc = c["outcome"]
            if "ok" in oc:
                outcomes["ok"] += 1
                k = oc["ok"]  # deps exports bindings functions imacros cmacros spans files(+1000*macros) strings
                want = [1, None, k[0], k[1], k[2], k[3], k[4], k[5], k[6] - 1, k[7] % 1000, k[7] // 1000, k[8]]
                # exports, files and macro expansions are maps in the implementation (a duplicated line is one entry): at most the model's line count
                maplike = (3, 9, 10)
                good = s[0] == 1 and all(w is None or w == g or (i in maplike and c["kind"] != "real" and w <= g) for i, (w, g) in enumerate(zip(want, s)))
                if not good:
                    mism.append((c, s, "counts"))
                elif c["kind"] == "real":
                    premises_checked += 1
                    if s[-1] != 1:     # sections_wf && written_shape on the lines a real to_uasm wrote
                        mism.append((c, s, "premise sections_wf/written_shape does not hold of a real assembly"))
            elif "err" in oc and oc["err"] in NO_MSGS:
                outcomes["no-marker"] += 1
                if s[:2] != [0, NO_MSGS.index(oc["err"])]:
                    mism.append((c, s, "missing-marker"))
            elif "crash" in oc:
                outcomes["crash"] = outcomes.get("crash", 0) + 1
                crashes.append(c)
            else:
                outcomes["panic" if "panic" in oc else "other-error"] += 1
                if "panic" in oc:
                    panics.append(c)
                if s[0] == 0:
                    mism.append((c, s, "model-says-missing-marker"))
                else:
                    unparseable += 1   # the split succeeded, a per-line parser rejected a line: outside the framing model
    r.coverage["tie_framing"] = {"kind": "C", "cases": len(cases), "mismatches": len(mism), "kinds": kinds, "outcomes": outcomes,
                                 "split-ok-but-line-rejected (not compared)": unparseable,
                                 "real assemblies on which the premises of C17_framing_roundtrip were checked": premises_checked}
    r.log("tie framing: %d texts, %d mismatches, outcomes %s" % (len(cases), len(mism), outcomes))
    for c in cases[:1]:
        r.sample({"tie": "framing", "src": c["src"][:120], "kind": c["kind"], "outcome": c["outcome"]})
    if mism:
        c, s, why = mism[0]
        r.broken_obligation("tie:Uasm.v~from_uasm", "model and implementation disagree on where/whether a text splits (%s; %d of %d)" % (why, len(mism), len(cases)),
                            json.dumps({"kind": c["kind"], "src": c["src"], "impl": c["outcome"], "model_summary": s, "text": c["text"][:1500]}, ensure_ascii=False))

    # from_uasm must return an error on a malformed text, never panic (/repo c00f690)
    seen_p = set()
    for c in panics:
        msg = re.sub(r"\d+", "#", c["outcome"]["panic"])[:80]
        key = "uasm-read-panics:%s:%s" % (c["kind"], msg)
        if key in seen_p:
            continue
        seen_p.add(key)
        r.violation(key, "from_uasm panics on a (mutated) .uasm text instead of returning an error: %s" % c["outcome"]["panic"][:200],
                    {"kind": c["kind"], "program": c["src"], "text": c["text"], "panic": c["outcome"]["panic"]}, theorem="C17_framing_roundtrip")

    # ... nor bring the process down (mutated texts are read in a child process)
    seen_c = set()
    for c in crashes:
        key = "uasm-read-crashes:%s" % c["kind"]
        if key in seen_c:
            continue
        seen_c.add(key)
        r.violation(key, "from_uasm crashes the process (%s) on a malformed .uasm text" % c["outcome"]["crash"],
                    {"kind": c["kind"], "program": c["src"], "text": c["text"], "crash": c["outcome"]["crash"]}, theorem="C17_framing_roundtrip")

    # ---------------------------------------------------------------- tie (a): values <-> JSON
    tie_values(r, quick)

    # ---------------------------------------------------------------- search
    m = 400 if quick else 12000
    if r.broken:
        m *= 3
    rc, out, err = run_bin("c17", ["search", m], seed=r.seed, timeout=3000)
    lines = json_lines(out)
    summ = [l for l in lines if l.get("summary")]
    if rc != 0 or not summ:
        r.broken_obligation("search-harness", "c17 search failed to run", (out + err)[-2000:])
        return
    s = summ[0]
    viols = [l for l in lines if "violation" in l]
    classes = {}
    for v in viols:
        classes[v["violation"].split(":")[0]] = classes.get(v["violation"].split(":")[0], 0) + 1
    r.coverage["search"] = dict(s, violation_classes=classes)
    r.coverage["search"].pop("summary", None)
    seen = set()
    for v in viols:
        key = v["violation"]
        if key in seen:
            continue
        seen.add(key)
        r.violation(key, "%s: program %r" % (v["what"], v["src"][:200]),
                    {"program": v["src"], "name": v["name"], "detail": v["detail"], "cmd": "VERIF_SEED=%d c17 search %d; c17 rt PROGRAM" % (r.seed, m)},
                    theorem="C17_framing_roundtrip" if key.startswith("uasm-marker") or key.startswith("uasm-read-") else ("C17_reread_marks_truthful" if key.startswith("uasm-reread") else "C17_value_json_roundtrip"))
    for v in viols[:2]:
        r.sample({"search": v["violation"], "program": v["src"][:120], "detail": v["detail"][:200]})
    r.coverage["evaluations"] = r.coverage.get("evaluations", 0) + len(cases) + s["runs"]
    r.coverage["distinct_nontrivial"] = s["reread_ok"]
    r.coverage["rule"] = ("search, in this order: (1) a fixed regression corpus: every program that exposed a defect (section words in strings/names/comments, "
                          "reserved number spellings as strings, complex constants with non-finite parts, the float that read back 1 ulp off, negative NaN, failing and passing "
                          "top-level assertions, maps joined with themselves, the demo of the marks seed) and one instance of each of 78 templates; (2) two directed families: "
                          "labelled map constants whose hash table holds tombstones from a compile-time remove, looked up at run time for every key (about 60 programs), and array "
                          "constants (28: unsorted, sorted up/down, with ties, with NaN; numbers, booleans, characters, boxes, complex; rank 1-2) kept from folding by an impure "
                          "`pop floor rand` and consumed by 24 mark-trusting primitives and compositions plus member/index-of, function and boxed variants (756 programs); "
                          "(3) every chunk of /repo/tests/*.ua and /repo/examples/*.ua and each whole file; (4) programs generated from the 78 templates (bindings, comments, "
                          "labels, inverses, custom inverses, index and code macros, modules, data definitions, switch/try/assert, format strings, printing, loops, fills) filled "
                          "with constants of every element type (NaN, infinities, reserved NaNs, complex, empty and rank-5 arrays, maps, labels) and strings/names/comments "
                          "containing the section words and the reserved spellings.  Each compiled program is written with to_uasm and re-read with from_uasm under catch (must "
                          "succeed); every constant of the re-read assembly (push nodes anywhere in root/functions/macros, const bindings, recursively through boxes) must pass "
                          "check_value and carry exactly the truthful sortedness marks, and the number of constants must be unchanged; both assemblies are run on 1-3 argument "
                          "stacks with the safe backend (2 s limit): stack values (bit for bit, shape, element class, label, map-ness, printed form), error text and captured "
                          "stdout must agree.  ties: values<->JSON (generated values of every type incl. arbitrary 64-bit patterns, top-level labels and maps, and hand-written "
                          "texts that exercise the reader's variant choice; model's text = implementation's text, model's reading = implementation's reading, marks of the value "
                          "read back = recompute_marks, value read back = meta_expect i.e. the statement of C17_meta_json_roundtrip); framing (real to_uasm texts and 11 kinds of mutated texts: failure index / section counts equal the model's, premises "
                          "of the framing theorem hold of real texts, from_uasm never panics).  non-trivial = programs whose re-read succeeded")
    r.log("search: %s" % {k: s[k] for k in ("programs", "compiled", "reread_ok", "runs", "run_errors", "with_output", "nondeterministic", "violations")})


def tie_values(r, quick):
    if not os.path.exists(os.path.join(COQ, "Model", "UasmValue.v")):
        r.notes.append("value/JSON model not built")
        return
    n = 400 if quick else 6000
    rc, out, err = run_bin("c17", ["tie-values", n], seed=r.seed, timeout=900)
    recs = json_lines(out)
    if rc != 0 or not recs:
        r.broken_obligation("tie-harness-values", "c17 tie-values failed to run", (out + err)[-2000:])
        return
    items = []  # (record, coq case term)
    skipped = 0
    for c in recs:
        if "json" not in c:
            r.broken_obligation("tie-values-serialise", "serde_json::to_string failed on a value", json.dumps(c, ensure_ascii=False)[:1500])
            continue
        try:
            tree = parse_json(c["json"])
            j = coq_json(tree)
        except (ValueError, RecursionError):
            skipped += 1
            continue
        if "val" in c and dump_json(tree) != c["json"]:
            r.broken_obligation("tie-values-text", "a JSON text written by the implementation is not reproduced byte for byte from its parsed tree",
                                json.dumps({"text": c["json"], "reproduced": dump_json(tree)}, ensure_ascii=False)[:1500])
            continue
        back = c["back"]
        if any(x.get("label") is not None and x.get("keys") is not None for x in (c.get("val", {}), back)):
            skipped += 1      # label together with map keys (ArrayRep::Full carrying a MapKeys struct): outside the model
            continue
        b = "None" if "err" in back else "(Some %s)" % coq_mval(back)
        v = "None" if "val" not in c else "(Some %s)" % coq_mval(c["val"])
        items.append((c, "(%s, %s, %s)" % (v, j, b)))
    shard = 150
    jobs = []
    for si, ch in enumerate(chunks(items, shard)):
        body = ";\n".join(t for _, t in ch)
        text = ("From Coq Require Import List NArith. Import ListNotations.\nFrom UV Require Import Base.Value Model.Uasm Model.UasmValue.\n"
                "Definition cases : list (option mval * json * option mval) := [\n%s\n].\n"
                "Eval vm_compute in (failing_from (vcase_ok true) 0%%N cases).\n" % body)
        jobs.append(("c17_val_%d" % si, text))
    results = coq_eval_many(jobs, timeout=900)
    mism = []
    for si, (rc2, o) in enumerate(results):
        if rc2 != 0:
            r.broken_obligation("tie-eval-values", "Coq evaluation of value shard %d failed" % si, o[-1500:])
            continue
        for i in coq_ints(o):
            mism.append(items[si * shard + i][0])
    # marks of the values read back: well formed, and exactly the marks the model's scan gives
    mcases = [c for c, _ in items if c.get("marks")]
    bad_marks = [c for c in mcases if c["marks"]["check"] != "ok" or c["marks"]["deep"]]
    mjobs = []
    ranked = [c for c in mcases if c["marks"]["rank"] > 0]
    for si, ch in enumerate(chunks(ranked, 400)):
        body = ";\n".join("([%s]%%N, (%s, %s))" % (";".join(str(x) for x in c["marks"]["cs"]), str(c["marks"]["up"]).lower(), str(c["marks"]["down"]).lower()) for c in ch)
        text = ("From Coq Require Import List NArith. Import ListNotations.\nFrom UV Require Import Base.Value Model.Uasm Model.UasmValue.\n"
                "Definition cases : list (list N * (bool * bool)) := [\n%s\n].\n"
                "Eval vm_compute in (failing_from marks_case_ok 0%%N cases).\n" % body)
        mjobs.append(("c17_marks_%d" % si, text))
    for si, (rc2, o) in enumerate(coq_eval_many(mjobs, timeout=600)):
        if rc2 != 0:
            r.broken_obligation("tie-eval-marks", "Coq evaluation of marks shard %d failed" % si, o[-1500:])
            continue
        for i in coq_ints(o):
            bad_marks.append(ranked[si * 400 + i])
    r.coverage["tie_marks"] = {"values_read_back": len(mcases), "rank>=1 compared with recompute_marks": len(ranked), "wrong": len(bad_marks),
                               "not_sorted_either_way": sum(1 for c in ranked if not c["marks"]["up"] and not c["marks"]["down"])}
    for c in bad_marks[:3]:
        r.violation("uasm-reread-value-marks-wrong", "a value read from its JSON text is malformed or carries untruthful sortedness marks: %s" % c["json"][:200],
                    {"json": c["json"], "marks": c["marks"], "value": c.get("val", {}).get("show")}, theorem="C17_reread_marks_truthful")
    # what a written value (plain, labelled, or with map keys) reads back as: the statement of C17_meta_json_roundtrip
    metas = [c for c, _ in items if "val" in c]
    bad_meta = []
    for si, ch in enumerate(chunks(metas, 200)):
        body = ";\n".join("(%s, %s)" % (coq_mval(c["val"]), "None" if "err" in c["back"] else "(Some %s)" % coq_mval(c["back"])) for c in ch)
        text = ("From Coq Require Import List NArith. Import ListNotations.\nFrom UV Require Import Base.Value Model.Uasm Model.UasmValue Model.UasmPlain.\n"
                "Definition cases : list (mval * option mval) := [\n%s\n].\n"
                "Eval vm_compute in (failing_from meta_case_ok 0%%N cases).\n" % body)
        rc2, o = coq_eval("c17_meta_%d" % si, text, 600)
        if rc2 != 0:
            r.broken_obligation("tie-eval-meta", "Coq evaluation of meta shard %d failed" % si, o[-1500:])
            continue
        for i in coq_ints(o):
            bad_meta.append(ch[i])
    r.coverage["tie_meta_roundtrip"] = {"written_values": len(metas), "labelled": sum(1 for c in metas if c["val"]["label"] is not None),
                                        "with_map_keys": sum(1 for c in metas if c["val"]["keys"] is not None),
                                        "one_row_box_maps (no statement)": sum(1 for c in metas if c["val"]["keys"] is not None and c["val"]["v"].startswith("(VBox [1]%nat")),
                                        "read back otherwise than the theorem states": len(bad_meta)}
    for c in bad_meta[:3]:
        r.violation("uasm-value-meta-roundtrip-wrong", "a value written to JSON reads back otherwise than C17_meta_json_roundtrip states: %s" % c["json"][:200],
                    {"json": c["json"], "value": c["val"], "back": c["back"]}, theorem="C17_meta_json_roundtrip")
    wrote = sum(1 for c, _ in items if "val" in c)
    r.coverage["tie_values"] = {"kind": "C", "cases": len(items), "written_by_serialiser": wrote, "hand_written_texts": len(items) - wrote,
                                "reader_rejects": sum(1 for c, _ in items if "err" in c["back"]), "mismatches": len(mism), "skipped": skipped}
    r.coverage["evaluations"] = r.coverage.get("evaluations", 0) + len(items)
    r.log("tie values: %d cases, %d mismatches" % (len(items), len(mism)))
    for c, _ in items[:2]:
        r.sample({"tie": "value", "value": c.get("val", {}).get("show"), "json": c["json"][:100], "reads_back_as": c["back"].get("show", c["back"].get("err"))})
    if mism:
        c = mism[0]
        for cc in mism[:5]:
            r.log("  value tie mismatch: %s" % json.dumps(cc, ensure_ascii=False)[:600])
        r.broken_obligation("tie:UasmValue.v~serde", "model and implementation disagree on the JSON of a value or on what a JSON text reads back as (%d of %d)" % (len(mism), len(items)),
                            json.dumps(c, ensure_ascii=False)[:2000])
