#!/usr/bin/env python3
"""Locked read-modify-write of /verif/known_findings.json (several builders edit it concurrently).
usage:
  kf_edit.py list PROP
  kf_edit.py remove ID                      # drop an open finding (it was repaired or was never genuine)
  kf_edit.py fixed PROP COMMIT "what failed"   # append 'fixed: property=PROP COMMIT what failed'
  kf_edit.py add ID PROP regex|exact KEY "what"   # add an open finding
  kf_edit.py set-key ID regex|exact KEY     # change the match of an open finding
"""
import sys, json, fcntl, os
P = os.path.join(os.path.dirname(os.path.dirname(os.path.abspath(__file__))), "known_findings.json")
def main():
    a = sys.argv[1:]
    with open(P + ".lock", "w") as lk:
        fcntl.flock(lk, fcntl.LOCK_EX)
        d = json.load(open(P))
        cmd = a[0]
        if cmd == "list":
            for f in d["findings"]:
                if f["property"] == a[1]:
                    print(json.dumps(f, ensure_ascii=False))
            for s in d["fixed"]:
                if "property=%s " % a[1] in s:
                    print(s)
            return
        if cmd == "remove":
            n = len(d["findings"])
            d["findings"] = [f for f in d["findings"] if f["id"] != a[1]]
            print("removed", n - len(d["findings"]))
        elif cmd == "fixed":
            s = "fixed: property=%s %s %s" % (a[1], a[2], a[3])
            if s not in d["fixed"]:
                d["fixed"].append(s)
            print(s)
        elif cmd == "add":
            d["findings"] = [f for f in d["findings"] if f["id"] != a[1]]
            d["findings"].append({"id": a[1], "property": a[2], "status": "open", "match": {"kind": a[3], "key": a[4]}, "what": a[5]})
            print("added", a[1])
        elif cmd == "set-key":
            for f in d["findings"]:
                if f["id"] == a[1]:
                    f["match"] = {"kind": a[2], "key": a[3]}
                    print("updated", a[1])
        else:
            print(__doc__); sys.exit(2)
        tmp = P + ".tmp"
        json.dump(d, open(tmp, "w"), indent=1, ensure_ascii=False)
        os.replace(tmp, P)
main()
