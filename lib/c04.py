"""C04 - under restores what it took apart."""
from common import *

HDR = ("From Coq Require Import List ZArith NArith. Import ListNotations.\n"
       "From UV Require Import Model.Node Model.Sig Model.Exec Model.TreeOk Proofs.UnderFrame.\n")

KNOWN_KEYS = {}


def items(term):
    """the children of an exported node seen as a sequence"""
    t = term.strip()
    if t.startswith("(Run [") and t.endswith("])"):
        inner = t[len("(Run ["):-2]
        # split at top-level ';'
        out, depth, cur = [], 0, ""
        for ch in inner:
            if ch in "([":
                depth += 1
            elif ch in ")]":
                depth -= 1
            if ch == ";" and depth == 0:
                out.append(cur)
                cur = ""
            else:
                cur += ch
        if cur:
            out.append(cur)
        return out
    return [t]


def balance_tie(r):
    """V: every (before, after) the real under_inverse returns for the catalogue x g-signatures is
    evaluated by Coq: under_balancedb (context effect (0,k) / (k,0), both halves inside the frame
    theorem's fragment) - the premise of C04_under_no_residue"""
    rc, out, err = run_bin("c04", ["export"], seed=r.seed, timeout=900)
    recs = json_lines(out)
    pairs = [c for c in recs if "before" in c]
    none = [c for c in recs if "no_under" in c]
    if rc != 0 or not pairs:
        r.broken_obligation("tie-harness", "c04 export failed", (out + err)[-2000:])
        return 0
    for p in [c for c in recs if "panic" in c][:3]:
        r.violation("panic|under_inverse|" + p["f"], "under_inverse panicked", p, theorem="C09")
    jobs, shard = [], 120
    for si, ch in enumerate(chunks(pairs, shard)):
        body = ";\n".join("(%s, %s)" % (c["before"], c["after"]) for c in ch)
        jobs.append(("c04_bal_%d" % si, HDR + "Definition cases : list (node * node) := [\n%s\n].\n"
                     "Eval vm_compute in (map (fun p => (if under_balancedb [] (fst p) (snd p) then 0%%N else 1%%N, "
                     "match node_sig (fst p) with Some s => N.of_nat (suo s) | None => 99%%N end)) cases).\n" % body))
    res = coq_eval_many(jobs, timeout=900)
    bad, ks, covered, uncovered = [], {}, 0, []
    for si, (rc2, o) in enumerate(res):
        if rc2 != 0:
            r.broken_obligation("tie-eval", "Coq evaluation of an under-balance shard failed", o[-1500:])
            continue
        ints = coq_ints(o)
        for i in range(0, len(ints) - 1, 2):
            c = pairs[si * shard + i // 2]
            if ints[i] == 0 and c["calls"] == 0:
                covered += 1
                ks[ints[i + 1]] = ks.get(ints[i + 1], 0) + 1
            else:
                # which reason?  a signature imbalance is a broken tie; a tree outside the proved
                # fragment (switch / context ops inside fork or bracket operands / unmodelled modifier) is merely not covered
                uncovered.append(c)
    # classify uncovered: does the REAL checker say the halves are balanced?
    def usig(s):
        m = re.match(r"\(Sig (\d+) (\d+) (\d+) (\d+)\)", s or "")
        return tuple(int(x) for x in m.groups()) if m else None
    for c in uncovered:
        sb, sa = usig(c["before_sig"]), usig(c["after_sig"])
        if sb and sa and (sb[2] != 0 or sa[3] != 0 or sb[3] != sa[2]):
            bad.append(c)
    whole_ok = whole_n = 0
    for c in pairs:
        if "whole" in c:
            whole_n += 1
            if items(c["whole"]) == items(c["before"]) + items(c["g"]) + items(c["after"]):
                whole_ok += 1
    r.coverage["tie_balance"] = {"kind": "V", "pairs": len(pairs), "inside_theorem_premises": covered,
                                 "not_covered_by_model": len(uncovered) - len(bad), "imbalanced": len(bad),
                                 "context_values_pushed_hist": ks, "catalogue_entries_without_under": len(none),
                                 "compiler_assembles_before_g_after": "%d of %d" % (whole_ok, whole_n),
                                 "uncovered_examples": sorted(set(c["f"] for c in uncovered if c not in bad))[:12]}
    r.log("balance tie: %d pairs, %d inside the theorem's premises, %d not covered, %d imbalanced; assembled = before;G;after for %d of %d"
          % (len(pairs), covered, len(uncovered) - len(bad), len(bad), whole_ok, whole_n))
    for c in pairs[:1] + pairs[40:41]:
        r.sample({"F": c["src"], "g_sig": c["g_sig"], "before": c["before"], "after": c["after"]})
    if bad:
        c = bad[0]
        r.broken_obligation("tie:under_balanced", "under_inverse returned halves whose context effects do not cancel (%d of %d)" % (len(bad), len(pairs)),
                            json.dumps({"F": c["src"], "g_sig": c["g_sig"], "before_sig": c["before_sig"], "after_sig": c["after_sig"]}, ensure_ascii=False))
    if whole_n and whole_ok * 10 < whole_n * 9:
        r.broken_obligation("tie:under_assembly", "the compiler no longer assembles ⍜F G as before;G;after (%d of %d)" % (whole_ok, whole_n), "")
    return len(pairs)


def run(r):
    quick = r.tier == "quick"
    r.trusted += TRUSTED_COMMON + [
        "exporter of uiua::Node trees to the model's node type (harness/src/lib.rs Export)",
        "primitives are abstract in the no-residue theorems (any psem); the lens theorems are about the reference semantics of Model/Prims.v + Model/Under.v, tied to the implementation only by the search's index-array oracle",
        "uiua::verif::depths / take_stacks report the interpreter's hidden stacks faithfully",
    ]
    r.assumptions += ["G has no context effect of its own and lies in the frame theorem's fragment (tree_okb: stored operand signatures fit; operands of iterating modifiers, fork, bracket and try carry no context effect)",
                      "the stack is deep enough for the three stages (under_depth)",
                      "lens laws: arrays are well-formed (length data = product shape), indices in range, G keeps the shape",
                      "templates with context operations inside operands of rows / fork / bracket are outside the no-residue theorem (for rows the effect is per row): counted, covered by the residue search",
                      "lossy reshape (`Cannot unreshape`) and positional selectors on map arrays other than list keep / reverse / select / rotate are outside the law (first, last, deshape and scalar keep drop the keys; take and drop refuse maps)"]
    if not r.harness(["c04"]):
        return
    r.proofs()
    npairs = balance_tie(r)
    n = 500 if quick else 12000
    if r.broken:
        n *= 3
    rc, out, err = run_bin("c04", ["search", n], seed=r.seed, timeout=3000)
    recs = json_lines(out)
    viols = [x for x in recs if "violation" in x]
    summ = [x for x in recs if x.get("summary")]
    if rc != 0 or not summ:
        r.broken_obligation("search-harness", "c04 search failed", (out + err)[-2000:])
    r.coverage["search"] = dict(summ[0] if summ else {}, violations=len(viols))
    seen = set()
    for v in viols:
        key = "%s|%s" % (v["violation"], v["f"])
        if key in seen:
            continue
        seen.add(key)
        r.violation(key, "under law %s fails on the implementation for F = %s: %s" % (v["violation"], v["f"], v["detail"][:300]),
                    v, theorem={"residue-ok": "C04_under_no_residue", "residue-err": "C04_handler_sees_original_context",
                                "handler-state": "C04_handler_sees_original_context"}.get(v["violation"], "C04_get_put"))
    s = summ[0] if summ else {}
    for k in ("identity_checked", "oracle_checked", "residue_after_caught_failure_checked"):
        r.log("search: %s = %s" % (k, s.get(k)))
    r.sample({"law": "⍜F∘ x = x and index-array oracle", "checked": s.get("identity_checked"), "oracle": s.get("oracle_checked")})
    r.coverage["evaluations"] = npairs + s.get("evaluations", 0) + s.get("failure_injection_runs", 0)
    r.coverage["distinct_nontrivial"] = npairs + s.get("identity_checked", 0)
    r.coverage["rule"] = ("V: every catalogue F (take, drop, select, pick, first, last, keep, rotate, reverse, transpose, deshape, reshape, rerank, "
                          "fix, subscripted rows, sort, rise, fall, classify, deduplicate, where, map get/remove/insert (absent and existing key), partition/group "
                          "with box, and rows/dip/both/on of every positional one plus seeded fork/bracket/sequence pairs) x g-signatures |1.1 |2.1 |1.2 |2.2: "
                          "under_balancedb evaluated by Coq on the real under_inverse output, and the compiler's ⍜F G compared with before;G;after; "
                          "search: regression programs of repaired defects first (switch selector under an under-condition, undo keep/select on empty rows, "
                          "subscripted rows, under insert/remove/get on maps, undo keep with raised rank, list keep/reverse/select/rotate on maps), then "
                          "generated arrays of every element type, rank up to 3, in-range indices: ⍜F∘ x = x, the index-array oracle for ⍜F G on numeric arrays, "
                          "residue after success; a failure injected before/between/after every step of G and a shape-changing G, each plain, inside fill "
                          "and inside the G of an enclosing under, caught by a handler: the handler must see the original arguments, no context value may be "
                          "left, no later step may fail, and an under run afterwards must work")
