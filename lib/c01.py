"""C01 - compile-time rewriting never changes what a program computes."""
from common import *

HDR = ("From Coq Require Import List ZArith NArith Bool. Import ListNotations.\n"
       "From UV Require Import Model.Node Model.Sig Model.Opt.\n")

# name -> (id, args, outputs): must mirror coq/Model/Opt.v and harness/src/bin/c01.rs (pid/ipid)
NAMES = {
    "Dup": (2, 1, 2), "Flip": (3, 2, 2), "Pop": (4, 1, 0), "Add": (5, 2, 1), "Mul": (7, 2, 1), "Neg": (8, 1, 1),
    "Eq": (9, 2, 1), "Not": (13, 1, 1), "Ne": (16, 2, 1), "Le": (17, 2, 1), "Abs": (19, 1, 1), "Sign": (20, 1, 1),
    "First": (31, 1, 1), "Last": (32, 1, 1), "Reverse": (33, 1, 1), "Rise": (34, 1, 1), "Fall": (35, 1, 1),
    "Where": (36, 1, 1), "Len": (37, 1, 1), "Range": (38, 1, 1), "MemberOf": (39, 2, 1), "Rerank": (40, 2, 1),
    "Deduplicate": (41, 1, 1), "Select": (42, 2, 1), "Sort": (43, 1, 1), "Rand": (44, 0, 1), "Pow": (45, 2, 1),
    "Complex": (46, 2, 1), "Transpose": (47, 1, 1), "Rotate": (48, 2, 1), "Match": (49, 2, 1), "Type": (50, 1, 1),
    "Mask": (51, 2, 1), "Primes": (52, 1, 1), "Box": (53, 1, 1), "Fix": (54, 1, 1), "Shape": (55, 1, 1),
    "Deshape": (56, 1, 1), "Classify": (57, 1, 1), "Take": (58, 2, 1), "Join": (59, 2, 1), "Reciprocal": (60, 1, 1),
    "PseudoIsPrime": (101, 1, 1), "FirstMinIndex": (102, 1, 1), "LastMinIndex": (103, 1, 1),
    "FirstMaxIndex": (104, 1, 1), "LastMaxIndex": (105, 1, 1), "FirstWhere": (106, 1, 1), "LastWhere": (107, 1, 1),
    "LenWhere": (108, 1, 1), "MemberOfRange": (109, 2, 1), "MultidimMemberOfRange": (110, 2, 1),
    "RandomRow": (111, 1, 1), "CountUnique": (112, 1, 1), "SortDown": (113, 1, 1), "FirstSort": (114, 1, 1),
    "LastSort": (115, 1, 1), "ReplaceRand": (116, 1, 1), "ReplaceRand2": (117, 2, 1), "AbsComplex": (118, 2, 1),
    "SquareAbs": (119, 1, 1), "NegAbs": (120, 1, 1), "UnSort": (121, 1, 1), "DeshapeSub(2)": (152, 1, 1),
}
STRUCTS = {"ByToDup": 100, "RowsFlipOpt": 101, "InlineCustomInverse": 102, "TransposeOpt": 103, "ReduceTableOpt": 104,
           "ReduceDepthOpt": 105, "ReduceContentOpt": 106, "ReduceConjoinInventoryOpt": 107, "PathOpt": 108,
           "SplitByOpt": 109, "AllSameOpt": 110, "SortedUpOpt": 111, "PopConst": 112, "ValidateTypeOpt": 113}


def split_top(s):
    out, depth, cur = [], 0, ""
    for ch in s:
        if ch == "(":
            depth += 1
        elif ch == ")":
            depth -= 1
        if ch == "," and depth == 0:
            out.append(cur.strip())
            cur = ""
        else:
            cur += ch
    if cur.strip():
        out.append(cur.strip())
    return out


def strip_parens(s):
    s = s.strip()
    return s[1:-1] if s.startswith("(") and s.endswith(")") else s


def pat_term(item):
    item = item.strip()
    if re.fullmatch(r"-?\d+", item):
        return "PI (%s)" % item
    if item == "crate::Complex::I":
        return "PCI"
    m = re.fullmatch(r"Or\((.*)\)", item)
    if m:
        a, b = split_top(m.group(1))
        return "POr (%s) (%s)" % (pat_term(a), pat_term(b))
    if item in NAMES:
        return "PP %d" % NAMES[item][0]
    raise KeyError(item)


def node_term(item):
    item = item.strip()
    if item in NAMES:
        return "Prim %d %d %d" % NAMES[item]
    raise KeyError(item)


def parse_table(src):
    """-> (tuple rules [(lhs items, rhs items)], struct names in order, early struct names, entry kinds in order)"""
    m = re.search(r"static UNSORTED_OPTS[^=]*=\s*&\[(.*?)\n\];", src, re.S)
    if not m:
        return None
    body = re.sub(r"//[^\n]*", "", m.group(1))
    entries = [e.strip() for e in split_top(body) if e.strip()]
    tuples, structs, kinds = [], [], []
    for e in entries:
        assert e.startswith("&"), e
        e = e[1:].strip()
        if e.startswith("("):
            lhs, rhs = split_top(strip_parens(e))
            lhs_items = split_top(strip_parens(lhs))
            rhs_items = split_top(strip_parens(rhs)) if rhs.strip().startswith("(") else [rhs.strip()]
            tuples.append((lhs_items, rhs_items))
            kinds.append("t")
        else:
            structs.append(e)
            kinds.append("s")
    early = set()
    for m2 in re.finditer(r"impl Optimization for (\w+) \{(.*?)\n\}", src, re.S):
        if re.search(r"fn level\(&self\) -> OptLevel \{\s*OptLevel::Early", m2.group(2)):
            early.add(m2.group(1))
    return tuples, structs, early, kinds


def table_tie(r):
    """T-lite: the transcribed rule table against the source text of optimize.rs / tree.rs"""
    src = open(os.path.join(REPO, "src/compile/optimize.rs")).read()
    parsed = parse_table(src)
    if not parsed:
        r.broken_obligation("tie:table", "UNSORTED_OPTS not found in optimize.rs", "")
        return
    tuples, structs, early, kinds = parsed
    # tuple rules must come first (the model's unsorted_opts = tuple_opts ++ struct_opts)
    first_struct = kinds.index("s") if "s" in kinds else len(kinds)
    if "t" in kinds[first_struct:]:
        r.broken_obligation("tie:table-order", "a tuple rule now follows a hand-written Optimization in UNSORTED_OPTS; the model assumes tuple rules first", str(kinds))
    try:
        exp = ";\n".join("([%s], [%s])" % ("; ".join(pat_term(i) for i in l), "; ".join(node_term(i) for i in rr)) for l, rr in tuples)
        sorder = "; ".join("(%d, %d)" % (STRUCTS[s], 0 if s in early else 1) for s in structs)
    except KeyError as e:
        r.broken_obligation("tie:table-name", "the rule table of optimize.rs names something the model does not know: %s" % e, str(e))
        return
    # Node::push's inlined primitives
    tsrc = open(os.path.join(REPO, "src/tree.rs")).read()
    m = re.search(r"pub fn push\(&mut self, node: Node\) \{(.*?)\n    \}", tsrc, re.S)
    arms = re.findall(r"Node::Prim\(Primitive::(\w+), _\) =>", m.group(1)) if m else []
    has_label = bool(m and re.search(r"Node::Label\(label, _\) =>", m.group(1)))
    try:
        ids = "; ".join(str(NAMES[a][0]) for a in arms)
    except KeyError as e:
        r.broken_obligation("tie:push-name", "Node::push inlines a primitive the model does not know: %s" % e, str(e))
        return
    text = (HDR + "Definition expected : list (list pat * list node) := [\n%s\n]%%N%%Z.\n" % exp +
            "Eval vm_compute in (if tuple_table_eqb expected tuple_table then 0 else 1,"
            " if list_eqb' (fun a b => N.eqb (fst a) (fst b) && N.eqb (snd a) (snd b)) [%s]%%N struct_order then 0 else 1,"
            " if list_eqb' N.eqb [%s]%%N inlinable_ids then 0 else 1)%%N.\n" % (sorder, ids))
    rc, out = coq_eval("c01_table", text)
    ints = coq_ints(out) if rc == 0 else []
    r.coverage["tie_table"] = {"kind": "T (source text)", "tuple_rules": len(tuples), "struct_rules": len(structs), "early": sorted(early),
                               "push_arms": arms, "push_label_arm": has_label, "result": ints}
    r.log("table tie: %d tuple rules, %d struct rules, push arms %s -> %s" % (len(tuples), len(structs), arms, ints))
    if rc != 0 or len(ints) < 3:
        r.broken_obligation("tie:table-eval", "Coq evaluation of the table comparison failed", out[-1500:])
        return
    if ints[0] != 0:
        r.broken_obligation("tie:tuple-table", "the tuple rules of UNSORTED_OPTS (count, order, left/right sides) differ from Opt.v's tuple_table", exp)
    if ints[1] != 0:
        r.broken_obligation("tie:struct-order", "the hand-written Optimizations of UNSORTED_OPTS (names, order, levels) differ from Opt.v's struct_opts", sorder)
    if ints[2] != 0 or not has_label:
        r.broken_obligation("tie:push-arms", "the primitives inlined by Node::push differ from Opt.v's inlinable_ids", ids)


def v_tie(r, n):
    rc, out, err = run_bin("c01", ["vtie", n], seed=r.seed, timeout=900)
    recs = json_lines(out)
    cases = [c for c in recs if "n" in c]
    summ = [c for c in recs if c.get("summary")]
    if rc != 0 or not cases:
        r.broken_obligation("tie-harness", "c01 vtie failed", (out + err)[-2000:])
        return 0, 0
    jobs, shard = [], 150
    for si, ch in enumerate(chunks(cases, shard)):
        body = ";\n".join("VC %s %s %s" % (c["n"], c["o"], "true" if c["full"] else "false") for c in ch)
        jobs.append(("c01_v_%d" % si, HDR + "Definition cases : list vcase := [\n%s\n].\nEval vm_compute in (vcodes_from 60 0%%N cases).\n" % body))
    res = coq_eval_many(jobs, timeout=900)
    bad, oof = [], 0
    for si, (rc2, o) in enumerate(res):
        if rc2 != 0:
            r.broken_obligation("tie-eval", "Coq evaluation of an optimiser shard failed", o[-1500:])
            continue
        ints = coq_ints(o)
        for i in range(0, len(ints) - 1, 2):
            if ints[i + 1] == 2:
                oof += 1
            bad.append((cases[si * shard + ints[i]], ints[i + 1]))
    changed = sum(1 for c in cases if c["n"] != c["o"])
    r.coverage["tie_optimiser"] = {"kind": "V", "trees": len(cases), "changed_by_optimiser": changed, "mismatches": len(bad),
                                   "out_of_fuel": oof, "full": sum(1 for c in cases if c["full"]), "early": sum(1 for c in cases if not c["full"]),
                                   "sources": summ[0]["sources"] if summ else None}
    r.log("optimiser tie: %d trees (%d changed by the optimiser), %d mismatches" % (len(cases), changed, len(bad)))
    for c in [c for c in cases if c["n"] != c["o"]][:2]:
        r.sample({"source": c["src"], "tree": c["n"][:300], "optimised": c["o"][:300], "full": c["full"]})
    if bad:
        c, code = bad[0]
        r.broken_obligation("tie:Opt.v~optimize.rs", "the optimiser model and Node::optimize_%s disagree on %d of %d trees" % ("full" if c["full"] else "early", len(bad), len(cases)),
                            json.dumps({"src": c["src"], "n": c["n"], "o": c["o"], "full": c["full"], "code": code}, ensure_ascii=False))
    return len(cases), changed


def push_tie(r, n):
    rc, out, err = run_bin("c01", ["pushtie", n], seed=r.seed, timeout=900)
    recs = json_lines(out)
    cases = [c for c in recs if "ns" in c]
    summ = [c for c in recs if c.get("summary")]
    if rc != 0 or not cases:
        r.broken_obligation("tie-harness", "c01 pushtie failed", (out + err)[-2000:])
        return 0, 0
    jobs, shard = [], 250
    for si, ch in enumerate(chunks(cases, shard)):
        body = ";\n".join("PC (as_slice %s) %s" % (c["ns"], c["o"]) for c in ch)
        jobs.append(("c01_p_%d" % si, HDR + "Definition cases : list pcase := [\n%s\n].\nEval vm_compute in (pcodes_from 0%%N cases).\n" % body))
    res = coq_eval_many(jobs, timeout=900)
    bad = []
    for si, (rc2, o) in enumerate(res):
        if rc2 != 0:
            r.broken_obligation("tie-eval", "Coq evaluation of a push shard failed", o[-1500:])
            continue
        for i in coq_ints(o):
            bad.append(cases[si * shard + i])
    short = summ[0]["shortened_by_push"] if summ else 0
    r.coverage["tie_push"] = {"kind": "V", "runs": len(cases), "shortened_by_inlining": short, "mismatches": len(bad)}
    r.log("push tie: %d runs (%d shortened by inlining), %d mismatches" % (len(cases), short, len(bad)))
    if bad:
        c = bad[0]
        r.broken_obligation("tie:Opt.v~Node::push", "the model of Node::push / from_iter disagrees on %d of %d runs" % (len(bad), len(cases)),
                            json.dumps(c, ensure_ascii=False))
    return len(cases), short


def fused_tie(r):
    """C: the semantics given to the fused index / count primitives in Proofs/Opt.v against the real fused
    primitives, on marked (sorted up / down at run time, or derived from ordered literals) and unmarked
    arrays with tied extremes, rank 1 and 2, and empty arrays"""
    rc, out, err = run_bin("c01", ["fusedtie", 0], seed=r.seed, timeout=600)
    recs = json_lines(out)
    cases = [c for c in recs if "arr" in c]
    if rc != 0 or not cases:
        r.broken_obligation("tie-harness", "c01 fusedtie failed", (out + err)[-2000:])
        return 0
    hdr = HDR + "From UV Require Import Model.Prims Proofs.Opt.\n"
    jobs, shard = [], 400
    for si, ch in enumerate(chunks(cases, shard)):
        body = ";\n".join("(%d%%N, %s, %s)" % (c["id"], c["arr"], ("Some %s" % c["res"]) if c["ok"] else "None") for c in ch)
        jobs.append(("c01_f_%d" % si, hdr + "Definition cases : list (N * arr * option arr) := [\n%s\n].\nEval vm_compute in (fcodes_from 0%%N cases).\n" % body))
    res = coq_eval_many(jobs, timeout=600)
    bad, unspec = [], 0
    for si, (rc2, o) in enumerate(res):
        if rc2 != 0:
            r.broken_obligation("tie-eval", "Coq evaluation of a fused-primitive shard failed", o[-1500:])
            continue
        ints = coq_ints(o)
        for i in range(0, len(ints) - 1, 2):
            if ints[i + 1] == 2:
                unspec += 1
            else:
                bad.append(cases[si * shard + ints[i]])
    r.coverage["tie_fused"] = {"kind": "C", "cases": len(cases), "marked_up": sum(1 for c in cases if c["marked_up"]),
                               "marked_down": sum(1 for c in cases if c["marked_down"]), "unmarked": sum(1 for c in cases if not c["marked_up"] and not c["marked_down"]),
                               "error_cases": sum(1 for c in cases if not c["ok"]), "outside_model": unspec, "mismatches": len(bad),
                               "per_primitive": {str(i): sum(1 for c in cases if c["id"] == i) for i in sorted(set(c["id"] for c in cases))}}
    r.log("fused tie: %d cases (%d marked up, %d marked down), %d mismatches, %d outside the model"
          % (len(cases), r.coverage["tie_fused"]["marked_up"], r.coverage["tie_fused"]["marked_down"], len(bad), unspec))
    if bad:
        c = bad[0]
        r.broken_obligation("tie:Proofs/Opt.v prim_sem~fused primitives", "the model of a fused primitive and the implementation disagree on %d of %d cases" % (len(bad), len(cases)),
                            json.dumps(c, ensure_ascii=False))
    return len(cases)


def base_rule(name):
    name = re.sub(r"(-lit)?(-\d+)?$", "", name)
    name = re.sub(r"^reduce-depth-.*", "reduce-depth", name)
    name = re.sub(r"^transpose.*", "transpose", name)
    name = re.sub(r"^sortdown-reverse\d*", "sortdown-reverse", name)
    return name


def diff_class(what):
    for pre, c in (("fails", "fails"), ("stack height", "height"), ("shape of", "shape"), ("type of", "type"), ("value", "value"), ("written", "output")):
        if what.startswith(pre):
            return c
    return "other"


def search(r, m):
    rc, out, err = run_bin("c01", ["search", m], seed=r.seed, timeout=3000)
    recs = json_lines(out)
    summ = [x for x in recs if x.get("summary")]
    viols = [x for x in recs if "violation" in x]
    conv = [x for x in recs if x.get("converse") is True]
    if rc != 0 or not summ:
        r.broken_obligation("search-harness", "c01 search failed", (out + err)[-2000:])
        return 0
    s = summ[0]
    for x in [x for x in recs if x.get("sample")][:4]:
        r.sample({"rule": x["rule"], "program": x["src"], "args": x["args"], "result_all_three_configurations": x["result"]})
    # one finding per (rule, class of difference): the key is stable across seeds as far as the same defect is hit
    groups = {}
    for v in viols:
        groups.setdefault("rule:%s/%s" % (base_rule(v["rule"]), diff_class(v["what"])), []).append(v)
    seen = set(groups)
    for k, vs in sorted(groups.items()):
        vs.sort(key=lambda v: (len(v["src"]) + len(v["args"]), v["src"]))
        v = vs[0]
        r.violation(k, "with rewriting configuration '%s' the program %r (arguments %s) %s; without rewrites it gives %s, with them %s (%d case(s) of this class)"
                    % (v["cfg"], v["src"], v["args"] or "none", v["what"], v["ref"], v["got"], len(vs)),
                    {"count": len(vs), "examples": vs[:3]}, theorem="C01_optimize_sound")
    # the converse direction (reference fails, rewritten succeeds) is outside the law "success implies equal
    # success" but contradicts "rewrites may only change speed": one finding per rule, keyed by rule
    by_rule = {}
    for c in conv:
        k = "rule:%s/%s" % (base_rule(c["rule"]), "empty" if c["empty"] else "error-becomes-success")
        by_rule.setdefault(k, []).append(c)
    for k, cs in sorted(by_rule.items()):
        cs.sort(key=lambda v: (len(v["src"]) + len(v["args"]), v["src"]))
        c = cs[0]
        r.violation(k, "rewriting turns a failing program into a succeeding one (%d case(s)): %r with arguments %s fails without rewrites (%s) but gives %s under '%s'"
                    % (len(cs), c["src"], c["args"] or "none", c["ref"], c["got"], c["cfg"]), {"count": len(cs), "examples": cs[:3]},
                    kind="converse-divergence", theorem="C01 (last sentence: rewrites may only change speed)")
    r.coverage["search"] = dict(s, distinct_violations=len(seen), converse_keys=sorted(by_rule))
    r.coverage["marked_tied_family"] = {"programs": s.get("marked_tied_programs"), "note": "every rule whose fused form has or could get a sortedness shortcut x {literal, sort, reverse sort, select by rise/fall, reverse, negate sort} x arrays with repeated max/min of rank 1 and 2; also inside rows and behind a function / constant binding"}
    r.coverage["rowless_family"] = {"programs": s.get("rowless_programs"), "note": "every rule's trigger sequence, bare / under rows / behind a function, on arrays without rows (and with element-less rows) of every element type"}
    r.coverage["regression_corpus"] = {"programs": s.get("regression_programs"), "note": "bare reproducers of every defect found so far, replayed first; repaired ones are no longer known findings, so a regression prints a VIOLATION"}
    r.log("search: %d programs (%d succeed without rewrites), %d violations, %d converse divergences; corpus %d/%d"
          % (s["programs"], s["reference_ok"], len(seen), len(conv), s["corpus_reference_ok"], s["corpus_items"]))
    return s["programs"] * 3 + s["corpus_items"] * 3


def run(r):
    quick = r.tier == "quick"
    r.trusted += TRUSTED_COMMON + [
        "exporter of uiua::Node trees to the model's node type (harness/src/bin/c01.rs Ex + uvh::Export); primitive arities taken from the tables at export time; "
        "literals are exported as integer scalars or opaque ids (the model of Node::push treats non-scalar literals as wildcards)",
        "the reference semantics of array primitives (coq/Model/Prims.v, written from the documentation, tied to the interpreter by C08's check); the semantics given in "
        "Proofs/Opt.v to the fused primitives FirstMin/LastMin/FirstMax/LastMax index, CountUnique, SortDown, FirstSort, LastSort and NegAbs is tied to the real fused primitives by this check's fused tie (scalar and array results; NegAbs on characters is outside the model), "
        "the semantics of TransposeN (iterated transpose) by the search only",
        "hooks verif::set_rewrites / verif::rewrites_on / verif::optimize_node (cfg verif_hooks): set_rewrites(false) makes optimize_impl return at once and Node::push not inline; "
        "that this switches off nothing else is not checked",
        "the source-text parser of UNSORTED_OPTS and of Node::push's arms in lib/c01.py (table tie)",
        "attribution of a search finding to a rule comes from the generated snippet, not from a trace of the optimiser",
    ]
    r.assumptions += [
        "rule soundness (original succeeds => rewritten succeeds with the same stack, no fill in scope, well-formed arrays) is proved for the 14 rules of `proved` only: "
        "reverse;first, reverse;last, rise;first, fall;last, fall;first, rise;last, deduplicate;length, sort;reverse, SortDown;reverse, sort;first, sort;last, "
        "absolute value;negate, TransposeOpt, PopConst; "
        "the 29 rules of `listed_unproved` are decided by the differential search (the property is partial for them)",
        "C01_optimize_run_sound is about the fix-point loop on ONE run of primitives and integer literals; the recursion of optimize_impl into operands "
        "(optimize_single since 402368c) is transcribed and validated by the optimiser tie but not proved sound",
        "pre-evaluation (PreEvalMode::Normal) and Node::push on non-scalar literals are covered by the search only; PathOpt's fill shapes are not transcribed (kept out of the tie)",
        "differences in the TEXT of an error caught by try (span, wording) and failures of the unrewritten program for resource reasons (too large / too high / memory / timeout) are not counted",
        "the converse direction (the unrewritten program fails, the rewritten one succeeds) is reported with kind converse-divergence: it is outside the success-implies-success law "
        "but contradicts 'rewrites may only change speed'",
    ]
    if not r.harness(["c01"]):
        return
    r.proofs()
    table_tie(r)
    a = v_tie(r, 700 if quick else 12000)
    b = push_tie(r, 500 if quick else 6000)
    f = fused_tie(r)
    m = 2500 if quick else 60000
    if r.broken:
        m *= 3
    e = search(r, m)
    r.coverage["evaluations"] = a[0] + b[0] + f + e
    r.coverage["distinct_nontrivial"] = a[1] + b[1]
    r.coverage["rule"] = ("T: UNSORTED_OPTS (29 tuple rules: order, left and right sides; 14 hand-written rules: names, order, levels) and the arms of Node::push parsed "
                          "from the source text and compared with Opt.v in Coq; "
                          "V (optimiser): distinct raw trees (compiled with every rewrite off) of sources that embed each rule's left-hand side bare, inside operands, "
                          "after literals and nested up to 3 deep, optimised at Full and Early by the real optimiser and by the model; non-trivial = the optimiser changed the tree; "
                          "V (push): Node::from_iter of raw runs against the model; non-trivial = push shortened the run; "
                          "C (fused): nine fused primitives (four first/last min/max index, CountUnique, SortDown, FirstSort, LastSort, NegAbs) on marked (sorted up/down) and unmarked arrays with tied extremes, "
                          "rank 1-2, and empty arrays: the real result (a scalar or an array) against prim_sem; "
                          "search: every program run in the three configurations {no rewrites, optimiser, optimiser + pre-evaluation}, in this order: regression corpus (bare reproducers of every "
                          "defect found, repaired and open), marked x tied-extremes family, rowless family (every rule on rowless arrays of every type, bare / under rows / behind a function), "
                          "random rule-biased programs x generated arguments of every element type and rank 0-3, whole files and blank-line chunks of /repo/tests")
