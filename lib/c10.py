"""C10 - formatting is idempotent and never changes program meaning (partial proof + validation)."""
from common import *


def coq_codes(s):
    return "[" + ";".join(str(ord(c)) for c in s) + "]%N"


def run(r):
    quick = r.tier == "quick"
    r.trusted += TRUSTED_COMMON + [
        "NOT modelled in Fmt.v (decided by the V tie and the search only): multi-line layout (arrays, functions, packs, modules, data "
        "definitions, imports), comments of every kind and their alignment, output comments, signatures, modifiers and the spacing of "
        "their operands, the lexer's name->glyph table (a name run carries the glyphs it denotes; the C tie re-lexes every case with the "
        "real lexer and drops the case as uncovered when the real lexer reads other words), letters of other scripts, = written by name",
        "the exporter of compiled trees drops spans, label names and hashes non-integer constants; the search additionally compares Node's "
        "Debug rendering (positions masked), every binding's kind and public/private flag, and the names with their visibility that the "
        "text exports when compiled as the body of a module",
        "program runs, compilations and the formatter's own evaluation of output comments use the sandboxed backend (nothing is read or "
        "written) with an execution limit; a run that ends on a resource limit (time, memory, size) is inconclusive, a difference is "
        "reported only after both programs reproduced it in sequential re-runs; nondeterministic programs are excluded",
        "the five formatter options are enumerated: all 16 boolean combinations x multiline_indent in {0,1,2,3,4,8} (thorough), a covering "
        "subset of 26 (quick)",
    ]
    r.assumptions += ["C10_relex_render / C10_render_idempotent / C10_unsplit_relex: wf_tokens ts (one line of words of the classes of "
                      "Model/Fmt.v, as the lexer can produce them; lines joined by the ; marker must not end in a macro with bangs)",
                      "C10_adjacency: valid_tok of both words and the side condition of wf_go between them",
                      "C10_node_eqb_sound / C10_prog_eqb_sound: none (all trees, all run-time states, all interpretations of the primitives)"]
    if not r.harness(["c10"]):
        return
    r.proofs()

    ctie(r, quick)
    vtie(r, quick)
    search(r, quick)


# ---------------------------------------------------------------- C tie: Fmt.v render vs format_str

def ctie(r, quick):
    n = 1500 if quick else 20000
    rc, out, err = run_bin("c10", ["ctie", n], seed=r.seed, timeout=1200)
    lines = json_lines(out)
    cases = [l for l in lines if "toks" in l and l.get("relex")]
    norelex = sum(1 for l in lines if "toks" in l and not l.get("relex"))
    summ = next((l for l in lines if l.get("summary")), {})
    if rc != 0 or not summ:
        r.broken_obligation("tie-harness:ctie", "c10 ctie failed to run", (out + err)[-2000:])
        return
    if norelex:
        ex = next(l for l in lines if "toks" in l and not l.get("relex"))
        r.broken_obligation("tie:Fmt.v~format_str", "format_str printed text that the real lexer does not read as words of the model's classes, for %d covered case(s)" % norelex,
                            json.dumps({"src": ex["src"], "format_str": ex["out"], "tokens": ex["toks"]}, ensure_ascii=False))
    if not cases:
        r.coverage["tie_C"] = {"cases": 0, "note": "no case emitted"}
        return
    shard = 250
    jobs = []
    for si, ch in enumerate(chunks(cases, shard)):
        body = ";\n".join("(%s, %s, %s)" % (c["toks"], coq_codes(c["out"]), c["relex"]) for c in ch)
        text = ("From Coq Require Import List NArith Bool. Import ListNotations.\nFrom UV Require Import Model.Fmt.\n"
                "Definition cases : list (list token * list N * list token) := [\n%s\n].\n"
                "Eval vm_compute in (tie_failing 0%%N cases).\n" % body)
        jobs.append(("c10_ctie_%d" % si, text))
    mism = []
    for si, (rc2, o) in enumerate(coq_eval_many(jobs, timeout=900)):
        if rc2 != 0:
            r.broken_obligation("tie-eval:ctie", "Coq evaluation of C-tie shard %d failed" % si, o[-1500:])
            continue
        for i in coq_ints(o):
            mism.append(cases[si * shard + i])
    pairs = {}
    for c in cases:
        for p in c.get("pairs", []):
            pairs[p] = pairs.get(p, 0) + 1
    r.coverage["tie_C"] = {"kind": "C", "cases": len(cases), "distinct_sources": len(set(c["src"] for c in cases)),
                           "mismatches": len(mism), "uncovered_by_model": summ.get("uncovered", 0),
                           "unparseable": summ.get("unparseable", 0), "adjacent_class_pairs_seen": len(pairs),
                           "changed_by_format": sum(1 for c in cases if c["src"].rstrip("\n") != c["out"].rstrip("\n")),
                           "lines_joined_by_unsplit_marker": summ.get("unsplit_cases", 0),
                           "length_hist": summ.get("lengths")}
    for c in cases[:2]:
        r.sample({"tie": "C", "src": c["src"], "format_str": c["out"], "tokens": c["toks"][:200]})
    r.log("C tie: %d cases, %d mismatches, %d class pairs" % (len(cases), len(mism), len(pairs)))
    if mism:
        c = mism[0]
        r.broken_obligation("tie:Fmt.v~format_str", "model render and format_str disagree on a token sequence (%d of %d)" % (len(mism), len(cases)),
                            json.dumps({"src": c["src"], "format_str": c["out"], "tokens": c["toks"]}, ensure_ascii=False))
    return len(cases)


# ---------------------------------------------------------------- V tie: node_eqb on exported trees

def vtie(r, quick):
    n = 250 if quick else 3000
    rc, out, err = run_bin("c10", ["vtie", n], seed=r.seed, timeout=1500)
    lines = json_lines(out)
    cases = [l for l in lines if "a" in l]
    summ = next((l for l in lines if l.get("summary")), {})
    if rc != 0 or not cases:
        r.broken_obligation("tie-harness:vtie", "c10 vtie failed to run", (out + err)[-2000:])
        return
    shard = 40
    jobs = []
    for si, ch in enumerate(chunks(cases, shard)):
        body = ";\n".join("(%s, %s)" % (c["a"], c["b"]) for c in ch)
        text = ("From Coq Require Import List ZArith NArith Bool. Import ListNotations.\nFrom UV Require Import Model.Node Model.NodeEq.\n"
                "Definition cases : list (prog * prog) := [\n%s\n].\nEval vm_compute in (failing_pairs 0%%N cases).\n" % body)
        jobs.append(("c10_vtie_%d" % si, text))
    bad = []
    for si, (rc2, o) in enumerate(coq_eval_many(jobs, timeout=900)):
        if rc2 != 0:
            r.broken_obligation("tie-eval:vtie", "Coq evaluation of V-tie shard %d failed" % si, o[-1500:])
            continue
        for i in coq_ints(o):
            bad.append(cases[si * shard + i])
    disagree = [c for c in cases if c["rust_equal"] == (c in bad)]
    r.coverage["tie_V"] = {"kind": "V", "pairs": len(cases), "node_eqb_false": len(bad), "nodes_compared": sum(c["nodes"] for c in cases),
                           "by_source": {k: sum(1 for c in cases if c["cat"] == k) for k in sorted(set(c["cat"] for c in cases))},
                           "harness_vs_coq_disagreements": len(disagree), "summary": {k: v for k, v in summ.items() if k != "summary"}}
    r.log("V tie: %d (source, formatted) pairs validated by node_eqb, %d rejected" % (len(cases), len(bad)))
    for c in cases[:1]:
        r.sample({"tie": "V", "src": c["src"], "formatted": c["fmt"], "cfg": c["cfg"], "node_eqb": c not in bad})
    if disagree:
        c = disagree[0]
        r.broken_obligation("tie:node_eqb~exporter", "Coq's node_eqb and the harness's comparison of the exported terms disagree",
                            json.dumps({"src": c["src"], "fmt": c["fmt"]}, ensure_ascii=False))
    r._vtie_bad = bad
    r._vtie_iff = [l for l in lines if l.get("iff_broken") is True]
    return len(cases)


# ---------------------------------------------------------------- search

def search(r, quick):
    n = 80 if quick else 2500
    args = ["search", n, "--threads", max(4, min(14, NCPU - 2))]
    if not quick:
        args += ["--configs", "all"]
    if r.broken:
        args[1] = n * 3
    rc, out, err = run_bin("c10", args, seed=r.seed, timeout=3300)
    lines = json_lines(out)
    summ = next((l for l in lines if l.get("summary")), None)
    if rc != 0 or summ is None:
        r.broken_obligation("search-harness", "c10 search failed to run (rc %s)" % rc, (out[-1500:] + err[-1500:]))
        return
    viols = [l for l in lines if "violation" in l]
    r.coverage["search"] = {k: v for k, v in summ.items() if k != "summary"}
    r.coverage["search"]["reported"] = len(viols)
    what = {"idempotent": "formatting the formatter's output again changes it",
            "reparse": "the formatter's output does not parse",
            "compile-iff": "the source and the formatter's output do not compile alike",
            "tree": "the source and the formatter's output compile to different trees",
            "run": "the source and the formatter's output compute different results",
            "format-panic": "the formatter panics"}
    seen = set()
    for v in viols:
        key = v["key"]
        if (key, v["violation"]) in seen:
            continue
        seen.add((key, v["violation"]))
        r.violation(key, "%s [%s]: input %r -> %r -> %r (%s)" % (what.get(v["violation"], v["violation"]), v["cfg"], v["input"], v["fmt1"], v["fmt2"], v["detail"][:160]),
                    {"kind": v["violation"], "config": v["cfg"], "found_under": v["found_cfg"], "input": v["input"], "format": v["fmt1"], "format_format": v["fmt2"],
                     "detail": v["detail"], "source_category": v["cat"],
                     "cmd": "printf %%s %s | .cache/target/verif/c10 probe %s" % (json.dumps(v["input"], ensure_ascii=False), v["cfg"])},
                    theorem="C10_search_" + v["violation"])
    # V-tie rejections (keyed like the search's violations)
    for c in getattr(r, "_vtie_bad", []):
        if (c.get("key"), "tree") in seen:
            continue
        seen.add((c.get("key"), "tree"))
        r.violation(c.get("key") or ("vtie:" + c["src"][:80]), "node_eqb rejects the compiled trees of a source and of its formatted text [%s]: %r" % (c["cfg"], c.get("small") or c["src"][:200]),
                    {"src": c["src"], "fmt": c["fmt"], "cfg": c["cfg"], "shrunk": c.get("small")}, theorem="C10_prog_eqb_sound")
    for c in getattr(r, "_vtie_iff", []):
        if (c.get("key"), "compile-iff") in seen:
            continue
        seen.add((c.get("key"), "compile-iff"))
        r.violation(c.get("key") or ("vtie-iff:" + c["src"][:80]), "a source and its formatted text do not compile alike [%s]: %r" % (c["cfg"], c.get("small") or c["src"][:200]),
                    {k: c.get(k) for k in ("src", "fmt", "cfg", "small", "src_compiles", "fmt_compiles")}, theorem="C10_search_compile-iff")
    r.sample({"search": "counts by key", "violation_keys": summ.get("violation_keys")})
    r.coverage["evaluations"] = summ["evaluations"] + r.coverage.get("tie_V", {}).get("pairs", 0) + r.coverage.get("tie_C", {}).get("cases", 0)
    r.coverage["distinct_nontrivial"] = summ["changed_by_format"]
    r.coverage["rule"] = ("search evaluation = one (source, formatter configuration) pair, checked for: second pass = first pass, output parses, "
                          "compiles iff, equal trees (exported + Debug rendering + binding visibility + module-body interface), equal stacks and "
                          "stdout. Sources: regression seeds (every former counterexample), corpus files, corpus chunks (split at blank lines), "
                          "their re-renderings from the real lexer's tokens (ASCII primitive names, = for <-, ` for negative, ,n subscripts, extra "
                          "spaces, line breaks inside brackets, ; unsplit markers at line ends/starts), the module-visibility family (header import "
                          "lines in all 4 visibility combinations, nested, used from outside, private bindings/imports), the unsplit-marker family "
                          "(; between identifiers/numbers/glyphs/strings in functions, arrays, packs, top level), generated programs (bindings, "
                          "modules, imports, data definitions, packs, multi-line arrays/functions, strings, comments of every kind, numbers with "
                          "exponent signs and signed fractions). Failing inputs are shrunk (lines, then graphemes) and keyed "
                          "fmt:<option>/<construct>. Non-trivial = the formatter changed the text. C tie: generated lines of model words "
                          "(incl. lines joined by ;), spelled with arbitrary spacing and ASCII spellings, format_str output byte-compared with "
                          "render and the real lexer's reading of it with lex. V tie: node_eqb evaluated in Coq on the exported trees of "
                          "(source, formatted) pairs.")
    r.log("search: %d evaluations over %d sources x %d configs, %d reported" % (summ["evaluations"], summ["sources"], summ["configs"], len(viols)))
