"""C12 - compiling/running a program is independent of what the thread compiled or ran before."""
from common import *

THEOREM_OF = {
    "un-inverse": "C12_inverse_cache_transparent",
    "anti-inverse": "C12_inverse_cache_transparent",
    "under-inverse": "C12_inverse_cache_transparent",
    "un-inverse:spans-len": "C12_inverse_cache_store_transparent",
    "anti-inverse:spans-len": "C12_inverse_cache_store_transparent",
    "under-inverse:spans-len": "C12_inverse_cache_store_transparent",
    "zip-fast-fn": "C12_zip_cache_transparent",
    "purity": "C12_purity_cache_refuted",
    "sig": "C12_sig_cache_sufficient",
    "pre-eval": "C12_pre_eval_cache_transparent",
}
SENTINEL = 4294967295


def run(r):
    quick = r.tier == "quick"
    r.trusted += TRUSTED_COMMON + [
        "the Hash feed of Node (discriminants, length prefixes, fields; a Function feeds its body hash and its signature) and what Node::hash_deep adds "
        "(every span index, every call's function index and id, with an assembly the same for called bodies) are injective encodings of the model's "
        "projections [erase] / [deep] / [shallow]; the tie checks equal/unequal of the REAL keys against the model on generated pairs, not the feed itself",
        "the key hooks uiua::verif::c12::{sig_key,node_key,inverse_key,zip_key} call the real Hash / hash_deep; anti_inverse_key repeats the three hashing lines of "
        "un.rs anti_inverse (for_un first); the cache statics are function-local and cannot be reached, so the hit behaviour of the real un cache is tied separately "
        "(y asked right after x in one new thread) and the history search observes all the real caches",
        "the exporter prints CustomInverse, NoInline, TrackCaller, Label, Format and the other rare variants as opaque nodes (content hash + own span): "
        "the tie does not vary ingredients inside them",
        "[deps] over-approximates what each cached computation reads (read from the Rust; checked on pairs: equal deps and equal spans-table length => equal real "
        "un-inverse; equal sig deps => equal real signature)",
        "the per-cache bypass switch (verif::c12::set_bypass: a cache is emptied on every use) and the MATCH_CONST_SPAN switch only serve to name the responsible "
        "cache in a violation key; the comparison history-vs-fresh-thread itself uses no hook",
        "the regex, big-constant and geometric-algebra tables are keyed by their whole input (identity key), the wasm-only import cache and the on-disk .uasm cache: not modelled",
    ]
    r.assumptions += [
        "no collision of the 64-bit RapidHasher hash among the keys of a history (premise of C12_memo_transparent_hashed; the theorems about the real caches take an "
        "injective kinj for the hash); Function.hash identifies the body (wf_body, comptime cache)",
        "the inversion reads of the assembly only: the input nodes, the bodies of the functions they call, and the length of the spans table (which, when read, keeps the "
        "result out of the cache: inv_store_l); the handle's origin field is not keyed (no text program moves it without moving a span)",
        "the comptime cache's gate is modelled as `does not read the backend`; the code asks is_pure, whose own cache is the open purity finding",
        "nodes reaching the comptime cache contain no CallGlobal (globals = []): matches_nodes admits only constants, which compile to Push",
        "outcomes that differ between two fresh runs (random, time) or hit the execution limit are excluded from the comparison; a comptime result cached as `timed out` "
        "(40 ms limit) is timing-dependent and not modelled",
    ]
    if not r.harness(["c12"]):
        return
    r.proofs()

    # ---- tie: which ingredients the REAL keys forget, on pairs of real trees differing in one ingredient
    n = 600 if quick else 8000
    rc, out, err = run_bin("c12", ["tie", n], seed=r.seed, timeout=1500)
    all_lines = json_lines(out)
    scases = [c for c in all_lines if c.get("store")]
    cases = [c for c in all_lines if not c.get("store")]
    if rc != 0 or len(cases) < n // 2:
        r.broken_obligation("tie-harness", "c12 tie failed to run or produced too few cases (%d)" % len(cases), (out[-1000:] + err[-2000:]))
    shard = 200
    jobs = []
    for si, ch in enumerate(chunks(cases, shard)):
        body = ";\n".join("TC %s %s %s %s %s %s %s %s %s %d %d %s %s" % (c["x"], c["y"], str(c["sig_eq"]).lower(), str(c["node_eq"]).lower(), str(c["inv_eq"]).lower(), str(c["zip_eq"]).lower(),
                                                                str(c["fx"]).lower(), str(c["fy"]).lower(), str(c["anti_eq"]).lower(),
                                                                c["gx"], c["gy"], str(c["ix"]).lower(), str(c["iy"]).lower()) for c in ch)
        text = ("From Coq Require Import List NArith. Import ListNotations.\nFrom UV Require Import Model.Memo.\nOpen Scope N_scope.\n"
                "Definition cases : list tcase := [\n%s\n].\n"
                "Eval vm_compute in (failing_from tcase_ok 0 cases ++ [%d] ++ flat_map deps_eq cases).\n" % (body, SENTINEL))
        jobs.append(("c12_tie_%d" % si, text))
    results = coq_eval_many(jobs, timeout=900)
    mism, dep_mism, beh_mism, ubeh_mism = [], [], [], []
    stats = {"deps_differ_and_un_differs": 0, "deps_differ_but_un_equal": 0, "un_compared": 0, "sig_compared": 0}
    for si, (rc2, o) in enumerate(results):
        ch = cases[si * shard:(si + 1) * shard]
        ints = coq_ints(o)
        if rc2 != 0 or SENTINEL not in ints:
            r.broken_obligation("tie-eval", "Coq evaluation of tie shard %d failed" % si, o[-1500:])
            continue
        k = ints.index(SENTINEL)
        for i in ints[:k]:
            mism.append(ch[i])
        deps = ints[k + 1:]
        if len(deps) != 5 * len(ch):
            r.broken_obligation("tie-eval", "tie shard %d: unexpected output size" % si, o[-800:])
            continue
        for j, c in enumerate(ch):
            inv_same, sig_same, all_same, inv_key_same, under_key_same = deps[5 * j:5 * j + 5]
            if c.get("under_collide", 2) != 2:
                stats["under_cache_behaviour_compared"] = stats.get("under_cache_behaviour_compared", 0) + 1
                # the real under cache returned x's entry for y  <=>  the model's under keys are equal and x's entry was stored
                if (c["under_collide"] == 1) != (under_key_same == 1 and not c["under_x_reads"]):
                    ubeh_mism.append(c)
            if c.get("un_collide", 2) != 2:
                stats["cache_behaviour_compared"] = stats.get("cache_behaviour_compared", 0) + 1
                # the real cache returned x's inverse for y  <=>  the model's inverse keys are equal
                # (a hit is only used when the cached inverse has no top-level MatchPattern: [usable], un.rs:45-51)
                if (c["un_collide"] == 1) != (inv_key_same == 1 and c["x_usable"] and not c["un_x_reads"]):
                    beh_mism.append(c)
            if c["un_eq"] in (0, 1):
                stats["un_compared"] += 1
                # (the inversion also reads asm.spans.len(): inv_deps_l; pairs built across two assemblies can differ there)
                if inv_same == 1 and c["un_eq"] == 0 and c["lx"] == c["ly"]:
                    dep_mism.append(("un-inverse", c))
                if inv_same == 1 and c["un_eq"] == 0 and c["lx"] != c["ly"]:
                    stats["differ_by_spans_len_only"] = stats.get("differ_by_spans_len_only", 0) + 1
                if inv_same == 0:
                    stats["deps_differ_and_un_differs" if c["un_eq"] == 0 else "deps_differ_but_un_equal"] += 1
            if c["rsig_eq"] != 2:
                stats["sig_compared"] += 1
                if sig_same == 1 and c["rsig_eq"] == 0:
                    dep_mism.append(("sig", c))
    kinds = {}
    for c in cases:
        k = kinds.setdefault(c["kind"], {"pairs": 0, "content_key_equal": 0, "inverse_key_equal": 0, "zip_key_equal": 0})
        k["pairs"] += 1
        k["content_key_equal"] += 1 if c["node_eq"] else 0
        k["inverse_key_equal"] += 1 if c["inv_eq"] else 0
        k["zip_key_equal"] += 1 if c["zip_eq"] else 0
    r.coverage["tie"] = {"kind": "C", "cases": len(cases), "mismatches": len(mism), "dependency_mismatches": len(dep_mism),
                         "by_ingredient": kinds, "dependency_stats": stats,
                         "distinct_pairs": len(set((c["x"], c["y"]) for c in cases))}
    for c in cases[:1] + [c for c in cases if c["kind"] == "fn-body-spans"][:1] + [c for c in cases if c["kind"] == "nested-span"][:1]:
        r.sample({"tie_pair": c["show"], "ingredient": c["kind"], "real_content_key_equal": c["node_eq"], "real_inverse_key_equal": c["inv_eq"]})
    r.log("tie: %d pairs, %d key mismatches, %d dependency mismatches" % (len(cases), len(mism), len(dep_mism)))
    if mism:
        c = mism[0]
        r.broken_obligation("tie:Memo.v~cache-keys", "model and implementation disagree on whether two trees have equal cache keys (%d of %d; ingredient %s)"
                            % (len(mism), len(cases), c["kind"]),
                            json.dumps({"pair": c["show"], "ingredient": c["kind"], "impl": {"anti_key_eq": c["anti_eq"], "sig_key_eq": c["sig_eq"], "node_key_eq": c["node_eq"], "inverse_key_eq": c["inv_eq"], "zip_key_eq": c["zip_eq"]},
                                        "x": c["x"], "y": c["y"]}, ensure_ascii=False))
    r.coverage["tie"]["cache_behaviour_mismatches"] = len(beh_mism)
    r.coverage["tie"]["under_cache_behaviour_mismatches"] = len(ubeh_mism)
    if ubeh_mism:
        c = ubeh_mism[0]
        r.broken_obligation("tie:Memo.v~under-cache-behaviour", "the real under cache does not behave as the model's under_key / len_store say: asked for y right after x "
                            "(different results), it %s x's entry (%d cases; ingredient %s)" % ("returned" if c["under_collide"] == 1 else "did not return", len(ubeh_mism), c["kind"]),
                            json.dumps({"pair": c["show"], "ingredient": c["kind"], "g_sig": [c["gx"], c["gy"]], "inverse": [c["ix"], c["iy"]], "x_reads_len": c["under_x_reads"],
                                        "x": c["x"], "y": c["y"]}, ensure_ascii=False))
    # ---- the store side condition on the real caches: a result whose making read the table length is not served again
    sjobs = []
    for si, ch in enumerate(chunks(scases, 300)):
        body = ";\n".join("SC %s %d %s" % (c["x"], c["len"], str(c["reads"]).lower()) for c in ch)
        text = ("From Coq Require Import List NArith. Import ListNotations.\nFrom UV Require Import Model.Memo.\nOpen Scope N_scope.\n"
                "Definition cases : list scase := [\n%s\n].\nEval vm_compute in (%d :: map scase_stored cases).\n" % (body, SENTINEL))
        sjobs.append(("c12_store_%d" % si, text))
    smism, sobs = [], 0
    for si, (rc2, o) in enumerate(coq_eval_many(sjobs, timeout=900)):
        ch = scases[si * 300:(si + 1) * 300]
        ints = coq_ints(o)
        if rc2 != 0 or not ints or ints[0] != SENTINEL or len(ints) != len(ch) + 1:
            r.broken_obligation("tie-eval", "Coq evaluation of store shard %d failed" % si, o[-1500:])
            continue
        for c, m in zip(ch, ints[1:]):
            if c["stored"] != 2:
                sobs += 1
                if c["stored"] != m:
                    smism.append(c)
    r.coverage["tie"]["store_cases"] = {"cases": len(scases), "length_read_and_observed": sobs, "mismatches": len(smism),
                                        "by_cache": {w: sum(1 for c in scases if c["which"] == i and c["stored"] != 2) for i, w in enumerate(("un", "anti", "under"))}}
    if smism:
        c = smism[0]
        r.broken_obligation("tie:Memo.v~store-condition", "an inverse whose making read the spans-table length was served again from the %s cache (%d cases): len_store says it is not stored"
                            % (("un", "anti", "under")[c["which"]], len(smism)), json.dumps({"tree": c["show"], "x": c["x"], "len": c["len"]}, ensure_ascii=False))
    if beh_mism:
        c = beh_mism[0]
        r.broken_obligation("tie:Memo.v~un-cache-behaviour", "the real un-inverse cache does not behave as the model's key says: asked for y right after x (different inverses), "
                            "it %s x's entry although in the model the keys are %s (%d cases; ingredient %s)"
                            % ("returned" if c["un_collide"] == 1 else "did not return",
                               "different or the entry is not usable" if c["un_collide"] == 1 else "equal and the entry is usable", len(beh_mism), c["kind"]),
                            json.dumps({"pair": c["show"], "ingredient": c["kind"], "x": c["x"], "y": c["y"]}, ensure_ascii=False))
    if dep_mism:
        which, c = dep_mism[0]
        r.broken_obligation("tie:Memo.v~deps", "the model's dependencies of the %s computation miss something: equal deps, different real results (%d cases)" % (which, len(dep_mism)),
                            json.dumps({"pair": c["show"], "ingredient": c["kind"], "x": c["x"], "y": c["y"]}, ensure_ascii=False))

    # ---- search: histories on the implementation
    m = 500 if quick else 12000
    if r.broken:
        m *= 3
    rc, out, err = run_bin("c12", ["search", m], seed=r.seed, timeout=3000)
    lines = json_lines(out)
    summ = [l for l in lines if l.get("summary")]
    viols = [l for l in lines if "violation" in l]
    if rc != 0 or not summ:
        # the harness process died (e.g. a native stack overflow while running a history): what it found so far still counts
        last = [l for l in err.split("\n") if l.startswith("@@HIST ")]
        hist = json.loads(last[-1][7:]) if last else None
        r.broken_obligation("search-harness", "c12 search died (rc %s) while running the history %s" % (rc, json.dumps(hist, ensure_ascii=False)), (out[-1000:] + err[-2000:]))
        if hist:
            r.violation("history-kills-process", "running the history %s in one thread kills the process (%s)" % (json.dumps(hist, ensure_ascii=False), err.strip().split("\n")[-1][:200]),
                        {"history": hist, "stderr_tail": err[-600:], "cmd": "c12 hist <programs>"}, theorem="C12_memo_transparent")
        counts = {}
        for v in viols:
            counts[v["violation"]] = counts.get(v["violation"], 0) + 1
        summ = [{"evaluations": 0, "histories": len(last), "compared": 0, "skipped_nondeterministic": 0, "distinct_programs": 0, "corpus_chunks": 0,
                 "thread_cases": 0, "families": {}, "violation_counts": counts}]
    s = summ[0]
    r.coverage["search"] = {k: s[k] for k in ("evaluations", "histories", "compared", "skipped_nondeterministic", "distinct_programs",
                                                 "corpus_chunks", "thread_cases", "families", "violation_counts")}
    r.log("search: %d histories, %d comparisons, violations %s" % (s["histories"], s["compared"], s["violation_counts"]))
    seen = set()
    for v in viols:
        key = v["violation"]
        if key in seen:
            continue
        seen.add(key)
        cache = (key[6:] if key.startswith("cache:") else key).split("/")[0].split("+")[0]
        r.violation(key, "in one thread, after %s the program %s gives %s; in a fresh thread it gives %s" %
                    (json.dumps(v["history"][:-1], ensure_ascii=False), json.dumps(v["program"], ensure_ascii=False), v["hist"][:300], v["fresh"][:300]),
                    {"history": v["history"], "program": v["program"], "in_history": v["hist"], "fresh_thread": v["fresh"], "family": v.get("family"),
                     "count_this_run": s["violation_counts"].get(key), "cmd": "VERIF_SEED=%d c12 search %d  |  c12 hist <programs>" % (r.seed, m)},
                    theorem=THEOREM_OF.get(cache, "C12_memo_transparent"))
        r.sample({"history": v["history"], "in_history": v["hist"][:200], "fresh_thread": v["fresh"][:200], "key": key})
    # the refutation theorems speak about the current code: their real witnesses must still fail
    expected = {"cache:purity/error": "C12_purity_cache_refuted"}
    stale = [k for k in expected if k not in s["violation_counts"]] if rc == 0 else []   # (a search that died is incomplete)
    r.coverage["refutation_witnesses_confirmed"] = [k for k in expected if k in s["violation_counts"]]
    if stale:
        r.broken_obligation("refutation-witness-stale", "the real witnesses of %s no longer fail on the implementation: Memo.v models keys the code no longer has" % [expected[k] for k in stale],
                            json.dumps({"missing": stale, "seen": s["violation_counts"]}))
        r.notes.append("the real witnesses of %s no longer fail on the implementation: the model of the current keys is out of date "
                       "(the tie decides; if the code was repaired, replace the _refuted theorems by the _after_fix ones)" % [expected[k] for k in stale])
    r.coverage["evaluations"] = len(cases) + s["evaluations"]
    r.coverage["distinct_nontrivial"] = s["distinct_programs"] + len(set((c["x"], c["y"]) for c in cases if c["kind"] != "identical"))
    r.coverage["rule"] = ("tie: a random sub-tree (outside opaque variants) of a real compiled program (generated definitions + one use line, Lazy pre-eval) paired with a copy in "
                          "which one ingredient differs: a nested span, the first span, a literal, a primitive, a binding index, for_un, the g_sig or the inverse flag given to under, "
                          "the function handles' index (with / "
                          "without the body spans moving: an earlier constant toggled to a constant function), the spans inside called bodies, a handle's name, its sig "
                          "field, a declared signature over the same body; for each pair the real signature / node / inverse / anti / fast-function keys must be equal "
                          "exactly when the model's are; the real un cache and the real under cache (y asked right after x in one new thread, through Node::un_inverse / "
                          "Node::under_inverse) must hit exactly when the model's key (inv_key / under_key) is equal, the entry usable and x's making did not read the "
                          "spans-table length; equal model deps must give equal real inverses and signatures; and for a third of the trees the store side condition "
                          "(len_store) is observed on the real un / anti / under caches: the same tree inverted again in the same thread with a longer spans table must be "
                          "made anew whenever its fresh result depends on the table length.  search: first the regression corpus (24 histories: every pair that ever differed, repaired or "
                          "open), then histories of 2-6 generated programs sharing content at different positions, function indices and names, programs that keep a call to "
                          "a constant function in a cached inverse paired with their const-fn edit in both orders, consecutive corpus chunks of tests/*.ua and examples/*.ua, "
                          "a chunk with its shifted / reordered / renamed / re-valued / const-fn edit, six texts compiled in Lsp mode on the native and then the denying "
                          "backend; every program of a history is compared with its outcome (values, error text, positions, trace, diagnostics) in a fresh thread; the same "
                          "program on 8 threads at once.  A difference is keyed by the cache whose emptying removes it (and :spans-len when the match-constant span switch "
                          "removes it).  non-trivial = distinct program texts + distinct non-identical tree pairs")


def replay(rec):
    """re-run the recorded history in one thread and every program of it in a fresh thread"""
    hist = (rec.get("detail") or {}).get("history")
    if not hist:
        print("nothing to replay in this record (a broken obligation: run ./check C12 %s)" % rec.get("tier", "quick"))
        return 2
    ok, out, dt, cmd = build_harness(["c12"])
    if not ok:
        print(out[-2000:])
        return 2
    rc, out, err = run_bin("c12", ["hist"] + [p.replace("\n", "\\n") for p in hist], timeout=300)
    print(out)
    still = "DIFF" in out
    print("VIOLATION property=C12 (still reproduces)" if still else "no longer reproduces")
    return 1 if still else 0
