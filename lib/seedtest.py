#!/usr/bin/env python3
"""Run a property's check against an ISOLATED, mutated copy of /repo (so that /repo itself and
other running checks are not disturbed):  lib/seedtest.py seeded/<dir> Cxx [quick|thorough]
Exit status 0 = the check raised a VIOLATION on the mutated copy (the seed is caught)."""
import json
import os
import shutil
import subprocess
import sys

ROOT = os.path.dirname(os.path.dirname(os.path.abspath(__file__)))


def main():
    seed, prop = sys.argv[1], sys.argv[2]
    tier = sys.argv[3] if len(sys.argv) > 3 else "quick"
    name = os.path.basename(os.path.normpath(seed))
    work = "/tmp/seedtest_" + name
    shutil.rmtree(work, ignore_errors=True)
    os.makedirs(work)
    repo = os.path.join(work, "repo")
    subprocess.check_call(["rsync", "-a", "--exclude", "/target", "--exclude", "/.git", "/repo/", repo + "/"])
    subprocess.check_call(["patch", "-p1", "-s", "-i", os.path.abspath(os.path.join(seed, "patch.diff"))], cwd=repo)
    harness = os.path.join(work, "harness")
    shutil.copytree(os.path.join(ROOT, "harness"), harness, ignore=shutil.ignore_patterns("target"))
    ct = os.path.join(harness, "Cargo.toml")
    text = open(ct).read().replace('path = "/repo"', 'path = "%s"' % repo)
    open(ct, "w").write(text)
    env = dict(os.environ, VERIF_HARNESS_DIR=harness, VERIF_TARGET_DIR="/tmp/seedtest_target",
               VERIF_OUT_DIR=os.path.join(work, "out"), VERIF_TAG="seed_%s_" % name)
    p = subprocess.run([os.path.join(ROOT, "check"), prop, tier], env=env, stdout=subprocess.PIPE, stderr=subprocess.STDOUT, text=True)
    out = p.stdout
    viol = [l for l in out.split("\n") if l.startswith("VIOLATION")]
    print(out[-3000:])
    res = {"seed": name, "property": prop, "tier": tier, "exit": p.returncode, "violation_lines": viol[:5], "caught": bool(viol) and p.returncode == 1 and "harness build FAILED" not in out,
           "concrete_input": any("no-failing-input-found" not in l for l in viol)}
    print(json.dumps(res))
    json.dump(res, open(os.path.join(seed, "result_%s_%s.json" % (prop, tier)), "w"), indent=1)
    shutil.rmtree(work, ignore_errors=True)
    return 0 if res["caught"] else 1


if __name__ == "__main__":
    sys.exit(main())
