"""C05 - every array the interpreter produces is internally well-formed."""
from common import *


def _drive(mode, lo, hi, seed, per_proc_timeout=600):
    """run `c05 <mode> lo hi`, resuming after cases that hang or crash the process.
    returns (json lines, list of (case, why))"""
    lines, skipped = [], []
    cur = lo
    guard = 0
    while cur < hi and guard < 200:
        guard += 1
        rc, out, err = run_bin("c05", [mode, cur, hi], seed=seed, timeout=per_proc_timeout)
        js = json_lines(out)
        lines += js
        if rc == 0:
            break
        hang = [l["hang"] for l in js if "hang" in l]
        if rc == 3 and hang:
            skipped.append((hang[-1], "no result within 8 s (execution limit not honoured)"))
            cur = hang[-1] + 1
            continue
        # crash (abort, stack overflow, kill): the last progress marker tells where
        last = [l["at"] for l in js if "at" in l]
        m = re.findall(r"#(\d+)", err[-4000:])
        at = int(m[-1]) if m else (last[-1] if last else cur)
        skipped.append((at, "process ended with code %s: %s" % (rc, err[-300:].replace("\n", " "))))
        cur = at + 1
    return lines, skipped


def search(r, n_cases, shards):
    per = (n_cases + shards - 1) // shards
    ranges = [(i * per, min(n_cases, (i + 1) * per)) for i in range(shards) if i * per < n_cases]
    with ThreadPoolExecutor(max_workers=NCPU) as ex:
        res = list(ex.map(lambda ab: _drive("search", ab[0], ab[1], r.seed), ranges))
    lines, skipped = [], []
    for l, s in res:
        lines += l
        skipped += s
    return lines, skipped


def report_violations(r, lines, origin):
    viols = [l for l in lines if "violation" in l]
    by_key = {}
    for v in viols:
        k = v["violation"]
        cur = by_key.get(k)
        if cur is None or len(v.get("standalone") or v["program"]) < len(cur.get("standalone") or cur["program"]):
            v["count"] = (cur or {}).get("count", 0) + 1
            by_key[k] = v
        else:
            cur["count"] += 1
    for k in sorted(by_key):
        v = by_key[k]
        what = "%s: %s -- program `%s`" % (k, v["msg"], (v.get("standalone") or v["program"]).replace("# Experimental!", "").strip())
        if v.get("observable"):
            what += " -- observable through %s" % v["observable"][:300]
        r.violation(k, what,
                    {"key": k, "validator_message": v["msg"], "program": v["program"], "standalone": v.get("standalone"),
                     "full_program": v.get("full_program"), "args": v.get("args"), "value": v.get("value"),
                     "observable_difference": v.get("observable"), "occurrences": v["count"],
                     "cmd": "VERIF_SEED=%d .cache/target/verif/c05 one %s   (origin: %s)" % (r.seed, v.get("case"), origin)},
                    theorem="C05_wf_preserved")
    return by_key


def sum_stats(lines):
    tot = {}
    prim = {}
    errk = {}
    for l in lines:
        if not l.get("summary"):
            continue
        for k, v in l.items():
            if isinstance(v, int) and not isinstance(v, bool):
                tot[k] = tot.get(k, 0) + v
        for k, v in l.get("prim_ok", {}).items():
            prim[k] = prim.get(k, 0) + v
        for k, v in l.get("err_kinds", {}).items():
            errk[k] = errk.get(k, 0) + v
    return tot, prim, errk


def run(r):
    quick = r.tier == "quick"
    r.trusted += TRUSTED_COMMON + [
        "uiua::verif::check_value (the release-mode validator hook) is the executable form of flags_ok; it is cross-checked against the Coq predicate on exported values on every run",
        "IEEE-754 comparison of doubles = comparison of sign-magnitude bit keys (f_key), as in C15",
    ]
    r.assumptions += ["sortedness is stated with the row order of C15 (value_cmp, proved a total preorder there)",
                      "the theorems cover the modelled primitives only; every other primitive and all modifiers are covered by the monitor"]
    if not r.harness(["c05"]):
        return
    r.proofs()

    # ---- search / monitor
    n = 6000 if quick else 400000
    lines, skipped = search(r, n, NCPU if quick else NCPU * 4)
    clines, cskipped = _drive("corpus", 0, 0, r.seed)
    tot, prim, errk = sum_stats(lines)
    ctot, _, _ = sum_stats(clines)
    by_key = report_violations(r, lines, "generated programs")
    by_key_c = report_violations(r, clines, "corpus chunks of /repo/tests/*.ua")
    rc, out, err = run_bin("c05", ["prims"], seed=r.seed)
    all_prims = [l.split()[0] for l in out.split("\n") if l.strip()]
    never = [p for p in all_prims if prim.get(p, 0) == 0]
    r.coverage["search"] = {"generated_programs": tot.get("cases", 0), "ran_to_completion": tot.get("ok", 0),
                            "errors": tot.get("err", 0), "values_checked": tot.get("values", 0),
                            "values_with_marks": tot.get("marked", 0), "map_values": tot.get("maps", 0),
                            "box_values": tot.get("boxes", 0), "consumer_experiments": tot.get("consumer_runs", 0),
                            "top_error_kinds": dict(sorted(errk.items(), key=lambda kv: -kv[1])[:8]),
                            "primitives_in_generator": len(all_prims),
                            "primitives_in_a_completed_program": len(all_prims) - len(never),
                            "primitives_never_completed": never[:60],
                            "corpus_chunks": ctot.get("cases", 0), "corpus_chunks_completed": ctot.get("ok", 0),
                            "corpus_values_checked": ctot.get("values", 0),
                            "skipped_cases(hang/crash)": [list(s) for s in (skipped + cskipped)[:10]],
                            "distinct_violation_keys": sorted(set(by_key) | set(by_key_c))}
    r.log("search: %d programs (%d completed), %d values checked (%d marked), %d corpus chunks, %d violation keys, %d skipped"
          % (tot.get("cases", 0), tot.get("ok", 0), tot.get("values", 0), tot.get("marked", 0), ctot.get("cases", 0),
             len(set(by_key) | set(by_key_c)), len(skipped) + len(cskipped)))
    r.coverage["evaluations"] = tot.get("cases", 0) + ctot.get("cases", 0)
    r.coverage["distinct_nontrivial"] = tot.get("marked", 0)
    r.coverage["rule"] = ("programs = 1-3 top-level terms, each a composition (depth <= 2) of all non-system primitives and modifiers "
                          "(inverses, under, fill included) or a directed family (F after sort / sort-down, dyadic with special scalars, "
                          "under, un, fill, reduce/scan/rows/table of a dyadic function), applied to 4 generated arrays (all element types, "
                          "rank 0-3, empty axes, NaN/inf/-0/1e300, maps, pre-sorted marked inputs); non-trivial = checked values that carry a mark")
