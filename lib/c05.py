"""C05 - every array the interpreter produces is internally well-formed."""
from common import *


def _drive(mode, lo, hi, seed, per_proc_timeout=600):
    """run `c05 <mode> lo hi`, resuming after cases that hang or crash the process.
    returns (json lines, list of (case, why))"""
    lines, skipped = [], []
    cur = lo
    guard = 0
    while cur < hi and guard < 200:
        guard += 1
        rc, out, err = run_bin("c05", [mode, cur, hi], seed=seed, timeout=per_proc_timeout)
        js = json_lines(out)
        lines += js
        if rc == 0:
            break
        hang = [l["hang"] for l in js if "hang" in l]
        if rc == 3 and hang:
            skipped.append((hang[-1], "no result within 8 s (execution limit not honoured)"))
            cur = hang[-1] + 1
            continue
        # crash (abort, stack overflow, kill): the last progress marker tells where
        last = [l["at"] for l in js if "at" in l]
        m = re.findall(r"#(\d+)", err[-4000:])
        at = int(m[-1]) if m else (last[-1] if last else cur)
        skipped.append((at, "process ended with code %s: %s" % (rc, err[-300:].replace("\n", " "))))
        cur = at + 1
    return lines, skipped


def search(r, n_cases, shards):
    per = (n_cases + shards - 1) // shards
    ranges = [(i * per, min(n_cases, (i + 1) * per)) for i in range(shards) if i * per < n_cases]
    with ThreadPoolExecutor(max_workers=NCPU) as ex:
        res = list(ex.map(lambda ab: _drive("search", ab[0], ab[1], r.seed), ranges))
    lines, skipped = [], []
    for l, s in res:
        lines += l
        skipped += s
    return lines, skipped


def report_violations(r, lines, origin):
    viols = [l for l in lines if "violation" in l]
    by_key = {}
    for v in viols:
        k = v["violation"]
        cur = by_key.get(k)
        if cur is None or len(v.get("standalone") or v["program"]) < len(cur.get("standalone") or cur["program"]):
            v["count"] = (cur or {}).get("count", 0) + 1
            by_key[k] = v
        else:
            cur["count"] += 1
    for k in sorted(by_key):
        v = by_key[k]
        what = "%s: %s -- program `%s`" % (k, v["msg"], (v.get("standalone") or v["program"]).replace("# Experimental!", "").strip())
        if v.get("observable"):
            what += " -- observable through %s" % v["observable"][:300]
        r.violation(k, what,
                    {"key": k, "validator_message": v["msg"], "program": v["program"], "standalone": v.get("standalone"),
                     "full_program": v.get("full_program"), "args": v.get("args"), "value": v.get("value"),
                     "observable_difference": v.get("observable"), "occurrences": v["count"],
                     "cmd": "VERIF_SEED=%d .cache/target/verif/c05 one %s   (origin: %s)" % (r.seed, v.get("case"), origin)},
                    theorem="C05_wf_preserved")
    return by_key


def sum_stats(lines):
    tot = {}
    prim = {}
    errk = {}
    for l in lines:
        if not l.get("summary"):
            continue
        for k, v in l.items():
            if isinstance(v, int) and not isinstance(v, bool):
                tot[k] = tot.get(k, 0) + v
        for k, v in l.get("prim_ok", {}).items():
            prim[k] = prim.get(k, 0) + v
        for k, v in l.get("err_kinds", {}).items():
            errk[k] = errk.get(k, 0) + v
    return tot, prim, errk


def run(r):
    quick = r.tier == "quick"
    r.trusted += TRUSTED_COMMON + [
        "uiua::verif::check_value (the release-mode validator hook) is the executable form of flags_ok; it is cross-checked against the Coq predicate on exported values on every run",
        "IEEE-754 comparison of doubles = comparison of sign-magnitude bit keys (f_key), as in C15",
        "the map clause (key table entries distinct, pointing at existing rows, count = row count) is checked by check_value only; it is not in the Coq model (C16 owns the map model)",
        "validator limit: for a map whose keys are rows without elements an empty key-table cell cannot be told from the key, so check_value's 'two keys on one row / duplicate key' verdict on exactly such maps is skipped and counted (coverage.search.zero_width_key_skips); get/has/insert/remove on such maps are exercised by the regression corpus",
        "the consumer experiment skips a pair when either run hits the 400 ms execution limit",
    ]
    r.assumptions += ["sortedness is stated with the row order of C15 (value_cmp, proved a total preorder there)",
                      "C05_wf_preserved covers reverse, first, last, fix, deshape, sort, sort-down, couple of equal shape and type, and take / drop with one integer "
                      "amount and no fill (data, storage type and marks recomputed in Coq); the mark rules of "
                      "negate, range, classify, transpose, where, floor, ceiling, round, not, absolute value, sign, add, subtract, multiply, divide, minimum, maximum, "
                      "select, keep (scalar natural count, list of natural counts) and rotate are transcribed (current code: fixed = true / cur_ver) and tied on every run, with truthfulness theorems under explicit side "
                      "conditions (monotone / antitone rows, in-bounds non-negative indices, rows selected at non-decreasing positions); every other primitive, all modifiers, inverses, fills and maps are "
                      "covered by the release-mode monitor only",
                      "wildcard / map-sentinel NaNs are outside the model (wildcard-free data)"]
    if not r.harness(["c05"]):
        return
    r.proofs()

    # ---- tie (C): concrete marks and storage type of the modelled primitives
    HEAD = ("From Coq Require Import List ZArith NArith Bool. Import ListNotations.\n"
            "From UV Require Import Base.Value Model.Order Model.Flags.\nOpen Scope N_scope.\n")
    n_tie = 1200 if quick else 20000
    rc, out, err = run_bin("c05", ["tie", n_tie], seed=r.seed, timeout=1500)
    cases = json_lines(out)
    if rc != 0 or not cases:
        r.broken_obligation("tie-harness", "c05 tie failed to run", (out + err)[-2000:])
    conc = [c for c in cases if c["k"] == "c"]
    rule = [c for c in cases if c["k"] == "r"]
    shard = 150
    jobs, index = [], []
    for kind, lst, chk in (("c", conc, "ccase_check"), ("r", rule, "rcase_check")):
        for si, ch in enumerate(chunks(lst, shard)):
            body = ";\n".join("(%s)" % c["coq"] for c in ch)
            jobs.append(("c05_tie_%s_%d" % (kind, si), HEAD + "Definition cases := [\n%s\n].\nEval vm_compute in (codes_from %s 0 cases).\n" % (body, chk)))
            index.append(ch)
    results = coq_eval_many(jobs, timeout=900)
    CODE = {1: "result value differs", 2: "marks differ", 3: "error/success differs", 4: "no rule in the model",
            5: "the implementation's marks are not truthful (flags_ok fails)"}
    mism = []
    for ch, (rc2, o) in zip(index, results):
        if rc2 != 0:
            r.broken_obligation("tie-eval", "Coq evaluation of a tie shard failed", o[-1500:])
            continue
        ints = coq_ints(o)
        for i, code in zip(ints[0::2], ints[1::2]):
            mism.append((ch[i], code))
    per_prim = {}
    for c in cases:
        per_prim[c["p"]] = per_prim.get(c["p"], 0) + 1
    # marks that are not truthful are failing inputs of the implementation, not a broken tie
    untruthful = [(c, k) for c, k in mism if k == 5]
    other = [(c, k) for c, k in mism if k != 5]
    r.coverage["tie"] = {"kind": "C", "cases": len(cases), "concrete_cases": len(conc), "rule_cases": len(rule),
                         "per_primitive": per_prim, "mismatches": len(other), "untruthful_marks": len(untruthful),
                         "marked_results": sum(1 for c in cases if "true" in c["out"].split("marks")[-1])}
    for c in cases[:2]:
        r.sample({"tie_case": c["show"][:200], "result": c["out"][:200]})
    r.log("tie: %d cases (%d concrete, %d rule), %d mismatches, %d untruthful" % (len(cases), len(conc), len(rule), len(other), len(untruthful)))
    seen = set()
    for c, k in untruthful:
        key = "tie-untruthful/%s" % c["p"]
        if key in seen:
            continue
        seen.add(key)
        r.violation(key, "primitive %s returns marks that flags_ok rejects: %s -> %s" % (c["p"], c["show"][:300], c["out"][:200]),
                    {"case": c["show"], "result": c["out"], "coq": c["coq"]}, theorem="C05_flag_algebra_sound")
    if other:
        byp = {}
        for c, k in other:
            byp.setdefault((c["p"], k), c)
        detail = [{"prim": p, "why": CODE.get(k, k), "case": c["show"][:400], "impl_result": c["out"][:300]} for (p, k), c in sorted(byp.items())]
        r.broken_obligation("tie:Flags.v~marks", "model and implementation disagree on marks/storage/value of a result for %s (%d of %d cases)"
                            % (sorted(set(p for p, _ in byp)), len(other), len(cases)), json.dumps(detail, ensure_ascii=False)[:6000])

    # ---- validator cross-check: check_value's verdict = deep_okb on exported values
    n_x = 800 if quick else 12000
    rc, out, err = run_bin("c05", ["xcheck", n_x], seed=r.seed, timeout=900)
    xs = json_lines(out)
    if rc != 0 or not xs:
        r.broken_obligation("xcheck-harness", "c05 xcheck failed to run", (out + err)[-2000:])
    jobs = []
    xch = chunks(xs, 200)
    for si, ch in enumerate(xch):
        body = ";\n".join("XC %s %s %s" % (c["v"], c["ft"], "true" if c["ok"] else "false") for c in ch)
        jobs.append(("c05_x_%d" % si, HEAD + "Definition cases := [\n%s\n].\nEval vm_compute in (failing_x 0 cases).\n" % body))
    xm = []
    for ch, (rc2, o) in zip(xch, coq_eval_many(jobs, timeout=900)):
        if rc2 != 0:
            r.broken_obligation("xcheck-eval", "Coq evaluation of a validator shard failed", o[-1500:])
            continue
        for i in coq_ints(o):
            xm.append(ch[i])
    r.coverage["validator_cross_check"] = {"values": len(xs), "rejected_by_validator": sum(1 for c in xs if not c["ok"]),
                                           "disagreements": len(xm)}
    r.log("validator cross-check: %d values (%d rejected), %d disagreements" % (len(xs), sum(1 for c in xs if not c["ok"]), len(xm)))
    if xm:
        c = xm[0]
        r.broken_obligation("tie:check_value~deep_okb", "the validator hook and the Coq predicate disagree on %d of %d values" % (len(xm), len(xs)),
                            json.dumps({"value": c["show"], "validator_ok": c["ok"], "validator_msg": c["msg"], "coq": c["v"], "marks": c["ft"]}, ensure_ascii=False))
    for c in [x for x in xs if not x["ok"]][:1]:
        r.sample({"mis-marked value": c["show"][:200], "validator": c["msg"]})

    # ---- search / monitor
    n = 24000 if quick else 600000
    lines, skipped = search(r, n, NCPU if quick else NCPU * 4)
    rc, out, err = run_bin("c05", ["corpus", 0, 0], seed=r.seed, timeout=900)
    clines, cskipped = json_lines(out), ([] if rc == 0 else [("corpus", "corpus run ended with code %s %s" % (rc, err[-200:]))])
    tot, prim, errk = sum_stats(lines)
    ctot, _, _ = sum_stats(clines)
    by_key = report_violations(r, lines, "generated programs")
    by_key_c = report_violations(r, clines, "corpus chunks of /repo/tests/*.ua")
    rc, out, err = run_bin("c05", ["prims"], seed=r.seed)
    all_prims = [l.split()[0] for l in out.split("\n") if l.strip()]
    never = [p for p in all_prims if prim.get(p, 0) == 0]
    r.coverage["search"] = {"generated_programs": tot.get("cases", 0), "ran_to_completion": tot.get("ok", 0),
                            "errors": tot.get("err", 0), "values_checked": tot.get("values", 0),
                            "values_with_marks": tot.get("marked", 0), "map_values": tot.get("maps", 0),
                            "box_values": tot.get("boxes", 0), "consumer_experiments": tot.get("consumer_runs", 0),
                            "top_error_kinds": dict(sorted(errk.items(), key=lambda kv: -kv[1])[:8]),
                            "primitives_in_generator": len(all_prims),
                            "primitives_in_a_completed_program": len(all_prims) - len(never),
                            "primitives_never_completed": never[:60],
                            "zero_width_key_skips": tot.get("zero_width_key_skips", 0),
                            "regression_inputs_replayed": sum(l.get("regression", 0) for l in lines if "regression" in l),
                            "corpus_chunks": ctot.get("cases", 0), "corpus_chunks_completed": ctot.get("ok", 0),
                            "corpus_values_checked": ctot.get("values", 0),
                            "skipped_cases(hang/crash)": [list(s) for s in (skipped + cskipped)[:10]],
                            "distinct_violation_keys": sorted(set(by_key) | set(by_key_c))}
    r.log("search: %d programs (%d completed), %d values checked (%d marked), %d corpus chunks, %d violation keys, %d skipped"
          % (tot.get("cases", 0), tot.get("ok", 0), tot.get("values", 0), tot.get("marked", 0), ctot.get("cases", 0),
             len(set(by_key) | set(by_key_c)), len(skipped) + len(cskipped)))
    r.coverage["evaluations"] = tot.get("cases", 0) + ctot.get("cases", 0) + len(cases) + len(xs)
    r.coverage["distinct_nontrivial"] = tot.get("marked", 0)
    r.coverage["rule"] = ("every search starts by replaying the regression corpus (86 former failing inputs, on the stack and as a bound constant); "
                          "then case i is one of: (i%12==8) un-/anti-/under- forms of the structural primitives on arrays WITHOUT rows of every type and shape "
                          "([0],[0 3],[2 0],[0 0],[1 0 2],...) and ordinary ones, with index lists / fills; (i%6==5) structural primitives (select weighted, pick, take, "
                          "drop, rotate, keep, rerank, orient, windows, reshape; plain, under, rows, reversed) on arrays marked at run time (sort, sort-down, "
                          "deduplicated sort, range) with monotone index lists MIXING negative and non-negative entries (also unordered, out of bounds, rank 2, scalar), "
                          "with and without a fill; (i%3==2) F after sort / sort-down, dyadic functions with special scalars (0, -0, +-inf, NaN, 1e300, characters, boxes), "
                          "under, un, fill, reduce/scan/rows/table/fold/inventory of a dyadic function; otherwise 1-3 top-level terms, each a composition (depth <= 2) of "
                          "all non-system primitives and modifiers (un, under, fill included), applied to 4 generated arrays (all element types, rank 0-3, empty axes, "
                          "NaN/inf/-0/1e300, byte arrays with the boolean mark, maps, pre-sorted marked inputs), 1 in 6 as a bound constant; plus every blank-line chunk and "
                          "whole file of /repo/tests/*.ua.  After each program check_value runs on every stack value and bound constant (deeply: boxes, map keys); a failure "
                          "is attributed to the shortest failing suffix / single primitive; 14 mark-trusting consumers are applied to the top results and to mark-stripped "
                          "copies.  non-trivial = checked values that carry a mark")
