#!/bin/sh
# usage: goal.sh file.v LINE  -- show the proof state after line LINE (cwd = /verif/coq)
f=$1; n=$2
head -n $n $f > /tmp/_goal.v
echo "Show. " >> /tmp/_goal.v
coqc -Q . UV /tmp/_goal.v 2>&1 | grep -v "^WARNING conda" | head -${3:-60}
