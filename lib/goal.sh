#!/bin/sh
# usage: goal.sh file.v LINE [MAXLINES] -- show the proof state after line LINE (cwd = /verif/coq)
f=$1; n=$2
d=$(mktemp -d /tmp/goal.XXXXXX)
head -n $n $f > $d/g_goal.v
echo "Show. " >> $d/g_goal.v
coqc -Q . UV $d/g_goal.v 2>&1 | grep -v "^WARNING conda" | head -${3:-60}
rm -rf $d
