"""C09 - no input can crash, abort or wedge the toolchain (partial proof + search)."""
from common import *


def _coq_list(xs):
    return "[" + "; ".join(str(x) for x in xs) + "]%N"


def p_len(c):
    return c["param"]["len"]


def _tie(r):
    rc, out, err = run_bin("c09", ["tie"], seed=r.seed, timeout=600)
    cases = json_lines(out)
    if rc != 0 or len(cases) < 100:
        r.broken_obligation("tie-harness", "c09 tie failed to run", (out + err)[-2000:])
        return
    # model verdicts, one N per case, in order (0 = refused/error, n+1 = accepted with value n, bools as 0/1)
    terms = []
    pre_terms = []
    kept = []
    for c in cases:
        p, g = c["param"], c["guard"]
        if g == "size":
            terms.append("vcode (validate_size %d %s %d)" % (p["es"], _coq_list(p["dims"]), p["limit"]))
        elif g == "recursion":
            gl = "rec_direct" if p["shape"] == "direct" else "rec_dipped"
            terms.append("b2n (rec_verdict %d %s %d)" % (p["limit"], gl, p["n"]))
        elif g == "nodedepth":
            terms.append("b2n (arr_verdict %d)" % p["k"])
        elif g == "binary":
            terms.append("b2n (enc_ok 0 (box_chain %d))" % p["k"])
        elif g == "macro":
            terms.append("b2n (macro_verdict %d)" % p["k"])
        elif g == "range":
            terms.append("vcode (range_len %s %d)" % (_coq_list(p["dims"]), p["limit"]))
        elif g == "rerank":
            terms.append("ocode (rerank_prepends %d %d)" % (p["rank"], p["len"]))
        elif g == "regression":
            terms.append("vcode (validate_size %d %s %d)" % (p["es"], _coq_list(p["dims"]), p["limit"]))
            pre_terms.append("vcode (validate_size_pre %d %s %d)" % (p["es"], _coq_list(p["dims"]), p["limit"]))
        else:
            continue
        kept.append(c)
    text = ("From Coq Require Import List NArith Arith. Import ListNotations.\n"
            "From UV Require Import Model.Limits.\n"
            "Definition b2n (b : bool) : N := if b then 1%%N else 0%%N.\n"
            "Eval vm_compute in ([\n%s\n] ++ [\n%s\n]).\n" % (";\n".join(terms), ";\n".join(pre_terms)))
    rc2, o = coq_eval("c09_tie", text, timeout=600)
    model = coq_ints(o) if rc2 == 0 else []
    pre_model, model = model[len(kept):], model[:len(kept)]
    if pre_model and any(x != 1 for x in pre_model):
        r.broken_obligation("tie:refuted_pre", "the model of the old size guard no longer accepts the regression witnesses", str(pre_model))
    if rc2 != 0 or len(model) != len(kept):
        r.broken_obligation("tie-eval", "Coq evaluation of the guard models failed", o[-1500:])
        return
    mism, by_guard, accepted, refused, confirmed = [], {}, 0, 0, []
    for c, m in zip(kept, model):
        g, kind, msg = c["guard"], c["kind"], c["msg"]
        by_guard[g] = by_guard.get(g, 0) + 1
        if kind == "ok":
            accepted += 1
            if g == "rerank":
                # the result has len + prepended axes; the model gives prepended + 1
                try:
                    k = int(msg.strip()) - p_len(c)
                    impl = (k + 1) if k > 0 else -4
                    if c["param"]["rank"] < c["param"]["len"]:
                        impl = 1          # axes merged, nothing prepended
                except ValueError:
                    impl = -1
            elif g in ("size", "regression", "range"):
                try:
                    impl = int(msg.strip()) + 1
                except ValueError:
                    impl = -1
            else:
                impl = 1
        elif kind == "err":
            refused += 1
            impl = 0
            expect = {"size": "too large", "regression": "too large", "range": "too large", "rerank": "too many dimensions", "recursion": "Recursion limit", "nodedepth": "too complex",
                      "binary": "too deep", "macro": "recur too deep"}[g]
            if expect not in msg and not (g == "nodedepth" and "signature" in msg):
                impl = -2          # an error, but not the guard's
        else:
            impl = -3              # crash / hang: not a verdict of the guard
        if impl != m:
            mism.append((c, m, "implementation says %s (%s %s)" % (impl, kind, msg[:80])))
    r.coverage["tie"] = {"kind": "C", "cases": len(kept), "by_guard": by_guard, "accepted": accepted, "refused": refused,
                         "mismatches": len(mism), "regression_witnesses_refused": [c["src"] for c in kept if c["guard"] == "regression" and c["kind"] == "err"]}
    for c in kept[:1] + kept[12:13] + kept[-3:-2]:
        r.sample({"guard": c["guard"], "param": c["param"], "impl": c["kind"], "msg": c["msg"][:60]})
    r.log("tie: %d guard boundary cases, %d mismatches" % (len(kept), len(mism)))
    if mism:
        c, m, why = mism[0]
        r.broken_obligation("tie:Limits.v~guards", "model and implementation disagree on a guard boundary (%d of %d): %s %s: model %s, %s"
                            % (len(mism), len(kept), c["guard"], json.dumps(c["param"]), m, why),
                            json.dumps([{"guard": x[0]["guard"], "param": x[0]["param"], "src": x[0]["src"], "model": x[1], "why": x[2]} for x in mism[:10]], ensure_ascii=False))
    return len(kept)


def run(r):
    quick = r.tier == "quick"
    r.trusted += TRUSTED_COMMON + [
        "f64 arithmetic on non-negative integers = round-to-nearest-even to 53 bits (rnd53), +inf as None; usize -> f64 and `isize::MAX as f64` = 2^63 likewise",
        "Limits.v transcribes validate_size_impl as of commit 1cc30f2 (zero dimensions skipped, non-zero product compared with 2^63), range_impl's "
        "size check before its zero-dimension return (9313bfc) and rerank's bound of 99 dimensions (13d1954); the code before those commits is kept "
        "as validate_size_pre / range_len_pre / rerank_prepends_pre for the *_refuted_pre records",
        "the abstraction of the interpreter to call-stack events (cnode: frame pushes, guarded calls of bound functions and recursive index macros, "
        "data-dependent choices as an oracle); the tie's two recursion programs and the nested-array-literal IR shape are written by hand from `spine show`",
        "the search harness: worker isolation by process (exit status / signal observed, respawn), a panic hook recording Location for every panic "
        "(also those uiua turns into 'has crashed' errors), `ulimit -v` 12 GB, 8 MiB thread stacks, UIUA_MAX_MB=64, execution limit 2 s, recursion "
        "limit 40, pool time-out 8 s (quick) / 12 s (thorough) confirmed by re-running the stage alone for 40 s (quick) / 150 s (thorough) before a hang is reported; a stage that is slow but finishes is listed under slow_not_hung and the later stages are then run too; a run whose EXECUTION (compilation excluded) takes more than 10 s under the 2 s limit counts as not respecting the limit",
        "the harness is built with overflow-checks on and debug-assertions off: arithmetic-overflow panics are reported under 'overflow:' keys although a release build wraps",
        "platform facts (stack bytes per frame, allocator behaviour, machine load for the time-outs) are observed, not modelled",
    ]
    r.assumptions += ["size guard: limit below 2^53 bytes (UIUA_MAX_MB < 8 PiB), dimensions are usize values, rank below 2^50 (for the relative-error bound on the f64 product)",
                      "call depth: every function body stacks at most D frames without passing a guarded call (D is a static property of the program)",
                      "lexer asserts: input below 4 GiB and 65535 lines/columns, control paths respecting the index discipline (C19's premises)",
                      "exec_total is a by-construction half-property of the MODEL interpreter, not a claim about the Rust interpreter",
                      "PARTIAL: arbitrary panics, native stack exhaustion, out-of-memory and wedges are searched on the implementation, not proved; "
                      "a crash outside the generated families is not excluded"]
    if not r.harness(["c09"]):
        return
    r.proofs()
    ntie = _tie(r) or 0

    # ---- search
    n = 2500 if quick else 100000
    args = ["search", n, "--hang", 8 if quick else 12, "--confirm", 40 if quick else 150] + ([] if quick else ["--thorough"])
    rc, out, err = run_bin("c09", args, seed=r.seed, timeout=900 if quick else 3300)
    lines = json_lines(out)
    summ = [l for l in lines if "evaluations" in l]
    viols = [l for l in lines if "violation" in l]
    if rc != 0 or not summ:
        r.broken_obligation("search-harness", "c09 search failed to run (rc %s)" % rc, (out[-1500:] + err[-1500:]))
        return
    s = summ[0]
    r.coverage["search"] = {k: s[k] for k in s if k != "slowest"}
    r.coverage["search"]["violations"] = len(viols)
    r.coverage["search"]["slowest"] = s.get("slowest", [])[:3]
    r.coverage["evaluations"] = s["evaluations"] + s.get("history_evals", 0) + s.get("shrink_evals", 0) + ntie
    r.coverage["distinct_nontrivial"] = s["distinct_inputs"]
    r.coverage["rule"] = ("tie (C): boundary inputs one below / at / above each guard on the real implementation, verdict compared with the model evaluated by "
                          "vm_compute: array size guard (UIUA_MAX_MB=8; f64/u8/char; zero dimensions with non-zero products around 2^63), range, rerank around 99, "
                          "recursion limit 5/10/33 on two program shapes, MAX_NODE_DEPTH via nested array literals, binary box nesting, macro chain depth, and the "
                          "former refutation witnesses which must now be refused.  search: (1) the regression corpus replayed first (every crash ever found by this or "
                          "another property's check, labelled by the round that repaired it, and the still-open ones), (2) a fixed corpus of deep-nesting generators "
                          "(10^3 and 6*10^3 quick; 10^3, 10^4, 10^5 thorough; lines broken every 60000 chars) and value-level resource bombs, (3) the directed "
                          "boundary family: 41 forms of primitives taking an index/count/amount/shape argument (plain, anti, under, rows) x fill contexts x amounts "
                          "{0, +-1, +-(len-1), +-len, +-(len+1), +-(2len+1), +-1e10, +-1e19, +-2^32, NaN, +-inf, fractions} and per-axis lists x arrays of rank 0-3 with "
                          "empty axes (full cross product of a reduced lattice in quick, the whole lattice in thorough), (4) random families: bytes->lossy UTF-8, token "
                          "soup over Primitive::all() glyphs and a fixed piece list, token-level mutants of /repo/tests and /repo/examples lines, nesting prefixes, PGen "
                          "programs, programs built from Primitive::all() by arity applied to literal and generated (gen_value) arrays, half of them under "
                          "`# Experimental!`, (5) program histories on one persistent thread.  Every input goes through lex, parse, format_str (default config), "
                          "Spans::from_input, compile in the four PreEvalModes and run (safe backend) in an isolated worker on a fresh thread (the boundary family: "
                          "Spans, compile-normal, run); a finding = panic escaping the API, 'has crashed' / 'bug in the interpreter' text, worker death, or no result "
                          "(confirmed by re-running the stage alone: 40 s quick, 150 s thorough) or an execution of more than 10 s under the 2 s limit; each distinct key is shrunk by delta debugging; distinct = distinct source texts")
    r.log("search: %d inputs (%d fixed), %d distinct keys, %.0fs in workers" % (s["evaluations"], s["fixed_inputs"], len(viols), s["eval_seconds"]))
    for v in viols[:3]:
        r.sample({"key": v["violation"], "input": v["input"][:80], "stage": v["stage"], "msg": v["msg"][:80]})
    for v in viols:
        key = v["violation"]
        what = "%s in stage %s%s: %s | input (%d bytes, shrunk from %d): %s" % (
            {"panic": "panic escapes the API", "crashed": "'has crashed' error", "bug": "'bug in the interpreter' error",
             "abort": "process abort", "hang": "no result (wedge)", "lost": "worker thread lost"}.get(v["kind"], v["kind"]),
            v["stage"], (" at " + v["loc"]) if v["loc"] else "", v["msg"][:120], v["input_len"], v["orig_len"], v["input"][:120])
        detail = {k: v[k] for k in ("kind", "stage", "stages", "loc", "msg", "input", "input_hex", "input_len", "label", "family", "families",
                                     "count", "argseed", "nargs", "mask", "escaped", "history", "alone") if k in v}
        detail["cmd"] = "VERIF_SEED=%d c09 search %s ; replay: printf '<input>' | c09 probe %s %s %s" % (
            r.seed, " ".join(str(a) for a in args[1:]), v.get("argseed", 0), v.get("nargs", 0), v.get("mask", 511))
        r.violation(key, what, detail, theorem=None)


def replay(rec):
    d = rec.get("detail", {})
    if d.get("input_hex"):
        src = bytes.fromhex(d["input_hex"]).decode("utf8")
    else:
        src = d.get("input", "")
    ok, out, dt, cmd = build_harness(["c09"])
    if not ok:
        print(out[-2000:])
        return 2
    rc, out, err = run_bin("c09", ["probe", d.get("argseed", 0), d.get("nargs", 0), d.get("mask", 511)], stdin=src, timeout=600)
    print(out)
    return 1 if "FINDING" in out else 0
