"""C15 - equality, ordering and hashing of values are mutually consistent."""
from common import *


def run(r):
    quick = r.tier == "quick"
    r.trusted += TRUSTED_COMMON + [
        "IEEE-754 comparison of non-NaN doubles = comparison of sign-magnitude bit keys (f_key); checked by the tie on every run",
        "the hasher is abstracted to the sequence of writes it receives (injectivity of SipHash on that sequence is not proved)",
    ]
    r.assumptions += ["wildcard/map-sentinel NaNs and characters are outside the property (predicate `plain`)",
                      "values satisfy length(data) = product(shape) (C05's invariant; premise wf_shape)"]
    if not r.harness(["c15"]):
        return
    proofs_ok = r.proofs()

    # ---- tie: model vs Rust Eq/Ord/Hash on generated pairs
    n = 1500 if quick else 30000
    rc, out, err = run_bin("c15", ["tie", n], seed=r.seed, timeout=900)
    cases = json_lines(out)
    if rc != 0 or not cases:
        r.broken_obligation("tie-harness", "c15 tie failed to run", (out + err)[-2000:])
    mism = []
    jobs = []
    shard = 250
    for si, ch in enumerate(chunks(cases, shard)):
        body = ";\n".join("OC %s %s %s %d %s %s" % (c["a"], c["b"], "true" if c["eq"] else "false", c["cmp"] + 1, c["ha"], c["hb"]) for c in ch)
        text = ("From Coq Require Import List NArith. Import ListNotations.\nFrom UV Require Import Base.Value Model.Order.\n"
                "Definition cases : list ocase := [\n%s\n].\nEval vm_compute in (failing_from (ocase_ok true) 0%%N cases).\n" % body)
        jobs.append(("c15_tie_%d" % si, text))
    results = coq_eval_many(jobs, timeout=900)
    for si, (rc2, o) in enumerate(results):
        if rc2 != 0:
            r.broken_obligation("tie-eval", "Coq evaluation of tie shard %d failed" % si, o[-1500:])
            continue
        for i in coq_ints(o):
            mism.append(cases[si * shard + i])
    distinct = len(set((c["a"], c["b"]) for c in cases))
    nontriv = len(set((c["a"], c["b"]) for c in cases if c["a"] != c["b"] and (c["eq"] or c["a"][:5] == c["b"][:5])))
    r.coverage["tie"] = {"kind": "C", "cases": len(cases), "distinct_pairs": distinct, "mismatches": len(mism),
                         "eq_true": sum(1 for c in cases if c["eq"]), "cmp_hist": {k: sum(1 for c in cases if c["cmp"] == k) for k in (-1, 0, 1)}}
    for c in cases[:2] + cases[-2:]:
        r.sample({"a": c["show_a"], "b": c["show_b"], "eq": c["eq"], "cmp": c["cmp"]})
    r.log("tie: %d pairs, %d mismatches" % (len(cases), len(mism)))
    if mism:
        c = mism[0]
        r.broken_obligation("tie:Order.v~Eq/Ord/Hash", "model and implementation disagree on eq/cmp/hash of a pair (%d of %d)" % (len(mism), len(cases)),
                            json.dumps({"a": c["show_a"], "b": c["show_b"], "impl": {"eq": c["eq"], "cmp": c["cmp"], "ha": c["ha"], "hb": c["hb"]}, "coq_a": c["a"], "coq_b": c["b"]}, ensure_ascii=False))

    # ---- search: the laws themselves on the implementation
    m = 3000 if quick else 60000
    if r.broken:
        m *= 5
    rc, out, err = run_bin("c15", ["search", m], seed=r.seed, timeout=1500)
    lines = json_lines(out)
    evals = sum(l.get("evaluations", 0) for l in lines)
    viols = [l for l in lines if "violation" in l]
    r.coverage["search"] = {"evaluations": evals, "violations": len(viols)}
    seen = set()
    for v in viols:
        key = "%s/%s" % (v["violation"], v["class"])
        sig = key + "|" + "|".join(v["values"])
        if sig in seen:
            continue
        seen.add(sig)
        r.violation(key if r.match_known(key) else sig, "law %s fails on the implementation for values %s %s" % (v["violation"], v["values"], v.get("detail", "")),
                    {"law": v["violation"], "values": v["values"], "detail": v.get("detail"), "cmd": "VERIF_SEED=%d c15 search %d" % (r.seed, m)},
                    theorem="C15_" + v["violation"])
    r.coverage["evaluations"] = len(cases) + evals
    r.coverage["distinct_nontrivial"] = nontriv
    r.coverage["rule"] = ("pairs drawn from a pool of generated values (all element types, rank 0-3, NaN, +-0, infinities, bytes vs floats, "
                          "nested boxes, complex) and their mutations (reshape of same data, prefix, storage change) plus a fixed corpus of earlier "
                          "counterexamples; non-trivial = the two values differ as terms and are either equal under match or of the same element type")
