"""C06 - results do not depend on how an array happens to be stored."""
import re
from collections import Counter

from common import *

HEADER = ("From Coq Require Import List NArith Bool. Import ListNotations.\n"
          "From UV Require Import Model.Cow.\nOpen Scope N_scope.\n")


def coq_hist(h):
    """one history (list of steps with the implementation's observations) as a Gallina term"""
    steps = []
    for s in h["steps"]:
        op = s["op"].split("|")[0]
        c = "[" + ";".join("[" + ";".join(str(x) for x in l) + "]" for l in s["c"]) + "]"
        u = "[" + ";".join("true" if b else "false" for b in s["u"]) + "]"
        cp = "[" + ";".join("(%d%%nat,%d%%nat,%s)" % (i, j, "true" if b else "false") for i, j, b in s["cp"]) + "]"
        steps.append("Obs (%s) %s %s %s" % (op, c, u, cp))
    return "[" + ";\n  ".join(steps) + "]"


def classify(v):
    """stable key of a storage-differential violation"""
    prog, dims, what = v.get("prog", ""), v.get("dims", ""), v.get("what", "")
    if v["violation"] == "aliasing":
        return "aliasing:" + prog
    if prog == "ₑ₁₀" and dims == "type":
        return "exp10-byte-powi"
    if prog == "ⁿ" and dims == "type":
        return "pow-byte-exponent-powi"
    if "⌞" in prog and "own" in dims:
        return "cow-left-fill-hidden-prefix"
    if re.search(r"≡.*/[↥↧]", prog) and "marks" in dims:
        return "reduce-minmax-sorted-depth"
    if re.search(r"≡.*/[↥↧]", prog) and "type" in dims and "[0 0]" in (v.get("result_a", "") + v.get("result_b", "")):
        return "reduce-minmax-byte-empty-rows"
    if re.search(r"/↧", prog) and "≡" not in prog and "marks" in dims and "∞" in v.get("result_b", ""):
        return "reduce-min-sorted-empty"
    return "%s:%s:%s" % (prog, what, dims)


def run(r):
    quick = r.tier == "quick"
    r.trusted += TRUSTED_COMMON + [
        "ecow::EcoVec (unsafe code) behaves as summarised at the top of coq/Model/Cow.v: clone/drop count references, a unique vector is mutated in place, "
        "an unallocated vector is always unique; checked by the tie (contents, is_unique and is_copy_of of all live handles after every step)",
        "the hook `uiua::verif::Cow` forwards to CowSlice<f64> without extra clones",
        "Model/ReduceMarks.v transcribes only the byte arm of /min and /max at depth 0, rank 1, without fill (tied on every run against `/↧` `/↥` of byte lists under truthful marks)",
        "the storage-variant builders of the harness (to_num_storage / to_byte_storage / set_sorted / clear_flags / num_slice_of_larger / byte_slice_of_larger hooks, "
        "arguments MOVED onto the stack so that unique buffers stay unique); every constructed variant is validated with uiua::verif::check_value before use",
        "all primitives and modifiers other than the buffer operations and the byte min/max shortcut are covered by the implementation-level differential only (no model, no proof)",
    ]
    r.assumptions += [
        "operations are called within their preconditions (no panic): slice/remove/split_off ranges inside the window, into_slices size divides the length, write index in range",
        "buffer theorems are about element type-independent behaviour; the tie drives CowSlice<f64> only (element values are small integers)",
        "C06_reduce_*_marks_invisible: the sortedness marks handed to the shortcut are truthful (premises sorted_up / sorted_down); truthfulness of marks produced by uiua is C05's property",
        "search: numeric (byte/float) arguments only, no NaN in marked arrays; results compared with uiua's own == plus shape and type name; error outcomes compared by message",
    ]
    if not r.harness(["c06"]):
        return
    r.proofs()

    # ---- regression corpus first: the complete programs that exposed the six repaired defects (keys = their class), plus controls
    rc, out, err = run_bin("c06", ["programs"], seed=r.seed, timeout=300)
    lf = json_lines(out)
    if rc != 0 or len(lf) < 20:
        r.broken_obligation("programs-harness", "c06 programs failed to run", (out + err)[-2000:])
    r.coverage["regression_programs"] = {"run": len(lf), "wrong": [l["leftfill"] for l in lf if not l["same"] and l["class"] != "neg-take"],
                                         "side_observation_not_storage_related": [l for l in lf if l["class"] == "neg-take" and not l["same"]]}
    for l in lf:
        if not l["same"] and l["class"] != "neg-take":
            key = l["class"] if l["class"] != "control" else "program:" + l["leftfill"]
            r.violation(key, "program `%s` gives %s, expected the value of `%s`" % (l["leftfill"], l["got"], l["want"]), l, theorem="C06_cow_value_semantics")
    r.log("regression programs: %d run, %d wrong" % (len(lf), len(r.coverage["regression_programs"]["wrong"])))

    # ---- tie: operation histories on real CowSlice handles vs Cow.v (and vs the plain-list replay)
    n = 400 if quick else 12000
    rc, out, err = run_bin("c06", ["tie", n], seed=r.seed, timeout=900)
    hists = json_lines(out)
    if rc != 0 or not hists:
        r.broken_obligation("tie-harness", "c06 tie failed to run", (out + err)[-2000:])
        hists = []
    shard = 100
    jobs = []
    for si, ch in enumerate(chunks(hists, shard)):
        text = HEADER + "Definition hists : list (list obs) := [\n %s\n].\nEval vm_compute in (failing 0 hists).\n" % ";\n ".join(coq_hist(h) for h in ch)
        jobs.append(("c06_tie_%d" % si, text))
    results = coq_eval_many(jobs, timeout=900)
    model_mism, spec_mism = [], []
    for si, (rc2, o) in enumerate(results):
        if rc2 != 0:
            r.broken_obligation("tie-eval", "Coq evaluation of tie shard %d failed" % si, o[-1500:])
            continue
        ints = coq_ints(o)
        for k in range(0, len(ints) - 2, 3):
            hi, kind, step = ints[k], ints[k + 1], ints[k + 2]
            (model_mism if kind == 0 else spec_mism).append((hists[si * shard + hi], step))
    kinds = Counter(s["op"].split("|")[1] for h in hists for s in h["steps"])
    nsteps = sum(len(h["steps"]) for h in hists)
    handles = Counter(len(s["c"]) for h in hists for s in h["steps"])
    uniq = Counter(b for h in hists for s in h["steps"] for b in s["u"])
    lens = Counter(min(len(l), 16) for h in hists for s in h["steps"] for l in s["c"])
    copies = Counter(b for h in hists for s in h["steps"] for _, _, b in s["cp"])
    r.coverage["tie"] = {"kind": "C", "histories": len(hists), "steps": nsteps, "model_mismatches": len(model_mism),
                         "impl_vs_plain_list_mismatches": len(spec_mism), "op_kinds": dict(kinds),
                         "live_handles_hist": {str(k): v for k, v in sorted(handles.items())},
                         "is_unique_observations": {str(k): v for k, v in uniq.items()},
                         "is_copy_of_observations": {str(k): v for k, v in copies.items()},
                         "window_length_hist": {str(k): v for k, v in sorted(lens.items())}}
    r.log("tie: %d histories, %d steps, %d model mismatches, %d value-semantics failures" % (len(hists), nsteps, len(model_mism), len(spec_mism)))
    for h in hists[:1] + hists[12:14]:
        r.sample({"history": [s["op"].split("|")[0] for s in h["steps"]], "final_contents": h["steps"][-1]["c"], "final_unique": h["steps"][-1]["u"]})
    if model_mism:
        h, step = model_mism[0]
        r.broken_obligation("tie:Cow.v~CowSlice", "model and implementation disagree on the observations after a step (%d of %d histories)" % (len(model_mism), len(hists)),
                            json.dumps({"history": [s["op"] for s in h["steps"][:step + 1]], "impl_after_step": h["steps"][step]}, ensure_ascii=False))
    seen = set()
    for h, step in spec_mism:
        s = h["steps"][step]
        kind = s["op"].split("|")[1]
        key = "cow-left-fill-hidden-prefix" if kind in ("extend_repeat_fill_left", "extend_repeat_slice_fill_left") else "cow-value-semantics:" + kind
        if key in seen:
            continue
        seen.add(key)
        ops = [x["op"].split("|")[0] for x in h["steps"][:step + 1]]
        r.violation(key, "CowSlice history whose visible contents differ from the same history on independent plain vectors: %s -> %s" % ("; ".join(ops), s["c"]),
                    {"history": ops, "impl_contents_after": s["c"], "contents_before": h["steps"][step - 1]["c"] if step else [],
                     "cmd": "VERIF_SEED=%d c06 tie %d (history %d, step %d)" % (r.seed, n, h["h"], step)},
                    theorem="C06_cow_value_semantics")

    # ---- tie of the small reduce model (byte arm of /↧ and /↥ under truthful marks)
    nr = 400 if quick else 6000
    rc, out, err = run_bin("c06", ["reduce", nr], seed=r.seed, timeout=600)
    rcs = json_lines(out)
    if rc != 0 or len(rcs) < nr // 2:
        r.broken_obligation("reduce-tie-harness", "c06 reduce failed to run", (out + err)[-2000:])
    if rcs:
        text = ("From Coq Require Import List NArith Bool. Import ListNotations.\nFrom UV Require Import Model.ReduceMarks.\nOpen Scope N_scope.\n"
                "Definition cases : list rcase := [\n%s\n].\nEval vm_compute in (rfailing 0 cases).\n" % ";\n".join(c["rc"] for c in rcs))
        rc2, o = coq_eval("c06_reduce", text, timeout=600)
        bad = coq_ints(o) if rc2 == 0 else []
        if rc2 != 0:
            r.broken_obligation("reduce-tie-eval", "Coq evaluation of the reduce tie failed", o[-1500:])
        r.coverage["reduce_tie"] = {"cases": len(rcs), "mismatches": len(bad),
                                    "marked": sum(1 for c in rcs if "RC true" in c["rc"] or " true [" in c["rc"]),
                                    "empty": sum(1 for c in rcs if "[]%N" in c["rc"])}
        r.log("reduce tie: %d cases, %d mismatches" % (len(rcs), len(bad)))
        if bad:
            r.broken_obligation("tie:ReduceMarks.v~reduce.rs", "model and implementation disagree on /↧ or /↥ of a marked byte list (%d of %d)" % (len(bad), len(rcs)),
                                json.dumps(rcs[bad[0]], ensure_ascii=False))
        r.sample({"reduce_case": rcs[min(5, len(rcs) - 1)]["show"]})

    # ---- search: storage-variant differential on real primitives
    m = 2 if quick else 100
    if r.broken:
        m *= 3
    rc, out, err = run_bin("c06", ["search", m], seed=r.seed, timeout=3000)
    lines = json_lines(out)
    summ = [l for l in lines if "evaluations" in l]
    viols = [l for l in lines if "violation" in l]
    herr = [l for l in lines if "harness_error" in l]
    if rc != 0 or not summ:
        r.broken_obligation("search-harness", "c06 search failed to run", (out + err)[-2000:])
    if herr:
        r.broken_obligation("search-variants", "a constructed storage variant is not well formed", json.dumps(herr[0], ensure_ascii=False))
    evals = summ[0]["evaluations"] if summ else 0
    bykey = {}
    for v in viols:
        bykey.setdefault(classify(v), []).append(v)
    r.coverage["search"] = {"evaluations": evals, "cases": summ[0]["cases"] if summ else 0, "error_outcomes": summ[0]["errors"] if summ else 0,
                            "catalogue": {"monadic": summ[0]["monadic"], "dyadic": summ[0]["dyadic"]} if summ else {},
                            "variants_per_argument": 24, "differences": len(viols), "by_key": {k: len(v) for k, v in bykey.items()}}
    r.log("search: %d evaluations, %d differences in %d classes" % (evals, len(viols), len(bykey)))
    for key, vs in sorted(bykey.items()):
        v = vs[0]
        if v["violation"] == "aliasing":
            what = "%s modified a retained duplicate of its argument: %s" % (v["prog"], v["detail"])
        else:
            what = "%s on %s gives %s with storage %s but %s with storage %s" % (v["prog"], v["args"], v["result_a"], v["variants_a"], v["result_b"], v["variants_b"])
        r.violation(key, what, dict(v, cmd="VERIF_SEED=%d c06 search %d" % (r.seed, m), occurrences=len(vs)), theorem="C06_cow_value_semantics")

    if lf:
        r.sample({"regression_program": lf[0]})
    r.coverage["evaluations"] = nsteps + evals + len(rcs)
    r.coverage["distinct_nontrivial"] = len(set(tuple(s["op"] for s in h["steps"]) for h in hists if any(not b for s in h["steps"] for b in s["u"])))
    r.coverage["rule"] = ("regression programs: 32 complete programs (6 repaired defects: cow-left-fill-hidden-prefix, reduce-minmax-sorted-depth, reduce-min-sorted-empty, "
                          "reduce-minmax-byte-empty-rows, pow-byte-exponent-powi, exp10-byte-powi; plus controls) compared with programs computing the expected value. "
                          "reduce tie: /↧ and /↥ of random byte lists (sorted up / down / unsorted, lengths 0-6) under truthful subsets of marks vs Model/ReduceMarks.v. "
                          "tie: histories of 12-40 operations over up to 7 live handles (windows up to 14 elements, all 18 operation kinds, fresh element values so that "
                          "stale data is recognisable) plus 12 directed histories; non-trivial = a history in which at some step a buffer is shared (is_unique false). "
                          "search: every catalogue entry (monadic and dyadic primitives and modifier applications, incl. the pervasive maths forms whose byte and float kernels differ) on fixed and random numeric arguments, on arrays with ascending / descending rows of rank 1-3 for the mark-sensitive family, and on boundary values of both storage types (bytes 0 1 127 128 254 255 with repeats; floats also +-0, huge, subnormal, just outside the byte range; lists, matrices and a rank-3 array), each in all "
                          "{byte,float} x {marks kept, cleared, recomputed} x {fresh, shared clone, slice of a shared larger buffer, slice of a larger buffer that is otherwise dead} variants")
