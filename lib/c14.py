"""C14 - naming code does not change it: bindings, macros and modules are transparent."""
from common import *
import c02

HDR = ("From Coq Require Import List ZArith NArith Bool. Import ListNotations.\n"
       "From UV Require Import Model.Node Model.Sig Model.Exec Model.TreeOk Model.Calls.\n")


def pair_term(c, opt=False):
    d = c["opt"] if opt else c
    return "((%s, %s), (%s, %s))" % (d["funs1"], d["root1"], d["funs2"], d["root2"])


def naming_tie(r, n):
    """V: the compiler compiles P and its renamed variant P' (rewrites off); Coq evaluates
    equiv_mod_naming on the exported (functions, root) pairs"""
    rc, out, err = run_bin("c14", ["tie", n], seed=r.seed, timeout=1200)
    recs = json_lines(out)
    cases = [c for c in recs if "root1" in c]
    summ = [c for c in recs if c.get("summary")]
    if rc != 0 or not cases:
        r.broken_obligation("tie-harness", "c14 tie failed", (out + err)[-2000:])
        return 0, 0
    shard = 50
    jobs = []
    expr = ("(map (fun c => (ncase_code c, if asm_okb (fst (fst c)) && tree_okb (fst (fst c)) (snd (fst c)) then 0%N else 1%N)) cases)")
    for si, ch in enumerate(chunks(cases, shard)):
        body = ";\n".join(pair_term(c) for c in ch)
        jobs.append(("c14_tie_%d" % si, HDR + "Definition cases : list ((list node * node) * (list node * node)) := [\n%s\n].\nEval vm_compute in %s.\n" % (body, expr)))
    optcases = [c for c in cases if c.get("opt")]
    for si, ch in enumerate(chunks(optcases, shard)):
        body = ";\n".join(pair_term(c, True) for c in ch)
        jobs.append(("c14_opt_%d" % si, HDR + "Definition cases : list ((list node * node) * (list node * node)) := [\n%s\n].\nEval vm_compute in %s.\n" % (body, expr)))
    res = coq_eval_many(jobs, timeout=900)
    nsh = len(chunks(cases, shard))
    fam = {}
    bad, undist, incomplete = [], [], []
    inlined_calls = kept_calls = premises_ok = 0
    for si, (rc2, o) in enumerate(res[:nsh]):
        if rc2 != 0:
            r.broken_obligation("tie-eval", "Coq evaluation of a naming shard failed", o[-1500:])
            continue
        ints = coq_ints(o)
        ch = cases[si * shard:(si + 1) * shard]
        if len(ints) != 4 * len(ch):
            r.broken_obligation("tie-eval", "unexpected output of a naming shard", o[-800:])
            continue
        for i, c in enumerate(ch):
            code, ncalls, kept, prem = ints[4 * i:4 * i + 4]
            f = fam.setdefault(c["fam"], {"pairs": 0, "equivalent": 0, "with_calls": 0})
            f["pairs"] += 1
            f["equivalent"] += 1 if code == 0 else 0
            f["with_calls"] += 1 if ncalls > 0 else 0
            inlined_calls += ncalls
            kept_calls += kept
            premises_ok += 1 if prem == 0 else 0
            if c["fam"] == "fillcross":
                if code == 0:
                    undist.append(c)
            elif code != 0:
                # the validator is sound, not complete: a pair it cannot validate is decided by running it
                (incomplete if c.get("same_results") else bad).append(c)
    opt_equiv = opt_n = 0
    for si, (rc2, o) in enumerate(res[nsh:]):
        if rc2 != 0:
            continue
        ints = coq_ints(o)
        ch = optcases[si * shard:(si + 1) * shard]
        for i, c in enumerate(ch):
            if 4 * i + 3 < len(ints) and c["fam"] != "fillcross":
                opt_n += 1
                opt_equiv += 1 if ints[4 * i] == 0 else 0
    r.coverage["tie_naming"] = {"kind": "V", "pairs": len(cases), "families": fam, "not_equivalent_and_results_differ": len(bad),
                                "not_validated_but_same_results": len(incomplete),
                                "not_validated_examples": [{"P": c["src1"], "P'": c["src2"], "what": c["what"]} for c in incomplete[:3]],
                                "fill_exception_not_distinguished": len(undist),
                                "calls_in_exported_roots": inlined_calls, "calls_kept_under_fill": kept_calls,
                                "P_inside_theorem_premises(asm_okb,tree_okb)": premises_ok,
                                "array_programs": sum(1 for c in cases if c["arr"]),
                                "informational_with_optimiser_on": {"pairs": opt_n, "still_structurally_equivalent": opt_equiv},
                                "generator": (summ[0] if summ else {})}
    r.log("naming tie: %d pairs %s, %d not equivalent with differing results (%d with same results), %d fill pairs not distinguished; optimiser on: %d/%d equivalent"
          % (len(cases), {k: (v["equivalent"], v["pairs"]) for k, v in fam.items()}, len(bad), len(incomplete), len(undist), opt_equiv, opt_n))
    for c in cases[:3]:
        r.sample({"family": c["fam"], "P": c["src1"], "P'": c["src2"], "what": c["what"]})
    if bad:
        c = bad[0]
        r.broken_obligation("tie:equiv_mod_naming", "the compiler's output for P and for its renamed variant P' differ beyond naming on %d of %d pairs (family %s)" % (len(bad), len(cases), c["fam"]),
                            json.dumps({k: c[k] for k in ("fam", "src1", "src2", "what", "funs1", "root1", "funs2", "root2")}, ensure_ascii=False))
    if len(incomplete) * 50 > len(cases):
        c = incomplete[0]
        r.broken_obligation("tie:equiv_mod_naming-incomplete", "more than 2%% of the pairs (%d of %d) are compiled to code that differs beyond naming (results agree)" % (len(incomplete), len(cases)),
                            json.dumps({k: c[k] for k in ("fam", "src1", "src2", "what", "root1", "root2")}, ensure_ascii=False))
    if undist:
        c = undist[0]
        r.broken_obligation("tie:fill-exception", "equiv_mod_naming does not distinguish a call under a fill from its inlined body (%d pairs)" % len(undist),
                            json.dumps({k: c[k] for k in ("src1", "src2", "root1", "root2")}, ensure_ascii=False))
    return len(cases), len(set((c["src1"], c["src2"]) for c in cases if c["fam"] != "fillcross"))


def report_violations(r, recs, theorem):
    seen = set()
    for v in recs:
        if "violation" not in v:
            continue
        if v["violation"] == "names":
            key = "names|%s|%s" % (v["kind"], v["src"])
            what = "name resolution (%s): expected %s, got %s for %r" % (v["kind"], v["expect"], v["got"], v["src"])
        else:
            if v["violation"] == "compile-outcome":
                # the class of the compile error is part of the key (known findings match on it)
                key = "compile-outcome|%s|%s|%s|%s" % (v.get("fam"), re.sub(r"\d+", "N", v["res1"])[:70], v["src1"], v["src2"])
            else:
                key = "%s|%s|%s|%s" % (v["violation"], v.get("fam"), v["src1"], v["src2"])
            what = "naming changes behaviour (%s, %s): P gives %s, P' gives %s" % (v.get("fam"), v.get("what"), v["res1"][:200], v["res2"][:200])
        if key in seen:
            continue
        seen.add(key)
        if len(seen) > 25 and not r.match_known(key):
            continue            # enough concrete inputs on file
        r.violation(key, what, v, theorem=theorem)


def run(r):
    quick = r.tier == "quick"
    r.trusted += TRUSTED_COMMON + [
        "exporter of uiua::Node trees to the model's node type (harness/src/lib.rs Export); function indices via verif::function_index",
        "the V tie compiles with PreEvalMode::Lazy and the per-thread switch verif::set_rewrites(false) (optimiser and push-inlining off), so that P and P' differ by naming only; with the optimiser on the pairs are only counted",
        "primitives are abstract in the theorems (any psem); the interpreter model Exec.v is tied to the interpreter by the C correspondence of C02 (re-run here on programs with calls)",
        "name resolution (scopes, paths, privacy), macro hygiene and import caching have no Coq model: checked by compile outcomes and results only",
    ]
    r.assumptions += [
        "call_is_body / inline: the function table and the body satisfy asm_okb/tree_okb and the stored signature fits (stored_okb); the stack holds the arguments (sa sg values) - measured on the exported programs every run",
        "no fill frame is visible at the call (hd 0 fbs = length fills); where one may be visible the call is kept by the inliner - the documented exception, proved as C14_call_hides_fill",
        "error traces are not part of the model state: results are compared up to the trace (the second documented exception)",
        "results Unk (construct outside the interpreter model) and OOF (fuel) are excluded by the statements",
        "NOT carried by the theorems: the un-fill stack (°⬚ / undo half of ⍜⬚; Uiua::unfill_frame and the second component of the fill boundary pair) is not part of Exec.v's state - a call's effect on it is checked only by the search family `unfill`; "
        "the strip/flatten pass `flat` of the validator and the `agree` check on calls kept under a fill have no soundness theorem; name resolution, privacy, macro hygiene, import caching have no Coq model",
    ]
    if not r.harness(["c14", "c02"]):
        return
    r.proofs()
    a = naming_tie(r, 500 if quick else 6000)
    b = c02.exec_tie(r, 400 if quick else 6000)

    # ---- privacy and rebinding: compile outcomes and results against the generator's expectations
    rc, out, err = run_bin("c14", ["names", 300 if quick else 5000], seed=r.seed, timeout=900)
    nrecs = json_lines(out)
    nsumm = [x for x in nrecs if x.get("summary")]
    if rc != 0 or not nsumm:
        r.broken_obligation("names-harness", "c14 names failed", (out + err)[-2000:])
    r.coverage["tie_names"] = dict(nsumm[0] if nsumm else {}, kind="C (expected outcome computed by the generator; no Coq model of name resolution)")
    report_violations(r, nrecs, "C14_rebinding_stable")
    for x in [x for x in nrecs if x.get("sample")][:2]:
        r.sample(x)

    # ---- search: P and P' on the real interpreter
    m = 2500 if quick else 40000
    if r.broken:
        m *= 4
    rc, out, err = run_bin("c14", ["search", m], seed=r.seed, timeout=3000)
    srecs = json_lines(out)
    ssumm = [x for x in srecs if x.get("summary")]
    if rc != 0 or not ssumm:
        r.broken_obligation("search-harness", "c14 search failed", (out + err)[-2000:])
    docs = [x for x in srecs if x.get("documented")]
    r.coverage["search"] = dict(ssumm[0] if ssumm else {}, violations=sum(1 for x in srecs if "violation" in x),
                                documented_fill_differences_observed=len(docs),
                                columns="per family: [pairs, both ok, both error, results differ]")
    report_violations(r, srecs, "C14_inline_sound")
    for x in [x for x in srecs if x.get("sample")][:2]:
        r.sample(x)
    if docs:
        r.sample({"documented_exception": "fill does not cross a call boundary", "P": docs[0]["src1"], "P'": docs[0]["src2"], "P_result": docs[0]["res1"][:120], "P'_result": docs[0]["res2"][:120]})

    rc, out, err = run_bin("c14", ["corpus", 400 if quick else 5000], seed=r.seed, timeout=3000)
    crecs = json_lines(out)
    csumm = [x for x in crecs if x.get("summary")]
    if rc != 0 or not csumm:
        r.broken_obligation("corpus-harness", "c14 corpus failed", (out + err)[-2000:])
    r.coverage["search_corpus"] = dict(csumm[0] if csumm else {}, violations=sum(1 for x in crecs if "violation" in x),
                                       documented_candidates=sum(1 for x in crecs if x.get("documented")))
    report_violations(r, crecs, "C14_inline_sound")
    r.log("search: %s; corpus: %s; names: %s" % (ssumm[0] if ssumm else None, csumm[0] if csumm else None, nsumm[0] if nsumm else None))

    r.coverage["evaluations"] = a[0] + b[0] + (ssumm[0]["pairs"] * 2 if ssumm else 0) + (csumm[0]["pairs"] * 2 if csumm else 0) + (nsumm[0]["cases"] if nsumm else 0)
    r.coverage["distinct_nontrivial"] = a[1] + b[1]
    r.coverage["rule"] = ("V: generated integer-spine and array programs with 1-3 named functions and their variants under four transformations "
                          "(inline one call by the parenthesised body; abstract a random sub-sequence of main under a fresh name; index macro call vs "
                          "hand expansion; definitions moved into a module and referred to by path, unused ones private; index macros nested 2-3 deep whose "
                          "bodies mention definition-site names (public/private) vs the by-hand expansion placed in the defining scope, used in the defining "
                          "module / through a module path with same-named outer bindings / after the names were rebound) ; search only: a named function whose body sets its OWN un-fill (°⬚v F, ⍜⬚v F G over take/keep/select/join) "
                          "called directly or through a second function inside 0-2 enclosing ⬚ contexts vs its body in place - must agree) plus the fill-crossing family "
                          "(expected NOT equivalent); distinct = distinct (P, P') source pairs outside the fill family; "
                          "search: the same families run on the interpreter, values and error messages (no trace, no location) compared; corpus: call "
                          "sites of single-line top-level bindings of tests/*.ua and examples/*.ua replaced by the parenthesised body text")
