"""C20 - the sandboxed backend confines programs; compiling performs no effects."""
import shutil

from common import *

def _repo_of_harness():
    try:
        m = re.search(r'uiua\s*=\s*\{[^}]*path\s*=\s*"([^"]+)"', open(os.path.join(HARNESS, "Cargo.toml")).read())
        if m and os.path.isdir(m.group(1)):
            return m.group(1)
    except OSError:
        pass
    return REPO


SRC_REPO = _repo_of_harness()          # the tree the harness is built against (a mutated copy under lib/seedtest.py)
SYS_RS = os.path.join(SRC_REPO, "src", "sys", "mod.rs")
HARNESS_RS = os.path.join(HARNESS, "src", "bin", "c20.rs")
GEN = os.path.join(COQ, "Gen", "Purity.v")
AMBIENT = {"any", "any_mut", "now", "output_enabled", "allow_thread_spawning", "save_error_color", "set_output_enabled"}


def cstr(s):
    return '"%s"%%string' % s.replace('"', '""')


def base_name(dbg):
    m = re.match(r"Sys\((\w+)\)", dbg)
    if m:
        return m.group(1)
    return re.match(r"\w+", dbg).group(0)


# ------------------------------------------------------------------ the trait, parsed from the source

def brace_block(src, start):
    """text of the {...} block whose opening brace is the first '{' at or after start"""
    i = src.index("{", start)
    depth, j = 0, i
    while j < len(src):
        if src[j] == "{":
            depth += 1
        elif src[j] == "}":
            depth -= 1
            if depth == 0:
                return src[i + 1:j], j + 1
        j += 1
    raise ValueError("unbalanced braces")


def impl_methods(block):
    """[(name, cfg or None, body or None)] of the fn items at depth 1 of a trait/impl block"""
    out = []
    pos = 0
    pending_cfg = None
    # walk top-level items: attributes and fns
    while True:
        m = re.compile(r"#\[cfg\(([^\]]*)\)\]|\bfn\s+(\w+)").search(block, pos)
        if not m:
            break
        # is this match at depth 0 of the block?
        depth = block.count("{", 0, m.start()) - block.count("}", 0, m.start())
        if depth != 0:
            pos = m.end()
            continue
        if m.group(1) is not None:
            pending_cfg = m.group(1)
            pos = m.end()
            continue
        name = m.group(2)
        # signature ends with ';' (required) or '{' (default body); skip generics/parens
        k = m.end()
        par = 0
        while k < len(block):
            ch = block[k]
            if ch in "(<[":
                par += 1
            elif ch in ")>]":
                par -= 1 if not (ch == ">" and block[k - 1] == "-") else 0
            elif ch == ";" and par <= 0:
                out.append((name, pending_cfg, None))
                k += 1
                break
            elif ch == "{" and par <= 0:
                body, k = brace_block(block, k)
                out.append((name, pending_cfg, body))
                break
            k += 1
        pending_cfg = None
        pos = k
    return out


HOST_TOKENS = re.compile(
    r"\.\s*(exists|try_exists|is_file|is_dir|is_symlink|metadata|symlink_metadata|read_dir|read_link|canonicalize)\s*\(|"
    r"std::fs|\bfs::|File::|OpenOptions|std::env|\benv::|std::process|process::|Command::|std::net|TcpStream|TcpListener::|UdpSocket::|"
    r"std::time|\bInstant\b|SystemTime|UtcOffset|\bnow\s*\(|thread::sleep|std::thread|std::io|\bstd(in|out|err)\s*\(|\be?print(ln)?!|"
    r"libloading|libffi|unsafe\b")


def parse_sys_rs():
    src = open(SYS_RS).read()
    t0 = src.index("pub trait SysBackend")
    tblock, _ = brace_block(src, t0)
    trait = impl_methods(tblock)
    s0 = src.index("impl SysBackend for SafeSys")
    sblock, _ = brace_block(src, s0)
    safe = impl_methods(sblock)
    names = [n for n, _, _ in trait]
    table = []
    for name, cfg, body in trait:
        if body is None:
            kind = ("DRequired", [])
        else:
            b = " ".join(body.split())
            callees = [c for c in re.findall(r"\bself\s*\.\s*(\w+)\s*\(", b) if c in names]
            if re.fullmatch(r'Err\("[^"]*not supported[^"]*"\.into\(\)\)', b):
                kind = ("DErr", [])
            elif callees:
                kind = ("DComp", sorted(set(callees)))
            else:
                kind = ("DOther", [])
        norm = " ".join((body or "").split())
        toks = sorted(set(m.group(0).strip() for m in HOST_TOKENS.finditer(re.sub(r"//[^\n]*", "", body or ""))))
        table.append({"name": name, "cfg": cfg, "kind": kind[0], "callees": kind[1], "body": (body or "").strip()[:200], "norm": norm, "host_tokens": toks})
    return table, [n for n, _, _ in safe], len(re.findall(r"\n    fn \w+", tblock))


def parse_recorder():
    src = open(HARNESS_RS).read()
    i = src.index("impl SysBackend for Rec")
    block, _ = brace_block(src, i)
    return [n for n, _, _ in impl_methods(block)]


def sysop_arm_methods(trait_names):
    """method names occurring in each match arm of run_sys_op / run_sys_op_mod"""
    src = open(SYS_RS).read()
    a = src.index("pub(crate) fn run_sys_op(")
    b = src.index("fn value_to_command")
    arms = re.split(r"\n        SysOp::(\w+) => ", src[a:b])
    res = {}
    for i in range(1, len(arms), 2):
        ms = set(m for m in re.findall(r"\.\s*(\w+)\(", arms[i + 1]) if m in trait_names)
        if "open_file" in ms:
            ms.discard("open_file")
            ms.add("open_file:w" if re.search(r"open_file\(.*?,\s*true\s*\)", arms[i + 1], re.S) else "open_file:r")
        res.setdefault(arms[i], set()).update(ms)
    return res


# ------------------------------------------------------------------ Gen/Purity.v

def write_gen(rows, trait, safe_over):
    prims = [r for r in rows if r["k"] in ("prim", "impl")]
    seen = {}
    lines = []
    for r in prims:
        if r["id"] in seen:
            continue
        seen[r["id"]] = r
        lines.append("  (%d%%N, (%s, PI %s %s %s))" % (r["id"], cstr(r["dbg"]), r["pur"], "true" if r.get("sys") else "false",
                                                     "true" if r.get("sendrecv") else "false"))
    named = {}
    for r in prims:
        named.setdefault(base_name(r["dbg"]), set()).add(r["pur"])
    sysops = [r for r in rows if r["k"] == "sysop"]
    mods = [r for r in rows if r["k"] == "modk"]
    mseen, mlines = set(), []
    for r in mods:
        key = (r["term"], r["pur"])
        if key in mseen:
            continue
        mseen.add(key)
        mlines.append("  (%s, %s)" % (r["term"], r["pur"]))
    tl = []
    for t in trait:
        if t["kind"] == "DComp":
            d = "DComp [%s]" % "; ".join(cstr(c) for c in t["callees"])
        else:
            d = t["kind"]
        tl.append("  (%s, %s)" % (cstr(t["name"]), d))
    text = ("(* GENERATED on every run by lib/c20.py from `c20 tables` (the crate's public API) and src/sys/mod.rs. *)\n"
            "From Coq Require Import List NArith String.\nFrom UV Require Import Model.Node Model.Gate.\nImport ListNotations.\n\n"
            "Definition gen_prims : list (N * (string * pinfo)) := [\n%s\n].\n\n"
            "Definition gen_named : list (string * purity) := [\n%s\n].\n\n"
            "Definition gen_sysops : list (string * purity) := [\n%s\n].\n\n"
            "Definition gen_mods : list (modk * purity) := [\n%s\n].\n\n"
            "Definition trait_methods : list (string * dflt) := [\n%s\n].\n\n"
            "Definition safe_overridden : list string := [%s].\n\n"
            "(* per default body: the host-touching constructs the scan finds in it, and its text when it is neither a denial nor a composition *)\n"
            "Definition default_host_tokens : list (string * list string) := [\n%s\n].\n\n"
            "Definition default_other_bodies : list (string * string) := [\n%s\n].\n"
            % (";\n".join(lines),
               ";\n".join("  (%s, %s)" % (cstr(n), sorted(p)[0]) for n, p in sorted(named.items()) if len(p) == 1),
               ";\n".join("  (%s, %s)" % (cstr(r["dbg"]), r["pur"]) for r in sysops),
               ";\n".join(mlines), ";\n".join(tl), "; ".join(cstr(s) for s in safe_over),
               ";\n".join("  (%s, [%s])" % (cstr(t["name"]), "; ".join(cstr(x) for x in t["host_tokens"])) for t in trait if t["kind"] != "DRequired"),
               ";\n".join("  (%s, %s)" % (cstr(t["name"]), cstr(t["norm"][:120])) for t in trait if t["kind"] == "DOther")))
    os.makedirs(os.path.dirname(GEN), exist_ok=True)
    old = open(GEN).read() if os.path.exists(GEN) else ""
    if old != text:
        with open(GEN, "w") as f:
            f.write(text)
    ambiguous = {n: sorted(p) for n, p in named.items() if len(p) > 1}
    return len(lines), len(mlines), ambiguous


# ------------------------------------------------------------------ static containment scan

SCAN = re.compile(r"std::fs|\bfs::|std::net|TcpStream|TcpListener::|UdpSocket::|std::process|process::|Command::new|libloading|libffi|dlopen|"
                  r"set_var\(|remove_var\(|File::(open|create)|OpenOptions|env::(var|vars|args|current_dir|set_current_dir|current_exe|temp_dir)|"
                  r"\bstd(in|out|err)\(\)|\b(e?print(ln)?)!")
# file -> why host I/O is allowed there
ALLOW = {
    "src/sys/native.rs": "the native backend itself (compiled only with feature native_sys; reached only through a NativeSys value)",
    "src/ffi.rs": "libffi/libloading behind feature `ffi`, called only from NativeSys::ffi",
    "src/main.rs": "the command-line binary, not part of the library",
    "src/window.rs": "the GUI window of the binary (feature `window`)",
    "src/profile.rs": "profiling output of the binary (feature `profile`)",
    "src/stand.rs": "stand-alone executables: reads the running executable's own bytes (feature `stand`)",
    "src/lsp.rs": "the language server's own stdio transport and working directory (feature `lsp`)",
    "src/lib.rs": "#[cfg(test)] module only",
    "src/format.rs": "format_file / config loading: explicit embedder API taking a path, not reachable from a program",
    "src/compile/mod.rs": "Compiler::load_file (explicit embedder API: reads the file named by the embedder), diagnostics printing when print_diagnostics is on",
}
# individual lines outside those files, with the reason (pattern on `file:text`)
ALLOW_LINES = [
    (r"src/run_prim\.rs:.*(eprintln!\(\"\{prim\} example|uiua\.tmLanguage\.json)", "#[cfg(test)] helpers"),
    (r"src/(compile/(algebra|optimize)|compile/invert/mod)\.rs:.*eprintln!\(\$\(\$arg\)\*\)", "debug macros, compiled out unless a debug const is set"),
    (r"src/algorithm/mod\.rs:.*(UIUA_MAX_MB|eprintln!)", "reads the UIUA_MAX_MB configuration variable once; warning on a malformed value"),
    (r"src/run\.rs:.*UIUA_RECURSION_LIMIT", "reads the UIUA_RECURSION_LIMIT configuration variable"),
    (r"src/run\.rs:.*eprintln!", "error reports of spawned threads / diagnostics printed by the run-time (stderr of the host)"),
    (r"src/sys/mod\.rs:.*(TcpListener|UdpSocket)\(", "HandleKind variants (names only)"),
    (r"src/sys/mod\.rs:.*handle\.value\(HandleKind", "HandleKind variants (names only)"),
]
# known leaks found by this scan and confirmed on the implementation (reported as findings)
SCAN_FINDINGS = [
    (r"src/sys/mod\.rs:.*stdin\(\)\.lines\(\)", "static:readlines-stdin-bypasses-backend"),
    (r"src/constant\.rs:.*current_dir\(\)", "static:workingdir-constant-reads-host-cwd"),
]


def static_scan():
    hits, files = [], 0
    for base in ("src", "parser/src"):
        for root, _, fs in os.walk(os.path.join(SRC_REPO, base)):
            for fn in fs:
                if not fn.endswith(".rs"):
                    continue
                files += 1
                path = os.path.join(root, fn)
                rel = os.path.relpath(path, SRC_REPO)
                for n, line in enumerate(open(path, errors="replace"), 1):
                    if line.lstrip().startswith("//"):
                        continue
                    if SCAN.search(line):
                        hits.append((rel, n, line.strip()[:160]))
    return hits, files


# ------------------------------------------------------------------ the check

def run(r):
    quick = r.tier == "quick"
    r.trusted += TRUSTED_COMMON + [
        "that a primitive labelled Pure has no host effect inside its Rust body is established by the recording backend and the source scan, not by a theorem",
        "the recording backend (harness/src/bin/c20.rs) records every SysBackend method; completeness of its method list is compared with the trait parsed from src/sys/mod.rs on every run",
        "regular-expression parsers of the SysBackend trait / SafeSys impl / run_sys_op match arms and the token scan of the default bodies (lib/c20.py); a method they cannot classify, or a default body whose text changed, is a failure, never skipped",
        "the list of host-touching constructs searched for in default bodies (file-system probes of Path, std::fs/env/process/net/io/thread/time, clocks, standard streams, print macros, unsafe) is a syntactic criterion; the behavioural counterpart is the existing-vs-missing target run under SafeSys and a backend without overrides",
        "/proc/self/fd and /proc/*/stat as the observation of descriptors and child processes",
        "the verif hook Compiler::verif_session_state (read-only view of pre_eval_mode, in_fill, in_try, comptime_depth)",
        "Debug printing of nodes as the comparison of what a reused and a fresh compiler produce (binding indices and clock/random values normalised)",
    ]
    r.assumptions += [
        "prims_respect / mods_respect: every primitive and modifier emits only the backend calls its purity label allows (validated per primitive on the recording backend on every run; the four former exceptions were repaired by 1cead72, d78a439, 06086d8)",
        "macros_ok: recursive index-macro calls (Node::CallMacro, accepted by is_min_purity without inspection) point to functions that are themselves accepted",
        "the interpreter's own node kinds (push, unpack, under-stack moves, labels, format, bind) call no backend method other than the ambient clock",
        "explicit comptime(...) and code macros (<-^) are compile-time execution by design of the language: outside the gate theorems, inside the search (open findings C20-code-macro, C20-import-cache)",
        "compile-state model: words are abstracted to leaf / sequence / parenthesised lines / fill / try / code macro; index macros and the other state of the compiler (scopes, bindings, experimental flag) are not modelled - the session search compares them behaviourally with a fresh compiler",
        "pre-evaluation cache theorem: pure nodes evaluate alike on every backend (follows from C20_pure_no_effect under prims_respect) and node equality is decided correctly",
        "the clock (now) and the local time zone are read from the host by the trait defaults by design; they are the only listed host-reading defaults",
        "whole-compile theorems: a program is abstracted to a list of items (top-level line, constant binding, other binding, index macro, end-of-load pass over the function bodies, explicit comptime, code macro, import); the first five are inside the theorems (no backend call outside editor mode, read-only in it, constant bindings silent in every mode), comptime / code macro / import are the explicit exceptions; the item abstraction is compared with the compiler per program and mode (what was folded, what became a constant, whether the backend was called), with the signature condition of the section scan over-approximated by `true`",
    ]
    if not r.harness(["c20"]):
        return

    # ---- T: tables regenerated from the public API and the trait source
    rc, out, err = run_bin("c20", ["tables"], seed=r.seed, timeout=300)
    rows = json_lines(out)
    summ = [x for x in rows if x.get("k") == "summary"]
    if rc != 0 or not summ:
        r.broken_obligation("tie:tables", "c20 tables failed", (out + err)[-2000:])
        return
    try:
        trait, safe_over, grep_count = parse_sys_rs()
    except Exception as e:
        r.broken_obligation("tie:trait-parse", "the SysBackend trait could not be parsed from src/sys/mod.rs: %r" % (e,), "")
        return
    if len(trait) != grep_count:
        r.broken_obligation("tie:trait-parse", "parsed %d trait methods but the source has %d `fn` items" % (len(trait), grep_count), "")
    nprims, nmods, ambiguous = write_gen(rows, trait, safe_over)
    if ambiguous:
        r.notes.append("names with several purity labels (left out of gen_named): %s" % ambiguous)
    s = summ[0]
    if s["sys_in_all"] != s["sysops"] or any(not x["in_all"] or x["pur"] != x["pur_prim"] for x in rows if x["k"] == "sysop"):
        r.broken_obligation("tie:tables", "SysOp::ALL and Primitive::all() disagree on the system functions or their purity", json.dumps(s))
    r.coverage["tables"] = {"kind": "T", "primitives": s["prims"], "sysops": s["sysops"], "impl_primitives": s["impl"],
                            "impl_not_enumerated": s["impl_not_enumerated"], "table_rows": nprims, "modifier_rows": nmods,
                            "trait_methods": len(trait), "safe_overrides": safe_over,
                            "default_kinds": {k: sum(1 for t in trait if t["kind"] == k) for k in ("DRequired", "DErr", "DComp", "DOther")}}

    # ---- T: the recorder implements every trait method
    rec = parse_recorder()
    built = [t["name"] for t in trait if not t["cfg"] or "image" not in t["cfg"]]
    gated = [t["name"] for t in trait if t["cfg"] and "image" in t["cfg"]]
    missing = [m for m in built if m not in rec]
    r.coverage["method_list"] = {"kind": "T", "trait": len(trait), "recorder": len(rec), "cfg_gated_not_built": gated, "missing_in_recorder": missing}
    if missing:
        r.broken_obligation("tie:method-list", "SysBackend has methods the recording backend does not implement: %s" % missing, json.dumps(missing))

    proofs_ok = r.proofs()

    scratch = os.path.join(r.workdir, "scratch")
    shutil.rmtree(scratch, ignore_errors=True)
    os.makedirs(r.workdir, exist_ok=True)

    # ---- C: every system function on the recording backend and on SafeSys
    rc, out, err = run_bin("c20", ["ops", 8 if quick else 60, scratch + "-ops"], seed=r.seed, timeout=1500)
    ops = [x for x in json_lines(out) if x.get("k") == "op"]
    scr = [x for x in json_lines(out) if x.get("k") == "scratch"]
    if rc != 0 or not ops:
        r.broken_obligation("tie:ops", "c20 ops failed", (out + err)[-2000:])
    if scr and not scr[0]["unchanged"]:
        r.violation("scratch-changed-by-running-on-recorder", "running system functions on the recording / safe backend changed the scratch directory", {"cmd": "c20 ops"})
    trait_names = set(t["name"] for t in trait)
    arms = sysop_arm_methods(trait_names)
    sys_names = set(x["dbg"] for x in rows if x["k"] == "sysop")
    arm_holes = sorted(sys_names - set(arms))
    if arm_holes:
        r.broken_obligation("tie:sysop-arms", "system functions without a match arm in run_sys_op/run_sys_op_mod: %s" % arm_holes, "")
    obs = []
    for x in ops:
        name = base_name(x["name"])
        ms = sorted((set(x["deny"]) | set(x["canned"])) - AMBIENT)
        if x["kind"] == "mod" and name == "ReadLines":
            ms = [m for m in ms if m != "open_file:w"]     # the test program opens the file with &fo first
        obs.append((name, ms, x))
    static_obs = [(k, sorted(v - AMBIENT), {"name": k, "kind": "source-arm"}) for k, v in sorted(arms.items())]
    allobs = obs + static_obs
    text = ("From Coq Require Import List NArith String. Import ListNotations.\nFrom UV Require Import Model.Gate.\n"
            "Definition obs : list (string * list string) := [\n%s\n].\nEval vm_compute in (failing_obs 0%%N obs).\n"
            % ";\n".join("(%s, [%s])" % (cstr(n), "; ".join(cstr(m) for m in ms)) for n, ms, _ in allobs))
    rc2, o = coq_eval("c20_obs", text, 600)
    bad_obs = []
    if rc2 != 0:
        r.broken_obligation("tie-eval:obs", "Coq evaluation of the observed effects failed", o[-1500:])
    else:
        bad_obs = [allobs[i] for i in coq_ints(o)]
    for n, ms, x in bad_obs:
        r.broken_obligation("tie:effects_of:" + n, "%s calls backend methods outside effects_of (%s): observed %s" % (n, x.get("kind"), ms), json.dumps(x, ensure_ascii=False))
    # labels against observations: a Pure primitive must call nothing, an Impure one only read-only methods
    RO = {"var", "term_size", "file_exists", "list_dir", "is_file", "open_file:r", "file_read_all", "clipboard", "audio_sample_rate",
          "get_raw_mode", "get_current_directory", "webcam_list", "timezone", "big_constant", "tcp_addr"}
    label_bad = {}
    for n, ms, x in obs:
        if x["pur"] == "Pure" and ms:
            label_bad[n] = ("Pure", ms)
        elif x["pur"] == "Impure" and [m for m in ms if m not in RO]:
            label_bad[n] = ("Impure", [m for m in ms if m not in RO])
    # programs of the `mod` rows carry no label of their own: use the table
    named = {}
    for x in rows:
        if x["k"] in ("prim", "impl"):
            named[base_name(x["dbg"])] = x["pur"]
    for n, ms, x in obs:
        if x["kind"] == "mod" and named.get(n) == "Impure" and [m for m in ms if m not in RO]:
            label_bad[n] = ("Impure", [m for m in ms if m not in RO])
    for n, (lab, ms) in sorted(label_bad.items()):
        r.violation("label:" + n, "%s is labelled %s but calls the backend method(s) %s (observed on the recording backend)" % (n, lab, ms),
                    {"op": n, "label": lab, "methods": ms, "cmd": "c20 ops"}, theorem="prims_respect")
    safe_classes = {}
    safe_unexpected = []
    SAFE_MEMORY = {"Show", "Prin", "Print", "PrinErr", "PrintErr", "Write", "EnvArgs", "Var", "FExists", "Close", "AudioSampleRate"}
    for n, ms, x in obs:
        if x["kind"] != "sys":
            continue
        cls = "errors-only" if x["safe_ok"] == 0 else "succeeds"
        safe_classes[cls] = safe_classes.get(cls, 0) + 1
        if x["safe_ok"] and n not in SAFE_MEMORY:
            safe_unexpected.append(n)
    if safe_unexpected:
        r.broken_obligation("tie:safesys", "system functions that succeed under SafeSys outside the documented in-memory set: %s" % safe_unexpected, "")
    r.coverage["tie"] = {"kind": "C", "ops": len(ops), "system_functions": sum(1 for x in ops if x["kind"] == "sys"),
                         "runs": sum(x["tries"] * 3 for x in ops), "observations_outside_effects_of": len(bad_obs),
                         "source_arms": len(static_obs), "label_mismatches": sorted(label_bad),
                         "ops_with_calls": sum(1 for n, ms, x in obs if ms), "safe_sys": safe_classes,
                         "safe_sys_succeeding": sorted(n for n, ms, x in obs if x["kind"] == "sys" and x["safe_ok"])}
    for n, ms, x in obs:
        if x["kind"] == "sys" and ms and len(r.coverage["samples"]) < 3:
            r.sample({"op": n, "label": x["pur"], "methods": ms, "safe_sys": x["safe_errs"], "calls": x["sample"][:200]})

    # ---- C: the items of a compile (Gate.citem): what each mode evaluates and calls, model against compiler
    nitem = 300 if quick else 3000
    rc, out, erri = run_bin("c20", ["items", nitem, scratch + "-it"], seed=r.seed, timeout=1500)
    icases = [x for x in json_lines(out) if x.get("k") == "item"]
    if rc != 0 or not icases:
        r.broken_obligation("tie:items", "c20 items failed", (out + erri)[-2000:])
    MODES = ["Lazy", "Line", "Normal", "Lsp"]
    ijobs, imeta = [], []
    for ci, c in enumerate(icases):
        labl = ["(%d%%N, PI %s %s %s)" % (l["id"], l["pur"], str(l["sys"]).lower(), str(l["sendrecv"]).lower()) for l in c["labels"]]
        for m in c["mlabels"]:
            mm = re.match(r"\(MOther (\d+) ", m["term"])
            if mm:
                labl.append("(%s%%N, PI %s false false)" % (mm.group(1), m["pur"]))
        its = [("line", "ILine %s" % c["root"]), ("bodies", "IFuncBodies")]
        if c["constn"]:
            its.append(("const", "IConstBind %s" % c["constn"]))
        imeta.append([k for k, _ in its])
        ijobs.append("Definition tbl%d : list (N * pinfo) := [%s].\nDefinition asm%d : list node := [%s].\n"
                     "Eval vm_compute in (map (fun mi => item_evaluates (lprim_of tbl%d) (lmod_of tbl%d) asm%d [%s] [%s] (fun _ => false) (fun _ => true) 6000 (fst mi) (snd mi))\n"
                     "  (list_prod [Lazy; Line; Normal; Lsp] [%s])).\n"
                     % (ci, "; ".join(labl), ci, "; ".join(c["funcs"]), ci, ci, ci, "; ".join(c["fext"]), "; ".join(c["binds"]), "; ".join(t for _, t in its)))
    ishard = 25
    icj = [("c20_items_%d" % si, "From Coq Require Import List ZArith NArith Bool String. Import ListNotations.\nFrom UV Require Import Model.Node Model.Gate.\n" + "\n".join(ch))
           for si, ch in enumerate(chunks(ijobs, ishard))]
    ires = coq_eval_many(icj, timeout=900)
    item_mism, item_checks, model_evals, impl_evals = [], 0, 0, 0
    for si, (rc2, o) in enumerate(ires):
        if rc2 != 0:
            r.broken_obligation("tie-eval:items", "Coq evaluation of item shard %d failed" % si, o[-1500:])
            continue
        parts = re.findall(r"=\s*\[(.*?)\]\s*:\s*list bool", o, re.S)
        if len(parts) != len(icj[si][1].split("Eval vm_compute")) - 1:
            r.broken_obligation("tie-eval:items", "unexpected output of item shard %d" % si, o[-1500:])
            continue
        for k, lst in enumerate(parts):
            c = icases[si * ishard + k]
            kinds = imeta[si * ishard + k]
            vals = [v == "true" for v in re.findall(r"true|false", lst)]
            for mi, mname in enumerate(MODES):
                mobs = c["modes"].get(mname)
                if mobs is None:
                    continue
                ev = dict(zip(kinds, vals[mi * len(kinds):(mi + 1) * len(kinds)]))
                model_evals += sum(ev.values())
                any_ev = any(ev.values())
                # what the implementation evaluated must be something the model hands to evaluation
                checks = [("funcs_folded", mobs["funcs_folded"], ev["bodies"]),
                          ("root_folded", mobs["root_folded"] and not (mobs["const"] and not c["lazy_const"]), ev["line"]),
                          ("became_const", mobs["const"] and not c["lazy_const"], ev.get("const", False))]
                for what, seen, allowed in checks:
                    item_checks += 1
                    impl_evals += 1 if seen else 0
                    if seen and not allowed:
                        item_mism.append({"program": c["program"], "mode": mname, "what": what, "model": ev, "implementation": mobs})
                # a backend call while compiling: only if the model evaluates something, and only in editor mode
                if mobs["called"] and not (any_ev and mname == "Lsp"):
                    item_mism.append({"program": c["program"], "mode": mname, "what": "backend called", "model": ev, "implementation": mobs})
                # a constant binding never calls, in any mode
                if mobs["called"] and c["constn"] and len(kinds) == 3 and not (ev["line"] or ev["bodies"]):
                    item_mism.append({"program": c["program"], "mode": mname, "what": "constant binding called the backend", "model": ev, "implementation": mobs})
                # nothing is evaluated in Lazy mode; top-level lines are not evaluated at or below Line mode
                if mname == "Lazy" and any_ev:
                    item_mism.append({"program": c["program"], "mode": mname, "what": "model evaluates in Lazy", "model": ev})
    r.coverage["items_tie"] = {"kind": "C", "programs": len(icases), "by_kind": {k: sum(1 for c in icases if c["kind"] == k) for k in ("line", "constbind", "funcbind", "indexmacro")},
                               "checks": item_checks, "mismatches": len(item_mism), "model_says_evaluated": model_evals, "implementation_evaluated": impl_evals,
                               "compiles_with_backend_calls": sum(1 for c in icases for m in c["modes"].values() if m["called"])}
    if item_mism:
        r.broken_obligation("tie:Gate.v~compile-items", "model and implementation disagree on what a compile evaluates or calls (%d cases), e.g. %s"
                            % (len(item_mism), json.dumps(item_mism[0], ensure_ascii=False)[:600]), json.dumps(item_mism[:5], ensure_ascii=False))
    if icases:
        c = icases[min(5, len(icases) - 1)]
        r.sample({"compile_item": c["kind"], "program": c["program"], "per_mode": c["modes"]})

    # ---- search: the ANSWER of a system function under SafeSys / a backend without overrides must not depend on the host
    rc, out, errh = run_bin("c20", ["hostdep", 0, scratch + "-hd"], seed=r.seed, timeout=900)
    hl = json_lines(out)
    hs = [x for x in hl if x.get("k") == "summary"]
    if rc != 0 or not hs:
        r.broken_obligation("search-harness:hostdep", "c20 hostdep failed to run", (out + errh)[-1500:])
        hs = [{}]
    for v in [x for x in hl if x.get("k") == "violation"]:
        r.violation(v["key"], v["calls"][:500], {"program": v["program"], "detail": v["calls"], "cmd": "c20 hostdep"}, theorem="C20_defaults_host_free")
    r.coverage["host_dependence"] = {"kind": "search", "system_functions": hs[0].get("system_functions"), "existing_vs_missing_targets": hs[0].get("targets"),
                                     "runs": hs[0].get("runs"), "pairs_equal_not_supported": hs[0].get("pairs_equal_not_supported"),
                                     "pairs_equal_ok": hs[0].get("pairs_equal_ok"), "pairs_equal_other_error": hs[0].get("pairs_equal_other_error"),
                                     "host_dependent": hs[0].get("host_dependent"),
                                     "no_argument_functions_succeeding": sorted(set(x["op"] for x in hl if x.get("k") == "noarg" and x["outcome"].startswith("Ok"))),
                                     "default_bodies_with_host_constructs": {t["name"]: t["host_tokens"] for t in trait if t["host_tokens"]}}

    # ---- C: the gate functions on exported trees
    ncase = 250 if quick else 4000
    rc, out, err = run_bin("c20", ["gate", ncase, scratch + "-gate"], seed=r.seed, timeout=1500)
    gcases = [x for x in json_lines(out) if x.get("k") == "gate"]
    if rc != 0 or not gcases:
        r.broken_obligation("tie:gate", "c20 gate failed", (out + err)[-2000:])
    jobs = []
    for ci, c in enumerate(gcases):
        labl = ["(%d%%N, PI %s %s %s)" % (l["id"], l["pur"], str(l["sys"]).lower(), str(l["sendrecv"]).lower()) for l in c["labels"]]
        # implementation modifiers the exporter prints as (MOther id ..) are looked up by id as well
        for m in c["mlabels"]:
            mm = re.match(r"\(MOther (\d+) ", m["term"])
            if mm:
                labl.append("(%s%%N, PI %s false false)" % (mm.group(1), m["pur"]))
        labs = "; ".join(labl)
        items = ";\n".join("GI %s %s %s %s %s" % (it["node"], str(it["pure"]).lower(), str(it["impure"]).lower(), str(it["mutating"]).lower(),
                                                 str(it["bounded"]).lower()) for it in c["items"])
        mods = "; ".join("(%s, %s)" % (m["term"], m["pur"]) for m in c["mlabels"])
        body = ("Definition tbl%d : list (N * pinfo) := [%s].\nDefinition asm%d : list node := [%s].\n"
                "Eval vm_compute in (failing_items (gitem_ok (lprim_of tbl%d) (lmod_of tbl%d) asm%d [%s] [%s] 6000) 0%%N [\n%s\n],\n"
                "  forallb (fun mp => purity_eqb (lmod_of tbl%d (fst mp)) (snd mp)) [%s]).\n"
                % (ci, labs, ci, "; ".join(c["funcs"]), ci, ci, ci, "; ".join(c["fext"]), "; ".join(c["binds"]), items, ci, mods))
        jobs.append(body)
    shard = 25
    cjobs = []
    for si, ch in enumerate(chunks(jobs, shard)):
        cjobs.append(("c20_gate_%d" % si, "From Coq Require Import List ZArith NArith Bool String. Import ListNotations.\n"
                      "From UV Require Import Model.Node Model.Gate.\n" + "\n".join(ch)))
    results = coq_eval_many(cjobs, timeout=900)
    gate_mism, nodes = [], 0
    for si, (rc2, o) in enumerate(results):
        if rc2 != 0:
            r.broken_obligation("tie-eval:gate", "Coq evaluation of gate shard %d failed" % si, o[-1500:])
            continue
        parts = re.findall(r"=\s*\((.*?),\s*(true|false)\)\s*:\s", o, re.S)
        if len(parts) != len(cjobs[si][1].split("Eval vm_compute")) - 1:
            r.broken_obligation("tie-eval:gate", "unexpected output of gate shard %d" % si, o[-1500:])
            continue
        for k, (lst, modok) in enumerate(parts):
            c = gcases[si * shard + k]
            for i in [int(x) for x in re.findall(r"\d+", lst)]:
                gate_mism.append({"program": c["program"], "item": c["items"][i]})
            if modok != "true":
                gate_mism.append({"program": c["program"], "modifier_labels": c["mlabels"]})
    nodes = sum(len(c["items"]) for c in gcases)
    true_pure = sum(1 for c in gcases for it in c["items"] if it["pure"])
    r.coverage["gate_tie"] = {"kind": "C", "programs": len(gcases), "nodes": nodes, "mismatches": len(gate_mism),
                              "pure_true": true_pure, "impure_only": sum(1 for c in gcases for it in c["items"] if it["impure"] and not it["pure"]),
                              "unbounded": sum(1 for c in gcases for it in c["items"] if not it["bounded"]),
                              "skipped_un_only_custom_inverse": sum(c["skipped_un_only"] for c in gcases),
                              "contexts": len(set(c["ctx"] for c in gcases)), "with_functions": sum(1 for c in gcases if c["funcs"])}
    if gate_mism:
        r.broken_obligation("tie:Gate.v~tree.rs", "model and implementation disagree on is_min_purity / is_limit_bounded / modifier purity (%d of %d nodes)" % (len(gate_mism), nodes),
                            json.dumps(gate_mism[0], ensure_ascii=False)[:3000])
    r.log("ties: %d ops, %d observations outside the table, %d gate nodes, %d mismatches" % (len(ops), len(bad_obs), nodes, len(gate_mism)))

    # ---- search: compile in all four modes with the recorder attached
    n = 8000 if quick else 120000
    if r.broken:
        n *= 2
    rc, out, err = run_bin("c20", ["compile", n, scratch], seed=r.seed, timeout=3000)
    lines = json_lines(out)
    summ = [x for x in lines if x.get("k") == "summary"]
    if rc != 0 or not summ:
        r.broken_obligation("search-harness", "c20 compile failed to run", (out + err)[-2000:])
        summ = [{}]
    s = summ[0]
    viols = [x for x in lines if x.get("k") == "violation"]
    seen = set()
    for v in viols:
        key = v["key"]
        if key in seen:
            continue
        seen.add(key)
        what = {
            "import-cache-write": "compiling a program that imports a file writes a cache file through the backend (make_dir + file_write_all)",
        }.get(key, "compiling (mode %s, no explicit comptime) %s: %s" % (v["mode"], "calls backend method(s) %s" % v["methods"] if v["methods"] else "has a host effect", v["calls"][:200]))
        r.violation(key, what, {"program": v["program"], "mode": v["mode"], "methods": v["methods"], "calls": v["calls"], "context": v["ctx"],
                                "snippet": v["snippet"], "result": v["result"], "cmd": "c20 one %s '<program>'" % v["mode"]}, theorem="compile_effect_free")
    if "┌╴" in err:
        r.violation("stderr-written-while-compiling/lsp", "compiling in editor mode wrote a trace box to the process's stderr (print_str_trace of the native backend, not of the supplied one)",
                    {"stderr": err[:400], "program": "°? 5", "cmd": "c20 one Lsp '°? 5'"}, theorem="lsp_mode_readonly")
    if s.get("children_after", 0) != s.get("children_before", 0):
        r.violation("child-process-started-by-compiling", "a child process exists after compiling", s)
    for x in [x for x in lines if x.get("k") == "sample"][:3]:
        r.sample({"context": x["ctx"], "mode": x["mode"], "program": x["program"], "result": x["result"], "backend_calls_while_compiling": x["log"]})
    r.coverage["search"] = {"evaluations": s.get("compiles", 0), "snippets": s.get("snippets"), "contexts": s.get("contexts"), "results": s.get("results"),
                            "compiles_with_backend_calls": s.get("nonempty_logs"), "fully_folded_roots": s.get("folded_roots"),
                            "scratch_changed": s.get("scratch_changed"), "descriptors": [s.get("fd_before"), s.get("fd_after")],
                            "children": [s.get("children_before"), s.get("children_after")], "violation_keys": sorted(seen)}

    # ---- search + C: sessions - ONE compiler reused over snippets, failing ones first
    nsess = 1300 if quick else 12000
    rc, out, err2 = run_bin("c20", ["session", nsess, scratch + "-sess"], seed=r.seed, timeout=3000)
    slines = json_lines(out)
    ssum = [x for x in slines if x.get("k") == "summary"]
    if rc != 0 or not ssum:
        r.broken_obligation("search-harness:session", "c20 session failed to run", (out + err2)[-2000:])
        ssum = [{}]
    ss = ssum[0]
    sviol = [x for x in slines if x.get("k") == "violation"]
    sseen = {}
    for v in sviol:
        parts = v["key"].split(":")
        prefix = ":".join(parts[:2]) if parts[0].endswith("state-not-restored") else parts[0]
        if prefix in sseen:
            continue
        sseen[prefix] = v["key"]
        r.violation(v["key"], "one compiler reused over snippets (mode %s): after the history below %s - %s" % (v["mode"], prefix, v["calls"][:300]),
                    {"history": v["program"], "snippet": v["snippet"], "mode": v["mode"], "detail": v["calls"], "cmd": "c20 session %d" % nsess},
                    theorem="C20_snippet_restores_state")
    if "┌╴" in err2:
        r.violation("session/stderr-written-while-compiling", "a reused compiler wrote a trace box to stderr while compiling", {"stderr": err2[:400]})
    # the model of the saved state against the compiler's state after every rejected snippet
    def cword(cls):
        parts = cls.split("/")
        leaf = "(WParen [WLeaf false])" if parts[-1] == "paren" else "(WLeaf false)"
        m = parts[0]
        if m in ("fill", "fill-sided"):
            return "(WFill %s (WLeaf true))" % leaf
        if m == "fill-nested":
            return "(WFill (WFill %s (WLeaf true)) (WLeaf true))" % leaf
        if m == "fill-in-try":
            return "(WTry [WParen [WFill %s (WLeaf true)]; WLeaf true])" % leaf
        if m == "try-in-fill":
            return "(WFill (WTry [%s; WLeaf true]) (WLeaf true))" % leaf
        if m == "fill-value":
            return "(WFill (WLeaf true) %s)" % leaf
        if m in ("try", "try-handler"):
            return "(WTry [%s; WLeaf true])" % leaf
        if m == "code-macro-bad-output":
            return "(WSeq [WLeaf true; WCodeMacro false (WLeaf true)])"
        if m == "code-macro-too-deep":
            return "(WSeq [WLeaf true; nest_macro 14 (WLeaf true)])"
        return "(WSeq [%s])" % leaf
    def cst(t):
        return "(CS %s %s %s %d)" % (t[0], str(t[1]).lower(), str(t[2]).lower(), t[3])
    states = {}
    for x in slines:
        if x.get("k") == "state":
            states.setdefault((x["class"], tuple(x["before"]), tuple(x["after"])), x)
    skeys = sorted(states)
    text = ("From Coq Require Import List NArith Bool. Import ListNotations.\nFrom UV Require Import Model.Node Model.Gate.\n"
            "Eval vm_compute in (failing_states 0%%N [\n%s\n]).\n" % ";\n".join("(%s, %s, %s)" % (cst(k[1]), cword(k[0]), cst(k[2])) for k in skeys))
    st_bad = []
    if skeys:
        rc2, o = coq_eval("c20_states", text, 600)
        if rc2 != 0:
            r.broken_obligation("tie-eval:states", "Coq evaluation of the compiler-state cases failed", o[-1500:])
        else:
            st_bad = [states[skeys[i]] for i in coq_ints(o)]
    if st_bad:
        r.broken_obligation("tie:Gate.v~compiler-state", "model and implementation disagree on the compiler's saved state after a rejected snippet (%d of %d cases), e.g. %s"
                            % (len(st_bad), len(skeys), json.dumps(st_bad[0], ensure_ascii=False)), json.dumps(st_bad[:5], ensure_ascii=False))
    r.coverage["sessions"] = {"kind": "search+C", "sessions": ss.get("sessions"), "steps": ss.get("steps"), "failing_snippets": ss.get("failing_snippets"),
                              "probes": ss.get("probes"), "rejected_steps": ss.get("rejected_steps"), "compared_with_fresh": ss.get("compared_with_fresh"),
                              "classes": ss.get("classes"), "state_cases": len(skeys), "state_mismatches": len(st_bad),
                              "state_changed_cases": sum(1 for k in skeys if k[1] != k[2]), "violation_keys": sorted(sseen.values())}
    for x in [x for x in slines if x.get("k") == "state"][:1]:
        r.sample({"session_snippet": x["src"], "class": x["class"], "compiler_state_before": x["before"], "after": x["after"]})

    # ---- C: the backend of compile-time evaluation (Gate.comptime_backend) against the compiler
    os.makedirs(scratch + "-bk", exist_ok=True)
    bkf = os.path.join(scratch + "-bk", "in.txt")
    with open(bkf, "w") as f:
        f.write("hello file\n")
    rc2, o = coq_eval("c20_backend", "From Coq Require Import List. Import ListNotations.\nFrom UV Require Import Model.Node Model.Gate.\n"
                      "Eval vm_compute in (map comptime_backend [Lazy; Line; Normal; Lsp]).\n", 300)
    predicted = re.findall(r"\b(BSafe|BNative|BOwn)\b", o.split(":")[0] if rc2 == 0 else "")
    observed = []
    for mname in ("Lazy", "Line", "Normal", "Lsp"):
        rc, out, err = run_bin("c20", ["one", mname, '&fras "%s"' % bkf], seed=r.seed, timeout=120)
        got = [x for x in json_lines(out) if x.get("k") == "one"]
        g = got[0] if got else {"root": "", "log": "", "folded": False}
        if "hello file" in g["root"]:
            observed.append("BNative")          # the real file was read behind the supplied backend
        elif "file_read_all" in g["log"]:
            observed.append("BOwn")             # the recording backend was asked
        else:
            observed.append("BSafe" if not g["folded"] else "?")
    r.coverage["backend_tie"] = {"kind": "C", "modes": ["Lazy", "Line", "Normal", "Lsp"], "model": predicted, "implementation": observed}
    if len(predicted) != 4 or rc2 != 0:
        r.broken_obligation("tie-eval:backend", "Coq evaluation of comptime_backend failed", o[-800:])
    elif "BNative" in observed:
        r.violation("host-file-read-bypassing-supplied-backend/" + ("lsp" if observed[3] == "BNative" else "default"),
                    "compile-time evaluation read the real file behind the supplied backend (modes %s)" % observed,
                    {"program": '&fras "%s"' % bkf, "observed": observed, "cmd": "c20 one <mode> '&fras \"file\"'"}, theorem="C20_comptime_backend_own")
    elif predicted != observed:
        r.broken_obligation("tie:Gate.v~comptime-backend", "model and implementation disagree on the backend of compile-time evaluation: model %s, implementation %s" % (predicted, observed), "")

    # ---- search: TWO compilers with different backends on one thread (the pre-evaluation cache)
    rc, out, err3 = run_bin("c20", ["twocomp", 0, scratch + "-two"], seed=r.seed, timeout=600)
    tl = json_lines(out)
    two = [x for x in tl if x.get("k") == "two"]
    if rc != 0 or not two:
        r.broken_obligation("search-harness:twocomp", "c20 twocomp failed to run", (out + err3)[-1500:])
    tv = [x for x in tl if x.get("k") == "violation"]
    tseen = set()
    for v in tv:
        if v["key"] in tseen:
            continue
        tseen.add(v["key"])
        r.violation(v["key"], "two compilers on one thread: " + v["calls"][:600],
                    {"program": v["program"], "second_compiler_mode": v["mode"], "second_backend_calls": v["methods"], "detail": v["calls"], "cmd": "c20 twocomp"},
                    theorem="C20_precache_sound")
    r.coverage["two_compilers"] = {"kind": "search", "histories": len(two), "second_compiler_got_first_backends_value": sum(1 for x in two if x["differs"]),
                                   "by_second_mode": {m: sum(1 for x in two if x["differs"] and x["second_mode"] == m) for m in ("Lsp", "Normal")}}
    if two:
        x = two[2] if len(two) > 2 else two[0]
        r.sample({"two_compilers": x["snippet"], "first_backend": x["first"], "first_root": x["first_root"], "second_mode": x["second_mode"],
                  "second_root_with_deny_backend": x["second_root"], "fresh_thread_reference": x["reference_root"]})

    # ---- regression corpus: the inputs of the repaired findings (fix commits 1cead72, d78a439, 06086d8),
    #      compiled in editor mode with the recorder attached: nothing may be folded, printed or opened
    os.makedirs(scratch + "-reg", exist_ok=True)
    regf = os.path.join(scratch + "-reg", "in.txt")
    with open(regf, "w") as f:
        f.write("hello file\n")
    corpus = [("°? 5", "stderr-written-while-compiling/lsp"), ("°dump∘ 1 2", "stderr-written-while-compiling/lsp"),
              ('&fo "%s"' % regf, "descriptor-opened-at-compile-time/lsp"), ('⍜&fo⋅5 "%s"' % regf, "descriptor-opened-at-compile-time/lsp")]
    reg = []
    for src, key in corpus:
        rc, out, err = run_bin("c20", ["one", "Lsp", "# Experimental!\n" + src], seed=r.seed, timeout=120)
        got = [x for x in json_lines(out) if x.get("k") == "one"]
        between = err.split("@@BEGIN")[-1].split("@@END")[0].strip() if "@@BEGIN" in err else "?"
        if not got:
            r.broken_obligation("regression-corpus", "c20 one failed on %r" % src, (out + err)[-1000:])
            continue
        g = got[0]
        bad = g["folded"] or g["fd_after"] > g["fd_before"] or between != ""
        reg.append({"program": src, "folded": g["folded"], "descriptors": [g["fd_before"], g["fd_after"]], "stderr": between[:80]})
        if bad:
            r.violation(key, "regression: compiling %r in editor mode %s" % (src, "wrote to stderr" if between else "opened a descriptor or pre-evaluated a mutating operation"),
                        {"program": src, "result": g, "stderr": between[:400], "cmd": "c20 one Lsp '%s'" % src}, theorem="lsp_mode_readonly")
    # repaired by 501199d: rejected code-macro snippets must not use up the macro recursion depth
    rc, out, err = run_bin("c20", ["leak-demo", 25], seed=r.seed, timeout=120)
    got = [x for x in json_lines(out) if x.get("k") == "leak-demo"]
    if not got:
        r.broken_obligation("regression-corpus", "c20 leak-demo failed", (out + err)[-1000:])
    else:
        g = got[0]
        reg.append({"program": "25 x (C! <-^ \"(\" pop ; C!+ 1 2), then E! <- ^0 ^0 ; E!(+1) 1", "valid_macro_after": g["valid_macro_after"], "depth": g["depth"]})
        if "Ok(Ok" not in g["valid_macro_after"] or g["depth"] != 0:
            r.violation("session/state-not-restored:comptime_depth:leak-demo", "regression: after 25 rejected code-macro snippets on one compiler a valid macro use gives %s (comptime_depth %s)"
                        % (g["valid_macro_after"], g["depth"]), {"result": g, "cmd": "c20 leak-demo 25"}, theorem="C20_snippet_restores_state")
    r.coverage["regression_corpus"] = reg

    # ---- supporting evidence: static containment of host I/O
    hits, nfiles = static_scan()
    outside, findings = [], []
    for rel, ln, text in hits:
        if rel in ALLOW:
            continue
        tag = "%s:%s" % (rel, text)
        f = [k for p, k in SCAN_FINDINGS if re.search(p, tag)]
        if f:
            findings.append((f[0], rel, ln, text))
            continue
        if any(re.search(p, tag) for p, _ in ALLOW_LINES):
            continue
        outside.append("%s:%d: %s" % (rel, ln, text))
    r.coverage["static_scan"] = {"files": nfiles, "hits": len(hits), "allow_listed_files": {k: v for k, v in ALLOW.items() if any(h[0] == k for h in hits)},
                                 "allow_listed_lines": [w for _, w in ALLOW_LINES], "outside_allow_list": outside, "findings": [f[0] for f in findings]}
    if outside:
        r.broken_obligation("static-scan", "host I/O API used outside the allow-listed modules: %s" % outside[:3], "\n".join(outside))
    for f in findings:
        r.violation(f[0], "host I/O outside the backend reappeared: %s:%d %s" % (f[1], f[2], f[3]), {"file": f[1], "line": f[2], "text": f[3]})
    # the two leaks the scan once pointed at, replayed under SafeSys
    if True:   # regression corpus (repaired by 8a2781a): always replayed
        rc, out, err = run_bin("c20", ["safe-run", "&rl□ 0"], stdin="secret-line\n", timeout=60)
        got = json_lines(out)
        if got and "secret-line" in json.dumps(got[0]):
            r.violation("safesys:readlines-reads-real-stdin", "under SafeSys `&rl f 0` reads the process's real standard input (std::io::stdin(), src/sys/mod.rs run_sys_op_mod) instead of failing",
                        {"program": "&rl□ 0", "stdin": "secret-line", "result": got[0], "cmd": "printf 'secret-line\\n' | c20 safe-run '&rl□ 0'"}, theorem="safe_backend_denies")
    if True:   # regression corpus (repaired by 7f8cdfe): always replayed
        rc, out, err = run_bin("c20", ["safe-run", "WorkingDir"], stdin="", timeout=60)
        got = json_lines(out)
        if got and got[0].get("stack") and os.getcwd() in got[0]["stack"][0]:
            r.violation("safesys:workingdir-reveals-host-cwd", "under SafeSys the constant WorkingDir evaluates to the host's real working directory (std::env::current_dir(), src/constant.rs)",
                        {"program": "WorkingDir", "result": got[0]}, theorem="safe_backend_denies")
    shutil.rmtree(scratch, ignore_errors=True)
    for d in glob.glob(scratch + "-*"):
        shutil.rmtree(d, ignore_errors=True)

    r.coverage["evaluations"] = s.get("compiles", 0) + sum(x["tries"] * 3 for x in ops) + nodes + (ss.get("steps") or 0) + item_checks
    r.coverage["distinct_nontrivial"] = (s.get("nonempty_logs") or 0) + sum(1 for n_, ms, x in obs if ms) + true_pure
    r.coverage["rule"] = ("(1) compile search: %d system-function snippets x %d syntactic contexts (top level, functions, fills, un/under/anti/obverse, index and code macros, "
                          "comptime, modules, imports, data definitions, recursion, loops) x 4 pre-evaluation modes, each compiled on a fresh compiler with the recording backend "
                          "attached: no backend call in Lazy/Line/Normal (reads of explicit imports excepted), read-only calls in Lsp, scratch directory / descriptors / children "
                          "unchanged; (2) sessions: one compiler with the deny-all recorder reused over snippets, %s failing snippets (bad operands in the operand position of 30 "
                          "modifier forms bare and parenthesised, signature errors, unbalanced brackets, failing code/index macros) followed by %s probes, after every snippet: saved "
                          "state restored (hook, compared with Gate.ccompile), no backend call, no host data in the assembly, same tree as a compiler that saw only the accepted "
                          "snippets; (3) two compilers with different backends on one thread (pre-evaluation cache); (4) every primitive / system function executed on the recording "
                          "backend (deny-all and canned) and on SafeSys over an argument pool of paths, numbers, byte arrays, command lines and handle values: observed methods within "
                          "effects_of and within the purity label; (5) every system function under SafeSys and under a backend without overrides on targets that exist on the host "
                          "(scratch file and directory, /, ., /etc/passwd, set environment variables) and on missing counterparts: same outcome required; (6) gate tie on sub-trees "
                          "of compiled programs, compile-item tie (programs of one item kind each - line, constant binding, function binding, index macro - in 4 modes: what the "
                          "implementation folded / made constant / called against Gate.item_evaluates), backend-choice tie, tables and trait-method ties, default-body scan, static containment scan, regression corpus of all repaired "
                          "findings.  non-trivial = compiles during which the backend was called + operations that reached a backend method + sub-trees judged pure + rejected "
                          "session steps" % (s.get("snippets") or 0, len(s.get("contexts") or {}), ss.get("failing_snippets"), ss.get("probes")))
    r.coverage["distinct_nontrivial"] += ss.get("rejected_steps") or 0
