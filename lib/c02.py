"""C02 - a function's inferred signature is its real stack effect."""
from common import *

HDR = ("From Coq Require Import List ZArith NArith. Import ListNotations.\n"
       "From UV Require Import Model.Node Model.Sig Model.Exec Model.TreeOk.\n")


def opt(s):
    return "(Some %s)" % s if s else "None"


def zl(xs):
    return "[" + ";".join("(%d)" % x for x in xs) + "]%Z"


def sig_tie(r, n):
    """V: the checker model against the real checker on every function body / operand / root
    of compiled programs; and how many whole programs satisfy the frame theorem's premises"""
    rc, out, err = run_bin("c02", ["export", n], seed=r.seed, timeout=900)
    recs = json_lines(out)
    cases = [c for c in recs if "node" in c]
    progs = [c for c in recs if c.get("prog")]
    summ = [c for c in recs if c.get("summary")]
    if rc != 0 or not cases:
        r.broken_obligation("tie-harness", "c02 export failed", (out + err)[-2000:])
        return
    jobs, shard = [], 150
    for si, ch in enumerate(chunks(cases, shard)):
        body = ";\n".join("SC %s %s %s %s" % (c["node"], opt(c["rust"]), opt(c["stored"]), "true" if c["opaque"] else "false") for c in ch)
        jobs.append(("c02_sig_%d" % si, HDR + "Definition cases : list scase := [\n%s\n].\nEval vm_compute in (codes_from 0%%N cases).\n" % body))
    pshard = 40
    for si, ch in enumerate(chunks(progs, pshard)):
        body = ";\n".join("(%s, %s)" % (c["funs"], c["root"]) for c in ch)
        jobs.append(("c02_tree_%d" % si, HDR + "Definition progs : list (list node * node) := [\n%s\n].\n"
                     "Eval vm_compute in (map (fun p => (if asm_okb (fst p) then 0%%N else 1%%N, tree_class (fst p) (snd p))) progs).\n" % body))
    res = coq_eval_many(jobs, timeout=900)
    nsig = len(chunks(cases, shard))
    mism, unc = [], 0
    for si, (rc2, o) in enumerate(res[:nsig]):
        if rc2 != 0:
            r.broken_obligation("tie-eval", "Coq evaluation of a signature shard failed", o[-1500:])
            continue
        ints = coq_ints(o)
        for i in range(0, len(ints) - 1, 2):
            if ints[i + 1] == 2:
                unc += 1
            else:
                mism.append(cases[si * shard + ints[i]])
    classes = {0: 0, 1: 0, 2: 0, 3: 0, 4: 0}
    asm_bad = 0
    for si, (rc2, o) in enumerate(res[nsig:]):
        if rc2 != 0:
            r.broken_obligation("tie-eval", "Coq evaluation of a tree shard failed", o[-1500:])
            continue
        ints = coq_ints(o)
        for i in range(0, len(ints) - 1, 2):
            asm_bad += ints[i]
            classes[ints[i + 1]] = classes.get(ints[i + 1], 0) + 1
    r.coverage["tie_sig"] = {"kind": "V", "nodes": len(cases), "mismatches": len(mism), "not_covered_by_model": unc,
                             "stored_sig_differs_from_inferred": sum(1 for c in cases if c["stored"] and c["rust"] and c["stored"] != c["rust"]),
                             "programs": len(progs), "programs_function_table_ok": len(progs) - asm_bad,
                             "root_inside_theorem_premises_and_fully_modelled": classes[0],
                             "root_inside_premises_but_uses_constructs_outside_the_interpreter_model": classes[4],
                             "root_has_unproved_modifier": classes[1],
                             "root_stored_sig_misfit": classes[2], "root_uncovered_operand": classes[3],
                             "node_kinds": (summ[0]["kinds"] if summ else {})}
    r.log("sig tie: %d nodes, %d mismatches, %d uncovered; %d programs: classes %s, function tables failing the invariant %d"
          % (len(cases), len(mism), unc, len(progs), classes, asm_bad))
    for c in cases[:2]:
        r.sample({"node": c["node"][:300], "rust_sig": c["rust"], "stored": c["stored"]})
    if mism:
        c = mism[0]
        r.broken_obligation("tie:Sig.v~check.rs", "the checker model and Node::sig() disagree on %d of %d exported nodes" % (len(mism), len(cases)),
                            json.dumps({"node": c["node"], "rust": c["rust"]}, ensure_ascii=False))
    return len(cases), len(set(c["node"] for c in cases))


def exec_tie(r, n, bin_="c02", mode="exec"):
    """C: the interpreter model against the real interpreter on generated integer programs"""
    rc, out, err = run_bin(bin_, [mode, n], seed=r.seed, timeout=900)
    recs = json_lines(out)
    cases = [c for c in recs if "root" in c and "code" in c]
    panics = [c for c in recs if "panic" in c]
    for p in panics[:5]:
        r.violation("panic|" + p["src"], "the interpreter panicked on a generated program", p, theorem="C09")
    if rc != 0 or not cases:
        r.broken_obligation("tie-harness", "%s %s failed" % (bin_, mode), (out + err)[-2000:])
        return 0, 0
    jobs, shard = [], 100
    for si, ch in enumerate(chunks(cases, shard)):
        body = ";\n".join("XC %s %s %d %s %d" % (c["funs"], c["root"], c["code"], zl(c["stack"]), c["under"]) for c in ch)
        jobs.append(("%s_x_%d" % (bin_, si), HDR + "Definition cases : list xcase := [\n%s\n].\nEval vm_compute in (xcodes_from 400 0%%N cases).\n" % body))
    res = coq_eval_many(jobs, timeout=900)
    bad, unk = [], 0
    outside = set()
    for si, (rc2, o) in enumerate(res):
        if rc2 != 0:
            r.broken_obligation("tie-eval", "Coq evaluation of an exec shard failed", o[-1500:])
            continue
        ints = coq_ints(o)
        for i in range(0, len(ints) - 1, 2):
            if ints[i + 1] == 3:
                unk += 1
                outside.add(si * shard + ints[i])
            else:
                bad.append(cases[si * shard + ints[i]])
    # input distribution: how often each construct occurs in programs the model runs completely
    import re as _re
    constructs = {}
    for tag, pat in [("do", "⍢"), ("both_subscript", "∩[₁₃₄]"), ("un_both", "°∩"), ("on_subscript", "⟜[₂₃]"),
                     ("try_three_functions", r"⍣\([^()]*\|[^()]*\|"), ("try_two", r"⍣\("), ("switch", "⨬"), ("repeat", "⍥"),
                     ("rows_each_table_reduce", "[≡∵⊞/]\\("), ("under", "⍜"), ("fork_bracket", "[⊃⊓]"), ("call", r"F[a-c]")]:
        inm = sum(1 for i, c in enumerate(cases) if i not in outside and _re.search(pat, c["src"]))
        alln = sum(1 for c in cases if _re.search(pat, c["src"]))
        constructs[tag] = {"programs": alln, "run_by_the_model": inm}
    r.coverage["tie_exec"] = {"kind": "C", "programs": len(cases), "mismatches": len(bad), "outside_model": unk,
                              "ok_runs": sum(1 for c in cases if c["code"] == 0), "error_runs": sum(1 for c in cases if c["code"] == 1),
                              "constructs": constructs}
    r.log("exec tie: %d programs, %d mismatches, %d outside the model" % (len(cases), len(bad), unk))
    for c in cases[:2]:
        r.sample({"program": c["src"], "impl": {"ok": c["code"] == 0, "stack_top_first": c["stack"]}})
    if bad:
        c = bad[0]
        r.broken_obligation("tie:Exec.v~interpreter", "the interpreter model and the implementation disagree on %d of %d programs" % (len(bad), len(cases)),
                            json.dumps({"program": c["src"], "impl_code": c["code"], "impl_stack": c["stack"]}, ensure_ascii=False))
    return len(cases), len(set(c["src"] for c in cases))


def run(r):
    quick = r.tier == "quick"
    r.trusted += TRUSTED_COMMON + [
        "exporter of uiua::Node trees to the model's node type (harness/src/lib.rs Export), arities taken from the primitive tables at export time",
        "primitives are abstract in the theorems (any psem); that a primitive pops/pushes what its table entry says, and that the array side of an iterating modifier pushes sa values / pops so results per step, is checked only by the correspondence, the sentinel search and the frame hook (src/run.rs verif_frame_enter/exit, behind feature verif_hooks) on generated and corpus programs",
    ]
    r.assumptions += ["trees satisfy tree_okb (stored operand signatures fit the checker's, exactly for by/rows/each/inventory/repeat; operands of iterating modifiers and switch branches leave the under stack alone; switch branches fit the switch signature) - measured on compiled programs every run",
                      "signatures below 2^16 (u16 truncation not modelled)", "results Unk (construct outside the interpreter model) and OOF (fuel) are excluded by the statements"]
    if not r.harness(["c02"]):
        return
    r.proofs()
    a = sig_tie(r, 1500 if quick else 30000) or (0, 0)
    b = exec_tie(r, 1200 if quick else 20000)
    # search
    m = 1500 if quick else 40000
    if r.broken:
        m *= 4
    rc, out, err = run_bin("c02", ["frame", m], seed=r.seed, timeout=1500)
    recs = json_lines(out)
    viols = [x for x in recs if "violation" in x]
    summ = [x for x in recs if x.get("summary")]
    r.coverage["search"] = dict(summ[0] if summ else {}, violations=len(viols))
    seen = set()
    for v in viols:
        key = "%s|%s|%s" % (v["violation"], v["src"], v["what"])
        if key in seen:
            continue
        seen.add(key)
        r.violation(key, "frame law fails on the implementation: %s (signature %s, program %r)" % (v["what"], v["sig"], v["src"]), v, theorem="C02_sig_sound")
    # array frame search: modifier applications over operands of many signatures on array arguments
    rc, out, err = run_bin("c02", ["aframe", 1500 if quick else 40000], seed=r.seed, timeout=1500)
    recs = json_lines(out)
    asumm = [x for x in recs if x.get("summary")]
    if rc != 0 or not asumm:
        r.broken_obligation("aframe-harness", "c02 aframe failed to run", (out + err)[-2000:])
    r.coverage["search_arrays"] = dict(asumm[0] if asumm else {}, violations=len([x for x in recs if "violation" in x]))
    r.log("array frame search: %s" % (asumm[0] if asumm else "no summary"))
    for v in [x for x in recs if "violation" in x]:
        key = "%s|%s|%s" % (v["violation"], v["src"], v["what"])
        if key in seen:
            continue
        seen.add(key)
        r.violation(key, "frame law fails on the implementation: %s (signature %s, program %r, arguments %s)" % (v["what"], v["sig"], v["src"], v["args"]), v, theorem="C02_sig_sound")
    # monitor: the frame hook around every function / operand execution of real corpus programs (arrays,
    # every modifier the corpus uses): ties what the model abstracts (iteration over arrays) to the code
    rc, out, err = run_bin("c02", ["monitor", 400 if quick else 100000], seed=r.seed, timeout=1500)
    recs = json_lines(out)
    msumm = [x for x in recs if x.get("summary")]
    mviols = [x for x in recs if "violation" in x]
    if rc != 0 or not msumm:
        r.broken_obligation("monitor-harness", "c02 monitor failed to run", (out + err)[-2000:])
    r.coverage["monitor"] = dict(msumm[0] if msumm else {}, kind="frame hook on corpus programs")
    r.log("monitor: %s" % (msumm[0] if msumm else "no summary"))
    for p in [x for x in recs if "panic" in x][:3]:
        r.violation("panic|" + p["src"], "the interpreter panicked on a corpus program", p, theorem="C09")
    for v in mviols:
        key = "%s|%s|%s" % (v["violation"], v["src"], v["what"])
        if key in seen:
            continue
        seen.add(key)
        r.violation(key, "frame law fails on the implementation: %s (program %r)" % (v["what"], v["src"]), v, theorem="C02_sig_sound")
    r.coverage["evaluations"] = a[0] + b[0] + (summ[0]["ok_runs"] + summ[0]["err_runs"] if summ else 0) + (msumm[0]["monitored_programs"] if msumm else 0)
    r.coverage["distinct_nontrivial"] = a[1] + b[1]
    r.coverage["rule"] = ("V: every distinct function body/operand/root of compiled corpus chunks (tests/, examples/) - distinct as exported terms; "
                          "C: generated integer programs over dip/gap/on/by/with/off/below/both/fork/bracket/try/case/switch/calls - distinct sources; "
                          "search: generated functions run on sentinels + arguments (+2 extra values beneath), with the frame hook (values beneath every operand's arguments unchanged on return and at failure, hidden stacks restored) on; "
                          "monitor: the same hook on compiled corpus chunks")
