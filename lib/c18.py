"""C18 - encoders and their decoders are mutual inverses."""
from common import *

FMT = {"u8": (False, 1), "i8": (True, 1), "u16": (False, 2), "i16": (True, 2), "u32": (False, 4), "i32": (True, 4),
       "u64": (False, 8), "i64": (True, 8), "u128": (False, 16), "i128": (True, 16)}


def zl(xs):
    return "[" + ";".join("(%d)" % x if x < 0 else "%d" % x for x in xs) + "]"


def olz(o):
    if o is None:
        return "None"
    return "(Some (%s, %s))" % (zl(o["sh"]), zl(o["d"]))


def ol(o):
    return "None" if o is None else "(Some %s)" % zl(o)


def cbool(b):
    return "true" if b else "false"


def bval(v, top=True):
    """harness JSON value -> Gallina term of type Bin.bval"""
    lbl = v["lbl"] or []
    # the encoder looks at `meta == default`; flags/label/keys are what the model stores
    h = "{| Bin.alloc := %s; Bin.flags := %d; Bin.label := %s; Bin.shape := %s |}" % (cbool(v["meta"]), v["fl"], zl(lbl), zl(v["sh"]))
    keys = "None" if v["keys"] is None else "(Some %s)" % bval(v["keys"])
    t = v["t"]
    if t == "box":
        return "(Bin.BBox %s %s [%s])" % (h, keys, ";".join(bval(x) for x in v["d"]))
    if t == "cplx":
        p = "(Bin.LCplx [%s])" % ";".join("(%d,%d)" % (a, b) for a, b in v["d"])
    else:
        p = "(Bin.%s %s)" % ({"num": "LNum", "byte": "LByte", "char": "LChar"}[t], zl(v["d"]))
    return "(Bin.BLeaf %s %s %s)" % (h, keys, p)


def render(c):
    k = c["k"]
    if k == "bits":
        return "TBits %s %s %s" % (zl(c["sh"]), zl(c["d"]), olz(c["out"]))
    if k == "unbits":
        return "TUnBits %s %s %s" % (zl(c["sh"]), zl(c["d"]), olz(c["out"]))
    if k == "utf8":
        return "TUtf8 %s %s" % (zl(c["cps"]), zl(c["out"]["d"]))
    if k == "unutf8":
        return "TUnUtf8 %s %s" % (zl(c["bytes"]), ol(c["out"]))
    if k == "utf16":
        return "TUtf16 %s %s" % (zl(c["cps"]), zl(c["out"]["d"]))
    if k == "unutf16":
        return "TUnUtf16 %s %s" % (zl(c["units"]), ol(c["out"]))
    if k == "base":
        return "TBase %d %s %s %s %s" % (c["b"], zl(c["sh"]), zl(c["d"]), zl(c["out"]["sh"]), zl(c["out"]["d"]))
    if k == "antibase":
        return "TAntiBase %d %s %s %s %s" % (c["b"], zl(c["sh"]), zl(c["d"]), zl(c["out"]["sh"]), zl(c["out"]["d"]))
    if k == "bytes":
        sg, w = FMT[c["f"]]
        return "TBytes %s %d%%nat %s %s %s %s %s" % (cbool(sg), w, cbool(c["side"] == 2), zl(c["sh"]), zl(c["d"]), zl(c["out"]["sh"]), zl(c["out"]["d"]))
    if k == "unbytes":
        sg, w = FMT[c["f"]]
        return "TUnBytes %s %d%%nat %s %s %s %s" % (cbool(sg), w, cbool(c["side"] == 2), zl(c["sh"]), zl(c["d"]), olz(c["out"]))
    if k == "binary":
        return "TBinary %s %s" % (bval(c["v"]), "None" if c["out"] is None else "(Some %s)" % zl(c["out"]["d"]))
    if k == "unbinary":
        return "TUnBinary %s %s" % (zl(c["bytes"]), "None" if c["out"] is None else "(Some %s)" % bval(c["out"]))
    if k == "cast":
        return "TCast %d %s %s %d %d" % (c["bits"], "None" if c["int"] is None else "(Some (%d))" % c["int"], cbool(c["nonneg"]), c["f32"], c["f32back"])
    if k == "ofint":
        return "TOfInt (%d) %d" % (c["z"], c["bits"])
    if k == "of32":
        return "TOf32 %d %d" % (c["f32"], c["bits"])
    raise ValueError(k)


def usable(c):
    """cases the model is meant to cover (everything else is counted as skipped)"""
    k = c["k"]
    if k == "crash":
        return False
    if k == "unbinary" and "interpreter has crashed" in c.get("err", ""):
        return False   # a panic inside the decoder (reported separately), not a verdict to compare
    if k in ("bits", "unbits", "base", "antibase", "bytes", "unbytes"):
        o = c["out"]
        if o == "non-integer":
            return False
        if k in ("base", "antibase", "bytes") and o is None:
            return False
        if k in ("antibase", "unbits") and o and any(abs(x) >= 2 ** 53 for x in o["d"]):
            return False   # beyond exact float arithmetic (documented warning)
    if k in ("utf8", "utf16") and not isinstance(c["out"], dict):
        return False
    if k in ("unutf8", "unutf16") and c["out"] == "non-char":
        return False
    if k == "binary" and c["out"] == "non-integer":
        return False
    return True


def binary_stats(cases):
    """what the binary tie values contain (the structural theorem now covers map keys: count them)"""
    st = {"values": 0, "with_map_keys": 0, "map_keys_nested_in_boxes": 0, "with_label": 0, "boxes": 0, "max_nesting": 0}

    def walk(v, depth, top):
        st["max_nesting"] = max(st["max_nesting"], depth)
        has = v["keys"] is not None
        if has:
            walk(v["keys"], depth + 1, False)
        if v["t"] == "box":
            for x in v["d"]:
                has = walk(x, depth + 1, False) or has
        return has

    for c in cases:
        if c["k"] != "binary":
            continue
        v = c["v"]
        st["values"] += 1
        if v["keys"] is not None:
            st["with_map_keys"] += 1
        elif walk(v, 0, True):
            st["map_keys_nested_in_boxes"] += 1
        else:
            walk(v, 0, True)
        if v["lbl"]:
            st["with_label"] += 1
        if v["t"] == "box":
            st["boxes"] += 1
    return st


def base_rowlen(cases):
    """how the implementation's row length compares with the digits the largest entry needs"""
    res = {"cases": 0, "exact": 0, "one_longer": 0, "short": 0, "other": 0}
    for c in cases:
        if c["k"] != "base":
            continue
        b, m, ln = c["b"], max([abs(x) for x in c["d"]] + [0]), c["out"]["sh"][-1]
        need = 0
        while m and b ** need <= m:
            need += 1
        res["cases"] += 1
        res["exact" if ln == need else "one_longer" if ln == need + 1 else "short" if ln < need else "other"] += 1
    return res


def run(r):
    quick = r.tier == "quick"
    r.trusted += TRUSTED_COMMON + [
        "f64 arithmetic on integers below 2^53 is exact integer arithmetic (the models of bits/base/bytes compute in Z); checked by the tie on every run",
        "the bit-level float casts of the binary model (f64<->integer, f64<->f32, negative-zero test: Model/Codec.v c_to_int, c_of_int, c_to_f32, c_of_f32, negzero) agree with rustc's `as` casts bit for bit, NaN payloads/sign, subnormals and the f32 range edges included; checked by the tie's cast cases and by the encoder bytes of the special-value corpus on every run (they are premises `num_laws` of the binary theorems, not proved for the f64 instance)",
        "Rust's String::from_utf8 / into_bytes / encode_utf16 / from_utf16 are the standard UTF-8/UTF-16 codecs on Unicode scalar values (Model Utf8/Utf16); checked by the tie incl. malformed inputs",
        "base: the floating-point logarithm behind the row length is not modelled (parameter `est`); the tie checks on every base case that the implementation's row length is sufficient and at most one digit longer than needed",
        "validate_size's limits on non-empty shapes (u32::MAX elements, UIUA_MAX_MB) are subsumed in the decoder model by the remaining-input guards; only the rule for empty shapes (product of the non-zero dims <= 2^63) is modelled",
        "serde_json/json5, csv, flate2, the number printer/parser, graphemes and `repr` are not modelled: search only; the f32/f64 formats of `bytes`, list bases and subscripted bits likewise",
        "native endianness = little endian on the checked platform",
    ]
    r.assumptions += [
        "bits: integers with |n| < 2^53 (documented precision warning), any shape, negatives included, element count = product of shape",
        "base: scalar base >= 2, |n| < b^len (C18_antibase_base) resp. the floor of the float logarithm at most one digit short (est_close, C18_antibase_base_auto)",
        "utf8/utf16: code points are Unicode scalar values (what a uiua character is); utf8_un_utf8: the decoder accepted the bytes",
        "bytes: every integer format u8 ... i128 (width >= 1 byte), values within the format's range, element count = product of shape",
        "binary (C18_from_binary_to_binary, C18_binary_num_roundtrip): every value, map arrays included (the keys are a well-formed value with as many rows as the array, counted as one nesting level; the model takes the keys in the normalized order `°map` returns and does not represent the hash table: distinctness of the keys and the rebuilt table are C16's), flags <= 15, label valid UTF-8 shorter than 2^32, rank <= 255, dims < 2^32, product of the non-zero dims <= 2^63, nesting <= 32, element count = product of shape (C05), f64 patterns < 2^64, the numeric casts satisfy num_laws (inhabited; tied for f64). The result is bit-exact (negative zero and NaN payloads included); numbers 0..255 may come back in byte storage, byte keys come back as numbers (norm_keys)",
        "json: what the documentation shows (lists of finite numbers, strings, heterogeneous boxed lists, maps with string keys); csv: rank-2 arrays of boxed strings; compress: byte strings x gzip/zlib/deflate",
    ]
    if not r.harness(["c18"]):
        return
    r.proofs()

    # ---------------- tie: encoder outputs byte for byte, decoder verdicts
    n = 60 if quick else 1500
    rc, out, err = run_bin("c18", ["tie", n], seed=r.seed, timeout=1800)
    cases = json_lines(out)
    if rc != 0 or not cases:
        r.broken_obligation("tie-harness", "c18 tie failed to run", (out + err)[-2000:])
        cases = []
    used = [c for c in cases if usable(c)]
    kinds = {}
    for c in used:
        kinds[c["k"]] = kinds.get(c["k"], 0) + 1
    shard = 150
    jobs = []
    for si, ch in enumerate(chunks(used, shard)):
        body = ";\n".join(render(c) for c in ch)
        text = ("From Coq Require Import List ZArith. Import ListNotations.\nFrom UV Require Import Model.Codec.\nOpen Scope Z_scope.\n"
                "Definition cases : list tcase := [\n%s\n].\nEval vm_compute in (failing_from 0 cases).\n" % body)
        jobs.append(("c18_tie_%d" % si, text))
    results = coq_eval_many(jobs, timeout=900)
    mism = []
    for si, (rc2, o) in enumerate(results):
        if rc2 != 0:
            r.broken_obligation("tie-eval", "Coq evaluation of tie shard %d failed" % si, o[-1500:])
            continue
        for i in coq_ints(o):
            mism.append(used[si * shard + i])
    mk = {}
    for c in mism:
        mk[c["k"]] = mk.get(c["k"], 0) + 1
    errs = sum(1 for c in used if c["k"].startswith("un") and c["out"] is None)
    r.coverage["tie"] = {"kind": "C", "cases": len(used), "skipped": len(cases) - len(used), "by_kind": kinds, "mismatches": len(mism),
                         "mismatch_by_kind": mk, "decoder_error_cases": errs,
                         "base_row_length": base_rowlen(used),
                         "binary_values": binary_stats(used),
                         "binary_encoded_bytes": sum(len(c["out"]["d"]) for c in used if c["k"] == "binary" and c["out"])}
    r.log("tie: %d cases %s, %d mismatches %s" % (len(used), kinds, len(mism), mk))
    for k in ("bits", "utf8", "binary", "bytes"):
        for c in used:
            if c["k"] == k and (k != "binary" or (c["out"] and 8 < len(c["out"]["d"]) < 40)):
                r.sample({kk: vv for kk, vv in c.items()})
                break
    if mism:
        for k in sorted(mk):
            c = [x for x in mism if x["k"] == k][0]
            r.broken_obligation("tie:Codec.v~%s" % k, "model and implementation disagree on %s (%d of %d cases)" % (k, mk[k], kinds[k]),
                                json.dumps(c, ensure_ascii=False)[:3000] + "\n" + render(c)[:3000])

    # a decoder that kills the process on a malformed encoding (found while mutating encodings)
    crashes = [c for c in cases if c["k"] == "crash"]
    r.coverage["tie"]["decoder_process_aborts"] = len(crashes)
    if crashes:
        c = min(crashes, key=lambda x: len(x["bytes"]))
        r.violation("unbinary/process-abort-on-box-count", "°binary aborts the whole process (%s) on the malformed encoding %s" % (c["stderr"], c["bytes"]),
                    {"bytes": c["bytes"], "status": c["status"], "stderr": c["stderr"], "count": len(crashes),
                     "program": "# Experimental!\n°binary [%s]" % " ".join(str(b) for b in c["bytes"])}, theorem=None)

    panics = [c for c in cases if c["k"] == "unbinary" and "interpreter has crashed" in c.get("err", "")]
    r.coverage["tie"]["decoder_panics"] = len(panics)
    if panics:
        c = min(panics, key=lambda x: len(x["bytes"]))
        r.violation("unbinary/panic-on-malformed-shape", "°binary panics (\"The interpreter has crashed\") on a malformed encoding of %d bytes starting %s" % (len(c["bytes"]), c["bytes"][:16]),
                    {"bytes": c["bytes"], "error": c["err"][:400], "count": len(panics)}, theorem=None)

    # ---------------- search: round trips on the real implementation, all codecs
    m = 300 if quick else 6000
    if r.broken:
        m *= 3
    rc, out, err = run_bin("c18", ["search", m], seed=r.seed, timeout=3000)
    lines = json_lines(out)
    summ = [l for l in lines if "evaluations" in l]
    viols = [l for l in lines if "violation" in l]
    if rc != 0 or not summ:
        r.broken_obligation("search-harness", "c18 search failed to run", (out + err)[-2000:])
    evals = sum(l["evaluations"] for l in summ)
    per = {}
    for l in summ:
        for k, v in l.get("per_codec", []):
            per[k] = per.get(k, 0) + v
    vk = {}
    for v in viols:
        key = "%s/%s" % (v["violation"], v["class"])
        vk.setdefault(key, []).append(v)
    r.coverage["search"] = {"evaluations": evals, "per_codec": per, "violations": len(viols), "violation_keys": {k: len(v) for k, v in vk.items()}}
    THEOREM = {"binary": "C18_from_binary_to_binary", "bits": "C18_unbits_bits", "base": "C18_antibase_base", "utf8": "C18_un_utf8_utf8",
               "utf16": "C18_un_utf16_utf16", "bytes": "C18_decode_encode_bytes", "unbinary": "C18_from_binary_to_binary"}
    for key in sorted(vk):
        v = min(vk[key], key=lambda x: len(x["input"]))
        r.violation(key, "round trip through %s fails (%s): input %s: %s" % (v["violation"], v["prog"], v["input"][:300], v["detail"][:400]),
                    {"codec": v["violation"], "class": v["class"], "program": v["prog"], "input": v["input"], "detail": v["detail"], "count": len(vk[key]),
                     "cmd": "VERIF_SEED=%d c18 search %d" % (r.seed, m)},
                    theorem=THEOREM.get(v["violation"].split("-")[0]))
    r.coverage["evaluations"] = len(used) + evals
    r.coverage["distinct_nontrivial"] = len(set(json.dumps(c, sort_keys=True) for c in used if c.get("d") or c.get("cps") or c.get("bytes") or c.get("v")))
    r.coverage["rule"] = (
        "tie (model vs implementation, encoder output compared byte for byte, decoder verdict and decoded BIT PATTERNS compared): a fixed regression corpus first "
        "(inputs of the repaired defects: base exact powers, i8 shapes, malformed box counts / overflowing shapes decoded in a child process, negative zero, empty complex lists, "
        "escape + runs of cluster-joining characters, +-i with signed zero real parts), then the boundary corpus of `binary` (every width-class boundary; 20 special patterns - NaNs with "
        "payload/sign incl. W and the map sentinels, signalling NaN, +-0, f64 and f32 subnormals, f32::MAX and just above, infinities - alone and next to a companion of every width class), "
        "then generated inputs: integer arrays (rank 0-3, empty axes, negatives, up to 2^113), strings over a code-point pool incl. astral/combining/boundary code points and segments "
        "`escaped char + 1-4 cluster-joining chars`, mutated/truncated/hand-made malformed UTF-8/16, every integer byte format x 3 endianness modes incl. saturating inputs, values of every "
        "element type rank 0-4 with labels/maps/flags/nesting up to the depth cap, and truncated/byte-flipped/extended encodings; float cast cases on special and random bit patterns. "
        "non-trivial = non-empty input. "
        "search (implementation only, all codecs of the property): the same corpora and generators through encoder then decoder: binary (bit-exact incl. NaN payloads), repr (evaluate the text; "
        "bit-exact except NaN payloads), number print/parse of finite floats, utf8/utf16/graphemes, bits, base (incl. every power of 13 bases +-1), json, csv, compress (3 algorithms, "
        "decompress with and without naming the algorithm), bytes (12 formats x 3 endianness modes; f32/f64 bit-exact); compared with uiua equality + shape + type + label + map keys")
