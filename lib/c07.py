"""C07 - iterating and argument-routing modifiers equal their definitions."""
from common import *

# stable keys of the defects the refuted-theorems describe: (family|class) -> theorem
THEOREM_OF = {
    "inventory-pervasive-unboxed": "C07_inventory_pervasive_boxes",
    "rows-depth-below-rank": "C07_exec_rows_cap",
    "empty-axis-error": "C07_kernel_empty_lead",
    "multi-output": "C07_iter_exec_runs",
    "multi-output-empty": "C07_iter_exec_zero",
    "malformed-result": "C07_box_kernel_wf",
    "stale-sorted-mark": "C07_kernel_eq_generic",
}


def run(r):
    quick = r.tier == "quick"
    r.trusted += TRUSTED_COMMON + [
        "Model/Prims.v is the reference semantics of the primitives F that are applied 'by hand' in the Coq definitions (validated against the implementation by C08's tie)",
        "Model/Kernels.v (depth kernels, fast-path selection, rank limit, inventory's compile-time split) and Model/RoutePack.v (n-ary fork / bracket) are hand transcriptions of zip.rs, monadic/mod.rs, reduce.rs, compile/modifier.rs and run_prim.rs; Kernels.v is tied on every run, RoutePack.v is connected by the search only",
        "the by-hand evaluator of the harness (rows / elements / pairs / prefixes / routed arguments through separate interpreter runs of F, strict assembly with Value::from_row_values_infallible) is the executable reading of the documentation for everything outside the Coq catalogue; it uses the interpreter itself to run F and to select rows",
        "sortedness marks are not part of the kernel model (C06 covers them; the search feeds marked arguments); numbers are integers in the Coq arrays (infinite identities of empty min/max reductions, NaN, complex numbers and boxes are compared by the search only)",
        "peephole optimisations (compile/optimize.rs) rewrite some composites before f_mon_fast_fn sees them; the Coq catalogue avoids those pairs, the search covers them against the by-hand results",
    ]
    r.assumptions += [
        "arrays satisfy length(data) = product(shape) (C05; premise wf)",
        "kernel_eq_generic / box_kernel_eq / exec_rows_atom_eq: exact equality when every mapped axis is non-empty, for arrays of any rank (also below the nesting depth); over an empty mapped axis only the leading lengths are claimed (kernel_empty_lead; the property's carve-out)",
        "kernels under theorems: identity, reverse, transpose, first, last, deshape, fix, box, and the typed reduction at a depth (fast_reduce: at depth d = d nested rows of the depth-0 reduction kernel, any blockwise kernel through blockwise_generic); that the depth-0 reduction kernel equals the left fold of the definition, sort, classify, pervasives, generic_reduce_inner, scan, table and the dyadic fast paths are covered by the tie (reduce, sort, pervasives) and the search only",
        "the *_refuted_pre theorems are records about the model of the code BEFORE the fix commits 73cdc70, f64950a, 3374592, 68a793c, 09b3e8b (flag pre = true); the current model (pre = false) is what the tie compares",
        "routing specs over Model/Exec.v: the operands' frame behaviour (Frame.sig_sound) is a premise",
        "fork / bracket with a pack of n functions: Model/Exec.v carries the 2-function forms only; the n-ary laws are proved of Model/RoutePack.v (operands as pure argument->output maps) and connected to the implementation by the search only; subscripted both/on/by/with/off, dip/gap chains, backward and self are search only",
        "spine-level theorems about the iterating modifiers (iter_operand_ext, iter_exec_zero, iter_exec_runs) are about Model/Exec.v's iter_exec, where the array side (how many runs, which arguments, how results are assembled) is an oracle; the array side is what Kernels.v, the tie and the search cover",
        "scalar second arguments under rows and the trailing shape / element type over empty mapped axes are outside the property and not compared",
    ]
    if not r.harness(["c07"]):
        return
    r.proofs()

    # ---- tie (C): faithful kernels AND definitions, both evaluated in Coq, against the interpreter
    n = 1600 if quick else 24000
    rc, out, err = run_bin("c07", ["tie", n], seed=r.seed, timeout=900)
    cases = json_lines(out)
    if rc != 0 or not cases:
        r.broken_obligation("tie-harness", "c07 tie failed to run", (out + err)[-2000:])
        cases = []
    rep = [c for c in cases if c["rep"]]
    shard = 200
    jobs = []
    for si, ch in enumerate(chunks(rep, shard)):
        body = ";\n".join("KC %s %d %s %s" % (c["f"], c["k"], c["x"], c["out"]) for c in ch)
        text = ("From Coq Require Import List ZArith NArith. Import ListNotations.\nFrom UV Require Import Model.Prims Model.Kernels.\n"
                "Definition cases : list kcase := [\n%s\n].\nEval vm_compute in (kcodes cases).\n" % body)
        jobs.append(("c07_tie_%d" % si, text))
    results = coq_eval_many(jobs, timeout=900)
    kern_mism, def_mism, unspec_m, unspec_d, fast = [], [], 0, 0, 0
    for si, (rc2, o) in enumerate(results):
        codes = coq_ints(o) if rc2 == 0 else []
        ch = rep[si * shard:(si + 1) * shard]
        if rc2 != 0 or len(codes) != len(ch):
            r.broken_obligation("tie-eval", "Coq evaluation of tie shard %d failed" % si, o[-1500:])
            continue
        for c, code in zip(ch, codes):
            if code & 16:
                fast += 1
            if code & 4:
                unspec_m += 1
            if code & 8:
                unspec_d += 1
            if code & 1:
                kern_mism.append(c)
            if code & 2:
                def_mism.append(c)
    by_f, by_k, empt, len1, below = {}, {}, 0, 0, 0
    for c in rep:
        by_f[c["prog"].lstrip("≡")] = by_f.get(c["prog"].lstrip("≡"), 0) + 1
        by_k[c["k"]] = by_k.get(c["k"], 0) + 1
        sh = json.loads(c["show_x"].rsplit("shape ", 1)[1])
        empt += 1 if 0 in sh[:c["k"]] else 0
        len1 += 1 if sh and sh[0] == 1 else 0
        below += 1 if len(sh) < c["k"] else 0
    r.coverage["tie"] = {"kind": "C", "cases": len(cases), "representable": len(rep), "fast_path_cases": fast,
                         "kernel_vs_impl_mismatches": len(kern_mism), "definition_vs_impl_mismatches": len(def_mism),
                         "model_undetermined": unspec_m, "definition_undetermined": unspec_d,
                         "by_operand": by_f, "by_nesting": by_k, "empty_mapped_axis": empt, "leading_length_1": len1,
                         "rank_below_nesting": below}
    r.log("tie: %d cases (%d fast-path), kernel<>impl %d, definition<>impl %d" % (len(rep), fast, len(kern_mism), len(def_mism)))
    for c in rep[:2] + rep[-2:]:
        r.sample({"program": c["prog"], "x": c["show_x"], "impl": c["show_out"]})
    if kern_mism:
        c = kern_mism[0]
        r.broken_obligation("tie:Kernels.v~zip.rs", "the transcribed kernel and the implementation disagree (%d of %d), e.g. `%s` on %s: impl %s" % (
            len(kern_mism), len(rep), c["prog"], c["show_x"], c["show_out"]), json.dumps(c, ensure_ascii=False))
    seen = set()
    for c in def_mism:
        sh = json.loads(c["show_x"].rsplit("shape ", 1)[1])
        if "MALFORMED" in c["show_out"]:
            cls = "malformed-result"
        elif 0 in sh[:c["k"] + c["prog"].lstrip("≡").count("≡")]:
            cls = "empty-axis-error"
        elif len(sh) < c["k"]:
            cls = "rows-depth-below-rank"
        else:
            cls = "value"
        key = "≡|%s" % cls
        full = key if r.match_known(key) else "%s|%s" % (key, c["prog"])
        if full in seen:
            continue
        seen.add(full)
        r.violation(full, "`%s` on %s gives %s, which is not what applying the operand to each row by hand gives (definition evaluated in Coq)" % (
            c["prog"], c["show_x"], c["show_out"]),
            {"program": c["prog"], "x": c["show_x"], "impl": c["show_out"], "coq_case": "KC %s %d %s %s" % (c["f"], c["k"], c["x"], c["out"]),
             "cmd": "VERIF_SEED=%d c07 tie %d" % (r.seed, n)}, theorem=THEOREM_OF.get(cls, "C07_kernel_eq_generic"))

    # ---- search: metamorphic, implementation level
    m = 4000 if quick else 120000
    if r.broken:
        m *= 4
    rc, out, err = run_bin("c07", ["search", m], seed=r.seed, timeout=2400)
    lines = json_lines(out)
    if rc != 0 or not lines:
        r.broken_obligation("search-harness", "c07 search failed to run", (out + err)[-2000:])
    summ = [l for l in lines if "evaluations" in l]
    evals = sum(l.get("evaluations", 0) for l in summ)
    compared = sum(l.get("compared", 0) for l in summ)
    viols = [l for l in lines if "violation" in l]
    fam = summ[0]["families"] if summ else {}
    r.coverage["search"] = {"evaluations": evals, "comparisons": compared, "distinct_disagreements": len(viols),
                            "disagreeing_comparisons": sum(l.get("violations", 0) for l in summ), "families": fam}
    seen = set()
    for v in viols:
        key = "%s|%s" % (v["violation"], v["class"])
        full = key if r.match_known(key) else "%s|%s|%s" % (key, v["operand"], v["variant"])
        if full in seen:
            continue
        seen.add(full)
        r.violation(full, "`%s` (%s) on %s gives %s; by hand: %s" % (v["program"], v["variant"], v["args"], v["got"], v["by_hand"]),
                    {"program": v["program"], "variant": v["variant"], "args": v["args"], "got": v["got"], "by_hand": v["by_hand"],
                     "cmd": "VERIF_SEED=%d c07 search %d" % (r.seed, m)}, theorem=THEOREM_OF.get(v["class"].split(":")[0], "C07_kernel_eq_generic"))
    r.log("search: %d interpreter runs, %d comparisons, %d distinct disagreements" % (evals, compared, len(viols)))
    r.coverage["evaluations"] = len(cases) + evals
    r.coverage["distinct_nontrivial"] = len(set((c["prog"], c["x"]) for c in rep if "[]" not in c["x"])) + compared // 3
    r.coverage["rule"] = (
        "tie (every run): 26 catalogue operands (fast-path atoms, generic atoms, composites with equal / unequal kernel depths, rows inside the operand) x nesting 1-3 x integer or "
        "character array of rank 1-4, axis lengths 0-3, leading axis forced to 1 / 0 in 30% of the cases; the interpreter's result is compared in Coq with BOTH the transcribed kernel "
        "(exactly) and the definition (the property's relation). "
        "search (every run), each case = direct / named binding / `(F∘)` noise against the result assembled by hand: "
        "(1) 44 monadic and 21 dyadic single-output operands under rows (nesting 1-3), each (1 and 3 arguments), inventory (nesting 1-2), rows with two arguments, table (also ⊞₋₁ / ⊞₋₂), "
        "reduce and scan (bare and under 1-2 rows), fused reduce-table, fold, repeat, group / partition with box, arrays of every element type, rank 1-3, forced length-1 / empty axes; "
        "(2) routing: dip gap on by with off above below both bracket fork backward self with one or two operands, fork and bracket with packs of 3-4 functions of mixed arities, both with "
        "subscripts 2-4, on/by/with/off with subscript 2, dip/gap chains; the whole stack is compared, the values beneath included; "
        "(3) operands with 2-3 outputs (constants, random numbers, by / on / fork / bracket inside the operand) under rows (depth 1-2), each, inventory, rows with two arguments, table, fold "
        "with two accumulators: ALL outputs compared in order; "
        "(4) arguments that carry run-time sortedness marks (sort, reversed sort, select by rise; ties; byte and float storage; rank 1-3; rows ordered while later columns are not monotone) "
        "under every modifier with a primitive-specialised path; "
        "(5) fixed corpora replayed first: the inputs of all earlier findings and of the repaired defects (rounds 1-7) and the directed packs; 40 cases with a MAP as argument of "
        "rows / each / inventory / reduce / scan / table (result valid and, keys aside, equal to the result on the plain values). "
        "Families (3), (4) and the pack part of (2) take one iteration in six each. non-trivial = array with at least one element")
