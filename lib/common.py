"""Shared machinery of the /verif checks: builds (harness, Coq), the proof gate,
evaluation of model cases inside Coq, verdicts, evidence and replay files."""
import fcntl
import glob
import hashlib
import json
import os
import re
import subprocess
import sys
import time
from concurrent.futures import ThreadPoolExecutor

ROOT = os.path.dirname(os.path.dirname(os.path.abspath(__file__)))
COQ = os.path.join(ROOT, "coq")
CACHE = os.path.join(ROOT, ".cache")
# overrides used only by lib/seedtest.py (isolated runs against a mutated copy of the repository)
TARGET = os.environ.get("VERIF_TARGET_DIR") or os.path.join(CACHE, "target")
BIN = os.path.join(TARGET, "verif")
HARNESS = os.environ.get("VERIF_HARNESS_DIR") or os.path.join(ROOT, "harness")
REPO = os.environ.get("VERIF_REPO") or "/repo"
OUTDIR = os.environ.get("VERIF_OUT_DIR") or ROOT      # evidence/ and replays/ go here
TAG = os.environ.get("VERIF_TAG", "")
NCPU = os.cpu_count() or 8

ENV = dict(os.environ)
ENV.update({"CARGO_NET_OFFLINE": "true", "CARGO_TARGET_DIR": TARGET, "RUSTFLAGS": "-Awarnings",
            "CARGO_TERM_COLOR": "never"})

FORBIDDEN = re.compile(
    r"\b(Admitted|admit|Axiom|Axioms|Parameter|Parameters|Conjecture|Conjectures|Abort All)\b|"
    r"Unset\s+Guard|bypass_check|type-in-type|impredicative-set|Admit\s+Obligations|"
    r"Unset\s+Positivity|Unset\s+Universe")


def sh(cmd, timeout=1200, cwd=ROOT, env=None, stdin=None):
    """run a command, return (rc, stdout+stderr)"""
    try:
        p = subprocess.run(cmd, cwd=cwd, env=env or ENV, input=stdin, stdout=subprocess.PIPE,
                           stderr=subprocess.STDOUT, timeout=timeout, shell=isinstance(cmd, str),
                           text=True, errors="replace")
        return p.returncode, p.stdout
    except subprocess.TimeoutExpired as e:
        out = e.stdout or ""
        if isinstance(out, bytes):
            out = out.decode("utf8", "replace")
        return 124, out + "\n[timeout after %ss]" % timeout


def sh2(cmd, timeout=1200, cwd=ROOT, env=None, stdin=None):
    """run a command, return (rc, stdout, stderr) separately"""
    try:
        p = subprocess.run(cmd, cwd=cwd, env=env or ENV, input=stdin, stdout=subprocess.PIPE,
                           stderr=subprocess.PIPE, timeout=timeout, shell=isinstance(cmd, str),
                           text=True, errors="replace")
        return p.returncode, p.stdout, p.stderr
    except subprocess.TimeoutExpired as e:
        out = e.stdout or ""
        if isinstance(out, bytes):
            out = out.decode("utf8", "replace")
        return 124, out, "[timeout after %ss]" % timeout


class Lock:
    def __init__(self, name):
        os.makedirs(CACHE, exist_ok=True)
        self.path = os.path.join(CACHE, name + ".lock")

    def __enter__(self):
        self.f = open(self.path, "w")
        fcntl.flock(self.f, fcntl.LOCK_EX)
        return self

    def __exit__(self, *a):
        fcntl.flock(self.f, fcntl.LOCK_UN)
        self.f.close()


# ------------------------------------------------------------------ builds

def repo_rev():
    rc, out = sh(["git", "-C", REPO, "rev-parse", "--short", "HEAD"])
    rc2, st = sh(["git", "-C", REPO, "status", "--porcelain", "--untracked-files=no"])
    return out.strip() + ("+dirty" if st.strip() else "")


def build_harness(bins, timeout=2400):
    """(re)build harness binaries against /repo's current working tree (hooks on)"""
    os.makedirs(CACHE, exist_ok=True)
    lockfile = os.path.join(HARNESS, "Cargo.lock")
    if not os.path.exists(lockfile):
        sh(["cp", os.path.join(REPO, "Cargo.lock"), lockfile])
    cmd = ["cargo", "build", "--offline", "--profile", "verif"]
    for b in bins:
        cmd += ["--bin", b]
    with Lock("cargo"):
        t = time.time()
        rc, out = sh(cmd, timeout=timeout, cwd=HARNESS)
        dt = time.time() - t
    return rc == 0, out, dt, " ".join(cmd)


def coq_sources():
    fs = []
    for d in ("Base", "Gen", "Model", "Proofs", "Props"):
        fs += sorted(glob.glob(os.path.join(COQ, d, "*.v")))
    return [os.path.relpath(f, COQ) for f in fs]


def coq_prepare():
    """write _CoqProject and Makefile when the set of source files changed"""
    srcs = coq_sources()
    text = "-Q . UV\n" + "\n".join(srcs) + "\n"
    proj = os.path.join(COQ, "_CoqProject")
    old = open(proj).read() if os.path.exists(proj) else ""
    if old != text or not os.path.exists(os.path.join(COQ, "Makefile")):
        with open(proj, "w") as f:
            f.write(text)
        rc, out = sh(["coq_makefile", "-f", "_CoqProject", "-o", "Makefile"], cwd=COQ)
        if rc != 0:
            raise RuntimeError("coq_makefile failed: " + out)


def coq_make(targets, timeout=1800):
    """full .vo build of the given targets (e.g. ['Props/C15.vo']) and everything they need"""
    with Lock("coq"):
        coq_prepare()
        cmd = ["make", "-j%d" % NCPU] + targets
        t = time.time()
        # some Qed checks need a deep stack (the hard limit is unlimited in this sandbox)
        rc, out = sh("ulimit -s unlimited 2>/dev/null || ulimit -s 1000000 2>/dev/null; exec timeout %d %s" % (timeout, " ".join(cmd)),
                     timeout=timeout + 30, cwd=COQ)
        dt = time.time() - t
    return rc == 0, out, dt, "cd coq && " + " ".join(cmd)


def coq_deps(prop_file):
    """transitive UV.* dependencies of a Props file, as relative .v paths"""
    seen, todo = [], [prop_file]
    while todo:
        f = todo.pop()
        if f in seen:
            continue
        seen.append(f)
        try:
            src = open(os.path.join(COQ, f)).read()
        except OSError:
            continue
        for m in re.finditer(r"From\s+UV\s+Require\s+(?:Import|Export)\s+([\w.\s]+?)\.\s", src):
            for mod in m.group(1).split():
                todo.append(mod.replace(".", "/") + ".v")
        for m in re.finditer(r"(?<!UV )Require\s+(?:Import|Export)\s+((?:UV\.[\w.]+\s*)+)\.\s", src):
            for mod in m.group(1).split():
                todo.append(mod[3:].replace(".", "/") + ".v")
    return [f for f in seen if os.path.exists(os.path.join(COQ, f))]


def gate(files):
    """forbidden constructs in the given Coq sources; returns list of 'file:line: text'"""
    hits = []
    for f in files:
        path = os.path.join(COQ, f)
        try:
            src = open(path).read()
        except OSError:
            continue
        # strip comments (nested)
        out, depth, i = [], 0, 0
        while i < len(src):
            if src.startswith("(*", i):
                depth += 1
                i += 2
            elif src.startswith("*)", i) and depth > 0:
                depth -= 1
                i += 2
            else:
                out.append(src[i] if depth == 0 or src[i] == "\n" else " ")
                i += 1
        for n, line in enumerate("".join(out).split("\n"), 1):
            if FORBIDDEN.search(line):
                hits.append("%s:%d: %s" % (f, n, line.strip()))
            if re.match(r"\s*(Variable|Variables|Hypothesis|Hypotheses|Context)\b", line):
                # allowed only inside a Section: checked structurally below
                pass
        # Variables/Hypotheses outside sections
        depth = 0
        for n, line in enumerate("".join(out).split("\n"), 1):
            if re.match(r"\s*Section\s+\w+", line):
                depth += 1
            elif re.match(r"\s*End\s+\w+\s*\.", line) and depth > 0:
                depth -= 1
            elif depth == 0 and re.match(r"\s*(Variable|Variables|Hypothesis|Hypotheses)\b", line):
                hits.append("%s:%d: %s (outside a section)" % (f, n, line.strip()))
    return hits


def theorems_of(prop):
    src = open(os.path.join(COQ, "Props", prop + ".v")).read()
    return re.findall(r"^\s*Theorem\s+(%s_\w+)" % prop, src, re.M)


ALLOWED_AXIOMS = set()  # target: every property theorem is closed under the global context


def assumptions(prop, timeout=300):
    """Print Assumptions for every theorem of Props/<prop>.v -> {name: [axioms]}"""
    names = theorems_of(prop)
    os.makedirs(os.path.join(COQ, "Cases"), exist_ok=True)
    text = "From UV Require Import Props.%s.\n" % prop
    for n in names:
        text += 'Goal True. idtac "@@ %s". exact I. Qed.\nPrint Assumptions %s.\n' % (n, n)
    rc, out = coq_eval("assum_" + prop, text, timeout)
    res = {}
    cur = None
    for line in out.split("\n"):
        m = re.match(r"@@ (\w+)", line)
        if m:
            cur = m.group(1)
            res[cur] = []
        elif cur and line.strip() and not line.startswith("Closed under") and not line.startswith("Axioms:"):
            m2 = re.match(r"\s*([\w.']+)\s*:", line)
            if m2:
                res[cur].append(m2.group(1))
        elif cur and line.startswith("Closed under"):
            pass
    if rc != 0:
        res["__error__"] = [out[-2000:]]
    for n in names:
        if n not in res:
            res[n] = ["<no output>"]
    return res


def coq_eval(name, text, timeout=600):
    """compile a generated file under coq/Cases and return (rc, stdout)"""
    d = os.path.join(COQ, "Cases")
    os.makedirs(d, exist_ok=True)
    name = TAG + name
    path = os.path.join(d, name + ".v")
    with open(path, "w") as f:
        f.write(text)
    rc, out = sh(["timeout", str(timeout), "coqc", "-noglob", "-Q", COQ, "UV", path], timeout=timeout + 20, cwd=COQ)
    for ext in (".vo", ".vok", ".vos", ".glob"):
        try:
            os.remove(os.path.join(d, name + ext))
        except OSError:
            pass
    try:
        os.remove(os.path.join(d, "." + name + ".aux"))
    except OSError:
        pass
    return rc, out


def coq_eval_many(jobs, timeout=600):
    """jobs: list of (name, text); evaluated in parallel; returns list of (rc, out)"""
    with ThreadPoolExecutor(max_workers=NCPU) as ex:
        return list(ex.map(lambda j: coq_eval(j[0], j[1], timeout), jobs))


def coq_ints(out):
    """all natural numbers of the printed result of `Eval vm_compute in e` (after the '=')"""
    m = re.search(r"=\s*(.*?)\n\s*:\s", out, re.S)
    body = m.group(1) if m else out
    return [int(x) for x in re.findall(r"\d+", body)]


def chunks(xs, n):
    return [xs[i:i + n] for i in range(0, len(xs), n)]


# ------------------------------------------------------------------ known findings

def known_findings(prop):
    path = os.path.join(ROOT, "known_findings.json")
    try:
        data = json.load(open(path))
    except OSError:
        return []
    return [k for k in data.get("findings", []) if k.get("property") == prop and k.get("status") == "open"]


# ------------------------------------------------------------------ a run

class Run:
    def __init__(self, prop, tier, level):
        self.prop = prop
        self.tier = tier if tier in ("quick", "thorough") else "quick"
        self.level = level
        self.seed = int(os.environ.get("VERIF_SEED", "1") or 1)
        self.t0 = time.time()
        self.violations = []      # (replay path, text)
        self.known_hits = []
        self.coverage = {"samples": []}
        self.assumptions = []
        self.notes = []
        self.workdir = os.path.join(CACHE, "runs", prop)
        os.makedirs(self.workdir, exist_ok=True)
        os.makedirs(os.path.join(OUTDIR, "evidence"), exist_ok=True)
        self.known = known_findings(prop)
        self.obligations = 0
        self.discharged = 0
        self.checker_cmds = []
        self.trusted = []
        self.broken = []          # names of theorems / ties that no longer check

    def log(self, *a):
        print("[%s %6.1fs]" % (self.prop, time.time() - self.t0), *a, flush=True)

    # -- builds ------------------------------------------------------
    def harness(self, bins):
        ok, out, dt, cmd = build_harness(bins)
        self.log("harness build %s in %.0fs" % ("ok" if ok else "FAILED", dt))
        if not ok:
            self.log(out[-3000:])
            self.broken_obligation("harness-build", "the harness no longer builds against /repo's working tree", out[-3000:])
        return ok

    def proofs(self, prop=None):
        """build Props/<prop>.vo, run the gate, collect Print Assumptions"""
        prop = prop or self.prop
        files = coq_deps("Props/%s.v" % prop)
        ok, out, dt, cmd = coq_make(["Props/%s.vo" % prop])
        self.checker_cmds.append(cmd)
        names = theorems_of(prop)
        self.obligations += len(names)
        self.log("coq build of Props/%s.vo %s in %.0fs (%d files, %d theorems)" % (prop, "ok" if ok else "FAILED", dt, len(files), len(names)))
        if not ok:
            tail = out[-3000:]
            self.log(tail)
            m = re.search(r'File "\./([^"]+)", line (\d+)', out)
            where = "%s:%s" % (m.group(1), m.group(2)) if m else "?"
            self.broken_obligation("coq-build:" + where, "a proof obligation of %s no longer checks (%s)" % (prop, where), tail)
            return False
        hits = gate(files)
        if hits:
            self.broken_obligation("proof-gate", "forbidden construct in the development: " + "; ".join(hits[:5]), "\n".join(hits))
            return False
        ass = assumptions(prop)
        bad = {n: a for n, a in ass.items() if [x for x in a if x not in ALLOWED_AXIOMS]}
        self.coverage["print_assumptions"] = {n: (a or "Closed under the global context") for n, a in ass.items()}
        if bad:
            self.broken_obligation("print-assumptions", "theorems depend on axioms outside the allowlist: %s" % bad, json.dumps(bad))
            return False
        self.discharged += len(names)
        self.coverage.setdefault("theorems", []).extend(names)
        self.coverage.setdefault("coq_files", []).extend(f for f in files if f not in self.coverage.get("coq_files", []))
        return True

    # -- verdicts ----------------------------------------------------
    def replay_path(self, tag):
        h = hashlib.sha1(tag.encode()).hexdigest()[:10]
        d = os.path.join(OUTDIR, "replays")
        os.makedirs(d, exist_ok=True)
        return os.path.join(d, "%s_%s.json" % (self.prop, h))

    def match_known(self, key):
        for k in self.known:
            pat = k.get("match", {}).get("key", "")
            if pat and (pat == key or (k.get("match", {}).get("kind") == "regex" and re.search(pat, key))):
                return k
        return None

    def violation(self, key, what, detail, kind="counterexample", theorem=None):
        """a concrete failing input; key identifies it for the known-findings file"""
        k = self.match_known(key)
        if k is not None:
            if k["id"] not in self.known_hits:
                self.known_hits.append(k["id"])
                print("KNOWN-FINDING: property=%s %s [%s]" % (self.prop, k.get("what", what), k["id"]), flush=True)
            return False
        path = self.replay_path(key + what)
        rec = {"property": self.prop, "kind": kind, "theorem_or_tie": theorem, "key": key, "what": what,
               "detail": detail, "seed": self.seed, "tier": self.tier, "repo_rev": repo_rev(),
               "replay_cmd": "./check %s --replay %s" % (self.prop, os.path.relpath(path, OUTDIR))}
        with open(path, "w") as f:
            json.dump(rec, f, indent=1, ensure_ascii=False)
        if len(self.violations) < 20:
            print("VIOLATION property=%s replay=%s" % (self.prop, os.path.relpath(path, OUTDIR)), flush=True)
            self.log("  ", what)
        self.violations.append((path, what))
        return True

    def broken_obligation(self, name, what, detail):
        """a theorem or tie that no longer checks; turned into a VIOLATION at finish() if the
        search did not produce a concrete failing input"""
        self.broken.append({"name": name, "what": what, "detail": detail})
        self.log("BROKEN:", name, "-", what)

    def sample(self, s):
        if len(self.coverage["samples"]) < 8:
            self.coverage["samples"].append(s)

    def finish(self):
        # a broken obligation/tie with no concrete counterexample found
        if self.broken and not self.violations:
            for b in self.broken:
                path = self.replay_path("broken" + b["name"])
                rec = {"property": self.prop, "kind": "broken-obligation-or-tie", "theorem_or_tie": b["name"],
                       "what": b["what"], "detail": b["detail"], "seed": self.seed, "tier": self.tier,
                       "repo_rev": repo_rev(), "note": "no failing input was found by the search; the property is no longer shown to hold",
                       "replay_cmd": "./check %s %s" % (self.prop, self.tier)}
                with open(path, "w") as f:
                    json.dump(rec, f, indent=1, ensure_ascii=False)
                print("VIOLATION property=%s replay=%s no-failing-input-found" % (self.prop, os.path.relpath(path, OUTDIR)), flush=True)
                self.violations.append((path, b["what"]))
        cov = self.coverage
        cov["obligations"] = self.obligations
        cov["discharged"] = self.discharged
        cov["checker_cmd"] = " && ".join(self.checker_cmds) or "none"
        cov["trusted_base"] = self.trusted
        cov.setdefault("evaluations", 0)
        cov.setdefault("distinct_nontrivial", 0)
        cov["known_findings_hit"] = self.known_hits
        cov["broken"] = [b["name"] for b in self.broken]
        if not cov["samples"]:
            cov["samples"] = ["(no sample recorded)"]
        ev = {"property_id": self.prop, "tier": self.tier, "seed": self.seed, "level": self.level,
              "coverage": cov, "assumptions": self.assumptions, "wall_s": round(time.time() - self.t0, 1),
              "violations": len(self.violations), "repo_rev": repo_rev(), "notes": self.notes}
        with open(os.path.join(OUTDIR, "evidence", self.prop + ".json"), "w") as f:
            json.dump(ev, f, indent=1, ensure_ascii=False)
        self.log("done: %d violation(s), %d known finding(s), %.0fs" % (len(self.violations), len(self.known_hits), time.time() - self.t0))
        return 1 if self.violations else 0


def run_bin(name, args, timeout=1200, seed=None, stdin=None):
    env = dict(ENV)
    if seed is not None:
        env["VERIF_SEED"] = str(seed)
    rc, out, err = sh2([os.path.join(BIN, name)] + [str(a) for a in args], timeout=timeout, env=env, stdin=stdin)
    return rc, out, err


def json_lines(out):
    res = []
    for line in out.split("\n"):
        line = line.strip()
        if line.startswith("{"):
            try:
                res.append(json.loads(line))
            except ValueError:
                pass
    return res


TRUSTED_COMMON = [
    "Coq 8.16.1 kernel (coqc), vm_compute as part of conversion; no native_compute",
    "the hand-written Gallina model is a transcription of the Rust code; only the tie (regenerated tables / validated outputs / correspondence) connects it to /repo",
    "harness exporters: uiua Value/Node -> Gallina term printers, canonicalisation and diff (harness/src, lib/)",
    "rustc/cargo and the crates uiua depends on",
]
