(** Shared value representation.  No proofs about the code here. *)
From Coq Require Import List ZArith NArith Bool Lia.
Import ListNotations.
Open Scope N_scope.

(** An IEEE-754 binary64 number is represented by its 64-bit pattern. *)
Definition f64 := N.

Definition F_ABS_MASK : N := 9223372036854775807.      (* 0x7fff_ffff_ffff_ffff *)
Definition F_INF_BITS : N := 9218868437227405312.      (* 0x7ff0_0000_0000_0000 *)
Definition F_NAN_BITS : N := 9221120237041090560.      (* 0x7ff8_0000_0000_0000  f64::NAN *)
Definition F_EMPTY_NAN : N := 9221120237041090561.
Definition F_TOMB_NAN : N := 9221120237041090562.
Definition F_WILD_NAN : N := 9221120237041090563.
Definition F_NEG_ZERO : N := 9223372036854775808.      (* 0x8000_0000_0000_0000 *)

Definition f_mag (b : f64) : N := N.land b F_ABS_MASK.
Definition f_neg (b : f64) : bool := N.testbit b 63.
Definition f_is_nan (b : f64) : bool := F_INF_BITS <? f_mag b.
(** sign-magnitude key: IEEE order on non-NaN numbers is the order of these keys *)
Definition f_key (b : f64) : Z := if f_neg b then (- Z.of_N (f_mag b))%Z else Z.of_N (f_mag b).

(** exact conversion of a byte (0..255) to its binary64 pattern *)
Definition f_of_byte (n : N) : f64 :=
  if n =? 0 then 0 else
  let k := N.log2 n in
  N.lor (N.shiftl (1023 + k) 52) (N.shiftl (n - N.shiftl 1 k) (52 - k)).

Inductive value :=
| VNum  (sh : list nat) (d : list f64)
| VByte (sh : list nat) (d : list N)
| VChar (sh : list nat) (d : list N)            (* code points *)
| VCplx (sh : list nat) (d : list (f64 * f64))  (* (re, im) *)
| VBox  (sh : list nat) (d : list value).

Definition shape_of (v : value) : list nat :=
  match v with VNum s _ | VByte s _ | VChar s _ | VCplx s _ | VBox s _ => s end.
Definition data_len (v : value) : nat :=
  match v with
  | VNum _ d => length d | VByte _ d => length d | VChar _ d => length d
  | VCplx _ d => length d | VBox _ d => length d end.
Definition rank (v : value) : nat := length (shape_of v).
Definition shape_prod (s : list nat) : nat := fold_right Nat.mul 1%nat s.

(** Induction principle through the nested list *)
Section ValueInd.
  Variable P : value -> Prop.
  Hypothesis Hnum : forall s d, P (VNum s d).
  Hypothesis Hbyte : forall s d, P (VByte s d).
  Hypothesis Hchar : forall s d, P (VChar s d).
  Hypothesis Hcplx : forall s d, P (VCplx s d).
  Hypothesis Hbox : forall s d, Forall P d -> P (VBox s d).
  Fixpoint value_ind' (v : value) : P v :=
    match v with
    | VNum s d => Hnum s d | VByte s d => Hbyte s d | VChar s d => Hchar s d
    | VCplx s d => Hcplx s d
    | VBox s d => Hbox s d ((fix go (l : list value) : Forall P l :=
        match l with [] => Forall_nil P | x :: t => Forall_cons x (value_ind' x) (go t) end) d)
    end.
End ValueInd.

(** shape/data-length well-formedness (the first clause of C05's invariant) *)
Fixpoint wf_shape (v : value) : bool :=
  match v with
  | VBox s d => Nat.eqb (length d) (shape_prod s) && forallb wf_shape d
  | _ => Nat.eqb (data_len v) (shape_prod (shape_of v))
  end.
