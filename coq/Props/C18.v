(** C18 — Encoders and their decoders are mutual inverses on their documented domains.
    Property theorems only; every proof is [exact lemma]. *)
From Coq Require Import List ZArith Bool Lia.
From UV Require Import Model.Codec Proofs.CodecDigits Proofs.CodecUtf Proofs.CodecBin Proofs.CodecBinStruct.
Import ListNotations.
Open Scope Z_scope.

(** °⋯ ⋯ x = x : integer arrays (any shape, negative entries included) below 2^53 in magnitude *)
Theorem C18_unbits_bits : forall sh ns,
  Forall (fun n => Z.abs n < 2 ^ 53) ns -> Z.of_nat (length ns) = zprod sh ->
  exists sh' ds, Bits.bits sh ns = Some (sh', ds) /\ Bits.un_bits sh' ds = (sh, ns).
Proof. exact BitsP.unbits_bits. Qed.

(** ⌝⊥ b (⊥ b x) = x : scalar base >= 2, row length sufficient for every entry *)
Theorem C18_antibase_base : forall len b sh ns,
  2 <= b -> Forall (fun n => Z.abs n < b ^ Z.of_nat len) ns -> Z.of_nat (length ns) = zprod sh ->
  Base.anti_base b (fst (Base.base len b sh ns)) (snd (Base.base len b sh ns)) = (sh, ns).
Proof. exact BaseP.antibase_base. Qed.

(** the same with the row length computed as the (repaired) implementation does: the largest
    `digits_needed`, i.e. the floating-point estimate plus the correction digit.  The only premise
    about the float logarithm is that its floor is at most one digit short ([est_close]; the tie
    checks on every generated case that the implementation's row length is exactly the number of
    digits needed) *)
Theorem C18_antibase_base_auto : forall (est : Z -> Z -> nat) b, 2 <= b -> forall sh ns,
  Forall (BaseP.est_close est b) ns -> Z.of_nat (length ns) = zprod sh ->
  Base.anti_base b (fst (Base.base_auto true est b sh ns)) (snd (Base.base_auto true est b sh ns)) = (sh, ns).
Proof. exact BaseP.antibase_base_auto. Qed.

(** record of the defect repaired by fix dfd90e9 (model of the code before it: no correction digit) *)
Theorem C18_antibase_base_short_refuted_pre :
  exists est b sh ns, 2 <= b /\ Forall (fun n => 0 <= n < 2 ^ 53) ns /\ Forall (BaseP.est_close est b) ns /\
    Base.anti_base b (fst (Base.base_auto false est b sh ns)) (snd (Base.base_auto false est b sh ns)) <> (sh, ns).
Proof. exact BaseP.antibase_base_short_refuted_pre. Qed.

(** °utf₈ utf₈ s = s for all strings of Unicode scalar values (astral and combining included) *)
Theorem C18_un_utf8_utf8 : forall cps, Forall Utf8.valid_scalar cps -> Utf8.un_utf8 (Utf8.utf8 cps) = Some cps.
Proof. exact Utf8P.un_utf8_utf8. Qed.

(** utf₈ °utf₈ b = b for every byte string the decoder accepts; it only produces scalar values *)
Theorem C18_utf8_un_utf8 : forall bs cps, Utf8.un_utf8 bs = Some cps ->
  Utf8.utf8 cps = bs /\ Forall Utf8.valid_scalar cps.
Proof. exact Utf8P.utf8_un_utf8. Qed.

Theorem C18_un_utf16_utf16 : forall cps, Forall Utf8.valid_scalar cps -> Utf16.un_utf16 (Utf16.utf16 cps) = Some cps.
Proof. exact Utf16P.un_utf16_utf16. Qed.

(** ⌝bytes f (bytes f x) = x for u8 i8 u16 i16 u32 i32 u64 i64 u128 i128 (any width >= 1), either endianness *)
Theorem C18_decode_encode_bytes : forall f big sh ns,
  (0 < Bytes.width f)%nat -> Forall (BytesP.in_range f) ns -> Z.of_nat (length ns) = zprod sh ->
  Bytes.decode true f big (fst (Bytes.encode f big sh ns)) (snd (Bytes.encode f big sh ns)) = Some (sh, ns).
Proof. exact BytesP.decode_encode_bytes. Qed.

(** record of the defect repaired by fix 821d336 (model of the code before it) *)
Theorem C18_decode_encode_i8_refuted_pre :
  exists big sh ns, Forall (BytesP.in_range {| Bytes.signed := true; Bytes.width := 1 |}) ns /\ Z.of_nat (length ns) = zprod sh /\
    Bytes.decode false {| Bytes.signed := true; Bytes.width := 1 |} big
      (fst (Bytes.encode {| Bytes.signed := true; Bytes.width := 1 |} big sh ns))
      (snd (Bytes.encode {| Bytes.signed := true; Bytes.width := 1 |} big sh ns)) <> Some (sh, ns).
Proof. exact BytesP.decode_encode_i8_refuted_pre. Qed.

(** binary / °binary, numeric payload: every element written with the width class the encoder
    selects (U8..I64 / F32 / F64, chosen from min/max/integrality/f32-exactness of the whole array)
    is [width_of t] bytes long and reads back as the SAME 64-bit pattern -- negative zero, NaN payloads
    and subnormals included -- (for U8: as the byte that denotes it) *)
Theorem C18_binary_num_roundtrip : forall (ops : Bin.numops), BinP.num_laws ops ->
  forall d n, Forall BinP.wfnum d -> In n d ->
  let t := Bin.choose ops d in
  length (Bin.write_num ops t n) = Bin.width_of t /\
  match t with
  | Bin.U8 => Bin.to_int ops n = Some (Bin.read_num ops t (Bin.write_num ops t n)) /\
              Bin.of_int ops (Bin.read_num ops t (Bin.write_num ops t n)) = n
  | _ => Bin.read_num ops t (Bin.write_num ops t n) = n
  end.
Proof. exact BinP.binary_num_roundtrip. Qed.

(** record of the defect repaired by fix b303665 (model of the width selection before it, [choose_pre]):
    [-0.0] was stored as U8 and came back as the byte 0 = +0.0; the current selection stores it as F32
    and returns the same bits *)
Theorem C18_binary_negzero_refuted_pre :
  exists d n, In n d /\ Forall BinP.wfnum d /\ Bin.choose_pre Bin.cops d = Bin.U8 /\
    Bin.of_int Bin.cops (Bin.read_num Bin.cops Bin.U8 (Bin.write_num Bin.cops Bin.U8 n)) <> n /\
    Bin.choose Bin.cops d = Bin.F32 /\ Bin.read_num Bin.cops Bin.F32 (Bin.write_num Bin.cops Bin.F32 n) = n.
Proof. exact BinP.negzero_refuted_pre. Qed.

(** °binary (binary v) matches v, for every value -- MAP ARRAYS included: the keys are a value of the same kind with as many rows as the array, one nesting level deeper -- whose header and payload are
    within the format's limits ([BinS.wf]: flags <= 15, label valid UTF-8 shorter than 2^32, rank <= 255,
    dims < 2^32, product of the non-zero dims <= 2^63 (validate_size), element count = product of the shape, f64 patterns < 2^64, bytes < 256, characters
    scalar values) and nested at most MAX_DEPTH = 32 deep: the encoder succeeds, and the decoder --
    including the element-count guard of 5718f7d -- returns a value with the same flags, label and shape
    whose map keys are what `map` makes ([Bin.norm_keys]: byte keys become numbers) of keys that match, and
    whose payload is the same ([BinS.bmatch]: numbers have the SAME bit patterns -- no exception for
    negative zero or NaN payloads --, or come back as the bytes that denote them; bytes, characters,
    complex bit patterns equal; boxes element-wise), leaving [rest] unread *)
Theorem C18_from_binary_to_binary : forall (ops : Bin.numops), BinP.num_laws ops ->
  forall v, BinS.wf v -> (BinS.height v <= Bin.MAX_DEPTH)%nat ->
  exists bs, Bin.to_binary_top ops v = Some bs /\
    (exists v', Bin.from_binary_top ops bs = Some v' /\ BinS.bmatch ops v v') /\
    forall rest, exists v', Bin.from_binary ops (S Bin.MAX_DEPTH) (bs ++ rest) = Some (v', rest) /\ BinS.bmatch ops v v'.
Proof. exact BinS.from_binary_to_binary. Qed.

(** the laws are satisfiable: an instance where a "float" is the integer it denotes *)
Theorem C18_num_laws_inhabited : exists ops, BinP.num_laws ops.
Proof. exact BinP.num_laws_inhabited. Qed.

(** non-vacuity: premises are met by non-trivial inputs and the codecs really transform them *)
Example C18_nonvacuous :
  Bytes.decode true {| Bytes.signed := true; Bytes.width := 1 |} false [3] [255; 2; 128] = Some ([3], [-1; 2; -128]) /\
  Bits.bits [2] [5; -1024] = Some ([2; 11], [1;0;1;0;0;0;0;0;0;0;0; 0;0;0;0;0;0;0;0;0;0;-1]) /\
  Utf8.utf8 [233; 8364; 119070] = [195;169; 226;130;172; 240;157;132;158] /\
  Forall Utf8.valid_scalar [233; 8364; 119070] /\
  Bytes.encode {| Bytes.signed := true; Bytes.width := 2 |} true [2] [-2; 258] = ([2; 2], [255;254; 1;2]) /\
  Bin.to_binary_top Bin.cops
    (Bin.BBox {| Bin.alloc := false; Bin.flags := 0; Bin.label := []; Bin.shape := [2] |} None
       [Bin.BLeaf {| Bin.alloc := false; Bin.flags := 0; Bin.label := []; Bin.shape := [2] |} None (Bin.LNum [4607182418800017408; 4643211215818981376]);
        Bin.BLeaf {| Bin.alloc := true; Bin.flags := 0; Bin.label := [76]; Bin.shape := [] |} None (Bin.LChar [955])])
  = Some [32; 1; 2;0;0;0;  1; 1; 2;0;0;0; 1;0; 0;1;  144; 0; 1;0;0;0; 76; 0; 0; 2;0;0;0; 206;187].
Proof.
  split; [vm_compute; reflexivity|]. split; [vm_compute; reflexivity|]. split; [vm_compute; reflexivity|].
  split; [repeat constructor; unfold Utf8.valid_scalar; lia|].
  split; vm_compute; reflexivity.
Qed.

Example C18_nonvacuous_binary :
  let v := Bin.BBox {| Bin.alloc := false; Bin.flags := 0; Bin.label := []; Bin.shape := [2] |} None
       [Bin.BLeaf {| Bin.alloc := false; Bin.flags := 4; Bin.label := []; Bin.shape := [2] |} None (Bin.LNum [9223372036854775808 (* -0.0 *); 9221120237041090563 (* W *)]);
        Bin.BBox {| Bin.alloc := true; Bin.flags := 0; Bin.label := [76]; Bin.shape := [] |} None
          [Bin.BLeaf {| Bin.alloc := false; Bin.flags := 0; Bin.label := []; Bin.shape := [1] |} None (Bin.LChar [955])]] in
  BinS.wf v /\ BinS.height v = 2%nat /\
  exists v', Bin.from_binary_top Bin.cops (match Bin.to_binary_top Bin.cops v with Some b => b | None => [] end) = Some v'
             /\ BinS.bmatch Bin.cops v v'.
Proof.
  cbv zeta. split; [|split; [reflexivity|]].
  - cbn [BinS.wf BinS.wf_leaf Bin.shape zprod fold_right length]. unfold BinS.wf_hdr, BinP.wfnum, Utf8.valid_scalar.
    cbn [Bin.flags Bin.label Bin.shape length Utf8.un_utf8].
    repeat match goal with
    | |- _ /\ _ => split
    | |- Forall _ _ => constructor
    | |- exists _, Some _ = Some _ => eexists; reflexivity
    | |- exists _, _ => eexists; vm_compute; reflexivity
    | |- True => exact I
    | |- @eq (option _) _ _ => reflexivity
    | |- @eq Z _ _ => reflexivity
    | |- (_ <= _)%nat => cbn; lia
    | |- _ => cbn; lia
    end.
  - eexists. split; [vm_compute; reflexivity|].
    cbn [BinS.bmatch BinS.pmatch]. unfold BinS.hmatch. cbn [Bin.flags Bin.label Bin.shape].
    repeat match goal with
    | |- _ /\ _ => split
    | |- Forall2 _ _ _ => constructor
    | |- _ \/ _ => left
    | |- _ = _ => reflexivity
    | |- True => exact I
    end.
Qed.

(** a map array: keys [1 2] (bytes) over the values [3 4]; the decoder returns the keys as numbers *)
Example C18_nonvacuous_binary_map :
  let hd := {| Bin.alloc := false; Bin.flags := 0; Bin.label := []; Bin.shape := [2] |} in
  let v := Bin.BLeaf {| Bin.alloc := true; Bin.flags := 0; Bin.label := []; Bin.shape := [2] |}
             (Some (Bin.BLeaf hd None (Bin.LByte [1; 2]))) (Bin.LByte [3; 4]) in
  BinS.wf v /\ BinS.height v = 1%nat /\
  Bin.to_binary_top Bin.cops v = Some [128; 0; 0;0;0;0; 1; 0; 1; 2;0;0;0; 1; 2;  1; 2;0;0;0; 3; 4] /\
  exists v', Bin.from_binary_top Bin.cops [128; 0; 0;0;0;0; 1; 0; 1; 2;0;0;0; 1; 2;  1; 2;0;0;0; 3; 4] = Some v'
             /\ BinS.bmatch Bin.cops v v'.
Proof.
  cbv zeta. split; [|split; [reflexivity|split; [vm_compute; reflexivity|]]].
  - cbn [BinS.wf BinS.wf_leaf Bin.shape zprod fold_right length]. unfold BinS.wf_hdr, BinS.rc_shape.
    cbn [Bin.flags Bin.label Bin.shape length Utf8.un_utf8 Bin.row_count].
    repeat match goal with
    | |- _ /\ _ => split
    | |- Forall _ _ => constructor
    | |- exists _, Some _ = Some _ => eexists; reflexivity
    | |- True => exact I
    | |- @eq Z _ _ => reflexivity
    | |- _ => cbn; lia
    end.
  - eexists. split; [vm_compute; reflexivity|].
    cbn [BinS.bmatch BinS.pmatch]. split; [|split; [repeat split|reflexivity]].
    exists (Bin.BLeaf {| Bin.alloc := false; Bin.flags := 0; Bin.label := []; Bin.shape := [2] |} None (Bin.LByte [1; 2])).
    split; [vm_compute; reflexivity|]. cbn [BinS.bmatch BinS.pmatch]. repeat split.
Qed.

Print Assumptions C18_unbits_bits.
Print Assumptions C18_antibase_base.
Print Assumptions C18_antibase_base_auto.
Print Assumptions C18_antibase_base_short_refuted_pre.
Print Assumptions C18_un_utf8_utf8.
Print Assumptions C18_utf8_un_utf8.
Print Assumptions C18_un_utf16_utf16.
Print Assumptions C18_decode_encode_bytes.
Print Assumptions C18_decode_encode_i8_refuted_pre.
Print Assumptions C18_binary_num_roundtrip.
Print Assumptions C18_binary_negzero_refuted_pre.
Print Assumptions C18_from_binary_to_binary.
Print Assumptions C18_num_laws_inhabited.
