(** C18 — Encoders and their decoders are mutual inverses on their documented domains.
    Property theorems only; every proof is [exact lemma]. *)
From Coq Require Import List ZArith Bool Lia.
From UV Require Import Model.Codec Proofs.CodecDigits Proofs.CodecUtf Proofs.CodecBin.
Import ListNotations.
Open Scope Z_scope.

(** °⋯ ⋯ x = x : integer arrays (any shape, negative entries included) below 2^53 in magnitude *)
Theorem C18_unbits_bits : forall sh ns,
  Forall (fun n => Z.abs n < 2 ^ 53) ns -> Z.of_nat (length ns) = zprod sh ->
  exists sh' ds, Bits.bits sh ns = Some (sh', ds) /\ Bits.un_bits sh' ds = (sh, ns).
Proof. exact BitsP.unbits_bits. Qed.

(** ⌝⊥ b (⊥ b x) = x : scalar base >= 2, row length sufficient for every entry *)
Theorem C18_antibase_base : forall len b sh ns,
  2 <= b -> Forall (fun n => Z.abs n < b ^ Z.of_nat len) ns -> Z.of_nat (length ns) = zprod sh ->
  Base.anti_base b (fst (Base.base len b sh ns)) (snd (Base.base len b sh ns)) = (sh, ns).
Proof. exact BaseP.antibase_base. Qed.

(** the row length the implementation computes for ⊥ 3 243 (5, pinned by the tie) is one short *)
Theorem C18_antibase_base_short_refuted :
  exists len b sh ns, 2 <= b /\ Forall (fun n => 0 <= n < 2 ^ 53) ns /\
    Base.anti_base b (fst (Base.base len b sh ns)) (snd (Base.base len b sh ns)) <> (sh, ns).
Proof. exact BaseP.antibase_base_short_refuted. Qed.

(** °utf₈ utf₈ s = s for all strings of Unicode scalar values (astral and combining included) *)
Theorem C18_un_utf8_utf8 : forall cps, Forall Utf8.valid_scalar cps -> Utf8.un_utf8 (Utf8.utf8 cps) = Some cps.
Proof. exact Utf8P.un_utf8_utf8. Qed.

(** utf₈ °utf₈ b = b for every byte string the decoder accepts; it only produces scalar values *)
Theorem C18_utf8_un_utf8 : forall bs cps, Utf8.un_utf8 bs = Some cps ->
  Utf8.utf8 cps = bs /\ Forall Utf8.valid_scalar cps.
Proof. exact Utf8P.utf8_un_utf8. Qed.

Theorem C18_un_utf16_utf16 : forall cps, Forall Utf8.valid_scalar cps -> Utf16.un_utf16 (Utf16.utf16 cps) = Some cps.
Proof. exact Utf16P.un_utf16_utf16. Qed.

(** ⌝bytes f (bytes f x) = x for u16 i16 u32 i32 u64 i64 u128 i128 (any width > 1), either endianness *)
Theorem C18_decode_encode_bytes : forall f big sh ns,
  (1 < Bytes.width f)%nat -> Forall (BytesP.in_range f) ns -> Z.of_nat (length ns) = zprod sh ->
  Bytes.decode f big (fst (Bytes.encode f big sh ns)) (snd (Bytes.encode f big sh ns)) = Some (sh, ns).
Proof. exact BytesP.decode_encode_bytes. Qed.

Theorem C18_decode_encode_u8 : forall big sh ns, Forall (BytesP.in_range {| Bytes.signed := false; Bytes.width := 1 |}) ns ->
  Bytes.decode {| Bytes.signed := false; Bytes.width := 1 |} big
    (fst (Bytes.encode {| Bytes.signed := false; Bytes.width := 1 |} big sh ns))
    (snd (Bytes.encode {| Bytes.signed := false; Bytes.width := 1 |} big sh ns)) = Some (sh, ns).
Proof. exact BytesP.decode_encode_u8. Qed.

(** the i8 format of the current code does not round-trip (shape handling) *)
Theorem C18_decode_encode_i8_refuted :
  exists big sh ns, Forall (BytesP.in_range {| Bytes.signed := true; Bytes.width := 1 |}) ns /\ Z.of_nat (length ns) = zprod sh /\
    Bytes.decode {| Bytes.signed := true; Bytes.width := 1 |} big
      (fst (Bytes.encode {| Bytes.signed := true; Bytes.width := 1 |} big sh ns))
      (snd (Bytes.encode {| Bytes.signed := true; Bytes.width := 1 |} big sh ns)) <> Some (sh, ns).
Proof. exact BytesP.decode_encode_i8_refuted. Qed.

(** binary / °binary, numeric payload: every element written with the width class the encoder
    selects (U8..I64 / F32 / F64, chosen from min/max/integrality/f32-exactness of the whole array)
    is [width_of t] bytes long and reads back as a matching number (as the same byte for U8) *)
Theorem C18_binary_num_roundtrip : forall (ops : Bin.numops), BinP.num_laws ops ->
  forall d n, Forall BinP.wfnum d -> In n d ->
  let t := Bin.choose ops d in
  length (Bin.write_num ops t n) = Bin.width_of t /\
  match t with
  | Bin.U8 => Bin.to_int ops n = Some (Bin.read_num ops t (Bin.write_num ops t n))
  | _ => BinP.num_eq ops (Bin.read_num ops t (Bin.write_num ops t n)) n
  end.
Proof. exact BinP.binary_num_roundtrip. Qed.

(** the laws are satisfiable: an instance where a "float" is the integer it denotes *)
Theorem C18_num_laws_inhabited : exists ops, BinP.num_laws ops.
Proof. exact BinP.num_laws_inhabited. Qed.

(** non-vacuity: premises are met by non-trivial inputs and the codecs really transform them *)
Example C18_nonvacuous :
  Bits.bits [2] [5; -1024] = Some ([2; 11], [1;0;1;0;0;0;0;0;0;0;0; 0;0;0;0;0;0;0;0;0;0;-1]) /\
  Utf8.utf8 [233; 8364; 119070] = [195;169; 226;130;172; 240;157;132;158] /\
  Forall Utf8.valid_scalar [233; 8364; 119070] /\
  Bytes.encode {| Bytes.signed := true; Bytes.width := 2 |} true [2] [-2; 258] = ([2; 2], [255;254; 1;2]) /\
  Bin.to_binary_top Bin.cops
    (Bin.BBox {| Bin.alloc := false; Bin.flags := 0; Bin.label := []; Bin.shape := [2] |} None
       [Bin.BLeaf {| Bin.alloc := false; Bin.flags := 0; Bin.label := []; Bin.shape := [2] |} None (Bin.LNum [4607182418800017408; 4643211215818981376]);
        Bin.BLeaf {| Bin.alloc := true; Bin.flags := 0; Bin.label := [76]; Bin.shape := [] |} None (Bin.LChar [955])])
  = Some [32; 1; 2;0;0;0;  1; 1; 2;0;0;0; 1;0; 0;1;  144; 0; 1;0;0;0; 76; 0; 0; 2;0;0;0; 206;187].
Proof.
  split; [vm_compute; reflexivity|]. split; [vm_compute; reflexivity|].
  split; [repeat constructor; unfold Utf8.valid_scalar; lia|].
  split; vm_compute; reflexivity.
Qed.

Print Assumptions C18_unbits_bits.
Print Assumptions C18_antibase_base.
Print Assumptions C18_antibase_base_short_refuted.
Print Assumptions C18_un_utf8_utf8.
Print Assumptions C18_utf8_un_utf8.
Print Assumptions C18_un_utf16_utf16.
Print Assumptions C18_decode_encode_bytes.
Print Assumptions C18_decode_encode_u8.
Print Assumptions C18_decode_encode_i8_refuted.
Print Assumptions C18_binary_num_roundtrip.
Print Assumptions C18_num_laws_inhabited.
