(** C08 — core array primitives agree with an independent executable model.
    The property itself is decided by the tie (lib/c08.py); the theorems below validate the
    reference (Model/Prims.v) against the laws stated in the documentation, for ALL well-formed
    arrays.  Property theorems only; every proof is [exact lemma]. *)
From Coq Require Import List ZArith NArith Bool Permutation Sorted.
From UV Require Import Model.Prims Proofs.Prims.
Import ListNotations.

Theorem C08_from_rows_rows : forall a n s, ash a = n :: s -> wf a -> from_rows (aty a) s (rows a) = a.
Proof. exact from_rows_rows. Qed.
Theorem C08_length_shape : forall a n s, ash a = n :: s -> p_first None (p_shape a) = Ok (p_len a).
Proof. exact length_shape. Qed.
Theorem C08_shape_reverse : forall a, ash (p_reverse a) = ash a.
Proof. exact shape_reverse. Qed.
Theorem C08_shape_transpose : forall a n s, ash a = n :: s -> ash (p_transpose a) = s ++ [n].
Proof. exact shape_transpose. Qed.
Theorem C08_shape_couple : forall a b, aty a = aty b -> ash a = ash b ->
  exists d, p_couple None a b = Ok (Arr (aty a) (2%nat :: ash a) d).
Proof. exact shape_couple. Qed.
Theorem C08_shape_take : forall a n s (k : Z), ash a = n :: s -> (Z.abs k <= Z.of_nat n)%Z ->
  exists d, p_take None [AInt k] a = Ok (Arr (aty a) (Z.to_nat (Z.abs k) :: s) d).
Proof. exact shape_take. Qed.
Theorem C08_shape_drop : forall a n s (k : Z), ash a = n :: s ->
  exists d, p_drop [AInt k] a = Ok (Arr (aty a) ((n - Z.to_nat (Z.abs k))%nat :: s) d).
Proof. exact shape_drop. Qed.
Theorem C08_shape_rotate : forall a n s (k : Z), ash a = n :: s ->
  exists d, p_rotate None [AInt k] a = Ok (Arr (aty a) (n :: s) d).
Proof. exact shape_rotate. Qed.
Theorem C08_reverse_involutive : forall a, wf a -> p_reverse (p_reverse a) = a.
Proof. exact reverse_involutive. Qed.
Theorem C08_wf_reverse : forall a, wf a -> wf (p_reverse a).
Proof. exact wf_reverse. Qed.
Theorem C08_first_couple : forall a b, wf a -> aty a = aty b -> ash a = ash b ->
  r <- p_couple None a b ;; p_first None r = Ok a.
Proof. exact first_couple. Qed.
Theorem C08_last_couple : forall a b, wf a -> aty a = aty b -> ash a = ash b ->
  r <- p_couple None a b ;; p_last None r = Ok b.
Proof. exact last_couple. Qed.
Theorem C08_first_fix : forall a, wf a -> p_first None (p_fix a) = Ok a.
Proof. exact first_fix. Qed.
Theorem C08_box_unbox : forall a, p_unbox (p_box a) = Ok a.
Proof. exact box_unbox. Qed.
Theorem C08_take_drop_join : forall a n s (k : nat), ash a = n :: s -> wf a -> (0 < k < n)%nat ->
  t <- p_take None [AInt (Z.of_nat k)] a ;; d <- p_drop [AInt (Z.of_nat k)] a ;; p_join None t d = Ok a.
Proof. exact take_drop_join. Qed.
Theorem C08_member_index_in : forall h x sh d, p_indexin None h x = Ok (Arr TNum sh d) ->
  p_member h x = Ok (Arr TNum sh (map (fun e => match e with
       | ENum i => bool_elem (i <? Z.of_nat (nrows (ash h)))%Z | _ => e end) d)).
Proof. exact member_index_in. Qed.
Theorem C08_reshape_deshape : forall a, wf a -> Forall (fun n => Z.of_nat n <= amt_limit)%Z (ash a) ->
  (zprod (map Z.of_nat (ash a)) * Z.max 1 (Z.of_nat (length (adata a))) <= size_limit)%Z ->
  p_reshape None false (map (fun n => AInt (Z.of_nat n)) (ash a)) (p_deshape a) = Ok a.
Proof. exact reshape_deshape. Qed.
(** rise_sorts *)
Theorem C08_rise_permutation : forall rs, Permutation (rise_list rs) (seq 0 (length rs)).
Proof. exact rise_permutation. Qed.
Theorem C08_select_rise_is_sort : forall rs,
  map (fun i => nth_error rs i) (rise_list rs) = map Some (isort row_le rs).
Proof. exact select_rise_is_sort. Qed.
Theorem C08_sort_sorted : forall rs, Sorted (fun r r' => row_le r r' = true) (isort row_le rs).
Proof. exact sort_sorted. Qed.
Theorem C08_sort_permutation : forall rs, Permutation (isort row_le rs) rs.
Proof. exact sort_permutation. Qed.
(** classify_dedup *)
Theorem C08_classify_dedup : forall (rs : list (list elem)) d,
  map (fun i => nth i (dedup row_eqb rs) d) (classify_list rs) = rs.
Proof. exact classify_dedup. Qed.
Theorem C08_dedup_spec : forall (rs : list (list elem)),
  NoDup (dedup row_eqb rs) /\ (forall r, In r (dedup row_eqb rs) <-> In r rs).
Proof. exact dedup_spec. Qed.
Theorem C08_match_spec : forall a b, arr_eqb a b = true <-> a = b.
Proof. exact match_spec. Qed.

(** keep with a negative scalar count = keep of the absolute count, rows reversed *)
Theorem C08_keep_neg_scalar : forall fill a n s z, ash a = n :: s -> wf a -> (0 < z <= amt_limit)%Z ->
  p_keep fill true [AInt (- z)] a = (r <- p_keep fill true [AInt z] a ;; Ok (p_reverse r)).
Proof. exact keep_neg_scalar. Qed.
Example C08_keep_neg_scalar_nonvacuous :
  p_keep None true [AInt (-2)] (Arr TNum [3]%nat [ENum 1; ENum 2; ENum 3])
    = Ok (Arr TNum [6]%nat [ENum 3; ENum 3; ENum 2; ENum 2; ENum 1; ENum 1]) /\
  p_keep None false [AInt (-1); AInt (-1); AInt (-1)] (Arr TNum [3]%nat [ENum 1; ENum 2; ENum 3])
    = Ok (Arr TNum [0]%nat []).
Proof. vm_compute. split; reflexivity. Qed.

(** rotate with more amounts than axes: unchanged when nothing is left, refused otherwise *)
Theorem C08_rotate_extra_axes : forall a n s (zs : list Z), ash a = n :: s -> aty a <> TBox ->
  (length (ash a) < length zs)%nat ->
  p_rotate None (map AInt zs) a = if Nat.eqb (prodn (ash a)) 0 then Ok a else Err.
Proof. exact rotate_extra_axes. Qed.
Example C08_rotate_extra_axes_nonvacuous :
  p_rotate None [AInt 1; AInt 1] (Arr TNum [0]%nat []) = Ok (Arr TNum [0]%nat []) /\
  p_rotate None [AInt 1; AInt 1] (Arr TNum [3]%nat [ENum 1; ENum 2; ENum 3]) = Err /\
  p_drop [AInt 3; AInt 1] (Arr TNum [3]%nat [ENum 1; ENum 2; ENum 3]) = Err.
Proof. vm_compute. repeat split; reflexivity. Qed.

(** rotate: composition and inverse *)
Theorem C08_rotate_add : forall a n s (i j : Z), ash a = n :: s -> wf a ->
  (r <- p_rotate None [AInt j] a ;; p_rotate None [AInt i] r) = p_rotate None [AInt (i + j)] a.
Proof. exact rotate_add. Qed.
Theorem C08_rotate_inverse : forall a n s (k : Z), ash a = n :: s -> wf a ->
  (r <- p_rotate None [AInt k] a ;; p_rotate None [AInt (- k)] r) = Ok a.
Proof. exact rotate_inverse. Qed.
(** join of two arrays of the same rank and row shape appends the rows; couple is join of the fixed arrays *)
Theorem C08_join_same_rank : forall t na nb s da db, (0 < na)%nat -> (0 < nb)%nat ->
  p_join None (Arr t (na :: s) da) (Arr t (nb :: s) db) = Ok (Arr t ((na + nb)%nat :: s) (da ++ db)).
Proof. exact join_same_rank. Qed.
Theorem C08_couple_join_fix : forall a b, aty a = aty b -> ash a = ash b ->
  p_couple None a b = p_join None (p_fix a) (p_fix b).
Proof. exact couple_join_fix. Qed.
Theorem C08_deshape_fix : forall a, p_deshape (p_fix a) = p_deshape a.
Proof. exact deshape_fix. Qed.
(** select / pick / first *)
Theorem C08_select_zero_first : forall a n s, ash a = S n :: s ->
  p_select None [] [AInt 0] a = p_first None a.
Proof. exact select_zero_first. Qed.
Theorem C08_pick_scalar_select : forall a n s z, ash a = n :: s ->
  p_pick None [] [AInt z] a = p_select None [] [AInt z] a.
Proof. exact pick_scalar_select. Qed.
Example C08_extension_nonvacuous :
  let a := Arr TNum [3; 2]%nat [ENum 1; ENum 2; ENum 3; ENum 4; ENum 5; ENum 6] in
  wf a /\
  p_rotate None [AInt 1] a = Ok (Arr TNum [3; 2]%nat [ENum 3; ENum 4; ENum 5; ENum 6; ENum 1; ENum 2]) /\
  (r <- p_rotate None [AInt 5] a ;; p_rotate None [AInt (-7)] r) = p_rotate None [AInt (-2)] a /\
  p_rotate None [AInt (-2)] a = p_rotate None [AInt 1] a /\
  p_couple None a a = Ok (Arr TNum [2; 3; 2]%nat (adata a ++ adata a)) /\
  p_select None [] [AInt 0] a = Ok (Arr TNum [2]%nat [ENum 1; ENum 2]) /\
  p_pick None [] [AInt (-1)] a = Ok (Arr TNum [2]%nat [ENum 5; ENum 6]) /\
  p_reshape None false (map (fun n => AInt (Z.of_nat n)) [1; 1; 1; 1; 1; 1; 1; 1; 1; 3; 2]%nat) (p_deshape a)
    = Ok (Arr TNum [1; 1; 1; 1; 1; 1; 1; 1; 1; 3; 2]%nat (adata a)).
Proof. vm_compute. repeat split; reflexivity. Qed.

(** non-vacuity: the premises are met by non-trivial arrays and the laws compute *)
Example C08_nonvacuous :
  let a := Arr TNum [3; 2]%nat [ENum 5; ENum 1; ENum 2; ENum 2; ENum 5; ENum 1] in
  let c := Arr TChar [2; 0; 3]%nat [] in
  wf a /\ wf c /\ ash a = [3; 2]%nat /\
  p_reverse a = Arr TNum [3; 2]%nat [ENum 5; ENum 1; ENum 2; ENum 2; ENum 5; ENum 1] /\
  p_transpose a = Arr TNum [2; 3]%nat [ENum 5; ENum 2; ENum 5; ENum 1; ENum 2; ENum 1] /\
  p_take None [AInt 1] a = Ok (Arr TNum [1; 2]%nat [ENum 5; ENum 1]) /\
  p_drop [AInt 1] a = Ok (Arr TNum [2; 2]%nat [ENum 2; ENum 2; ENum 5; ENum 1]) /\
  p_rise a = Ok (Arr TNum [3]%nat [ENum 1; ENum 0; ENum 2]) /\
  p_classify a = Ok (Arr TNum [3]%nat [ENum 0; ENum 1; ENum 0]) /\
  p_dedup a = Ok (Arr TNum [2; 2]%nat [ENum 5; ENum 1; ENum 2; ENum 2]) /\
  p_indexin None a (Arr TNum [2]%nat [ENum 2; ENum 2]) = Ok (Arr TNum [] [ENum 1]) /\
  p_reshape None false [AInt 3; AInt 2] (p_deshape a) = Ok a /\
  p_transpose c = Arr TChar [0; 3; 2]%nat [].
Proof. vm_compute. repeat split; reflexivity. Qed.

(** filled pervasion with empty rows (the inputs that crashed the interpreter before 0107489,
    and the one that still does, C08-F1): the reference's answer is the padded, filled result *)
Example C08_filled_pervasion_empty_rows :
  let ones n := repeat (ENum 1) n in
  p_perv2 PAdd (Some (ENum 0)) (Arr TNum [3; 0]%nat []) (Arr TNum [2; 4]%nat (ones 8%nat))
    = Ok (Arr TNum [3; 4]%nat (ones 8%nat ++ repeat (ENum 0) 4%nat)) /\
  p_perv2 PSub (Some (ENum 7)) (Arr TNum [2; 4]%nat (ones 8%nat)) (Arr TNum [3; 0]%nat [])
    = Ok (Arr TNum [3; 4]%nat (repeat (ENum 6) 8%nat ++ repeat (ENum 0) 4%nat)) /\
  p_perv2 PEq (Some (ENum 0)) (Arr TNum [2; 3; 0]%nat []) (Arr TNum [2; 2; 4]%nat (ones 16%nat))
    = Ok (Arr TNum [2; 3; 4]%nat
            (repeat (ENum 0) 8%nat ++ repeat (ENum 1) 4%nat ++ repeat (ENum 0) 8%nat ++ repeat (ENum 1) 4%nat)).
Proof. vm_compute. repeat split; reflexivity. Qed.

Print Assumptions C08_from_rows_rows.
Print Assumptions C08_length_shape.
Print Assumptions C08_shape_reverse.
Print Assumptions C08_shape_transpose.
Print Assumptions C08_shape_couple.
Print Assumptions C08_shape_take.
Print Assumptions C08_shape_drop.
Print Assumptions C08_shape_rotate.
Print Assumptions C08_reverse_involutive.
Print Assumptions C08_wf_reverse.
Print Assumptions C08_first_couple.
Print Assumptions C08_last_couple.
Print Assumptions C08_first_fix.
Print Assumptions C08_box_unbox.
Print Assumptions C08_take_drop_join.
Print Assumptions C08_member_index_in.
Print Assumptions C08_reshape_deshape.
Print Assumptions C08_rise_permutation.
Print Assumptions C08_select_rise_is_sort.
Print Assumptions C08_sort_sorted.
Print Assumptions C08_sort_permutation.
Print Assumptions C08_classify_dedup.
Print Assumptions C08_dedup_spec.
Print Assumptions C08_match_spec.
Print Assumptions C08_keep_neg_scalar.
Print Assumptions C08_rotate_extra_axes.
Print Assumptions C08_rotate_add.
Print Assumptions C08_rotate_inverse.
Print Assumptions C08_join_same_rank.
Print Assumptions C08_couple_join_fix.
Print Assumptions C08_deshape_fix.
Print Assumptions C08_select_zero_first.
Print Assumptions C08_pick_scalar_select.
