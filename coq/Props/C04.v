(** C04 - under restores what it took apart.
    Property theorems only; every proof is [exact lemma]. *)
From Coq Require Import List ZArith NArith Bool.
From UV Require Import Model.Prims Model.Invert Model.Under Proofs.Under.
From UV Require Import Model.Node Model.Sig Model.Exec Model.TreeOk
  Proofs.SimBase Proofs.SigMono Proofs.SigSound Proofs.Frame Proofs.TreeOk Proofs.UnderFrame.
Import ListNotations.

(** No residue.  `⍜F G` is compiled to [before ; G ; after] (compile/modifier.rs).  If the two halves
    that [under_inverse] returned pass [under_balancedb] (evaluated by Coq on the real compiler's output
    for the whole catalogue x g-signatures on every run: `before` pushes k values on the hidden context
    stack and takes none, `after` takes exactly k and leaves none, both are inside the frame theorem's
    fragment), then for EVERY checked G with no context effect of its own, every semantics of the
    primitives, every fuel and every state deep enough for the three stages:
    - on success the context stack is exactly the one before;
    - on failure at ANY point (inside the do-part, inside G, inside the undo-part) everything left on
      the context stack lies above the original content and the fill stack, fill boundaries and call
      depth are the original ones. *)
Theorem C04_under_no_residue :
  forall pknown psem arrsem unpacksem fmtsem asm,
  asm_okb asm = true -> forall b g a sg, under_balancedb asm b a = true ->
  tree_okb asm g = true -> node_sig g = Some sg -> sua sg = 0 -> suo sg = 0 ->
  exists sb sa_, node_sig b = Some sb /\ node_sig a = Some sa_ /\
  forall fuel s, under_depth sb sg sa_ (length (stk s)) ->
  match Exec.exec pknown psem arrsem unpacksem fmtsem asm fuel (Run [b; g; a]) s with
  | Ok s' => und s' = und s /\ hid s' = hid s
  | Err _ s' => (exists uj, und s' = uj ++ und s) /\ hid s' = hid s
  | OOF | Unk => True end.
Proof.
  exact (fun pk ps ar un fm asm HA b g a sg Hb Tg Sg G0 G1 =>
    match under_balancedb_sound asm b a Hb with
    | ex_intro _ sb (ex_intro _ sa_ (conj Sb (conj Sa (conj B0 (conj A0 (conj K (conj Tb Ta))))))) =>
        ex_intro _ sb (ex_intro _ sa_ (conj Sb (conj Sa
          (under_no_residue pk ps ar un fm asm (asm_okb_sound asm HA) b g a sb sg sa_
             (Build_under_shape asm b g a sb sg sa_ Tb (tree_okb_sound asm g Tg) Ta Sb Sg Sa B0 A0 K G0 G1)))))
    end).
Qed.

(** ... so a handler around it (`⍣`, whose exec_clean_stack keeps the bottom [length (und s)] context
    values) starts with exactly the original context stack *)
Theorem C04_handler_sees_original_context :
  forall pknown psem arrsem unpacksem fmtsem asm,
  asm_okb asm = true -> forall b g a sb sg sa_, under_shape asm b g a sb sg sa_ ->
  forall fuel s c s', under_depth sb sg sa_ (length (stk s)) ->
  Exec.exec pknown psem arrsem unpacksem fmtsem asm fuel (Run [b; g; a]) s = Err c s' ->
  Exec.keep_bottom (length (und s)) (und s') = und s /\ hid s' = hid s.
Proof.
  exact (fun pk ps ar un fm asm HA => under_no_residue_err pk ps ar un fm asm (asm_okb_sound asm HA)).
Qed.

(** Lens laws (reference semantics of the selectors and their undo primitives, Model/Under.v):
    every lens built by sequencing from first, take k, drop k, reverse, fix, deshape and rotate k is
    well behaved: `⍜F∘ x = x` whenever F applies, and the part F selects from `⍜F G x` is exactly
    G of the part F selected from x (G any function whose result the undo step accepts, i.e. of the
    selected part's type and shape). *)
Theorem C04_lenses_well_behaved :
  Proofs.Under.well_behaved Model.Under.l_first /\
  (forall k, Proofs.Under.well_behaved (Model.Under.l_take k)) /\
  (forall k, Proofs.Under.well_behaved (Model.Under.l_drop k)) /\
  Proofs.Under.well_behaved Model.Under.l_reverse /\ Proofs.Under.well_behaved Model.Under.l_fix /\
  Proofs.Under.well_behaved Model.Under.l_deshape /\
  (forall k, Proofs.Under.well_behaved (Model.Under.l_rotate k)) /\
  (forall l1 l2, Proofs.Under.well_behaved l1 -> Proofs.Under.well_behaved l2 ->
                 Proofs.Under.well_behaved (Model.Under.l_seq l1 l2)).
Proof.
  exact (conj Proofs.Under.first_well_behaved (conj Proofs.Under.take_well_behaved (conj Proofs.Under.drop_well_behaved
        (conj Proofs.Under.reverse_well_behaved (conj Proofs.Under.fix_well_behaved (conj Proofs.Under.deshape_well_behaved
        (conj Proofs.Under.rotate_well_behaved Proofs.Under.seq_well_behaved))))))).
Qed.
Theorem C04_get_put : forall l x v, Proofs.Under.well_behaved l -> Model.Prims.wf x ->
  Model.Under.lget l x = Model.Prims.Ok v -> Model.Under.under_run l Model.Prims.Ok x = Model.Prims.Ok x.
Proof. exact Proofs.Under.under_identity. Qed.
Theorem C04_put_get : forall l g x x', Proofs.Under.well_behaved l -> Model.Prims.wf x ->
  Model.Under.under_run l g x = Model.Prims.Ok x' ->
  exists v w, Model.Under.lget l x = Model.Prims.Ok v /\ g v = Model.Prims.Ok w /\
              Model.Under.lget l x' = Model.Prims.Ok w /\ Model.Prims.wf x'.
Proof. exact Proofs.Under.under_put_get. Qed.
(** frame for `⍜⊢`: every row but the first, the shape and the type are untouched *)
Theorem C04_first_frame : forall x v x', Model.Under.lput Model.Under.l_first x v = Model.Prims.Ok x' ->
  skipn (Model.Prims.prodn (tl (Model.Prims.ash x))) (Model.Prims.adata x') =
  skipn (Model.Prims.prodn (tl (Model.Prims.ash x))) (Model.Prims.adata x) /\
  Model.Prims.ash x' = Model.Prims.ash x /\ Model.Prims.aty x' = Model.Prims.aty x.
Proof. exact Proofs.Under.first_frame. Qed.

(** non-vacuity: the real templates of `⍜⊢` (before = copy-u-1 ⊢, after = pop-u-1 UndoFirst; ids as
    exported) with G = negate meet the premises *)
Example C04_nonvacuous :
  let b := Run [CopyToUnder 1; Prim 1021 1 1] in
  let a := Run [PopUnder 1; Prim 100777 2 1] in
  let g := Prim 8 1 1 in
  under_balancedb [] b a = true /\ tree_okb [] g = true /\ node_sig g = Some (Sig 1 1 0 0) /\
  node_sig b = Some (Sig 1 1 0 1) /\ node_sig a = Some (Sig 1 1 1 0) /\
  under_depth (Sig 1 1 0 1) (Sig 1 1 0 0) (Sig 1 1 1 0) 1.
Proof. vm_compute. repeat split; auto. Qed.

Print Assumptions C04_under_no_residue.
Print Assumptions C04_handler_sees_original_context.
Print Assumptions C04_lenses_well_behaved.
Print Assumptions C04_get_put.
Print Assumptions C04_put_get.
Print Assumptions C04_first_frame.
