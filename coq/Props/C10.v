(** C10 — Formatting is idempotent and never changes program meaning.
    PARTIAL: theorems for the adjacency core (spacing between the words of one line) and for
    the validator of the V tie.  Layout (multi-line arrays/functions/packs, alignment, comments,
    output comments), modifiers' operand spacing and the name->glyph table have no theorem:
    for them the property is decided by the V tie and the search (see DESIGN.md §C10).
    Property theorems only; every proof is [exact lemma]. *)
From Coq Require Import List ZArith NArith Bool.
From UV Require Import Model.Node Model.Exec Model.NodeEq Proofs.NodeEq Model.Fmt Proofs.Fmt Proofs.FmtNorm Proofs.FmtWf.
Import ListNotations.

(** the formatter's spacing never merges or splits words: lexing the formatted line gives back
    exactly the formatted words ([norm ts]: the source words with ASCII spellings replaced by
    glyphs and single spaces exactly where the formatter prints them) *)
Theorem C10_relex_render : forall ts, wf_tokens ts = true -> lex (render ts) = norm ts.
Proof. exact relex_render. Qed.

(** the formatted line is a fixed point: formatting it again returns it unchanged *)
Theorem C10_render_idempotent : forall ts, wf_tokens ts = true -> render (lex (render ts)) = render ts.
Proof. exact render_idempotent. Qed.

(** on lines that are already in formatted form, [lex (render ts) = ts] *)
Theorem C10_relex_render_fixed : forall ts, stable ts = true -> lex (render ts) = ts.
Proof. exact relex_render_fixed. Qed.

(** the adjacency lemma: EVERY pair of neighbouring words that the lexer can produce (with or
    without spaces between them in the source) is printed so that the lexer separates the two
    printed words and a second pass takes the same decision *)
Theorem C10_adjacency : forall p t sp, valid_tok p = true -> valid_tok t = true ->
  wf_junction p (is_some sp) t = true ->
  if space_between p sp t then spaced_stable (out_last p) (out_first t) = true
  else adj_stable (out_last p) (out_first t) = true.
Proof. exact junction. Qed.

(** lines joined by the ";" unsplit marker (parse.rs flip_unsplit_lines_impl, modelled by
    [unsplit_lines]): the joined line is formatted like any other line, so two words that come from
    different source lines are never merged *)
Theorem C10_unsplit_relex : forall in_array acc ls,
  wf_tokens (unsplit_lines in_array acc ls) = true ->
  lex (render (unsplit_lines in_array acc ls)) = norm (unsplit_lines in_array acc ls).
Proof. intros in_array acc ls; exact (relex_render _). Qed.

(** "(X ;⏎Y)" is printed "(Y X)": the identifiers of the two lines stay apart *)
Example C10_nonvacuous_unsplit :
  let ts := (TOpen 40 :: unsplit_lines false (unsplit_first true [TUpper [88] 0]) [[TUpper [89] 0]] ++ [TClose 41])%N in
  wf_tokens ts = true /\ render ts = [40; 89; 32; 88; 41]%N /\
  lex (render ts) = [TOpen 40; TUpper [89] 0; TSpace false; TUpper [88] 0; TClose 41]%N.
Proof. vm_compute. repeat split; reflexivity. Qed.

(** V tie validator: a structural comparison of the compiled trees of [s] and [format s] that
    answers [true] only for identical trees ... *)
Theorem C10_node_eqb_sound : forall a b, node_eqb a b = true -> a = b.
Proof. exact node_eqb_sound. Qed.

(** ... hence the two programs are the same computation on every run-time state, under every
    interpretation of the primitives and every fuel *)
Theorem C10_prog_eqb_sound : forall (p q : prog), prog_eqb p q = true ->
  forall pknown psem arrsem unpacksem fmtsem fuel s,
    exec pknown psem arrsem unpacksem fmtsem (snd p) fuel (fst p) s =
    exec pknown psem arrsem unpacksem fmtsem (snd q) fuel (fst q) s.
Proof. exact prog_eqb_sound. Qed.

(** non-vacuity: "Abc first,1 10 negate5 M!=  ( x_2 )" is well formed, is changed by the
    formatter ("Abc⊢₁10 ¯ 5 M! = (x_2)"), and relexes to 18 tokens (words and single spaces) *)
Example C10_nonvacuous :
  let ts := [TUpper [65;98;99] 0; TSpace false; TNames [8866]; TSubA [8321]; TSpace false; TNum false [49;48];
             TSpace false; TNames [175]; TNum false [53]; TSpace false; TUpper [77] 1; TEq; TSpace true;
             TOpen 40; TSpace false; TLower [120]; TStrand; TNum false [50]; TSpace false; TClose 41]%N in
  wf_tokens ts = true /\
  render ts = [65;98;99;8866;8321;49;48;32;175;32;53;32;77;33;32;61;32;40;120;95;50;41]%N /\
  length (lex (render ts)) = 18%nat /\ lex (render ts) <> ts.
Proof. vm_compute. repeat split; try reflexivity. discriminate. Qed.

Example C10_nonvacuous_validator :
  let p := (Run [Push (SInt 1); Mod MDip [(Sig 1 1 0 0, Prim 8 1 1)]; Call 0 (Sig 2 1 0 0)],
            [Run [Prim 5 2 1]]) in
  prog_eqb p p = true /\
  prog_eqb p (Run [Push (SInt 1); Mod MGap [(Sig 1 1 0 0, Prim 8 1 1)]; Call 0 (Sig 2 1 0 0)], [Run [Prim 5 2 1]]) = false.
Proof. vm_compute. split; reflexivity. Qed.

Print Assumptions C10_relex_render.
Print Assumptions C10_render_idempotent.
Print Assumptions C10_relex_render_fixed.
Print Assumptions C10_adjacency.
Print Assumptions C10_unsplit_relex.
Print Assumptions C10_node_eqb_sound.
Print Assumptions C10_prog_eqb_sound.
