(** C10 — Formatting is idempotent and never changes program meaning (PARTIAL: see DESIGN.md).
    Property theorems only; every proof is [exact lemma]. *)
From Coq Require Import List ZArith NArith Bool.
From UV Require Import Model.Node Model.Exec Model.NodeEq Proofs.NodeEq.
Import ListNotations.

(** V tie validator: a structural comparison of the compiled trees of [s] and [format s] that
    answers [true] only for identical trees ... *)
Theorem C10_node_eqb_sound : forall a b, node_eqb a b = true -> a = b.
Proof. exact node_eqb_sound. Qed.

(** ... hence the two programs are the same computation on every run-time state, under every
    interpretation of the primitives and every fuel *)
Theorem C10_prog_eqb_sound : forall (p q : prog), prog_eqb p q = true ->
  forall pknown psem arrsem unpacksem fmtsem fuel s,
    exec pknown psem arrsem unpacksem fmtsem (snd p) fuel (fst p) s =
    exec pknown psem arrsem unpacksem fmtsem (snd q) fuel (fst q) s.
Proof. exact prog_eqb_sound. Qed.

Example C10_nonvacuous_validator :
  let p := (Run [Push (SInt 1); Mod MDip [(Sig 1 1 0 0, Prim 8 1 1)]; Call 0 (Sig 2 1 0 0)],
            [Run [Prim 5 2 1]]) in
  prog_eqb p p = true /\
  prog_eqb p (Run [Push (SInt 1); Mod MGap [(Sig 1 1 0 0, Prim 8 1 1)]; Call 0 (Sig 2 1 0 0)], [Run [Prim 5 2 1]]) = false.
Proof. vm_compute. split; reflexivity. Qed.

Print Assumptions C10_node_eqb_sound.
Print Assumptions C10_prog_eqb_sound.
