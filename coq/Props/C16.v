(** C16 — map arrays behave as insertion-ordered finite maps under every history.
    Property theorems only; every proof is [exact lemma]. *)
From Coq Require Import List NArith ZArith Bool.
From UV Require Import Model.Map Proofs.MapBase Proofs.MapProbe Proofs.Map Proofs.MapGrow Proofs.MapRefine Proofs.MapPre.
Import ListNotations.

(** Refinement of the CURRENT code ([fixed = true]), for EVERY hash function, every key
    equivalence the hash respects (C15: NaN, -0 and byte/float keys included) and every history of insert / remove / get / has / length / un-map from the empty map - with the
    table growing as the code grows it: the outputs are those of the association list, the
    key bound to row i is the key of the i-th entry and row i its value ([abs] = [lift]); un-map's
    output is the one of [normalized()] with its sort by row index, and len = number of rows = number of entries.
    Every prefix of a history is a history, so this holds after every step.
    [nanlike] is arbitrary: the current code never compares a key with a placeholder cell.
    Outside the statement (by the shape of the model: a stored key is a [Key] cell): keys one
    of whose elements is BIT-IDENTICAL to a placeholder value - f64 0x7ff8000000000001 or
    0x7ff8000000000002 (also as real part of a complex), the characters U+2FFFF or U+2FFFE,
    anywhere inside a boxed key - which the code cannot tell from an empty/tombstone cell. *)
Theorem C16_map_refines_alist :
  forall (key val : Type) (keq : key -> key -> bool) (nanlike : key -> bool) (hash : key -> N) (he ht : N),
    (forall k, keq k k = true) ->
    (forall a b, keq a b = keq b a) ->
    (forall a b c, keq a b = true -> keq b c = true -> keq a c = true) ->
    (forall a b, keq a b = true -> hash a = hash b) ->
    forall ops : list (op key val), forallb (proved_op key val) ops = true ->
      let c := run key val keq nanlike true hash he ht (empty_map key val) ops in
      let s := srun key val keq [] ops in
      snd c = snd s /\ abs key val (fst c) = lift key val (fst s) /\
      length (snd (fst c)) = length (fst s) /\ len (fst (fst c)) = length (fst s).
Proof. exact map_refines_alist. Qed.

(** the invariant behind it ([R]: table well-formed, present keys pairwise different, each reachable
    from its hash position without crossing an empty cell, load <= 3/4, key count = len = rows,
    bindings = entries of the association list with their positions) holds after every history *)
Theorem C16_map_inv_run :
  forall (key val : Type) (keq : key -> key -> bool) (nanlike : key -> bool) (hash : key -> N) (he ht : N),
    (forall k, keq k k = true) ->
    (forall a b, keq a b = keq b a) ->
    (forall a b c, keq a b = true -> keq b c = true -> keq a c = true) ->
    (forall a b, keq a b = true -> hash a = hash b) ->
    forall ops : list (op key val), forallb (proved_op key val) ops = true ->
      R key val keq hash (fst (run key val keq nanlike true hash he ht (empty_map key val) ops))
        (fst (srun key val keq [] ops)).
Proof. exact map_inv_run. Qed.

(** present_indices (map.rs l.726-733: the first step of MapKeys::reverse / rotate / take / drop,
    with its sort by row index) after every such history: it lists the table positions of the
    present keys in row order - its i-th entry is the cell holding the key of the i-th entry of
    the association list, and that cell's index is i *)
Theorem C16_present_indices_spec :
  forall (key val : Type) (keq : key -> key -> bool) (nanlike : key -> bool) (hash : key -> N) (he ht : N),
    (forall k, keq k k = true) ->
    (forall a b, keq a b = keq b a) ->
    (forall a b c, keq a b = true -> keq b c = true -> keq a c = true) ->
    (forall a b, keq a b = true -> hash a = hash b) ->
    forall ops : list (op key val), forallb (proved_op key val) ops = true ->
      let v := fst (run key val keq nanlike true hash he ht (empty_map key val) ops) in
      let a := fst (srun key val keq [] ops) in
      length (present_indices key (fst v)) = length a /\
      forall i k x, nth_error a i = Some (k, x) ->
        exists p, nth_error (present_indices key (fst v)) i = Some p /\
          cellat key (fst v) p = Key k /\ nth p (idx (fst v)) 0 = i.
Proof. exact present_indices_run. Qed.

(** grow_impl (which re-inserts placeholder cells too): growing a well-formed table to any larger
    capacity keeps exactly the bindings and makes every key reachable again *)
Theorem C16_grow_keeps_bindings :
  forall (key : Type) (keq : key -> key -> bool) (hash : key -> N) (he ht : N),
    (forall a b, keq a b = keq b a) -> grow_ok key keq hash he ht.
Proof. exact grow_ok_proved. Qed.

(** insert_impl with its tombstone look-ahead, for every table and hash position: it either
    puts a NEW key into a placeholder cell reached without crossing an empty cell (and then no
    cell matched), or replaces the matching key of a cell; it fails only on a table full of
    other keys *)
Theorem C16_insert_impl_spec :
  forall (key : Type) (keq : key -> key -> bool) fuel (m : mk key) k index s d,
    let c := cap key m in
    s < c -> d < c -> d + fuel = c -> length (cells m) = c ->
    (forall q, matches key keq k (cellat key m q) = true ->
       exists d', d' < c /\ q = off c s d' /\ forall e, e < d' -> cellat key m (off c s e) <> Empty) ->
    (forall e, e < d -> is_keyb (cellat key m (off c s e)) = true /\ matches key keq k (cellat key m (off c s e)) = false) ->
    ins_post key keq m k index s (ins_loop key keq fuel m k index s (off c s d)).
Proof. exact ins_loop_spec. Qed.

(** records of the four repaired defects: the model of the code before d33ad92 / 1d73a86 /
    ca07ac6 / 5017b06 ([fixed = false], NaN comparing equal to the placeholder cells) departs
    from the association list on the former failing histories, the current model agrees *)
Theorem C16_nan_key_refuted_pre :
  agrees false h_nan_get = false /\ agrees false h_nan_insert = false /\ agrees false h_nan_remove = false.
Proof. exact nan_key_refuted_pre. Qed.
Theorem C16_drop_all_refuted_pre : agrees false h_drop_all = false.
Proof. exact drop_all_refuted_pre. Qed.
Theorem C16_join_overlap_refuted_pre : agrees false h_join_overlap = false.
Proof. exact join_overlap_refuted_pre. Qed.
Theorem C16_map_dup_keys_refuted_pre :
  abs N N (v_map N N N.eqb false real_hash real_he real_ht l_dup_keys) <> lift N N (a_map N N N.eqb l_dup_keys).
Proof. exact map_dup_keys_refuted_pre. Qed.
Theorem C16_repaired_histories_agree :
  agrees true h_nan_get = true /\ agrees true h_nan_insert = true /\ agrees true h_nan_remove = true /\
  agrees true h_drop_all = true /\ agrees true h_join_overlap = true /\
  abs N N (v_map N N N.eqb true real_hash real_he real_ht l_dup_keys) = lift N N (a_map N N N.eqb l_dup_keys).
Proof. exact repaired_histories_agree. Qed.

(** non-vacuity: model and association list agree on a history with collisions, a NaN key,
    re-insertion after removal, growth 0 -> 1 -> 2 -> 4 -> 8, the row operations, a join with
    three shared keys and a drop of every row *)
Example C16_nonvacuous :
  agrees true [OIns 1 4; OIns 2 5; OIns 999 6; ORem 2; OIns 0 9; OIns 2 8; OGet 999; OHas 3; ORem 1; OLen;
               OIns 1 1; OUnmap; ORev; ORot 1%Z; OTake 3; ODrop 1; OJoin [(3, 7); (999, 8); (0, 2)]; OUnmap;
               ODrop 5; OUnmap; OIns 3 3; OUnmap]%N = true.
Proof. exact agrees_example. Qed.

Print Assumptions C16_map_refines_alist.
Print Assumptions C16_map_inv_run.
Print Assumptions C16_present_indices_spec.
Print Assumptions C16_grow_keeps_bindings.
Print Assumptions C16_insert_impl_spec.
Print Assumptions C16_nan_key_refuted_pre.
Print Assumptions C16_drop_all_refuted_pre.
Print Assumptions C16_join_overlap_refuted_pre.
Print Assumptions C16_map_dup_keys_refuted_pre.
Print Assumptions C16_repaired_histories_agree.
