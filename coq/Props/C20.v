(** C20 - The sandboxed backend confines programs; compiling performs no effects.
    Property theorems only; every proof is [exact lemma].

    Level "other": the theorems are about the purity GATE (is_min_purity, matches_nodes, the section
    scan of pre_eval, the backend choice of comptime_node) and about the default methods of the
    SysBackend trait, over a model of the interpreter in which primitives and modifiers are abstract
    and carry an effect trace.  That a primitive labelled Pure performs no host effect inside its Rust
    body is the premise [prims_respect]; it is validated by the recording backend and the source scan
    on every run, not proved. *)
From Coq Require Import List Arith ZArith NArith Bool String.
From UV Require Import Model.Node Model.Gate Proofs.Gate Proofs.GateSession Proofs.GateCompile Gen.Purity Proofs.GateTables.
Import ListNotations.

(** A tree the implementation judges pure emits no backend call at all when it is run: for every
    semantics of primitives and modifiers that respects the purity labels, every function table,
    binding table, fuel and state. *)
Theorem C20_pure_no_effect :
  forall lprim lmod asm fext binds St psem msem nsem win wout swsel dynsem,
  prims_respect lprim St psem -> mods_respect lmod St msem ->
  forall mt, macros_ok lprim lmod asm fext binds Pure mt ->
  forall k vis n, mac_in mt n = true -> is_min_purity lprim lmod asm fext binds k Pure vis n = true ->
  forall fuel s, snd (run St psem msem nsem win wout swsel dynsem asm binds fuel n s) = [].
Proof.
  exact (fun lprim lmod asm fext binds St psem msem nsem win wout swsel dynsem Hp Hm =>
    pure_no_effect lprim lmod asm fext binds (fun _ => false) St psem msem nsem win wout swsel dynsem Hp Hm).
Qed.

(** A tree judged at least Impure emits only read-only (or ambient) backend calls. *)
Theorem C20_impure_no_mutation :
  forall lprim lmod asm fext binds St psem msem nsem win wout swsel dynsem,
  prims_respect lprim St psem -> mods_respect lmod St msem ->
  forall mt, macros_ok lprim lmod asm fext binds Impure mt ->
  forall k vis n, mac_in mt n = true -> is_min_purity lprim lmod asm fext binds k Impure vis n = true ->
  forall fuel s, Forall (fun e => read_only e = true)
    (snd (run St psem msem nsem win wout swsel dynsem asm binds fuel n s)).
Proof.
  exact (fun lprim lmod asm fext binds St psem msem nsem win wout swsel dynsem Hp Hm =>
    impure_no_mutation lprim lmod asm fext binds (fun _ => false) St psem msem nsem win wout swsel dynsem Hp Hm).
Qed.

(** Outside editor mode, every section that pre_eval hands to compile-time evaluation is evaluated
    on the safe backend and emits no backend call. *)
Theorem C20_compile_effect_free :
  forall lprim lmod asm fext binds big sigok St psem msem nsem win wout swsel dynsem,
  prims_respect lprim St psem -> mods_respect lmod St msem ->
  forall mode mt, mode <> Lsp -> macros_ok lprim lmod asm fext binds Pure mt ->
  forall k root sec, forallb (mac_in mt) root = true ->
  In sec (pre_eval_sections lprim lmod asm fext binds big sigok k mode root) ->
  comptime_backend mode = BSafe /\
  forall fuel s, snd (run St psem msem nsem win wout swsel dynsem asm binds fuel (Run sec) s) = [].
Proof. exact compile_effect_free. Qed.

(** The same for any section comptime_node evaluates (constant bindings). *)
Theorem C20_comptime_node_effect_free :
  forall lprim lmod asm fext binds big St psem msem nsem win wout swsel dynsem,
  prims_respect lprim St psem -> mods_respect lmod St msem ->
  forall mode mt, mode <> Lsp -> macros_ok lprim lmod asm fext binds Pure mt ->
  forall k sec, forallb (mac_in mt) sec = true ->
  evaluated lprim lmod asm fext binds big k mode sec = true ->
  forall fuel s, snd (run St psem msem nsem win wout swsel dynsem asm binds fuel (Run sec) s) = [].
Proof. exact comptime_node_effect_free. Qed.

(** In editor mode the evaluated sections emit only read-only calls. *)
Theorem C20_lsp_mode_readonly :
  forall lprim lmod asm fext binds big sigok St psem msem nsem win wout swsel dynsem,
  prims_respect lprim St psem -> mods_respect lmod St msem ->
  forall mt, macros_ok lprim lmod asm fext binds Impure mt ->
  forall k root sec, forallb (mac_in mt) root = true ->
  In sec (pre_eval_sections lprim lmod asm fext binds big sigok k Lsp root) ->
  forall fuel s, Forall (fun e => read_only e = true)
    (snd (run St psem msem nsem win wout swsel dynsem asm binds fuel (Run sec) s)).
Proof. exact lsp_mode_readonly. Qed.

(** Lazy mode evaluates nothing. *)
Theorem C20_lazy_evaluates_nothing :
  forall lprim lmod asm fext binds big sigok k root,
  pre_eval_sections lprim lmod asm fext binds big sigok k Lazy root = [] /\
  forall sec, evaluated lprim lmod asm fext binds big k Lazy sec = false.
Proof. exact lazy_evaluates_nothing. Qed.

(** Sub-trees of a tree judged pure are judged pure; purity at a level implies purity at lower levels. *)
Theorem C20_purity_monotone :
  forall lprim lmod asm fext binds p q, pge p q = true ->
  forall k vis n, is_min_purity lprim lmod asm fext binds k p vis n = true ->
  is_min_purity lprim lmod asm fext binds k q vis n = true.
Proof. exact purity_monotone_level. Qed.
Theorem C20_purity_subtree :
  forall lprim lmod asm fext binds k p vis ns, is_min_purity lprim lmod asm fext binds k p vis (Run ns) = true ->
  forall x, In x ns -> exists k', is_min_purity lprim lmod asm fext binds k' p vis x = true.
Proof. exact (fun lprim lmod asm fext binds k p vis ns H => purity_monotone_subtree lprim lmod asm fext binds k p vis (Run ns) H). Qed.

(** The safe backend, from the trait as it stands in the source (regenerated table): a method that
    changes state and is not one of SafeSys's in-memory overrides answers "not supported", is a listed
    no-op, or only composes such methods. *)
Theorem C20_safe_backend_denies : forall m d, In (m, d) trait_methods ->
  method_class m = Some Changing -> smem m safe_overrides = false ->
  match d with
  | DErr => True
  | DOther => smem m benign_defaults = true
  | DComp _ => method_confined trait_methods (m, d) = true
  | DRequired => False end.
Proof. exact safe_backend_denies. Qed.

(** No default method of the trait touches the host, from the trait as it stands in the source
    (regenerated table): apart from the clock and the time zone, the scan of every default body finds no
    file-system probe, std::fs/env/process/net/io/thread/time use, standard stream or print macro, and
    every constant-answer default has exactly its listed text (file_exists answers `false`, var `None`,
    ...).  So a backend without overrides, and SafeSys, answer without looking at the host. *)
Theorem C20_defaults_host_free :
  forallb (fun mt => match snd mt with [] => true | _ => smem (fst mt) host_reading_defaults end) default_host_tokens = true /\
  forallb (fun nb => smem (fst nb) host_reading_defaults && negb (smem (fst nb) (map fst benign_bodies)) ||
                     match assoc (fst nb) benign_bodies with Some b => String.eqb b (snd nb) | None => false end)
          default_other_bodies = true /\
  forallb (fun m => match snd m with DRequired => true | _ => is_some (assoc (fst m) default_host_tokens) end) trait_methods = true.
Proof. exact (conj defaults_host_free (conj defaults_bodies_listed defaults_cover_trait)). Qed.

(** The tables of the code as it stands: no system function is labelled Pure, the modifier kinds are
    classified as in the code, every row of effects_of respects its label (no exceptions). *)
Theorem C20_tables_consistent :
  forallb (fun np => negb (purity_eqb (snd np) Pure)) gen_sysops = true /\
  forallb (fun mp => purity_eqb (gen_lmod (fst mp)) (snd mp)) gen_mods = true /\
  forallb row_ok effects_of = true /\
  forallb (fun m => is_some (method_class (fst m))) trait_methods = true.
Proof. exact (conj sysops_never_pure (conj gen_mods_ok (conj effects_respect_labels methods_classified))). Qed.

(** Record of four repaired findings (fix commits 1cead72, d78a439, 06086d8): with the labels of the
    code before them, &fo, un-trace, un-dump and the implicit close of under called more than their label
    allowed; with the labels of the code as it stands they do not. *)
Theorem C20_labels_refuted_pre : forall op p, In (op, p) labels_pre -> label_ok p (effects op) = false.
Proof. exact labels_refuted_pre. Qed.
Theorem C20_labels_repaired : forall op, In op label_exceptions_pre -> row_ok (op, effects op) = true.
Proof. exact labels_repaired. Qed.

(** A reused compiler keeps the embedder's pre-evaluation mode.  The fill arm compiles the filled
    function in editor mode with in_fill set, try_ sets in_try, a code-macro expansion raises
    comptime_depth and lowers the mode for the generated code.  For the code as it stands (fix 501199d
    included) and EVERY word - fill, try and code macros nested in any way, whatever fails inside,
    unparsable macro output and too-deep macro recursion included - the whole saved state (mode,
    in_fill, in_try, comptime_depth) is back after compiling it, on the Ok path and on the Err path. *)
Theorem C20_compile_restores_state : forall fuel s w, snd (ccompile true true fuel s w) = s.
Proof. exact compile_restores. Qed.
Theorem C20_snippet_restores_state : forall fuel mode ws,
  clines (ccompile true true fuel) (CS mode false false 0) ws = CS mode false false 0.
Proof. exact snippet_restores. Qed.
(** Record of the repaired finding (code before 501199d): an error inside the expansion of a code
    macro left comptime_depth incremented. *)
Theorem C20_codemacro_depth_leak_refuted_pre : exists s w,
  fst (ccompile true false 200 s w) = false /\ cs_depth (snd (ccompile true false 200 s w)) <> cs_depth s.
Proof. exact codemacro_err_leaks_depth_refuted_pre. Qed.
(** Why the order "restore, then `?`" in the fill arm matters: with the `?` first, one rejected
    snippet leaves the compiler in editor mode. *)
Theorem C20_fill_without_restore_leaks_mode : exists s w, no_macro w = true /\
  fst (ccompile false true 200 s w) = false /\ cs_mode (snd (ccompile false true 200 s w)) = Lsp /\ cs_mode s = Normal.
Proof. exact unfixed_fill_leaks_mode. Qed.

(** The backend of compile-time evaluation (code as it stands, fix 2bf92f0): a fresh safe backend in
    the default modes, the compiler's own backend in editor mode - never the native one behind the
    embedder's back.  Together with C20_lsp_mode_readonly: what the gate lets run in editor mode makes
    only read-only calls, and makes them on the backend the embedder supplied. *)
Theorem C20_comptime_backend_own : forall m,
  (comptime_backend m = BSafe /\ m <> Lsp) \/ (comptime_backend m = BOwn /\ m = Lsp).
Proof. exact comptime_backend_never_native. Qed.
(** Record of the repaired finding: before 2bf92f0 editor mode evaluated on the native backend. *)
Theorem C20_comptime_backend_refuted_pre : exists m, comptime_backend_pre m = BNative.
Proof. exact comptime_backend_refuted_pre. Qed.
(** The pre-evaluation cache (code as it stands, fix 49da69f: only a node that is_pure is looked up
    and stored).  An impure node is evaluated on the asking compiler's own backend every time ... *)
Theorem C20_precache_skips_impure : forall key keyb val eval cacheable c b k, cacheable k = false ->
  comptime_cached key keyb val eval cacheable c b k = (fst (eval b k), snd (eval b k), c).
Proof. exact cache_skips_impure. Qed.
(** ... and, pure nodes calling no backend (C20_pure_no_effect), over any history of compilers and
    backends on the thread the value a compiler gets is the value its own evaluation gives, its calls
    are calls on its own backend, and the cache stays coherent: no backend's value is ever served. *)
Theorem C20_precache_sound : forall key keyb val eval cacheable,
  (forall a b, keyb a b = true -> a = b) ->
  (forall k, cacheable k = true -> forall b b', eval b k = eval b' k /\ snd (eval b k) = []) ->
  forall c b k, coherent key keyb val eval cacheable c ->
  fst (fst (comptime_cached key keyb val eval cacheable c b k)) = fst (eval b k) /\
  (snd (fst (comptime_cached key keyb val eval cacheable c b k)) = [] \/
   snd (fst (comptime_cached key keyb val eval cacheable c b k)) = snd (eval b k)) /\
  coherent key keyb val eval cacheable (snd (comptime_cached key keyb val eval cacheable c b k)).
Proof. exact cache_sound. Qed.
(** Record of the repaired finding (code before 49da69f): a hit served what ANOTHER compiler's backend
    had produced, with no call on the asking compiler's backend; the same history now reaches the
    asking compiler's own (denying) backend. *)
Theorem C20_precache_crosses_backends_refuted_pre :
  exists (eval : nat -> nat -> option string * list event) c1 v1,
    comptime_cached_pre nat Nat.eqb (option string) eval [] 0 7 = (Some v1, ["file_read_all"%string], c1) /\
    eval 1 7 = (None, ["file_read_all"%string]) /\
    comptime_cached_pre nat Nat.eqb (option string) eval c1 1 7 = (Some v1, [], c1).
Proof. exact cache_crosses_backends_refuted_pre. Qed.
Theorem C20_precache_same_history_repaired :
  let eval := fun (b k : nat) => if Nat.eqb b 0 then (Some "contents"%string, ["file_read_all"%string])
                                 else (None, ["file_read_all"%string]) in
  let c1 := snd (comptime_cached nat Nat.eqb (option string) eval (fun _ => false) [] 0 7) in
  comptime_cached nat Nat.eqb (option string) eval (fun _ => false) c1 1 7 = (None, ["file_read_all"%string], []).
Proof. exact cache_same_history_repaired. Qed.

(** A WHOLE COMPILE.  A program is a list of items: top-level lines (pre-evaluated only above Line
    mode), constant bindings (evaluated by comptime_node only if is_pure), other bindings and index
    macros (nothing runs), the end-of-load pass over all function bodies, and the routes that are not
    gated: explicit comptime, and the two open findings - code macros and imports.
    A constant binding makes no backend call in ANY mode, the editor's included. *)
Theorem C20_const_binding_silent :
  forall lprim lmod asm fext binds big sigok gfuel St psem msem nsem win wout swsel dynsem rfuel s0 import_events,
  prims_respect lprim St psem -> mods_respect lmod St msem ->
  forall mt, macros_ok lprim lmod asm fext binds Pure mt ->
  forall mode ns, forallb (mac_in mt) ns = true ->
  ctrace lprim lmod asm fext binds big sigok gfuel St psem msem nsem win wout swsel dynsem rfuel s0 import_events
    mode (IConstBind ns) = [].
Proof. exact const_binding_silent. Qed.
(** Outside editor mode a compile made of gated items calls no backend method at all ... *)
Theorem C20_gated_compile_silent :
  forall lprim lmod asm fext binds big sigok gfuel St psem msem nsem win wout swsel dynsem rfuel s0 import_events,
  prims_respect lprim St psem -> mods_respect lmod St msem ->
  forall mt, macros_ok lprim lmod asm fext binds Pure mt ->
  forall mode items, mode <> Lsp ->
  (forall it, In it items -> gated_item it = true /\ forallb (mac_in mt) (item_nodes it) = true) ->
  compile_trace lprim lmod asm fext binds big sigok gfuel St psem msem nsem win wout swsel dynsem rfuel s0 import_events
    mode items = [].
Proof. exact gated_compile_silent. Qed.
(** ... in editor mode only read-only ones (on the compiler's own backend, C20_comptime_backend_own) ... *)
Theorem C20_gated_compile_lsp_readonly :
  forall lprim lmod asm fext binds big sigok gfuel St psem msem nsem win wout swsel dynsem rfuel s0 import_events,
  prims_respect lprim St psem -> mods_respect lmod St msem ->
  forall mt, macros_ok lprim lmod asm fext binds Pure mt ->
  forall items, (forall it, In it items -> gated_item it = true /\ forallb (mac_in mt) (item_nodes it) = true) ->
  Forall (fun e => read_only e = true)
    (compile_trace lprim lmod asm fext binds big sigok gfuel St psem msem nsem win wout swsel dynsem rfuel s0 import_events
       Lsp items).
Proof. exact gated_compile_lsp_readonly. Qed.
(** ... and for ANY program outside editor mode, every backend call made while compiling comes from an
    item that is one of the explicit exceptions: comptime, a code macro, an import. *)
Theorem C20_compile_calls_from_exceptions :
  forall lprim lmod asm fext binds big sigok gfuel St psem msem nsem win wout swsel dynsem rfuel s0 import_events,
  prims_respect lprim St psem -> mods_respect lmod St msem ->
  forall mt, macros_ok lprim lmod asm fext binds Pure mt ->
  forall mode items e, mode <> Lsp ->
  (forall it, In it items -> forallb (mac_in mt) (item_nodes it) = true) ->
  In e (compile_trace lprim lmod asm fext binds big sigok gfuel St psem msem nsem win wout swsel dynsem rfuel s0 import_events
          mode items) ->
  exists it, In it items /\ gated_item it = false /\
    In e (ctrace lprim lmod asm fext binds big sigok gfuel St psem msem nsem win wout swsel dynsem rfuel s0 import_events mode it).
Proof. exact compile_calls_from_exceptions. Qed.

(** Non-vacuity: with concrete label-respecting semantics, a pure tree (a modifier running an
    operand twice around pure primitives, through a function call) is accepted and silent, while the
    same tree with a system function is refused and does emit. *)
Example C20_nonvacuous :
  prims_respect ex_lprim nat ex_psem /\ mods_respect ex_lmod nat ex_msem /\
  let asm := [Run [Prim 5 2 1; Mod MBoth [(sig2 1 1, Prim 8 1 1)]]] in
  let good := Run [Push (SInt 1%Z); Call 0 (sig2 2 1)] in
  let bad := Run [Push (SInt 1%Z); Prim 2000 1 0] in
  is_min_purity ex_lprim ex_lmod asm [false] [] 20 Pure [] good = true /\
  ex_run asm [] 20 good 0 = (Some 3, []) /\
  is_min_purity ex_lprim ex_lmod asm [false] [] 20 Pure [] bad = false /\
  snd (ex_run asm [] 20 bad 0) = ["print_str_stdout"%string].
Proof. exact (conj ex_prims_respect (conj ex_mods_respect (conj eq_refl (conj eq_refl (conj eq_refl eq_refl))))). Qed.

Print Assumptions C20_pure_no_effect.
Print Assumptions C20_impure_no_mutation.
Print Assumptions C20_compile_effect_free.
Print Assumptions C20_comptime_node_effect_free.
Print Assumptions C20_lsp_mode_readonly.
Print Assumptions C20_lazy_evaluates_nothing.
Print Assumptions C20_purity_monotone.
Print Assumptions C20_purity_subtree.
Print Assumptions C20_safe_backend_denies.
Print Assumptions C20_tables_consistent.
Print Assumptions C20_defaults_host_free.
Print Assumptions C20_const_binding_silent.
Print Assumptions C20_gated_compile_silent.
Print Assumptions C20_gated_compile_lsp_readonly.
Print Assumptions C20_compile_calls_from_exceptions.
Print Assumptions C20_labels_refuted_pre.
Print Assumptions C20_labels_repaired.
Print Assumptions C20_compile_restores_state.
Print Assumptions C20_snippet_restores_state.
Print Assumptions C20_codemacro_depth_leak_refuted_pre.
Print Assumptions C20_fill_without_restore_leaks_mode.
Print Assumptions C20_comptime_backend_own.
Print Assumptions C20_comptime_backend_refuted_pre.
Print Assumptions C20_precache_skips_impure.
Print Assumptions C20_precache_sound.
Print Assumptions C20_precache_crosses_backends_refuted_pre.
Print Assumptions C20_precache_same_history_repaired.
