(** C02 - A function's inferred signature is its real stack effect.
    Property theorems only; every proof is [exact lemma]. *)
From Coq Require Import List ZArith NArith Bool.
From UV Require Import Model.Node Model.Sig Model.Exec Model.TreeOk
  Proofs.SimBase Proofs.SigMono Proofs.SigSound Proofs.Frame Proofs.TreeOk.
Import ListNotations.

(** The frame theorem.  For EVERY semantics of the primitives (psem: any function from the visible
    fill and the popped arguments to outputs-or-failure), every function table, every tree that
    satisfies the invariant [tree_okb] (stored operand signatures are the checker's - exactly so where
    the run-time form reads them while the checker re-infers: by, rows, each, inventory, repeat;
    operands of iterating modifiers and switch branches leave the hidden context stack alone; every
    switch branch fits the switch's signature; validated on real compiler output on every run; try with
    ANY number of handlers, both/un-both and on with numeric subscripts, and do-loops whose body undoes
    what the condition leaves are inside), every fuel and every run-time state whose stack holds at least
    [sa sg] values: the run either fails or consumes exactly the top [sa sg] values, produces
    [so sg], leaves everything beneath untouched (on the stack and on the hidden context stack), and
    restores the fill stack, the fill boundaries and the call depth.  At a failure point the values
    beneath are untouched as well. *)
Theorem C02_sig_sound :
  forall pknown psem arrsem unpacksem fmtsem asm,
  asm_okb asm = true -> forall n sg, tree_okb asm n = true -> node_sig n = Some sg ->
  forall fuel s, sa sg <= length (stk s) -> sua sg <= length (und s) ->
  match Exec.exec pknown psem arrsem unpacksem fmtsem asm fuel n s with
  | Ok s' => exists outs uouts,
      stk s' = outs ++ skipn (sa sg) (stk s) /\ length outs = so sg /\
      und s' = uouts ++ skipn (sua sg) (und s) /\ length uouts = suo sg /\ hid s' = hid s
  | Err _ s' => exists j uj,
      stk s' = j ++ skipn (sa sg) (stk s) /\ und s' = uj ++ skipn (sua sg) (und s) /\ hid s' = hid s
  | OOF | Unk => True end.
Proof.
  exact (fun pk ps ar un fm asm HA n sg Ht =>
    sig_sound pk ps ar un fm asm (asm_okb_sound asm HA) n sg (tree_okb_sound asm n Ht)).
Qed.

(** When a whole program (no under-signature) ends successfully, nothing is left in the hidden context stack. *)
Theorem C02_root_leaves_no_context :
  forall pknown psem arrsem unpacksem fmtsem asm,
  asm_okb asm = true -> forall n sg, tree_okb asm n = true -> node_sig n = Some sg ->
  sua sg = 0 -> suo sg = 0 ->
  forall fuel s s', sa sg <= length (stk s) ->
  Exec.exec pknown psem arrsem unpacksem fmtsem asm fuel n s = Ok s' -> und s' = und s.
Proof.
  exact (fun pk ps ar un fm asm HA n sg Ht =>
    root_leaves_no_context pk ps ar un fm asm (asm_okb_sound asm HA) n sg (tree_okb_sound asm n Ht)).
Qed.

(** The interpreter's run-time check "modified the argument list by ..." cannot fire for a function
    body whose stored signature fits the checker's. *)
Theorem C02_frame_check_passes :
  forall pknown psem arrsem unpacksem fmtsem asm,
  asm_okb asm = true -> forall body sg, tree_okb asm body = true -> stored_okb sg body = true ->
  forall fuel s s', sa sg <= length (stk s) -> sua sg <= length (und s) ->
  Exec.exec pknown psem arrsem unpacksem fmtsem asm fuel body s = Ok s' ->
  (Z.of_nat (length (stk s')) - Z.of_nat (length (stk s)) = Z.of_nat (so sg) - Z.of_nat (sa sg))%Z.
Proof.
  exact (fun pk ps ar un fm asm HA body sg Tb Ob =>
    frame_check_passes pk ps ar un fm asm (asm_okb_sound asm HA) body sg
      (tree_okb_sound asm body Tb) (stored_okb_sound sg body Ob)).
Qed.

(** The checker never lowers its minimum: what it has counted as an argument stays counted. *)
Theorem C02_checker_monotone : forall n d e e', vnode d n e = Some e' ->
  m (fst e) <= m (fst e') /\ m (snd e) <= m (snd e').
Proof. exact vnode_mono. Qed.

(** non-vacuity: a real exported tree (⊃(+|×) under dip, with a call and a try) meets the premises
    and the interpreter model runs it *)
Example C02_nonvacuous :
  let asm := [Run [Push (SInt 1); Prim 5 2 1]] in
  let n := Run [Push (SInt 5); Push (SInt 7);
                Mod MDip [(Sig 1 1 0 0, Call 0 (Sig 1 1 0 0))];
                Mod MFork [(Sig 2 1 0 0, Prim 5 2 1); (Sig 2 1 0 0, Prim 7 2 1)];
                Mod MTry [(Sig 0 0 0 0, Run [Push (SInt 0); Push (SOpq 9); Prim 12 2 0]); (Sig 1 1 0 0, Prim 8 1 1)]] in
  asm_okb asm = true /\ tree_okb asm n = true /\ node_sig n = Some (Sig 0 2 0 0) /\
  zrun 50 asm n = (0%N, [(-13)%Z; 42%Z], 0%N).
Proof. vm_compute. repeat split; reflexivity. Qed.

(** non-vacuity for the iterating constructs: rows, repeat (count 2), by and a switch meet the
    premises and are run by the model: ≡+ 3 4 = 7, twice +1 = 9, ⊸¯ keeps 9 beneath ¯9, the switch
    takes branch 1 (absolute value) *)
Example C02_nonvacuous_iter :
  let n := Run [Push (SInt 3); Push (SInt 4);
                Mod MRows [(Sig 2 1 0 0, Prim 5 2 1)];
                Push (SInt 2);
                Mod MRepeat [(Sig 1 1 0 0, Run [Push (SInt 1); Prim 5 2 1])];
                Mod MBy [(Sig 1 1 0 0, Prim 8 1 1)];
                Push (SInt 1);
                Switch [(Sig 1 1 0 0, Prim 8 1 1); (Sig 1 1 0 0, Prim 19 1 1)] (Sig 1 1 0 0) false] in
  asm_okb [] = true /\ tree_okb [] n = true /\ node_sig n = Some (Sig 0 2 0 0) /\
  zrun 50 [] n = (0%N, [9%Z; 9%Z], 0%N).
Proof. vm_compute. repeat split; reflexivity. Qed.

(** non-vacuity for do and try with two handlers: ⍢(+1|<5) 0 runs five rounds; the three-function
    try of Model/TryPre.v meets the premises *)
Example C02_nonvacuous_do :
  let n := Run [Push (SInt 0);
                Mod MDo [(Sig 1 1 0 0, Run [Push (SInt 1); Prim 5 2 1]); (Sig 1 1 0 0, Run [Push (SInt 5); Prim 10 2 1])]] in
  asm_okb [] = true /\ tree_okb [] n = true /\ node_sig n = Some (Sig 0 1 0 0) /\
  zrun 50 [] n = (0%N, [5%Z], 0%N).
Proof. vm_compute. repeat split; reflexivity. Qed.

Print Assumptions C02_sig_sound.
Print Assumptions C02_root_leaves_no_context.
Print Assumptions C02_frame_check_passes.
Print Assumptions C02_checker_monotone.
