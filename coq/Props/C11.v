(** C11 - A caught error leaves no trace: try is all-or-nothing.
    Property theorems only; every proof is [exact lemma]. *)
From Coq Require Import List ZArith NArith Bool.
From UV Require Import Model.Node Model.Sig Model.Exec Model.TreeOk Model.TryPre
  Proofs.SimBase Proofs.SigMono Proofs.SigSound Proofs.Frame Proofs.TreeOk.
Import ListNotations.

(** If F fails AT ANY POINT of its execution (any primitive may fail, [psem] is arbitrary), the
    handler G starts in exactly the state F was started in - the same stack (with the error value
    slipped in beneath the try's arguments iff G asks for it, and the arguments G's signature does
    not reach dropped), the same hidden context stack, fill stack, fill boundaries and call depth:
    ⍣F G behaves exactly like G alone. *)
Theorem C11_try_rollback :
  forall pknown psem arrsem unpacksem fmtsem asm,
  asm_okb asm = true -> forall sf f sh g, tree_okb asm (Mod MTry [(sf, f); (sh, g)]) = true ->
  forall fuel s c s', try_targs sf sh <= length (stk s) ->
  Exec.exec pknown psem arrsem unpacksem fmtsem asm fuel f s = Err c s' -> c = false ->
  Exec.exec pknown psem arrsem unpacksem fmtsem asm (S fuel) (Mod MTry [(sf, f); (sh, g)]) s =
  Exec.exec pknown psem arrsem unpacksem fmtsem asm fuel g (handler_state sf sh s).
Proof.
  exact (fun pk ps ar un fm asm HA sf f sh g Ht =>
    try_rollback pk ps ar un fm asm (asm_okb_sound asm HA) sf f sh g (tree_okb_sound asm _ Ht)).
Qed.

(** At every failure point inside a checked function the values beneath its arguments, the hidden
    context beneath its own, the fill setting and the call depth are what they were before it started. *)
Theorem C11_err_restores_scoped :
  forall pknown psem arrsem unpacksem fmtsem asm,
  asm_okb asm = true -> forall n sg, tree_okb asm n = true -> node_sig n = Some sg ->
  forall fuel s c s', sa sg <= length (stk s) -> sua sg <= length (und s) ->
  Exec.exec pknown psem arrsem unpacksem fmtsem asm fuel n s = Err c s' ->
  (exists junk, stk s' = junk ++ skipn (sa sg) (stk s)) /\
  (exists ujunk, und s' = ujunk ++ skipn (sua sg) (und s)) /\
  fills s' = fills s /\ fbs s' = fbs s /\ depth s' = depth s.
Proof.
  exact (fun pk ps ar un fm asm HA n sg Ht =>
    err_restores_scoped pk ps ar un fm asm (asm_okb_sound asm HA) n sg (tree_okb_sound asm n Ht)).
Qed.

(** When F succeeds, ⍣F G is F followed by dropping the arguments only G would have used. *)
Theorem C11_try_success :
  forall pknown psem arrsem unpacksem fmtsem asm sf f sh g fuel s s2,
  try_targs sf sh <= length (stk s) ->
  Exec.exec pknown psem arrsem unpacksem fmtsem asm fuel f s = Ok s2 ->
  Exec.exec pknown psem arrsem unpacksem fmtsem asm (S fuel) (Mod MTry [(sf, f); (sh, g)]) s =
    (let n1 := Z.to_nat (Z.max 0 ((Z.of_nat (so sf) - Z.of_nat (sa sf)) -
                  (Z.of_nat (so (fst (try_sig [sf; sh]))) - Z.of_nat (try_targs sf sh)))) in
     let dep := (try_targs sf sh + so sf) - sa sf in
     if negb (Nat.eqb n1 0) && negb (need dep s2) then Err false s2
     else Ok (set_stk s2 (remove_n n1 dep (stk s2)))).
Proof. exact try_success. Qed.

(** record of the defect repaired by a fix: commit: before it, a `case` error passing through a
    plain try removed values BENEATH the try's arguments (remove_n at the untruncated depth) *)
Definition remove_pre (targs fa : nat) (l : list sval) : list sval := remove_n (targs - fa) targs l.
Theorem C11_case_passthrough_refuted_pre :
  exists targs fa (stk_after_truncate : list sval),
    fa <= targs /\
    skipn (targs - fa) (remove_pre targs fa stk_after_truncate) <> skipn (targs - fa) stk_after_truncate.
Proof.
  exists 2, 1, [SInt 2; SInt 3; SInt 4; SInt 5]. split; [auto|]. vm_compute. discriminate.
Qed.

(** Any number of handlers, any position in the chain: when the function being tried fails AT ANY
    POINT, the next one starts from exactly the try's original arguments [T] (with the new error
    value beneath them iff it asks for it), the same values [R] beneath, the same hidden context
    stack, fill stack, fill boundaries and call depth - also when the failed function was itself a
    handler that had been given an error value [e] (which is gone).  [try_loop] is the loop of
    algorithm::try_ as [Exec.exec] runs it for `Mod MTry` with two or more functions. *)
Theorem C11_try_every_handler_sees_original :
  forall pknown psem arrsem unpacksem fmtsem asm,
  asm_okb asm = true ->
  forall ts any sf f sh g hs (te : bool) fuel s (T : list sval) (e : sval) (R : list sval) c s',
  tree_okb asm f = true -> stored_okb sf f = true -> sua sf = 0 -> suo sf = 0 ->
  length T = sa ts -> sa sf <= sa ts + (if te then 1 else 0) ->
  stk s = T ++ (if te then [e] else []) ++ R ->
  Exec.exec pknown psem arrsem unpacksem fmtsem asm fuel f s = Err c s' -> c = false ->
  try_loop (Exec.exec pknown psem arrsem unpacksem fmtsem asm fuel) ts any sf f ((sh, g) :: hs) te s =
  try_loop (Exec.exec pknown psem arrsem unpacksem fmtsem asm fuel) ts any sh g hs
    (any && Nat.eqb (sa sh + (so ts - so sh)) (sa ts + 1))
    (RT (T ++ (if any && Nat.eqb (sa sh + (so ts - so sh)) (sa ts + 1) then [errval] else []) ++ R)
        (und s) (fills s) (fbs s) (depth s)).
Proof.
  exact (fun pk ps ar un fm asm HA ts any sf f sh g hs te fuel s T e R c s' Tf Of =>
    try_handler_sees_original pk ps ar un fm asm (asm_okb_sound asm HA) ts any sf f sh g hs te fuel s T e R c s'
      (tree_okb_sound asm f Tf) (stored_okb_sound sf f Of)).
Qed.

(** record of the defect repaired by fix 5e30998 (found by the C02 frame search): with the loop as
    it was at the pinned commit, a try of three functions whose first handler was given the error
    value and fails, and whose last handler has as many outputs as the try, ends with the stale
    error value still on the stack: four values where its signature |3.2 on four values leaves
    three; the loop as it is now leaves [2; 1; 4] *)
Theorem C11_try_stale_error_refuted_pre :
  let ex := Exec.exec zknown zsem no_arr no_unpack no_fmt [] 20 in
  fst try3_sig = Sig 3 2 0 0 /\
  stack_of (try_loop_pre ex (fst try3_sig) (snd try3_sig) (fst try3_f) (snd try3_f) [try3_h1; try3_h2] false try3_start)
    = Some [SInt 2; SInt 1; errval; SInt 4] /\
  stack_of (try_loop ex (fst try3_sig) (snd try3_sig) (fst try3_f) (snd try3_f) [try3_h1; try3_h2] false try3_start)
    = Some [SInt 2; SInt 1; SInt 4].
Proof. vm_compute. repeat split; reflexivity. Qed.

(** non-vacuity for three functions: the tree meets the premises of the frame theorem and the
    interpreter model runs it to the stack the implementation gives *)
Example C11_nonvacuous_three :
  let t := Mod MTry [try3_f; try3_h1; try3_h2] in
  asm_okb [] = true /\ tree_okb [] t = true /\ node_sig t = Some (Sig 3 2 0 0) /\
  zrun 50 [] (Run [Push (SInt 4); Push (SInt 3); Push (SInt 2); Push (SInt 1); t]) = (0%N, [2%Z; 1%Z; 4%Z], 0%N).
Proof. vm_compute. repeat split; reflexivity. Qed.

Example C11_nonvacuous :
  let asm : list node := [] in
  let f := Run [Prim 4 1 0; Push (SInt 0); Push (SOpq 9); Prim 12 2 0] in   (* ⍤"x"0 ◌ *)
  let g := Run [Prim 5 2 1] in                                               (* + *)
  let t := Mod MTry [(Sig 1 0 0 0, f); (Sig 2 1 0 0, g)] in
  asm_okb asm = true /\ tree_okb asm t = true /\
  zrun 50 asm (Run [Push (SInt 30); Push (SInt 12); t]) = (0%N, [42%Z], 0%N).
Proof. vm_compute. repeat split; reflexivity. Qed.

Print Assumptions C11_try_rollback.
Print Assumptions C11_err_restores_scoped.
Print Assumptions C11_try_success.
Print Assumptions C11_case_passthrough_refuted_pre.
Print Assumptions C11_try_every_handler_sees_original.
Print Assumptions C11_try_stale_error_refuted_pre.
