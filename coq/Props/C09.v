(** C09 — no input can crash, abort or wedge the toolchain.  PARTIAL: only the logic of the
    resource guards and of the lexer's assertions is modelled and proved here; arbitrary Rust
    panics, real stack exhaustion and out-of-memory are searched on the implementation
    (lib/c09.py), not proved.  Property theorems only; every proof is [exact lemma]. *)
From Coq Require Import List NArith Bool Arith.
From UV Require Import Model.Node Model.Sig Model.Exec Model.Lex Proofs.Lex Model.Limits Proofs.Limits.
Import ListNotations.

(** (a) validate_size_impl (current code, commit 1cc30f2): an accepted size is the TRUE product of
    the dimensions (the f64 arithmetic of the guard is exact wherever it accepts a non-empty
    shape), it fits in a u32, the byte size is within the limit [L] (any limit below 2^53 bytes),
    and the product of the NON-ZERO dimensions fits in a usize (relative-error bound of the f64
    product; rank below 2^50) *)
Theorem C09_size_guard_sound : forall es dims L n, (L < 2 ^ 53)%N -> (N.of_nat (length dims) < 2 ^ 50)%N ->
  validate_size es dims L = Accept n ->
  n = prod dims /\ (n <= u32max)%N /\ (n * es <= L)%N /\ (prod (nz dims) <= usize_max)%N.
Proof. exact size_guard_sound. Qed.

(** every trailing product of an accepted shape (row length, cell size, ...) fits in a usize: the
    law that the code before 1cc30f2 violated (C09_size_guard_refuted_pre) *)
Theorem C09_size_guard_suffixes_fit : forall es dims L n k, (L < 2 ^ 53)%N -> (N.of_nat (length dims) < 2 ^ 50)%N ->
  validate_size es dims L = Accept n -> (prod (skipn k dims) <= usize_max)%N.
Proof. exact size_guard_suffixes_fit. Qed.

(** ... and nothing that fits is refused *)
Theorem C09_size_guard_complete : forall es dims L, (L < 2 ^ 53)%N ->
  Forall (fun d => d <> 0%N) dims -> (prod dims <= u32max)%N -> (prod dims * es <= L)%N ->
  validate_size es dims L = Accept (prod dims).
Proof. exact size_guard_complete. Qed.
Theorem C09_size_guard_complete_zero : forall es dims L, Exists (fun d => d = 0%N) dims ->
  (prod (nz dims) < 2 ^ 53)%N -> validate_size es dims L = Accept 0%N.
Proof. exact size_guard_complete_zero. Qed.

(** RECORD about the model of the code BEFORE 1cc30f2 ([validate_size_pre]): one zero dimension
    made the guard accept any other dimensions, so an accepted shape could have a row length that
    does not fit in a usize; the current model refuses that witness *)
Theorem C09_size_guard_refuted_pre :
  exists es dims L, (L < 2 ^ 53)%N /\ Forall (fun d => (d <= usize_max)%N) dims /\
    validate_size_pre es dims L = Accept 0%N /\ (usize_max < prod (tl dims))%N.
Proof. exact size_guard_refuted_pre. Qed.
Theorem C09_size_guard_witness_refused : validate_size 1 [0; 10000000000; 10000000000]%N (2 ^ 32) = Reject.
Proof. exact size_guard_witness_refused. Qed.

(** (a') range validates dims ++ [rank] also when a dimension is 0 (commit 9313bfc), so the shape
    it builds is valid; rerank prepends fewer than 99 axes (commit 13d1954).  The `_pre` theorems
    are records about the models of the code before these commits *)
Theorem C09_range_shape_valid : forall dims L n, (L < 2 ^ 53)%N -> (N.of_nat (length dims) + 1 < 2 ^ 50)%N ->
  range_len dims L = Accept n -> (prod (nz (dims ++ [N.of_nat (length dims)])) <= usize_max)%N.
Proof. exact range_shape_valid. Qed.
Theorem C09_range_refuted_pre : exists dims L, (L < 2 ^ 53)%N /\ range_len_pre dims L = Accept 0%N /\ (usize_max < prod (nz dims))%N.
Proof. exact range_refuted_pre. Qed.
Theorem C09_rerank_prepends_bounded : forall rank len k, rerank_prepends rank len = Some k -> (k <= MAX_DIMS)%N.
Proof. exact rerank_prepends_bounded. Qed.
Theorem C09_rerank_refuted_pre : exists rank len k, rerank_prepends_pre rank len = Some k /\ (10 ^ 18 <= k)%N.
Proof. exact rerank_refuted_pre. Qed.

(** (b) along every execution (every oracle of data-dependent choices, every fuel) the call stack
    stays within the recursion limit + 1 + the frames a single function body stacks up by itself *)
Theorem C09_call_depth_bounded : forall limit gl D,
  (forall i b, nth_error gl i = Some b -> fdepth b <= D) ->
  forall fuel n d o, maxd (cexec limit gl fuel n d o) <= Nat.max (d + fdepth n) (limit + 1 + D).
Proof. exact call_depth_bounded. Qed.

(** (c) the signature checker answers "too complex" at depth MAX_NODE_DEPTH + 1 without descending
    further, accepts only within the bound, and the bound is sharp *)
Theorem C09_sigcheck_cutoff : forall d n e, MAX_NODE_DEPTH < d -> vnode d n e = None.
Proof. exact sigcheck_cutoff. Qed.
Theorem C09_sigcheck_depth_bounded : forall d n e e', vnode d n e = Some e' -> d <= MAX_NODE_DEPTH.
Proof. exact sigcheck_depth_bounded. Qed.
Theorem C09_sigcheck_threshold : forall k, node_sig (dip_chain k) <> None <-> k <= MAX_NODE_DEPTH.
Proof. exact sigcheck_threshold. Qed.

(** (c') `binary` recurses at most MAX_BINARY_DEPTH + 1 deep on any value it accepts; sharp *)
Theorem C09_box_nesting_cap : forall t, enc_ok 0 t = true -> bheight t <= MAX_BINARY_DEPTH + 1.
Proof. exact box_nesting_cap. Qed.
Theorem C09_box_chain_threshold : forall k, enc_ok 0 (box_chain k) = true <-> k <= MAX_BINARY_DEPTH.
Proof. exact box_chain_threshold. Qed.

(** (d) HALF-PROPERTY (true by construction of the model, NOT the claim of C09): the model
    interpreter is total and has four verdicts *)
Theorem C09_exec_total : forall pk ps ar un fm asm fuel n s,
  let r := exec pk ps ar un fm asm fuel n s in
  (exists s', r = Ok s') \/ (exists c s', r = Err c s') \/ r = OOF \/ r = Unk.
Proof. exact exec_total. Qed.

(** (e) from C19: for every input below 4 GiB / 65535 lines and columns and every control path of
    the tokeniser respecting the index discipline, none of make_span's three assert!s fails *)
Theorem C09_lexer_asserts_hold : forall i acts, fits32 i -> fits16 i -> split_free acts = true ->
  disc (run i acts) = true -> asserts (run i acts) = true.
Proof. exact lexer_asserts_hold. Qed.

(** non-vacuity: a 1024 x 1024 array of f64 under an 8 MiB limit is accepted with its true size, one
    more column is refused; depth-2 recursion under limit 5 succeeds with the call stack at limit + 1 + 1 = 7 *)
Example C09_nonvacuous :
  validate_size 8 [1024; 1024]%N 8388608 = Accept 1048576 /\
  validate_size 8 [1024; 1025]%N 8388608 = Reject /\
  validate_size 8 [0; 4294967296; 65536]%N 8388608 = Accept 0 /\
  validate_size 8 [0; 4294967296; 4294967296]%N 8388608 = Reject /\
  cexec 5 rec_direct 40 rec_main 1 (rec_oracle 2) = (COk, 7, []) /\
  fst (fst (cexec 5 rec_direct 40 rec_main 1 (rec_oracle 3))) = CErr /\
  arr_verdict 26 = true /\ arr_verdict 27 = false.
Proof. vm_compute. repeat split. Qed.

Print Assumptions C09_size_guard_sound.
Print Assumptions C09_size_guard_complete.
Print Assumptions C09_size_guard_suffixes_fit.
Print Assumptions C09_size_guard_complete_zero.
Print Assumptions C09_size_guard_refuted_pre.
Print Assumptions C09_size_guard_witness_refused.
Print Assumptions C09_range_shape_valid.
Print Assumptions C09_range_refuted_pre.
Print Assumptions C09_rerank_prepends_bounded.
Print Assumptions C09_rerank_refuted_pre.
Print Assumptions C09_call_depth_bounded.
Print Assumptions C09_sigcheck_cutoff.
Print Assumptions C09_sigcheck_depth_bounded.
Print Assumptions C09_sigcheck_threshold.
Print Assumptions C09_box_nesting_cap.
Print Assumptions C09_box_chain_threshold.
Print Assumptions C09_exec_total.
Print Assumptions C09_lexer_asserts_hold.
