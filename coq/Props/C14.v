(** C14 - Naming code does not change it.  Property theorems only; every proof is [exact lemma]. *)
From Coq Require Import List ZArith NArith Bool.
From UV Require Import Model.Node Model.Sig Model.Exec Model.TreeOk Model.Calls Proofs.CallsEq.
Import ListNotations.

(** Two programs with the same IR are the same program: spans and names are not part of the IR
    the interpreter executes, so structural equality is equality. *)
Theorem C14_node_eqb_sound : forall a b, node_eqb a b = true -> a = b.
Proof. exact node_eqb_sound. Qed.

Print Assumptions C14_node_eqb_sound.
