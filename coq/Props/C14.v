(** C14 - Naming code does not change it: bindings, macros and modules are transparent.
    Property theorems only; every proof is [exact lemma].
    All theorems are about the interpreter model Exec.v (fuelled transcription of Uiua::exec_impl,
    tied to the interpreter by the C correspondence of C02), for EVERY semantics of the primitives. *)
From Coq Require Import List ZArith NArith Bool.
From UV Require Import Model.Node Model.Sig Model.Exec Model.TreeOk Model.Calls
  Proofs.SimBase Proofs.SigMono Proofs.SigSound Proofs.Frame Proofs.TreeOk Proofs.CallsEq Proofs.Calls.
Import ListNotations.

(** Two programs with the same IR are the same program (names and spans are not in the IR). *)
Theorem C14_node_eqb_sound : forall a b, node_eqb a b = true -> a = b.
Proof. exact node_eqb_sound. Qed.

(** A call is its body.  Where no fill frame is visible ([novis]: the innermost fill boundary is the
    top of the fill stack), calling a checked function whose arguments are on the stack and running
    its body in place agree on success/failure and on the whole final state (stack, under stack,
    fill stack, boundaries, call depth).  Error traces are not in the model state. *)
Theorem C14_call_is_body :
  forall pknown psem arrsem unpacksem fmtsem asm,
  asm_okb asm = true -> forall f sg body, nth_error asm f = Some body ->
  tree_okb asm body = true -> stored_okb sg body = true ->
  forall fuel s, novis s -> sa sg <= length (stk s) -> sua sg <= length (und s) ->
  match Exec.exec pknown psem arrsem unpacksem fmtsem asm fuel body s with
  | Ok a => Exec.exec pknown psem arrsem unpacksem fmtsem asm (S fuel) (Call f sg) s = Ok a
  | Err c a => Exec.exec pknown psem arrsem unpacksem fmtsem asm (S fuel) (Call f sg) s = Err c a
  | _ => True end.
Proof.
  exact (fun pk ps ar un fm asm HA f sg body Hf Tb Ob =>
    call_is_body pk ps ar un fm asm (asm_okb_sound asm HA) f sg body Hf
      (tree_okb_sound asm body Tb) (stored_okb_sound sg body Ob)).
Qed.

(** The documented exception, stated positively: whatever fill the caller has, the body of a call
    sees none ([fillctx] = None in the state the body starts in), the call is exactly the framed
    run of the body in that state, and afterwards the caller's fill stack, fill boundaries and
    call depth are restored - on success and on failure. *)
Theorem C14_call_hides_fill :
  forall pknown psem arrsem unpacksem fmtsem asm fuel f sg s,
  fillctx (enter_call s) = None /\
  (forall body, nth_error asm f = Some body ->
     Exec.exec pknown psem arrsem unpacksem fmtsem asm (S fuel) (Call f sg) s =
     framed leave_call (height_ok sg s)
       (Exec.exec pknown psem arrsem unpacksem fmtsem asm fuel body (enter_call s))) /\
  match Exec.exec pknown psem arrsem unpacksem fmtsem asm (S fuel) (Call f sg) s with
  | Ok a | Err _ a => fills a = fills s /\ fbs a = fbs s /\ depth a = depth s
  | _ => True end.
Proof. exact call_hides_fill. Qed.

(** Inlining (the validator's first pass) is sound for all outcomes with the same fuel: replacing
    every call that is not under a fill operand, to any nesting depth, by a plain frame
    (exec_with_span: frame and height check, no fill boundary) around its inlined body - in the
    program and in the function table - changes no result, for all states without a visible fill. *)
Theorem C14_inline_checked_sound :
  forall pknown psem arrsem unpacksem fmtsem asm K k fuel n s, novis s ->
  match Exec.exec pknown psem arrsem unpacksem fmtsem asm fuel n s with
  | Ok a => Exec.exec pknown psem arrsem unpacksem fmtsem (map (inlc asm K false) asm) fuel (inlc asm k false n) s = Ok a
  | Err c a => Exec.exec pknown psem arrsem unpacksem fmtsem (map (inlc asm K false) asm) fuel (inlc asm k false n) s = Err c a
  | _ => True end.
Proof. exact inline_checked_sound. Qed.

(** Rebinding never alters code compiled before it: a `Call` holds the index of the function it
    was compiled against, and functions appended to the table later change no run of older code. *)
Theorem C14_rebinding_stable :
  forall pknown psem arrsem unpacksem fmtsem asm more fuel n s,
  match Exec.exec pknown psem arrsem unpacksem fmtsem asm fuel n s with
  | Ok a => Exec.exec pknown psem arrsem unpacksem fmtsem (asm ++ more) fuel n s = Ok a
  | Err c a => Exec.exec pknown psem arrsem unpacksem fmtsem (asm ++ more) fuel n s = Err c a
  | _ => True end.
Proof. exact rebinding_stable. Qed.

(** Every node restores the fill stack, the fill boundaries and the call depth (no premise). *)
Theorem C14_exec_restores_hidden :
  forall pknown psem arrsem unpacksem fmtsem asm fuel n s,
  match Exec.exec pknown psem arrsem unpacksem fmtsem asm fuel n s with
  | Ok a | Err _ a => fills a = fills s /\ fbs a = fbs s /\ depth a = depth s
  | _ => True end.
Proof. exact exec_hid. Qed.

(** More fuel never changes a result (the statements above are not artefacts of the fuel). *)
Theorem C14_fuel_mono :
  forall pknown psem arrsem unpacksem fmtsem asm fuel fuel' n s, fuel <= fuel' ->
  match Exec.exec pknown psem arrsem unpacksem fmtsem asm fuel n s with
  | Ok a => Exec.exec pknown psem arrsem unpacksem fmtsem asm fuel' n s = Ok a
  | Err c a => Exec.exec pknown psem arrsem unpacksem fmtsem asm fuel' n s = Err c a
  | _ => True end.
Proof. exact fuel_mono. Qed.

(** non-vacuity: real exported programs.  `F ← +1 ⋄ F 5` and `(+1) 5` are equivalent modulo naming;
    the premises of call_is_body hold for F and the model runs both to 6; under a fill the call is
    kept (⬚5(F ..) is not equivalent to ⬚5((..) ..)); rebinding `F ← +1 ⋄ G ← F ⋄ F ← ×2 ⋄ G 5` is 6. *)
Example C14_nonvacuous :
  let asm := [Run [Push (SInt 1); Prim 5 2 1]] in
  let P := (asm, Run [Push (SInt 5); Call 0 (Sig 1 1 0 0)]) in
  let P' := (@nil node, Run [Push (SInt 5); Push (SInt 1); Prim 5 2 1]) in
  equiv_mod_naming P P' = true /\
  asm_okb asm = true /\ tree_okb asm (Run [Push (SInt 1); Prim 5 2 1]) = true /\
  stored_okb (Sig 1 1 0 0) (Run [Push (SInt 1); Prim 5 2 1]) = true /\
  zrun 20 (fst P) (snd P) = (0%N, [6%Z], 0%N) /\ zrun 20 (fst P') (snd P') = (0%N, [6%Z], 0%N) /\
  equiv_mod_naming
    (asm, Mod MFill [(Sig 0 1 0 0, Push (SInt 5)); (Sig 0 1 0 0, Run [Push (SInt 3); Call 0 (Sig 1 1 0 0)])])
    ([], Mod MFill [(Sig 0 1 0 0, Push (SInt 5)); (Sig 0 1 0 0, Run [Push (SInt 3); Push (SInt 1); Prim 5 2 1])]) = false /\
  zrun 20 (asm ++ [Run [Push (SInt 2); Prim 7 2 1]]) (Run [Push (SInt 5); Call 0 (Sig 1 1 0 0)]) = (0%N, [6%Z], 0%N).
Proof. vm_compute. repeat split; reflexivity. Qed.

Print Assumptions C14_node_eqb_sound.
Print Assumptions C14_call_is_body.
Print Assumptions C14_call_hides_fill.
Print Assumptions C14_inline_checked_sound.
Print Assumptions C14_rebinding_stable.
Print Assumptions C14_exec_restores_hidden.
Print Assumptions C14_fuel_mono.
