(** C19 — every reported source position lies inside the source and is self-consistent.
    Property theorems only; every proof is [exact lemma]. *)
From Coq Require Import List NArith Bool.
From UV Require Import Model.Lex Proofs.Lex Proofs.LexGuardSpan Proofs.LexTree.
Import ListNotations.
Open Scope N_scope.

(** the Loc the lexer holds after k segments is the functional specification of that
    place, with line and column saturated at u16::MAX — for every input below 4 GiB *)
Theorem C19_loc_at_sat_spec : forall i k, fits32 i -> loc_at i k = sat_loc (spec_loc i k).
Proof. exact loc_at_sat_spec. Qed.

(** every Loc produced by any control path of the tokeniser (current position, saved
    positions, start and end of every token and error span) is the Loc that its byte offset
    should have, and the byte offset is a segment boundary (hence a char boundary) *)
Theorem C19_loc_spec : forall i acts l, fits32 i -> fits16 i -> segs_pos i -> split_free acts = true ->
  produced (run i acts) l ->
  loc_of_prefix i (byte_pos l) = Some l /\ exists k, (k <= length i)%nat /\ byte_pos l = bytes_of (firstn k i).
Proof. exact loc_spec. Qed.

(** for every control path respecting the index discipline, none of make_span's three
    assert!s fails *)
Theorem C19_lexer_asserts_hold : forall i acts, fits32 i -> fits16 i -> split_free acts = true ->
  disc (run i acts) = true -> asserts (run i acts) = true.
Proof. exact lexer_asserts_hold. Qed.

(** tokens in emission order: start <= end, ordered, non-overlapping *)
Theorem C19_spans_ordered : forall i acts, fits32 i -> fits16 i -> split_free acts = true ->
  disc (run i acts) = true -> ordered 0 (rev (toks (run i acts))) = true.
Proof. exact spans_ordered. Qed.

(** token spans are valid spans; valid spans lie inside the text on segment boundaries, both
    ends carry the specified Loc, start is not after end *)
Theorem C19_lexer_spans_valid : forall i acts se, fits32 i -> fits16 i -> split_free acts = true ->
  disc (run i acts) = true -> In se (toks (run i acts)) -> valid_span i se.
Proof. exact lexer_spans_valid. Qed.
Theorem C19_valid_span_props : forall i a, fits32 i -> fits16 i -> segs_pos i -> valid_span i a ->
  loc_of_prefix i (byte_pos (fst a)) = Some (fst a) /\ loc_of_prefix i (byte_pos (snd a)) = Some (snd a) /\
  byte_pos (fst a) <= byte_pos (snd a) /\ byte_pos (snd a) <= bytes_of i.
Proof. exact valid_span_props. Qed.

(** the parser's span merging (derived Ord on Loc, min of starts, max of ends) and end_to
    keep spans valid *)
Theorem C19_merge_sound : forall i a b, fits32 i -> fits16 i -> valid_span i a -> valid_span i b -> valid_span i (merge a b).
Proof. exact merge_sound. Qed.
Theorem C19_end_to_sound : forall i a b, valid_span i a -> valid_span i b -> char_pos (snd a) <= char_pos (fst b) ->
  valid_span i (end_to a b).
Proof. exact end_to_sound. Qed.

(** the size guard of `lex` (at most 65534 lines of at most 65534 chars, lex.rs:50-88) accepts
    only inputs whose every line number and column is representable, so the specification
    theorem and the assert theorem hold for every accepted input without the fits16 premise *)
Theorem C19_guard_excludes_saturation : forall i, accepted i = true -> fits16 i.
Proof. exact guard_excludes_saturation. Qed.
Theorem C19_loc_spec_guarded : forall i acts l, fits32 i -> accepted i = true -> segs_pos i -> split_free acts = true ->
  produced (run i acts) l ->
  loc_of_prefix i (byte_pos l) = Some l /\ exists k, (k <= length i)%nat /\ byte_pos l = bytes_of (firstn k i).
Proof. exact loc_spec_guarded. Qed.
Theorem C19_lexer_asserts_hold_guarded : forall i acts, fits32 i -> accepted i = true -> split_free acts = true ->
  disc (run i acts) = true -> asserts (run i acts) = true.
Proof. exact lexer_asserts_hold_guarded. Qed.

(** records about the UNGUARDED bookkeeping (both witnesses are now rejected by the guard:
    Proofs/Lex.v pre_witnesses_rejected), and a defect of the current code (escape + split) *)
Theorem C19_saturation_refuted_pre :
  exists i, fits32 i /\ col (loc_at i (length i)) <> col (spec_loc i (length i)).
Proof. exact saturation_refuted_pre. Qed.
Theorem C19_line_saturation_assert_refuted_pre :
  exists i k1 k2, fits32 i /\ Nat.leb k1 k2 = true /\ Nat.leb k2 (length i) = true /\
    make_span_ok (loc_at i k1) (loc_at i k2) = false.
Proof. exact line_saturation_assert_refuted_pre. Qed.
Theorem C19_escape_split_refuted_pre :
  exists i acts, fits32 i /\ disc (run i acts) = true /\ asserts (run i acts) = true /\
    exists t, In t (toks (run i acts)) /\ loc_of_prefix i (byte_pos (snd t)) <> Some (snd t).
Proof. exact escape_split_refuted_pre. Qed.


(** split identifiers, current code (d7485e2): every token end is looked up among the
    positions the lexer has been at, so the path is a sequence of primitive actions
    ([split_actions]) and its tokens are valid spans of the ORIGINAL text *)
Theorem C19_split_tokens_valid : forall i pre i0 ends c rest se, fits32 i -> fits16 i -> split_free pre = true ->
  disc (run i (pre ++ split_actions i0 ends c rest)) = true ->
  In se (toks (run i (pre ++ split_actions i0 ends c rest))) -> valid_span i se.
Proof. exact split_tokens_valid. Qed.
Theorem C19_split_tokens_valid_guarded : forall i pre i0 ends c rest se, fits32 i -> accepted i = true -> split_free pre = true ->
  disc (run i (pre ++ split_actions i0 ends c rest)) = true ->
  In se (toks (run i (pre ++ split_actions i0 ends c rest))) -> valid_span i se.
Proof. exact split_tokens_valid_guarded. Qed.
(** the former failing inputs under the current code *)
Theorem C19_escape_split_current :
  let acts := [AConsume; AConsume; AConsume; AConsume] ++ split_actions 4 [0%nat] 0 false in
  disc (run esc_pi acts) = true /\ asserts (run esc_pi acts) = true /\
  toks (run esc_pi acts) = [(loc0, mkLoc 1 5 4 4)] /\ forallb (span_ok esc_pi) (toks (run esc_pi acts)) = true.
Proof. exact escape_split_current. Qed.
Theorem C19_combining_split_current :
  let acts := [AConsume] ++ split_actions 1 [] 0 true in
  disc (run comb_r acts) = true /\ toks (run comb_r acts) = [(loc0, mkLoc 1 3 3 1)] /\
  forallb (span_ok comb_r) (toks (run comb_r acts)) = true.
Proof. exact combining_split_current. Qed.
(** record of the old arithmetic (before d7485e2) on a combining mark; the escape record is
    C19_escape_split_refuted_pre above *)
Theorem C19_combining_split_refuted_pre :
  exists i acts, fits32 i /\ disc (run i acts) = true /\
    exists t, In t (toks (run i acts)) /\ loc_of_prefix i (byte_pos (snd t)) = None.
Proof. exact combining_split_refuted_pre. Qed.

(** the span of the size guard's error (current code d674421): start = the specified Loc of
    the offending line's start, end = one segment further (empty on an empty line) *)
Theorem C19_guard_err_span_valid : forall pre first tail,
  fits32 (pre ++ tail) -> last_line (concat pre) = [] ->
  (first = [] \/ exists r, tail = first :: r) -> filter is_nl first = [] ->
  line_of (concat pre) <= U16MAX -> 1 + nonl_noncr first <= U16MAX ->
  guard_err_span pre first =
    (spec_loc (pre ++ tail) (length pre),
     spec_loc (pre ++ tail) (length pre + match first with [] => 0 | _ => 1 end)).
Proof. exact guard_err_span_valid. Qed.
Theorem C19_guard_err_span_refuted_pre :
  exists pre first tail, tail = first :: [] /\ last_line (concat pre) = [] /\
    fst (guard_err_span_pre pre first) <> spec_loc (pre ++ tail) (length pre) /\
    fst (guard_err_span pre first) = spec_loc (pre ++ tail) (length pre).
Proof. exact guard_err_span_refuted_pre. Qed.

(** the parser's span merging lifted to any number of parts and to nested words: the merge of
    valid spans of one source is a valid span that contains every part; when every node's span
    is the merge of its children's spans (strands, modified words: parse.rs:1127-1131,
    1198-1202) every node's span is valid and contains the span of every leaf below it *)
Theorem C19_merge_all_sound : forall i s l, fits32 i -> fits16 i -> valid_span i s -> Forall (valid_span i) l ->
  valid_span i (merge_all s l) /\ forallb (span_contains (merge_all s l)) (s :: l) = true.
Proof. exact merge_all_sound. Qed.
Theorem C19_merge_tree_sound : forall i t, fits32 i -> fits16 i -> (forall s, In s (leaves t) -> valid_span i s) ->
  valid_span i (tspan t) /\ forallb (span_contains (tspan t)) (leaves t) = true.
Proof. exact merge_tree_sound. Qed.
Theorem C19_merge_tree_sound_guarded : forall i t, fits32 i -> accepted i = true -> (forall s, In s (leaves t) -> valid_span i s) ->
  valid_span i (tspan t) /\ forallb (span_contains (tspan t)) (leaves t) = true.
Proof. exact merge_tree_sound_guarded. Qed.

(** the formatter's end_loc (output side of the glyph map): after 54c7366 the column is the
    true column clamped at 65535 (exact up to 65535, never beyond the true place); the old
    code wrapped to 0; the clamp is the remaining 16-bit limit *)
Theorem C19_end_loc_col_clamped : forall cs,
  col (end_loc true cs) = N.min (out_true_col cs) U16MAX /\
  col (end_loc true cs) <= out_true_col cs /\
  (out_true_col cs <= U16MAX -> col (end_loc true cs) = out_true_col cs).
Proof. exact end_loc_col_clamped. Qed.
Theorem C19_end_loc_others_exact : forall fixed cs,
  nlen (filter is_nl cs) <= U16MAX -> nlen cs <= U32MAX -> seg_len cs <= U32MAX ->
  line (end_loc fixed cs) = nlen (filter is_nl cs) /\ char_pos (end_loc fixed cs) = nlen cs /\
  byte_pos (end_loc fixed cs) = seg_len cs.
Proof. exact end_loc_others_exact. Qed.
Theorem C19_end_loc_wrap_refuted_pre : exists cs, out_true_col cs = 65536 /\ col (end_loc false cs) = 0.
Proof. exact end_loc_wrap_refuted_pre. Qed.
Theorem C19_end_loc_saturation_refuted :
  exists cs, col (end_loc true cs) = 65535 /\ col (end_loc true cs) <> out_true_col cs.
Proof. exact end_loc_saturation_refuted. Qed.

(** end_loc is compositional — the law behind Formatter::push (start = end_loc of the output
    before the fragment, end = end_loc of the output after it): lines, chars and bytes add up,
    but the column RESTARTS after the last line break of the fragment *)
Theorem C19_out_true_col_app : forall s t,
  out_true_col (s ++ t) = if existsb is_nl t then out_true_col t else out_true_col s + out_true_col t.
Proof. exact out_true_col_app. Qed.
Theorem C19_end_loc_app : forall s t,
  nlen (filter is_nl (s ++ t)) <= U16MAX -> nlen (s ++ t) <= U32MAX -> seg_len (s ++ t) <= U32MAX ->
  line (end_loc true (s ++ t)) = line (end_loc true s) + line (end_loc true t) /\
  char_pos (end_loc true (s ++ t)) = char_pos (end_loc true s) + char_pos (end_loc true t) /\
  byte_pos (end_loc true (s ++ t)) = byte_pos (end_loc true s) + byte_pos (end_loc true t) /\
  col (end_loc true (s ++ t)) =
    N.min (if existsb is_nl t then out_true_col t else out_true_col s + out_true_col t) U16MAX.
Proof. exact end_loc_app. Qed.
Theorem C19_push_additive_col_refuted :
  exists s t, col (end_loc true (s ++ t)) <> N.min (col (end_loc true s) + col (end_loc true t)) U16MAX.
Proof. exact push_additive_col_refuted. Qed.

(** the formatter's running end location (struct Output, 6889e96): after any sequence of pushed
    and popped characters the location read from the counters is end_loc of the text *)
Theorem C19_running_end_loc : forall ops,
  let o := fold_left ostep ops out0 in out_end_loc o = end_loc true (out_text o).
Proof. exact running_end_loc. Qed.

(** non-vacuity: "é", CR LF, "x" lexed as three tokens *)
Example C19_nonvacuous :
  let i : input := [[(2, COther)]; [(1, CCr); (1, CNl)]; [(1, COther)]] in
  let acts := [AConsume; AEmit 1; AConsume; AEmit 1; AConsume; AEmit 1] in
  fits32 i /\ accepted i = true /\ fits16 i /\ segs_pos i /\ split_free acts = true /\ disc (run i acts) = true /\
  rev (toks (run i acts)) = [(mkLoc 1 1 0 0, mkLoc 1 2 2 1); (mkLoc 1 2 2 1, mkLoc 2 1 4 2); (mkLoc 2 1 4 2, mkLoc 2 2 5 3)].
Proof.
  cbv zeta. split; [split; vm_compute; discriminate|]. split; [vm_compute; reflexivity|]. split.
  { intros k. do 4 (destruct k as [|k]; [vm_compute; split; discriminate|]). vm_compute; split; discriminate. }
  split; [repeat constructor|]. vm_compute. repeat split.
Qed.

Print Assumptions C19_loc_at_sat_spec.
Print Assumptions C19_loc_spec.
Print Assumptions C19_saturation_refuted_pre.
Print Assumptions C19_line_saturation_assert_refuted_pre.
Print Assumptions C19_escape_split_refuted_pre.
Print Assumptions C19_lexer_asserts_hold.
Print Assumptions C19_spans_ordered.
Print Assumptions C19_lexer_spans_valid.
Print Assumptions C19_valid_span_props.
Print Assumptions C19_merge_sound.
Print Assumptions C19_end_to_sound.
Print Assumptions C19_guard_excludes_saturation.
Print Assumptions C19_loc_spec_guarded.
Print Assumptions C19_lexer_asserts_hold_guarded.
Print Assumptions C19_end_loc_col_clamped.
Print Assumptions C19_end_loc_others_exact.
Print Assumptions C19_end_loc_wrap_refuted_pre.
Print Assumptions C19_end_loc_saturation_refuted.
Print Assumptions C19_split_tokens_valid.
Print Assumptions C19_split_tokens_valid_guarded.
Print Assumptions C19_escape_split_current.
Print Assumptions C19_combining_split_current.
Print Assumptions C19_combining_split_refuted_pre.
Print Assumptions C19_guard_err_span_valid.
Print Assumptions C19_guard_err_span_refuted_pre.
Print Assumptions C19_out_true_col_app.
Print Assumptions C19_end_loc_app.
Print Assumptions C19_push_additive_col_refuted.
Print Assumptions C19_running_end_loc.
Print Assumptions C19_merge_all_sound.
Print Assumptions C19_merge_tree_sound.
Print Assumptions C19_merge_tree_sound_guarded.
