(** C07 — Iterating and argument-routing modifiers equal their definitions.
    Property theorems only; every proof is [exact lemma]. *)
From Coq Require Import List ZArith NArith Bool.
From UV Require Import Model.Node Model.Sig Model.Exec Model.RoutePack Proofs.Routing Proofs.IterSpec.
From UV Require Import Model.Prims Model.Kernels Proofs.KernelsBase Proofs.KernelsAtoms Proofs.Kernels Proofs.KernelsReduce Proofs.KernelsTranspose.
Import ListNotations.

(** * the depth kernels selected by f_mon_fast_fn equal the definition *)

(** identity, reverse, first, last, deshape, fix at depth d = d nested rows of the primitive, on
    every well-formed array of any rank whose mapped axes are non-empty *)
Theorem C07_kernel_eq_generic : forall a f, proved_atom a = Some f ->
  forall d x, wf x -> lead_pos d (ash x) -> run_katom a d x = rows_iter d (sem f) x.
Proof. exact kernel_eq_generic. Qed.
(** any kernel that treats the flat data as independent blocks at depth d (the form of every
    *_depth function) is d nested rows of its depth-0 self *)
Theorem C07_blockwise_generic : forall (b : bk) d x, wf x -> lead_pos d (ash x) ->
  run_bk b d x = rows_iter d (run_bk b 0) x.
Proof. exact run_bk_rows_iter. Qed.
(** over an empty mapped axis the shape-only kernels succeed and keep the mapped lengths *)
Theorem C07_kernel_empty_lead : forall a, In a [KId; KRev; KDeshape; KFix; KFirst; KLast] ->
  forall d x i, wf x -> d <= length (ash x) -> first_zero (firstn d (ash x)) = Some i ->
  exists y, run_katom a d x = Ok y /\ firstn (S i) (ash y) = firstn (S i) (ash x).
Proof. exact kernel_empty_lead. Qed.
(** box at depth d (row slicing of commit 3374592): equal to the definition, and a valid array *)
Theorem C07_box_kernel_eq : forall d x, wf x -> lead_pos d (ash x) ->
  run_katom KBox d x = rows_iter d (sem FBox) x.
Proof. exact box_kernel_eq. Qed.
Theorem C07_box_kernel_wf : forall d x, wf x -> wf (k_box false d x).
Proof. exact box_kernel_wf. Qed.
(** rows increments the kernel depth; end to end: the interpreter's rows^k F = the definition *)
Theorem C07_rows_increments_depth : forall k f ks d, fast_fn f = Some (ks, d) ->
  fast_fn (rowsk k f) = Some (ks, k + d).
Proof. exact rows_increments_depth. Qed.
Theorem C07_exec_rows_atom_eq : forall a f, proved_atom a = Some f -> atom_kernel false f = Some a ->
  forall k x, wf x -> lead_pos (S k) (ash x) ->
  exec_mfn (rowsk (S k) f) x = sem (rowsk (S k) f) x.
Proof. exact exec_rows_atom_eq. Qed.
(** nesting rows deeper than the rank is nesting down to the rank; the interpreter's fast path runs
    its kernels at the nesting depth limited to the rank (commit 68a793c) *)
Theorem C07_rows_iter_cap : forall F d x, wf x ->
  rows_iter d F x = rows_iter (Nat.min d (length (ash x))) F x.
Proof. exact rows_iter_cap. Qed.
Theorem C07_sem_rows_cap : forall f k x, wf x ->
  sem (rowsk k f) x = sem (rowsk (Nat.min k (length (ash x))) f) x.
Proof. exact sem_rows_cap. Qed.
Theorem C07_exec_rows_cap : forall f ks d0 k x, fast_fn f = Some (ks, d0) ->
  exec_mfn (rowsk (S k) f) x = run_kernels ks (Nat.min (S (k + d0)) (length (ash x))) x.
Proof. exact exec_rows_cap. Qed.
(** rows distributes over composition when the argument has the mapped axis *)
Theorem C07_rows_rows_compose : forall (F G : arr -> res arr) x n s ys y0,
  ash x = n :: s -> mapM F (rows x) = Ok (y0 :: ys) ->
  Forall (fun r => wf r /\ ash r = ash y0 /\ aty r = aty y0) (y0 :: ys) ->
  rows_def (fun r => y <- F r ;; G y) x = (y <- rows_def F x ;; rows_def G y).
Proof. exact rows_rows_compose. Qed.
(** transpose at a depth (monadic/mod.rs transpose_depth; what `≡⍉`, `≡≡⍉` run) is d nested rows of
    transpose on every well-formed array whose mapped axes are non-empty; over an empty mapped axis it
    keeps the mapped lengths; end to end the interpreter's rows^(k+1) of transpose is the definition *)
Theorem C07_transpose_depth_eq_rows : forall d x, wf x -> lead_pos d (ash x) ->
  run_katom KTrans d x = rows_iter d (sem FTrans) x.
Proof. exact transpose_depth_eq_rows. Qed.
Theorem C07_transpose_depth_empty_lead : forall d x i, wf x -> d <= length (ash x) ->
  first_zero (firstn d (ash x)) = Some i ->
  exists y, run_katom KTrans d x = Ok y /\ firstn (S i) (ash y) = firstn (S i) (ash x).
Proof. exact transpose_depth_empty_lead. Qed.
Theorem C07_exec_rows_transpose_eq : forall k x, wf x -> lead_pos (S k) (ash x) ->
  exec_mfn (rowsk (S k) FTrans) x = sem (rowsk (S k) FTrans) x.
Proof. exact exec_rows_transpose_eq. Qed.
(** the typed reduction at a depth (reduce.rs fast_reduce; what `≡/+`, `≡≡/↥` ... are fused into) is d
    nested rows of the same reduction, for every well-formed array of any element type and rank whose
    mapped axes are non-empty; and what the interpreter runs for rows^(k+1) of `/o` on numbers is that *)
Theorem C07_reduce_depth_eq_rows : forall o d x, wf x -> lead_pos d (ash x) ->
  k_reduce_num o d x = rows_iter d (k_reduce_num o 0) x.
Proof. exact reduce_depth_eq_rows. Qed.
Theorem C07_exec_rows_reduce_num : forall o k x, aty x = TNum -> wf x -> lead_pos (S k) (ash x) ->
  exec_mfn (rowsk (S k) (FReduce o)) x = rows_iter (S k) (k_reduce_num o 0) x.
Proof. exact exec_rows_reduce_num. Qed.
(** the repaired min/max shortcut is never taken under rows *)
Theorem C07_reduce_minmax_shortcut_repaired : forall su o d x,
  k_reduce_minmax false su o (S d) x = k_reduce_num o (S d) x.
Proof. exact reduce_minmax_shortcut_repaired. Qed.

(** * where the faithful kernels are NOT the definition (each witness confirmed on the implementation) *)

Theorem C07_reduce_minmax_shortcut_refuted_pre :
  exists x, wf x /\ ash x = [3%nat] /\
    k_reduce_minmax true true PMax 1 x <> rows_iter 1 (sem (FReduce PMax)) x.
Proof. exact reduce_minmax_shortcut_refuted_pre. Qed.
(** inventory with a purely pervasive operand boxes its results (compile-time split of commit f64950a) *)
Theorem C07_inventory_pervasive_boxes : forall f x, forallb is_perv (rev (flatten f)) = true ->
  exec_inventory false f x = inventory_def (sem f) x.
Proof. exact inventory_pervasive_boxes. Qed.
(** record of the defect repaired by f64950a (model of the code before it) *)
Theorem C07_inventory_pervasive_refuted_pre :
  exists f x, wf x /\ ash x = [2%nat] /\ exec_inventory true f x <> inventory_def (sem f) x.
Proof. exact inventory_pervasive_refuted_pre. Qed.
(** records of the defects repaired by 68a793c and 09b3e8b (models of the code before them) *)
Theorem C07_reduce_below_rank_refuted_pre :
  exists x, wf x /\ ash x = [2%nat] /\
    k_reduce_gen true (red2 PMax) (red_ident PMax) 2 x <> sem (rowsk 2 (FReduce PMax)) x.
Proof. exact reduce_below_rank_refuted_pre. Qed.
Theorem C07_compose_below_rank_refuted_pre :
  exists f ks x, wf x /\ ash x = [2%nat] /\ fast_fn f = Some (ks, 0) /\
    run_kernels ks 2 x <> sem (rowsk 2 f) x.
Proof. exact compose_below_rank_refuted_pre. Qed.
Theorem C07_first_depth_empty_refuted_pre :
  exists x, wf x /\ k_first true 1 x = Err /\
    exists y, sem (rowsk 1 FFirst) x = Ok y /\ ash y = [0%nat].
Proof. exact first_depth_empty_refuted_pre. Qed.
(** the former witnesses now agree *)
Theorem C07_below_rank_witnesses_agree :
  exec_mfn (rowsk 2 (FReduce PMax)) (Arr TChar [2%nat] [EChar 97; EChar 98]) = sem (rowsk 2 (FReduce PMax)) (Arr TChar [2%nat] [EChar 97; EChar 98]) /\
  exec_mfn (rowsk 2 (FSeq FFix FFirst)) (Arr TNum [2%nat] [ENum 1; ENum 2]) = sem (rowsk 2 (FSeq FFix FFirst)) (Arr TNum [2%nat] [ENum 1; ENum 2]) /\
  exec_mfn (rowsk 3 (FSeq FFix FDeshape)) (Arr TNum [1%nat] [ENum 3]) = sem (rowsk 3 (FSeq FFix FDeshape)) (Arr TNum [1%nat] [ENum 3]) /\
  exec_mfn (rowsk 1 FFirst) (Arr TNum [0%nat; 0%nat] []) = Ok (Arr TNum [0%nat] []).
Proof. exact below_rank_witnesses_agree. Qed.
(** record of the defect repaired by 3374592 (model of the code before it) *)
Theorem C07_box_depth_empty_rows_refuted_pre :
  exists x, wf x /\ first_zero (firstn 2 (ash x)) = None /\
    ~ wf (k_box true 2 x) /\ Ok (k_box true 2 x) <> sem (rowsk 2 FBox) x.
Proof. exact box_depth_empty_rows_refuted_pre. Qed.

(** * argument routing: the final stack is the documented rearrangement *)
Section R.
  Variable pknown : N -> list sval -> bool.
  Variable psem : N -> option (list sval) -> list sval -> option (list sval).
  Variable arrsem : bool -> list sval -> option sval.
  Variable unpacksem : nat -> bool -> sval -> option (list sval).
  Variable fmtsem : list sval -> sval.
  Variable asm : list node.
  Notation exec := (Exec.exec pknown psem arrsem unpacksem fmtsem asm).
  Notation runs := (runs pknown psem arrsem unpacksem fmtsem asm).

  Theorem C07_fork_spec : forall fuel sf f sg g s args rest s2 og s3 of_,
    stk s = args ++ rest -> length args = Nat.max (sa sf) (sa sg) ->
    runs fuel g s (firstn (sa sg) args ++ rest) s2 (og ++ rest) ->
    runs fuel f s2 (firstn (sa sf) args ++ og ++ rest) s3 (of_ ++ og ++ rest) ->
    ends (exec (S fuel) (Mod MFork [(sf, f); (sg, g)]) s) (of_ ++ og ++ rest).
  Proof. exact (fork_spec pknown psem arrsem unpacksem fmtsem asm). Qed.
  Theorem C07_bracket_spec : forall fuel sf f sg g s a1 a2 rest s2 o2 s3 o1,
    stk s = a1 ++ a2 ++ rest -> length a1 = sa sf ->
    runs fuel g s (a2 ++ rest) s2 (o2 ++ rest) ->
    runs fuel f s2 (a1 ++ o2 ++ rest) s3 (o1 ++ o2 ++ rest) ->
    ends (exec (S fuel) (Mod MBracket [(sf, f); (sg, g)]) s) (o1 ++ o2 ++ rest).
  Proof. exact (bracket_spec pknown psem arrsem unpacksem fmtsem asm). Qed.
  Theorem C07_both_spec : forall fuel sg f s a1 a2 rest s2 o2 s3 o1,
    stk s = a1 ++ a2 ++ rest -> length a1 = sa sg ->
    runs fuel f s (a2 ++ rest) s2 (o2 ++ rest) ->
    runs fuel f s2 (a1 ++ o2 ++ rest) s3 (o1 ++ o2 ++ rest) ->
    ends (exec (S fuel) (Mod MBoth [(sg, f)]) s) (o1 ++ o2 ++ rest).
  Proof. exact (both_spec pknown psem arrsem unpacksem fmtsem asm). Qed.
  Theorem C07_dip_spec : forall fuel sg f s x rest s2 outs rest',
    stk s = x :: rest -> runs fuel f s rest s2 (outs ++ rest') ->
    ends (exec (S fuel) (Mod MDip [(sg, f)]) s) (x :: outs ++ rest').
  Proof. exact (dip_spec pknown psem arrsem unpacksem fmtsem asm). Qed.
  Theorem C07_gap_spec : forall fuel sg f s x rest s2 st2,
    stk s = x :: rest -> runs fuel f s rest s2 st2 ->
    ends (exec (S fuel) (Mod MGap [(sg, f)]) s) st2.
  Proof. exact (gap_spec pknown psem arrsem unpacksem fmtsem asm). Qed.
  Theorem C07_on_spec : forall fuel sg f s x rest s2 outs rest',
    stk s = x :: rest -> runs fuel f s (x :: rest) s2 (outs ++ rest') ->
    ends (exec (S fuel) (Mod MOn [(sg, f)]) s) (x :: outs ++ rest').
  Proof. exact (on_spec pknown psem arrsem unpacksem fmtsem asm). Qed.
  Theorem C07_by_spec : forall fuel sg f s args last rest s2 outs,
    stk s = args ++ last :: rest -> S (length args) = Nat.max (sa sg) 1 ->
    runs fuel f s (args ++ last :: last :: rest) s2 (outs ++ last :: rest) ->
    ends (exec (S fuel) (Mod MBy [(sg, f)]) s) (outs ++ last :: rest).
  Proof. exact (by_spec pknown psem arrsem unpacksem fmtsem asm). Qed.
  Theorem C07_with_spec : forall fuel sg f s args last rest s2 outs rest',
    stk s = args ++ last :: rest -> S (length args) = sa sg ->
    runs fuel f s (args ++ last :: rest) s2 (outs ++ rest') ->
    ends (exec (S fuel) (Mod MWith [(sg, f)]) s) (last :: outs ++ rest').
  Proof. exact (with_spec pknown psem arrsem unpacksem fmtsem asm). Qed.
  Theorem C07_off_spec : forall fuel sg f s x rest s2 outs rest',
    stk s = x :: rest -> length outs = so sg -> runs fuel f s (x :: rest) s2 (outs ++ rest') ->
    ends (exec (S fuel) (Mod MOff [(sg, f)]) s) (outs ++ x :: rest').
  Proof. exact (off_spec pknown psem arrsem unpacksem fmtsem asm). Qed.
  Theorem C07_above_spec : forall fuel sg f s args rest s2 outs rest',
    stk s = args ++ rest -> length args = sa sg -> runs fuel f s (args ++ rest) s2 (outs ++ rest') ->
    ends (exec (S fuel) (Mod MAbove [(sg, f)]) s) (args ++ outs ++ rest').
  Proof. exact (above_spec pknown psem arrsem unpacksem fmtsem asm). Qed.
  Theorem C07_below_spec : forall fuel sg f s args rest s2 outs,
    stk s = args ++ rest -> length args = sa sg -> runs fuel f s (args ++ args ++ rest) s2 (outs ++ args ++ rest) ->
    ends (exec (S fuel) (Mod MBelow [(sg, f)]) s) (outs ++ args ++ rest).
  Proof. exact (below_spec pknown psem arrsem unpacksem fmtsem asm). Qed.

  (** the iterating modifiers of the spine (rows, each, inventory, table, tuples, reduce, scan, fold,
      group, partition): operands that run alike - a named wrapper, added noise - are interchangeable *)
  Theorem C07_iter_operand_ext : forall mk sg f f' fuel s, is_mapping mk = true ->
    (forall st, exec fuel f st = exec fuel f' st) ->
    exec (S fuel) (Mod mk [(sg, f)]) s = exec (S fuel) (Mod mk [(sg, f')]) s.
  Proof. exact (iter_operand_ext pknown psem arrsem unpacksem fmtsem asm). Qed.
  (** over an empty mapped axis the operand is never run *)
  Theorem C07_iter_exec_zero : forall body tag na no fa fo s,
    need na s = true ->
    let vals := firstn na (stk s) in
    let hdr := [SInt tag; SInt (Z.of_nat fa); SInt (Z.of_nat fo)] in
    pknown ITER_N (hdr ++ vals) = true ->
    psem ITER_N (fillctx s) (hdr ++ vals) = Some [SInt 0] ->
    Exec.iter_exec pknown psem body tag na no fa fo s =
      match psem ITER_OUT (fillctx s) (hdr ++ SInt (Z.of_nat na) :: vals ++ []) with
      | Some outs => if Nat.eqb (length outs) no
                     then Exec.Ok (set_stk s (outs ++ skipn na (stk s))) else Unk
      | None => Exec.Err false (set_stk s (skipn na (stk s))) end.
  Proof. exact (iter_exec_zero pknown psem). Qed.
  (** on success the operand ran ITER_N times and exactly [so] results per run were assembled *)
  Theorem C07_iter_exec_runs : forall body tag na no fa fo s s' n,
    let vals := firstn na (stk s) in
    let hdr := [SInt tag; SInt (Z.of_nat fa); SInt (Z.of_nat fo)] in
    psem ITER_N (fillctx s) (hdr ++ vals) = Some [SInt n] ->
    Exec.iter_exec pknown psem body tag na no fa fo s = Exec.Ok s' ->
    exists s2 acc outs,
      iter_loop body (fun i acc => psem ITER_ARG (fillctx s) (hdr ++ SInt i :: SInt (Z.of_nat na) :: vals ++ acc))
                fa fo (Z.to_nat n) 0%Z (set_stk s (skipn na (stk s))) [] = (Exec.Ok s2, acc) /\
      length acc = Z.to_nat n * fo /\
      psem ITER_OUT (fillctx s) (hdr ++ SInt (Z.of_nat na) :: vals ++ acc) = Some outs /\
      length outs = no /\ s' = set_stk s2 (outs ++ stk s2).
  Proof. exact (iter_exec_runs pknown psem). Qed.
End R.

(** * fork and bracket with a pack of n functions (transcription Model/RoutePack.v of run_prim.rs;
      Model/Exec.v carries the 2-function forms only) *)
(** every function of a fork pack receives the top [sa f] of the [max sa] arguments; the results
    lie in pack order on what was beneath *)
Theorem C07_fork_pack_spec : forall (V : Type) (ops : list (RoutePack.fn V)) (args rest : list V) (outs : list (list V)),
  ops <> [] -> length args = max_args V ops ->
  Forall2 (fun op o => snd op (firstn (fst op) args) = Some o) ops outs ->
  fork_pack V false ops (args ++ rest) = Some (concat outs ++ rest).
Proof. exact fork_pack_spec. Qed.
(** every function of a bracket pack receives its own consecutive group of arguments *)
Theorem C07_bracket_pack_spec : forall (V : Type) (ops : list (RoutePack.fn V)) (groups outs : list (list V)) (rest : list V),
  Forall2 (fun op g => length g = fst op) ops groups ->
  Forall2 (fun op_g o => snd (fst op_g) (snd op_g) = Some o) (combine ops groups) outs ->
  bracket_pack V ops (concat groups ++ rest) = Some (concat outs ++ rest).
Proof. exact bracket_pack_spec. Qed.
(** the seeded defect in the first function's arguments is outside the law: `⊃(¯|+|×) 3 5` *)
Theorem C07_fork_pack_mutant_refuted :
  let ops := [(1%nat, fun a => match a with [x] => Some [Z.opp x] | _ => None end);
              (2%nat, fun a => match a with [x; y] => Some [(y + x)%Z] | _ => None end);
              (2%nat, fun a => match a with [x; y] => Some [(y * x)%Z] | _ => None end)] in
  fork_pack Z false ops [3; 5; 99]%Z = Some [-3; 8; 15; 99]%Z /\
  fork_pack Z true ops [3; 5; 99]%Z = Some [-5; 8; 15; 99]%Z.
Proof. exact fork_pack_mutant_refuted. Qed.

(** non-vacuity: premises are met on non-trivial instances, and the two sides are not trivially equal *)
Example C07_nonvacuous :
  let x := Arr TNum [2; 1; 3]%nat [ENum 1; ENum 2; ENum 3; ENum 4; ENum 5; ENum 6] in
  wf x /\ lead_pos 2 (ash x) /\ proved_atom KRev = Some FRev /\
  run_katom KRev 2 x = Ok (Arr TNum [2; 1; 3]%nat [ENum 3; ENum 2; ENum 1; ENum 6; ENum 5; ENum 4]) /\
  exec_mfn (rowsk 2 FFirst) x = Ok (Arr TNum [2; 1]%nat [ENum 1; ENum 4]) /\
  sem (rowsk 2 FFirst) x = Ok (Arr TNum [2; 1]%nat [ENum 1; ENum 4]) /\
  exec zknown zsem no_arr no_unpack no_fmt [] 5 (Mod MFork [(sig2 2 1, Prim 5 2 1); (sig2 1 1, Prim 8 1 1)])
       (RT [SInt 3; SInt 5; SInt 9] [] [] [] 0) = Exec.Ok (RT [SInt 8; SInt (-3); SInt 9] [] [] [] 0).
Proof.
  cbv zeta. split; [reflexivity|]. split; [repeat constructor|]. repeat split; vm_compute; reflexivity.
Qed.

Print Assumptions C07_kernel_eq_generic.
Print Assumptions C07_blockwise_generic.
Print Assumptions C07_kernel_empty_lead.
Print Assumptions C07_box_kernel_eq.
Print Assumptions C07_box_kernel_wf.
Print Assumptions C07_rows_increments_depth.
Print Assumptions C07_exec_rows_atom_eq.
Print Assumptions C07_rows_rows_compose.
Print Assumptions C07_transpose_depth_eq_rows.
Print Assumptions C07_transpose_depth_empty_lead.
Print Assumptions C07_exec_rows_transpose_eq.
Print Assumptions C07_reduce_depth_eq_rows.
Print Assumptions C07_exec_rows_reduce_num.
Print Assumptions C07_reduce_minmax_shortcut_repaired.
Print Assumptions C07_reduce_minmax_shortcut_refuted_pre.
Print Assumptions C07_inventory_pervasive_boxes.
Print Assumptions C07_inventory_pervasive_refuted_pre.
Print Assumptions C07_reduce_below_rank_refuted_pre.
Print Assumptions C07_compose_below_rank_refuted_pre.
Print Assumptions C07_first_depth_empty_refuted_pre.
Print Assumptions C07_below_rank_witnesses_agree.
Print Assumptions C07_rows_iter_cap.
Print Assumptions C07_sem_rows_cap.
Print Assumptions C07_exec_rows_cap.
Print Assumptions C07_box_depth_empty_rows_refuted_pre.
Print Assumptions C07_fork_spec.
Print Assumptions C07_bracket_spec.
Print Assumptions C07_both_spec.
Print Assumptions C07_dip_spec.
Print Assumptions C07_gap_spec.
Print Assumptions C07_on_spec.
Print Assumptions C07_by_spec.
Print Assumptions C07_with_spec.
Print Assumptions C07_off_spec.
Print Assumptions C07_above_spec.
Print Assumptions C07_below_spec.
Print Assumptions C07_iter_operand_ext.
Print Assumptions C07_iter_exec_zero.
Print Assumptions C07_iter_exec_runs.
Print Assumptions C07_fork_pack_spec.
Print Assumptions C07_bracket_pack_spec.
Print Assumptions C07_fork_pack_mutant_refuted.
