(** C07 — Iterating and argument-routing modifiers equal their definitions.
    Property theorems only; every proof is [exact lemma]. *)
From Coq Require Import List ZArith NArith Bool.
From UV Require Import Model.Prims Model.Kernels Proofs.Kernels.
Import ListNotations.

Theorem C07_reduce_minmax_shortcut_refuted_pre :
  exists x, wf x /\ ash x = [3%nat] /\
    k_reduce_minmax true true PMax 1 x <> rows_iter 1 (sem (FReduce PMax)) x.
Proof. exact reduce_minmax_shortcut_refuted_pre. Qed.
Theorem C07_inventory_pervasive_refuted :
  exists f x, wf x /\ ash x = [2%nat] /\ exec_inventory f x <> inventory_def (sem f) x.
Proof. exact inventory_pervasive_refuted. Qed.

Print Assumptions C07_reduce_minmax_shortcut_refuted_pre.
Print Assumptions C07_inventory_pervasive_refuted.
