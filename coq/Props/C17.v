(** C17 — a saved assembly (.uasm) runs exactly like the program it was compiled from.
    Property theorems only; every proof is [exact lemma]. *)
From Coq Require Import List NArith Bool.
From UV Require Import Base.Value Model.Uasm Model.UasmValue Proofs.Uasm Proofs.UasmValue.
Import ListNotations.

(** Framing of the current reader (cascade of split_once on bare marker words): reading back what
    was written gives every section line back, PROVIDED no section body contains, as a substring,
    the marker word that ends it. *)
Theorem C17_framing_roundtrip : forall a,
  sections_wf a = true -> no_marker_in_bodies a = true -> from_uasm (to_uasm a) = inr (reread a).
Proof. exact framing_roundtrip. Qed.

(** ... and without that premise the current reader is wrong: the program "DEPENDENCIES". *)
Theorem C17_framing_refuted : exists a, sections_wf a = true /\
  from_uasm (to_uasm a) <> inr (reread a) /\ from_uasm (to_uasm a) <> inr a.
Proof. exact framing_refuted. Qed.

(** Values as JSON: the current (un)tagging is ambiguous.  Records of the defects: *)
Theorem C17_value_json_refuted_string :
  exists v m', of_json (to_json v) = Some m' /\ mval_same m' (MV v None None) = false /\
               m' = MV (VNum [] [F_NAN_BITS]) None None.
Proof. exact value_json_refuted_string. Qed.
Theorem C17_value_json_refuted_complex : exists v, of_json (to_json v) = None.
Proof. exact value_json_refuted_complex. Qed.
Theorem C17_value_json_refuted_map :
  exists m j m', mto_json m = Some j /\ of_json j = Some m' /\ mval_same m' m = false.
Proof. exact value_json_refuted_map. Qed.

(** non-vacuity: a non-trivial assembly meets the premises *)
Example C17_nonvacuous :
  let a := Sections [[123;125]] [] [[70;32;48]] [[102;32;49]; [32;32;99;111;109;109;101;110;116;58;32;123;125]]
             [[91;93]] [] [] [[48;32;91;93]; []; [49]] [] [] [[34;97;34]] in
  sections_wf a = true /\ no_marker_in_bodies a = true /\ from_uasm (to_uasm a) = inr (reread a).
Proof. vm_compute. repeat split; reflexivity. Qed.

Print Assumptions C17_framing_roundtrip.
Print Assumptions C17_framing_refuted.
Print Assumptions C17_value_json_refuted_string.
Print Assumptions C17_value_json_refuted_complex.
Print Assumptions C17_value_json_refuted_map.
