(** C17 — a saved assembly (.uasm) runs exactly like the program it was compiled from.
    Property theorems only; every proof is [exact lemma]. *)
From Coq Require Import List NArith Bool.
From UV Require Import Base.Value Model.Uasm Model.UasmValue Model.UasmPlain Proofs.Uasm Proofs.UasmValue Proofs.UasmValueRt Proofs.UasmMarks.
Import ListNotations.

(** Framing of the current reader (whole-line section markers, /repo 0f91cb1; optional trailing
    TEST ASSERTS section that is cut off first, /repo 69a2f06): reading back what was written
    gives every section line back, the test assertion count included.  No premise about the CONTENTS of the sections:
    only that the written lines are lines (newline-free, not blank, no trailing blank) and contain
    some character other than A-Z and blank, which every line written by to_uasm does (checked on
    real assemblies by the tie on every run). *)
Theorem C17_framing_roundtrip : forall a,
  sections_wf a = true -> written_shape a = true -> from_uasm (to_uasm a) = inr (reread a).
Proof. exact framing_roundtrip. Qed.

(** Record of the defect repaired by 0f91cb1 (model of the reader before it: bare marker words
    found with split_once): correct only if no section body contains the marker that ends it ... *)
Theorem C17_framing_roundtrip_pre : forall a,
  sections_wf a = true -> no_marker_in_bodies a = true -> from_uasm_pre (to_uasm_pre a) = inr (reread_pre a).
Proof. exact framing_roundtrip_pre. Qed.
(** ... and wrong without: the program "DEPENDENCIES" (whose written lines have the right shape). *)
Theorem C17_framing_refuted_pre : exists a, sections_wf a = true /\ written_shape a = true /\
  from_uasm_pre (to_uasm_pre a) <> inr (reread_pre a) /\ from_uasm_pre (to_uasm_pre a) <> inr a.
Proof. exact framing_refuted_pre. Qed.
(** Record of the defect repaired by 69a2f06: before it the text had no TEST ASSERTS section and
    the reader gave the count 0 ([reread_pre] forgets [s_asserts]) - the whole-line reader of that
    time was otherwise right ... *)
Theorem C17_framing_roundtrip_mid : forall a,
  sections_wf a = true -> written_shape a = true -> from_uasm_mid (to_uasm_pre a) = inr (reread_pre a).
Proof. exact framing_roundtrip_mid. Qed.
(** ... so an assembly with test assertions did not come back *)
Theorem C17_test_asserts_lost_pre : exists a, sections_wf a = true /\ written_shape a = true /\
  from_uasm_mid (to_uasm_pre a) <> inr (reread a).
Proof. exact test_asserts_lost_pre. Qed.

(** Values as JSON (ArrayRep / F64Rep / Value untagged enums, serde's first-variant-that-parses
    rule), CURRENT representation (after /repo c00f690, 6da1960, 1df8995, 41a5003):
    decode (encode v) = v for EVERY value - numbers with any NaN sign and payload, infinities, -0,
    bytes, complex numbers with any parts, characters, strings including the reserved spellings,
    boxes at any depth - up to [norm]: an empty number array comes back with byte storage (same
    shape, same class, equal as a uiua value).  The premises are invariants of the encoding of
    uiua values as terms (data length = product of the shape, bytes <= 255, binary64 patterns
    < 2^64), not restrictions on the uiua value. *)
Theorem C17_value_json_roundtrip_fuel : forall v, wf_shape v = true -> repr_ok v = true ->
  forall fuel, (vdepth v <= fuel)%nat -> of_json_fuel true fuel (to_json true v) = Some (MV (norm v) None None).
Proof. exact value_json_roundtrip_fuel. Qed.
Theorem C17_value_json_roundtrip : forall v, wf_shape v = true -> repr_ok v = true -> (vdepth v <= 12)%nat ->
  of_json true (to_json true v) = Some (MV (norm v) None None).
Proof. exact value_json_roundtrip. Qed.
Theorem C17_value_json_roundtrip_exact : forall v, wf_shape v = true -> repr_ok v = true ->
  no_empty_num v = true -> (vdepth v <= 12)%nat -> of_json true (to_json true v) = Some (MV v None None).
Proof. exact value_json_roundtrip_exact. Qed.
Theorem C17_value_norm_shape : forall v, shape_of (norm v) = shape_of v /\ elem_class (norm v) = elem_class v /\
  data_len (norm v) = data_len v.
Proof. intros v. split; [apply norm_shape | split; [apply norm_class | apply norm_len]]. Qed.

(** Top-level metadata (ArrayRep::Full with a label, ArrayRep::Map with keys; the reader's Map and
    Full attempts under every element type, deny_unknown_fields): a labelled value comes back with
    its label, a map with its keys (bytes keys as numbers, as MapKeys stores them); the reader's
    shape-against-data check (/repo 61c09df) is part of the model and is passed by every written value. *)
Theorem C17_label_json_roundtrip : forall v l, wf_shape v = true -> repr_ok v = true -> (vdepth v <= 12)%nat ->
  exists j, mto_json true (MV v (Some l) None) = Some j /\ of_json true j = Some (MV (norm v) (Some l) None).
Proof. exact label_json_roundtrip. Qed.
Theorem C17_map_json_roundtrip : forall v k, wf_shape v = true -> repr_ok v = true ->
  wf_shape k = true -> repr_ok k = true -> (vdepth v <= 12)%nat -> (vdepth k <= 11)%nat ->
  exists j, mto_json true (MV v None (Some k)) = Some j /\
    of_json true j =
      Some (MV (norm v) None (if Nat.eqb (rows (shape_of k)) (rows (shape_of v)) then Some (to_num (norm k)) else None)).
Proof. exact map_json_roundtrip. Qed.
Theorem C17_meta_json_roundtrip : forall m e j, meta_expect m = Some e -> mto_json true m = Some j ->
  (match m with MV v _ k => wf_shape v = true /\ repr_ok v = true /\ (vdepth v <= 12)%nat /\
     match k with Some k => wf_shape k = true /\ repr_ok k = true /\ (vdepth k <= 11)%nat | None => True end end) ->
  of_json true j = Some e.
Proof. exact meta_json_roundtrip. Qed.
(** Record of the defect repaired by /repo 55312e0 (a boxed value also read from a one-element
    sequence): the program `map [5] ≡□[1]` was written [[1],[5.0],[{"b":1}]] and read back as a list of
    three boxes.  The map theorem above no longer excludes box arrays of shape [1]. *)
Theorem C17_map1_refuted_pre :
  exists m j m', mto_json false m = Some j /\ of_json false j = Some m' /\ mval_same m' m = false /\
    m' = MV (VBox [3%nat] [VByte [] [1]; VNum [] [4617315517961601024]; VBox [] [VByte [] [1]]]) None None.
Proof. exact map1_refuted_pre. Qed.

(** Records of the defects repaired by those commits (model of the representation before them): *)
Theorem C17_value_json_refuted_string_pre :
  exists v m', of_json false (to_json false v) = Some m' /\ mval_same m' (MV v None None) = false /\
               m' = MV (VNum [] [F_NAN_BITS]) None None.
Proof. exact value_json_refuted_string_pre. Qed.
Theorem C17_value_json_refuted_complex_pre : exists v, of_json false (to_json false v) = None.
Proof. exact value_json_refuted_complex_pre. Qed.
Theorem C17_value_json_refuted_nan_pre :
  exists x, of_json false (to_json false (VNum [] [x])) = Some (MV (VNum [] [F_NAN_BITS]) None None) /\ x <> F_NAN_BITS.
Proof. exact value_json_refuted_nan_pre. Qed.
(** Record of the defect repaired by /repo 71ff4d9 (unknown metadata fields were ignored): a map with
    character keys over an empty box array of rank 2 read back as a malformed character array. *)
Theorem C17_value_json_refuted_map_pre :
  exists m j m', mto_json false m = Some j /\ of_json false j = Some m' /\ mval_same m' m = false.
Proof. exact value_json_refuted_map_pre. Qed.

(** Marks: the writer strips the sortedness marks and the reader recomputes them by one scan over
    adjacent rows with an early exit; what it establishes is exactly the truthful marks (sorted up
    iff no adjacent pair of rows is descending, sorted down iff none is ascending). *)
Theorem C17_reread_marks_truthful : forall cs, recompute_marks cs = truthful_marks cs.
Proof. exact recompute_marks_truthful. Qed.

(** non-vacuity: a non-trivial assembly meets the premises *)
Example C17_nonvacuous :
  let a := Sections [[123;125]] [] [[70;32;48]] [[102;32;49]; [32;32;99;111;109;109;101;110;116;58;32;123;125]]
             [[91;93]] [] [] [[48;32;91;93]; []; [49]] [] [] [[34;97;34]] [[51]] in
  sections_wf a = true /\ written_shape a = true /\ from_uasm (to_uasm a) = inr (reread a).
Proof. vm_compute. repeat split; reflexivity. Qed.

Example C17_nonvacuous_value :
  let v := VBox [2%nat] [VChar [3%nat] S_NAN; VBox [1%nat;2%nat] [VNum [0%nat] []; VCplx [] [(F_NAN_BITS, 18444492273895866368)]]] in
  wf_shape v = true /\ repr_ok v = true /\ (vdepth v <= 12)%nat /\ of_json true (to_json true v) = Some (MV (norm v) None None).
Proof. vm_compute. repeat split; try reflexivity. repeat constructor. Qed.

Print Assumptions C17_framing_roundtrip.
Print Assumptions C17_value_json_roundtrip_fuel.
Print Assumptions C17_value_json_roundtrip.
Print Assumptions C17_value_norm_shape.
Print Assumptions C17_framing_roundtrip_pre.
Print Assumptions C17_framing_refuted_pre.
Print Assumptions C17_framing_roundtrip_mid.
Print Assumptions C17_test_asserts_lost_pre.
Print Assumptions C17_value_json_roundtrip_exact.
Print Assumptions C17_label_json_roundtrip.
Print Assumptions C17_map_json_roundtrip.
Print Assumptions C17_meta_json_roundtrip.
Print Assumptions C17_map1_refuted_pre.
Print Assumptions C17_value_json_refuted_string_pre.
Print Assumptions C17_value_json_refuted_complex_pre.
Print Assumptions C17_value_json_refuted_nan_pre.
Print Assumptions C17_value_json_refuted_map_pre.
Print Assumptions C17_reread_marks_truthful.
