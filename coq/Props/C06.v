(** C06 — results do not depend on how an array happens to be stored (buffer level:
    the copy-on-write slices of src/cowslice.rs).  Property theorems only; every proof is
    [exact lemma].

    [run true] is the model of the current code, [run false] the code before commit 1c88250.
    A history is any list of operations (new, clone, slice, into_slices, write through
    as_mut_slice, truncate, the extend family incl. sided fills, remove, clear, reserve, split_off,
    drop) over any number of live handles, starting from the empty heap; [contents] lists the
    visible contents of all live handles; [srun] replays the same history on independent plain
    lists (value semantics). *)
From Coq Require Import List NArith Bool.
From UV Require Import Model.Cow Proofs.Cow Model.ReduceMarks Proofs.ReduceMarks.
Import ListNotations.

(** value semantics: sharing, windows and in-place updates are invisible *)
Theorem C06_cow_value_semantics : forall ops,
  contents (run true ops state0) = srun ops [] /\ inv (run true ops state0).
Proof. exact cow_value_semantics. Qed.

(** one step, from any state satisfying the invariant (the inductive core) *)
Theorem C06_cow_step_refines : forall s o,
  inv s -> inv (step true s o) /\ contents (step true s o) = sstep (contents s) o.
Proof. exact step_sim. Qed.

(** an argument that is still referenced elsewhere is never modified: an operation on one
    handle leaves the contents of every other live handle as they were *)
Theorem C06_cow_others_unchanged : forall ops o j,
  let s := run true ops state0 in
  reorders o = false -> target o <> Some j -> j < length (snd s) ->
  nth_error (contents (step true s o)) j = nth_error (contents s) j.
Proof. exact cow_others_unchanged. Qed.

(** reference counts equal the number of live handles on a buffer; windows stay within bounds
    (the in-place branches test [unique], i.e. refcount = 1, by construction of the model) *)
Theorem C06_cow_refcounts : forall ops,
  let s := run true ops state0 in
  (forall b, rc (fst s) b = cnt b (snd s)) /\
  (forall j h, nth_error (snd s) j = Some h ->
     match hb h with
     | Some b => hst h <= hen h /\ hen h <= length (dat (fst s) b)
     | None => hst h = 0 /\ hen h = 0 end).
Proof. exact cow_refcounts. Qed.

(** record of the defect repaired by commit 1c88250 (model of the code before it): a history
    whose visible contents differ from the plain-list replay (left-sided fill applied in place to
    a uniquely owned window with a hidden prefix) *)
Theorem C06_cow_left_fill_refuted_pre : exists ops, contents (run false ops state0) <> srun ops [].
Proof. exact cow_left_fill_refuted_pre. Qed.

(** truthful sortedness marks are invisible to min/max reduction of a byte list
    (reduce.rs byte arm, depth 0, rank 1, no fill): shortcut = generic path *)
Theorem C06_reduce_min_marks_invisible : forall up down l,
  (up = true -> sorted_up l = true) -> (down = true -> sorted_down l = true) ->
  reduce_min_c up down l = reduce_min_generic l.
Proof. exact reduce_min_marks_invisible. Qed.
Theorem C06_reduce_max_marks_invisible : forall up down l,
  (up = true -> sorted_up l = true) -> (down = true -> sorted_down l = true) ->
  reduce_max_c up down l = reduce_max_generic l.
Proof. exact reduce_max_marks_invisible. Qed.

(** non-vacuity: a history with sharing, copies, in-place updates and the once-defective case *)
Example C06_nonvacuous :
  contents (run true sample_history state0) = [[7]; [9]; [7; 5; 6]]%N /\
  srun sample_history [] = [[7]; [9]; [7; 5; 6]]%N /\
  uniques (run true sample_history state0) = [true; true; true] /\
  contents (run false sample_history state0) <> srun sample_history [].
Proof. exact sample_history_values. Qed.

Print Assumptions C06_cow_value_semantics.
Print Assumptions C06_cow_step_refines.
Print Assumptions C06_cow_others_unchanged.
Print Assumptions C06_cow_refcounts.
Print Assumptions C06_cow_left_fill_refuted_pre.
Print Assumptions C06_reduce_min_marks_invisible.
Print Assumptions C06_reduce_max_marks_invisible.
