(** C13 — spawn / pool / wait are transparent and always finish.
    Property theorems only; every proof is [exact lemma]. *)
From Coq Require Import List NArith Bool Arith.
From UV Require Import Model.Pool Proofs.PoolBasic Proofs.PoolShape Proofs.Pool Proofs.PoolWait.
Import ListNotations.

(** transparency: under every schedule, with any pool size and either admission rule, a
    side-effect-free program that ends returns what its sequential counterpart returns *)
Theorem C13_determinism : forall m rp prog sched r,
  pure prog = true ->
  root_res (run sched (init m rp prog)) = Some r -> r = seqev prog [] [].
Proof. exact determinism. Qed.

(** waiting on the ids [1..k] of k tasks (spawn or pool, any side-effect-free bodies)
    returns their results in id order, whatever the interleaving *)
Theorem C13_wait_order : forall bodies m rp sched r,
  forallb (fun pb => pure (snd pb)) bodies = true ->
  root_res (run sched (init m rp (wait_prog bodies))) = Some r ->
  r = option_map (@concat N) (all_some (map (fun pb => seqev (snd pb) [] []) bodies)).
Proof. exact wait_order. Qed.

(** on every channel of every reachable state, the messages received so far are a prefix,
    in order, of the messages sent *)
Theorem C13_fifo : forall m rp prog sched x up dn,
  nth_error (chs (run sched (init m rp prog))) x = Some (up, dn) ->
  (exists rest, csent up = crcvd up ++ rest) /\ (exists rest, csent dn = crcvd dn ++ rest).
Proof. exact fifo. Qed.

(** termination, code as written: no reachable deadlock without pool ... *)
Theorem C13_spawn_progress : forall m prog sched,
  1 <= m -> pure prog = true -> nopool prog = true ->
  let st := run sched (init m false prog) in
  final st = false -> exists t, step st t <> None.
Proof. exact spawn_progress. Qed.

(** ... nor when no pool is called from inside a pool task (nesting depth 1) *)
Theorem C13_pool_progress_flat : forall m prog sched,
  1 <= m -> pure prog = true -> flat prog = true ->
  let st := run sched (init m false prog) in
  final st = false -> exists t, step st t <> None.
Proof. exact pool_progress_flat. Qed.

(** the code as written: nesting depth 2 with one worker reaches a stuck, non-final state
    although the sequential counterpart returns 6 *)
Theorem C13_pool_deadlock_refuted :
  exists (prog : code) (sched : list nat),
    pure prog = true /\ fresh prog = true /\ pdepth prog = 2 /\ seqev prog [] [] = Some [6%N] /\
    let st := run sched (init 1 false prog) in
    final st = false /\ forall t, step st t = None.
Proof. exact pool_deadlock_refuted. Qed.

(** with one worker that program ([wait pool(wait pool(+1)) 5]) finishes under no schedule *)
Theorem C13_pool_deadlock_every_schedule :
  forall sched, final (run sched (init 1 false nested2)) = false.
Proof. exact pool_deadlock_every_schedule. Qed.

(** n workers, n tasks that each wait for a nested pool task *)
Theorem C13_pool_deadlock_refuted_n :
  forall n, In n [1; 2; 3; 4; 8] ->
  exists sched, pdepth (nested_wide n) = 2 /\
    (exists r, seqev (nested_wide n) [] [] = Some r) /\
    let st := run sched (init n false (nested_wide n)) in
    final st = false /\ forall t, step st t = None.
Proof. exact pool_deadlock_refuted_n. Qed.

(** the proposed repair (a pool called from inside a pool task starts a dedicated thread):
    no side-effect-free program deadlocks, whatever its nesting and task count *)
Theorem C13_pool_progress_repaired : forall m prog sched,
  1 <= m -> pure prog = true ->
  let st := run sched (init m true prog) in
  final st = false -> exists t, step st t <> None.
Proof. exact pool_progress_repaired. Qed.

(** non-vacuity: a flat program with pool and spawn tasks and an array wait meets the premises,
    runs to a final state under a schedule, with the sequential value; and the deadlock witness
    finishes under the repaired rule *)
Example C13_nonvacuous :
  let prog := [Push 5%N; Dup; Fork true 1 [Work 2; Push 1%N; AddAll]; Dup; Fork false 1 [Push 2%N; AddAll];
               Pop; WaitAll [] [2; 1] []; AddAll] in
  pure prog = true /\ flat prog = true /\ fresh prog = true /\ pdepth prog = 1 /\
  seqev prog [] [] = Some [13%N] /\
  root_res (fst (run_strat 200 pick_high (init 1 false prog) [])) = Some (Some [13%N]) /\
  root_res (fst (run_strat 200 pick_low (init 1 true nested2) [])) = Some (Some [6%N]).
Proof. vm_compute. repeat split; reflexivity. Qed.

Print Assumptions C13_determinism.
Print Assumptions C13_wait_order.
Print Assumptions C13_fifo.
Print Assumptions C13_spawn_progress.
Print Assumptions C13_pool_progress_flat.
Print Assumptions C13_pool_deadlock_refuted.
Print Assumptions C13_pool_deadlock_every_schedule.
Print Assumptions C13_pool_deadlock_refuted_n.
Print Assumptions C13_pool_progress_repaired.
