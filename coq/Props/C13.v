(** C13 — spawn / pool / wait are transparent and always finish.
    Property theorems only; every proof is [exact lemma].
    [init m true prog] is the model of the code (admission rule since d34a231);
    [init m false prog] is the rule before that fix, kept for the [_pre] records. *)
From Coq Require Import List NArith Bool Arith.
From UV Require Import Model.Pool Proofs.PoolBasic Proofs.PoolShape Proofs.Pool Proofs.PoolWait.
Import ListNotations.

(** transparency: under every schedule and with any pool size, a side-effect-free program
    that ends returns what its sequential counterpart returns *)
Theorem C13_determinism : forall m rp prog sched r,
  pure prog = true ->
  root_res (run sched (init m rp prog)) = Some r -> r = seqev prog [] [].
Proof. exact determinism. Qed.

(** waiting on the ids [1..k] of k tasks (spawn or pool, any side-effect-free bodies)
    returns their results in id order, whatever the interleaving *)
Theorem C13_wait_order : forall bodies m rp sched r,
  forallb (fun pb => pure (snd pb)) bodies = true ->
  root_res (run sched (init m rp (wait_prog bodies))) = Some r ->
  r = option_map (@concat N) (all_some (map (fun pb => seqev (snd pb) [] []) bodies)).
Proof. exact wait_order. Qed.

(** ... and the result has the id array's shape in front of the row shape: one row per id, also for
    an id array that holds exactly one id; a scalar id gives the thread's value as it is; the result
    is a well-formed array; a failing child's own error is reported for an id array *)
Theorem C13_wait_shape : forall ish vs rs,
  ish <> [] -> vs <> [] -> (forall v, In v vs -> fst v = rs) ->
  wait_glue ish (map WVal vs) = WVal (ish ++ rs, concat (map snd vs)).
Proof. exact wait_shape. Qed.

Theorem C13_wait_shape_empty : forall ish, ish <> [] -> wait_glue ish [] = WVal (ish, []).
Proof. exact wait_shape_empty. Qed.

Theorem C13_wait_scalar : forall v, wait_glue [] [WVal v] = WVal v.
Proof. exact wait_scalar. Qed.

Theorem C13_wait_wf : forall ish vs rs s d,
  ish <> [] -> vs <> [] -> (forall v, In v vs -> fst v = rs /\ length (snd v) = prodn rs) ->
  length vs = prodn ish ->
  wait_glue ish (map WVal vs) = WVal (s, d) -> length d = prodn s.
Proof. exact wait_wf. Qed.

Theorem C13_wait_error : forall ish pre c rest,
  ish <> [] -> wait_glue ish (map WVal pre ++ WErr c :: rest) = WErr c.
Proof. exact wait_error. Qed.

(** on every channel of every reachable state, the messages received so far are a prefix,
    in order, of the messages sent *)
Theorem C13_fifo : forall m rp prog sched x up dn,
  nth_error (chs (run sched (init m rp prog))) x = Some (up, dn) ->
  (exists rest, csent up = crcvd up ++ rest) /\ (exists rest, csent dn = crcvd dn ++ rest).
Proof. exact fifo. Qed.

(** termination: no reachable deadlock, for every side-effect-free program, whatever its
    nesting depth, its number of tasks, the pool size and the interleaving *)
Theorem C13_pool_progress : forall m prog sched,
  1 <= m -> pure prog = true ->
  let st := run sched (init m true prog) in
  final st = false -> exists t, step st t <> None.
Proof. exact pool_progress. Qed.

(** special cases that hold under either admission rule: spawn only; nesting depth 1 *)
Theorem C13_spawn_progress : forall m rp prog sched,
  1 <= m -> pure prog = true -> nopool prog = true ->
  let st := run sched (init m rp prog) in
  final st = false -> exists t, step st t <> None.
Proof. exact spawn_progress. Qed.

Theorem C13_pool_progress_flat : forall m rp prog sched,
  1 <= m -> pure prog = true -> flat prog = true ->
  let st := run sched (init m rp prog) in
  final st = false -> exists t, step st t <> None.
Proof. exact pool_progress_flat. Qed.

(** records of the defect repaired by d34a231 (model of the admission rule before it):
    nesting depth 2 with one worker reaches a stuck, non-final state although the
    sequential counterpart returns 6 ... *)
Theorem C13_pool_deadlock_refuted_pre :
  exists (prog : code) (sched : list nat),
    pure prog = true /\ fresh prog = true /\ pdepth prog = 2 /\ seqev prog [] [] = Some [6%N] /\
    let st := run sched (init 1 false prog) in
    final st = false /\ forall t, step st t = None.
Proof. exact pool_deadlock_refuted_pre. Qed.

(** ... that program ([wait pool(wait pool(+1)) 5]) finished under no schedule at all ... *)
Theorem C13_pool_deadlock_every_schedule_pre :
  forall sched, final (run sched (init 1 false nested2)) = false.
Proof. exact pool_deadlock_every_schedule_pre. Qed.

(** ... and n workers with n tasks that each wait for a nested pool task could block each other *)
Theorem C13_pool_deadlock_refuted_n_pre :
  forall n, In n [1; 2; 3; 4; 8] ->
  exists sched, pdepth (nested_wide n) = 2 /\
    (exists r, seqev (nested_wide n) [] [] = Some r) /\
    let st := run sched (init n false (nested_wide n)) in
    final st = false /\ forall t, step st t = None.
Proof. exact pool_deadlock_refuted_n_pre. Qed.

(** non-vacuity: a program with pool and spawn tasks and an array wait meets the premises and
    runs to a final state with the sequential value; the former deadlock witnesses (depth 2,
    one worker; 4 nested tasks on 2 workers) finish in the model of the code *)
Example C13_nonvacuous :
  let prog := [Push 5%N; Dup; Fork true 1 [Work 2; Push 1%N; AddAll]; Dup; Fork false 1 [Push 2%N; AddAll];
               Pop; WaitAll [] [2; 1] []; AddAll] in
  pure prog = true /\ flat prog = true /\ fresh prog = true /\ pdepth prog = 1 /\
  seqev prog [] [] = Some [13%N] /\
  root_res (fst (run_strat 200 pick_high (init 1 true prog) [])) = Some (Some [13%N]) /\
  pure nested2 = true /\ pdepth nested2 = 2 /\
  root_res (fst (run_strat 200 pick_low (init 1 true nested2) [])) = Some (Some [6%N]) /\
  root_res (fst (run_strat 400 pick_busy (init 2 true (nested_wide 4)) [])) = Some (Some [1%N; 1%N; 1%N; 1%N]) /\
  wait_glue [1] [WVal ([], [11%N])] = WVal ([1], [11%N]) /\
  wait_glue [3; 1] [WVal ([2], [1; 1]%N); WVal ([2], [2; 2]%N); WVal ([2], [3; 3]%N)] = WVal ([3; 1; 2], [1; 1; 2; 2; 3; 3]%N).
Proof. vm_compute. repeat split; reflexivity. Qed.

Print Assumptions C13_determinism.
Print Assumptions C13_wait_order.
Print Assumptions C13_wait_shape.
Print Assumptions C13_wait_shape_empty.
Print Assumptions C13_wait_scalar.
Print Assumptions C13_wait_wf.
Print Assumptions C13_wait_error.
Print Assumptions C13_fifo.
Print Assumptions C13_pool_progress.
Print Assumptions C13_spawn_progress.
Print Assumptions C13_pool_progress_flat.
Print Assumptions C13_pool_deadlock_refuted_pre.
Print Assumptions C13_pool_deadlock_every_schedule_pre.
Print Assumptions C13_pool_deadlock_refuted_n_pre.
