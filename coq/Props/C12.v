(** C12 — Compiling a program is independent of what was compiled before.
    Property theorems only; every proof is [exact lemma]. *)
From Coq Require Import List NArith Bool.
From UV Require Import Model.Memo Proofs.Memo Proofs.MemoPre.
Import ListNotations.
Open Scope N_scope.

(** A memo table is invisible (the run over any history equals [map f]) as soon as the key
    determines the cached function ... *)
Theorem C12_memo_transparent :
  forall (X K V : Type) (keqb : K -> K -> bool), (forall a b, keqb a b = true <-> a = b) ->
  forall (usable : V -> bool) (key : X -> K) (f : X -> V),
    sufficient key f -> forall history, run_memo keqb usable key f history = map f history.
Proof. exact (@memo_transparent). Qed.

(** ... also in the form the code has it: the table is keyed by a 64-bit hash of what the key
    feeds; premise: no collision among the keys of the history *)
Theorem C12_memo_transparent_hashed :
  forall (X K V : Type) (H : K -> N) (usable : V -> bool) (key : X -> K) (f : X -> V) (history : list X),
    sufficient key f ->
    (forall x y, In x history -> In y history -> H (key x) = H (key y) -> key x = key y) ->
    run_memo N.eqb usable (fun x => H (key x)) f history = map f history.
Proof. exact (@memo_transparent_hashed). Qed.

(** ... and only then: from a pair with equal keys and different values a history on which
    the table is visible *)
Theorem C12_memo_not_transparent :
  forall (X K V : Type) (keqb : K -> K -> bool), (forall a b, keqb a b = true <-> a = b) ->
  forall (usable : V -> bool) (key : X -> K) (f : X -> V),
    (exists x y, key x = key y /\ f x <> f y /\ usable (f x) = true) ->
    exists history, run_memo keqb usable key f history <> map f history.
Proof. exact (@memo_not_transparent). Qed.

(** caches whose key determines what the cached computation reads *)
Theorem C12_sig_cache_sufficient : forall (x y : list node),
  sig_key x = sig_key y -> sig_cache_deps x = sig_cache_deps y.
Proof. exact sig_cache_sufficient. Qed.

Theorem C12_pre_eval_cache_sufficient : forall B (x y : pre_input),
  wf_body B node_eqb (fst x) = true -> wf_body B node_eqb (fst y) = true ->
  globals (fst x) = [] -> globals (fst y) = [] ->
  pre_key x = pre_key y -> pre_deps x = pre_deps y.
Proof. exact pre_cache_sufficient'. Qed.

(** the comptime cache is consulted and filled only for nodes that do not read the backend
    (49da69f): transparent on every history, for every function of what running the node
    reads, the backend included *)
Theorem C12_memo_gated_transparent :
  forall (X K V : Type) (keqb : K -> K -> bool), (forall a b, keqb a b = true <-> a = b) ->
  forall (gate : X -> bool) (key : X -> K) (f : X -> V) history,
    (forall x y, In x history -> In y history -> gate x = true -> gate y = true -> key x = key y -> f x = f y) ->
    run_memo_gated keqb gate key f history = map f history.
Proof. exact (@memo_gated_transparent_on). Qed.

Theorem C12_pre_eval_cache_transparent :
  forall (K V : Type) (keqb : K -> K -> bool), (forall a b, keqb a b = true <-> a = b) ->
  forall impure B (kinj : node -> K), (forall a b, kinj a = kinj b -> a = b) ->
  forall (g : (node * list (option (N * bool))) * option N -> V) (history : list pre_input_b),
    (forall x, In x history -> wf_body B node_eqb (fst (fst x)) = true /\ globals (fst (fst x)) = []) ->
    run_memo_gated keqb (fun x => negb (reads_backend impure (fst (fst x)))) (fun x => kinj (pre_key_b x))
                   (fun x => g (pre_deps_b impure x)) history
    = map (fun x => g (pre_deps_b impure x)) history.
Proof. exact (@pre_cache_gated_transparent). Qed.

(** the inverse caches (un / anti / under) and the fast-function cache, keyed by [hash_deep]
    (25aa9f6, 7da4086, 8592559; anti also by for_un, 261768c): the key determines everything
    the cached value is made of — spans, function indices, signatures, bodies, names, the
    extra arguments — hence a hit returns what a fresh computation returns, on every
    history, for every function of those ingredients; [inv_deps_named] is everything the
    inversion reads of its input and of the functions table — NOT the length of the spans
    table, see below *)
Theorem C12_inverse_cache_sufficient : forall (x y : inv_input),
  inv_key x = inv_key y -> inv_deps_named x = inv_deps_named y.
Proof. exact inv_cache_sufficient. Qed.

Theorem C12_zip_cache_sufficient : forall (x y : node),
  zip_key x = zip_key y -> zip_deps_named x = zip_deps_named y.
Proof. exact zip_cache_sufficient. Qed.

Theorem C12_inverse_cache_transparent :
  forall (K V : Type) (keqb : K -> K -> bool), (forall a b, keqb a b = true <-> a = b) ->
  forall (kinj : list node * (N * bool) -> K), (forall a b, kinj a = kinj b -> a = b) ->
  forall (g : list node * (N * bool) -> V) usable (history : list inv_input),
    run_memo keqb usable (fun x => kinj (inv_key x)) (fun x => g (inv_deps_named x)) history
    = map (fun x => g (inv_deps_named x)) history.
Proof. exact (@inv_cache_transparent). Qed.

Theorem C12_zip_cache_transparent :
  forall (K V : Type) (keqb : K -> K -> bool), (forall a b, keqb a b = true <-> a = b) ->
  forall (kinj : node -> K), (forall a b, kinj a = kinj b -> a = b) ->
  forall (g : node -> V) usable (history : list node),
    run_memo keqb usable (fun x => kinj (zip_key x)) (fun x => g (zip_deps_named x)) history
    = map (fun x => g (zip_deps_named x)) history.
Proof. exact (@zip_cache_transparent). Qed.

(** the function index has to be part of the key although the callee's body is walked:
    a call kept in the cached value is executed through its index *)
Theorem C12_inverse_key_needs_index :
  exists x y, inv_key_no_index x = inv_key_no_index y /\ inv_deps_named x <> inv_deps_named y.
Proof. exact inv_key_without_index_refuted. Qed.

(** the inversion also reads the length of the spans table (the "match a constant exactly"
    inverse), which the key does not feed; since 868269f such a result is not stored, and with
    that side condition on the store step the caches are transparent for every function of
    the keyed dependencies and (where read: [u]) of the table length *)
Theorem C12_memo_store_transparent :
  forall (X K V : Type) (keqb : K -> K -> bool), (forall a b, keqb a b = true <-> a = b) ->
  forall (usable : V -> bool) (store : X -> bool) (key : X -> K) (f : X -> V) history,
    (forall x y, In x history -> In y history -> store x = true -> key x = key y -> f x = f y) ->
    run_memo_store keqb usable store key f history = map f history.
Proof. exact (@memo_store_transparent_on). Qed.

Theorem C12_inverse_cache_store_transparent :
  forall (K V : Type) (keqb : K -> K -> bool), (forall a b, keqb a b = true <-> a = b) ->
  forall (kinj : list node * (N * bool) -> K), (forall a b, kinj a = kinj b -> a = b) ->
  forall (u : list node * (N * bool) -> bool) (g : list node * (N * bool) -> option N -> V) usable
         (history : list inv_input_l),
    run_memo_store keqb usable (inv_store_l u) (fun x => kinj (inv_key_l x)) (inv_f_l u g) history
    = map (inv_f_l u g) history.
Proof. exact (@inv_cache_store_transparent). Qed.

(** the under cache and the anti cache by themselves (keys: (hash_deep of the nodes, g_sig, inverse),
    resp. hash of for_un then hash_deep of the nodes): sufficient, and with the store side
    condition transparent on every history *)
Theorem C12_under_cache_sufficient : forall (x y : under_input),
  under_key x = under_key y -> under_deps x = under_deps y.
Proof. exact under_cache_sufficient. Qed.

Theorem C12_anti_cache_sufficient : forall (x y : anti_input),
  anti_key x = anti_key y -> anti_deps x = anti_deps y.
Proof. exact anti_cache_sufficient. Qed.

Theorem C12_under_cache_store_transparent :
  forall (K V : Type) (keqb : K -> K -> bool), (forall a b, keqb a b = true <-> a = b) ->
  forall (kinj : list node * (N * bool) -> K), (forall a b, kinj a = kinj b -> a = b) ->
  forall (u : list node * (N * bool) -> bool) (g : list node * (N * bool) -> option N -> V) usable
         (history : list (under_input * N)),
    run_memo_store keqb usable (len_store under_deps u) (fun x => kinj (under_key (fst x))) (len_f under_deps u g) history
    = map (len_f under_deps u g) history.
Proof. exact under_cache_store_transparent. Qed.

Theorem C12_anti_cache_store_transparent :
  forall (K V : Type) (keqb : K -> K -> bool), (forall a b, keqb a b = true <-> a = b) ->
  forall (kinj : bool * list node -> K), (forall a b, kinj a = kinj b -> a = b) ->
  forall (u : list node * bool -> bool) (g : list node * bool -> option N -> V) usable
         (history : list (anti_input * N)),
    run_memo_store keqb usable (len_store anti_deps u) (fun x => kinj (anti_key (fst x))) (len_f anti_deps u g) history
    = map (len_f anti_deps u g) history.
Proof. exact anti_cache_store_transparent. Qed.

(** the purity key does not determine what is read of the bindings table (open finding) *)
Theorem C12_purity_cache_refuted : exists x y, pur_key x = pur_key y /\ pur_deps x <> pur_deps y.
Proof. exact pur_cache_refuted. Qed.

(** repairs of those *)
Theorem C12_inverse_sufficient_after_fix : forall (V : Type) (g : list node * (N * bool) -> V),
  sufficient inv_key_fix (fun x => g (inv_deps x)).
Proof. exact inv_fix_sufficient. Qed.

Theorem C12_zip_sufficient_after_fix : forall (V : Type) (g : node -> V),
  sufficient zip_key_fix (fun x => g (zip_deps x)).
Proof. exact zip_fix_sufficient. Qed.

Theorem C12_purity_sufficient_after_fix : forall (V : Type) (g : _ -> V),
  sufficient pur_key_fix (fun x => g (pur_deps x)).
Proof. exact pur_fix_sufficient. Qed.

(** records of the keys before 25aa9f6 (models of the code before the repair) *)
Theorem C12_inverse_cache_refuted_pre : exists x y, inv_key_pre x = inv_key_pre y /\ inv_deps_pre x <> inv_deps_pre y.
Proof. exact inv_cache_refuted_pre. Qed.
Theorem C12_inverse_fix_input_spans_refuted_pre :
  exists x y, inv_key_fix1 x = inv_key_fix1 y /\ inv_deps_pre x <> inv_deps_pre y.
Proof. exact inv_fix1_refuted_pre. Qed.
Theorem C12_zip_cache_refuted_span_pre : exists x y, zip_key_pre x = zip_key_pre y /\ zip_deps x <> zip_deps y.
Proof. exact zip_cache_refuted_span_pre. Qed.
Theorem C12_zip_cache_refuted_index_pre : exists x y, zip_key_pre x = zip_key_pre y /\ zip_deps x <> zip_deps y.
Proof. exact zip_cache_refuted_index_pre. Qed.
Theorem C12_inverse_cache_names_refuted_pre :
  exists x y, inv_key_pre_names x = inv_key_pre_names y /\ inv_deps_named x <> inv_deps_named y.
Proof. exact inv_cache_names_refuted_pre. Qed.
Theorem C12_zip_cache_names_refuted_pre :
  exists x y, zip_key_pre_names x = zip_key_pre_names y /\ zip_deps_named x <> zip_deps_named y.
Proof. exact zip_cache_names_refuted_pre. Qed.
Theorem C12_sig_cache_refuted_pre : exists x y, sig_key_pre x = sig_key_pre y /\ sig_cache_deps x <> sig_cache_deps y.
Proof. exact sig_cache_refuted_pre. Qed.
Theorem C12_anti_cache_for_un_refuted_pre :
  exists x y, anti_key_pre x = anti_key_pre y /\ inv_deps_named x <> inv_deps_named y.
Proof. exact anti_cache_for_un_refuted_pre. Qed.
(** before 49da69f the comptime cache served every node (Lsp mode: values read from a backend) *)
Theorem C12_pre_eval_cache_backend_refuted_pre : forall (impure : N -> bool) p, impure p = true ->
  exists x y, pre_key_b x = pre_key_b y /\ pre_deps_b impure x <> pre_deps_b impure y.
Proof. exact pre_cache_backend_refuted. Qed.
Theorem C12_inverse_cache_spans_len_refuted_pre :
  exists x y, inv_key_l x = inv_key_l y /\ inv_deps_l x <> inv_deps_l y.
Proof. exact inv_cache_spans_len_refuted_pre. Qed.
Theorem C12_repaired_keys_separate_pre :
  inv_key un_w1 <> inv_key un_w2 /\ inv_key un_w3 <> inv_key un_w4 /\
  zip_key zip_w1 <> zip_key zip_w2 /\ zip_key zip_w3 <> zip_key zip_w4 /\
  inv_key un_n1 <> inv_key un_n2 /\ zip_key zip_n1 <> zip_key zip_n2 /\
  sig_key sg_w1 <> sig_key sg_w2 /\ inv_key an_w1 <> inv_key an_w2.
Proof. exact repaired_keys_separate. Qed.

(** non-vacuity: a history with a repeated key and a non-trivial cached function on which
    the premises of C12_memo_transparent hold and the table is really consulted; the
    inverse key separates the pair that differs in the function index only; well-formed inputs exist *)
Example C12_nonvacuous :
  let key := fun x : N => x mod 3 in
  let f := fun x : N => (x mod 3) * 10 in
  sufficient key f /\
  run_memo N.eqb always key f [4; 7; 5; 1] = [10; 10; 20; 10] /\
  inv_key ix_w1 <> inv_key ix_w2 /\ wf_body (fun _ => NPush 7) node_eqb (hd (NPush 0) (fst ix_w1)) = true /\
  sig_key [NMod DIP [(NCall 1 S11 0 99 0 (body_at 2) 5, S11)] 6] =
  sig_key [NMod DIP [(NCall 2 S11 1 99 1 (body_at 3) 9, S11)] 4].
Proof.
  split; [intros x y E; cbv beta; rewrite E; reflexivity|].
  split; [reflexivity|]. split; [exact inv_key_separates_index|].
  split; reflexivity.
Qed.

Print Assumptions C12_memo_transparent.
Print Assumptions C12_memo_transparent_hashed.
Print Assumptions C12_memo_not_transparent.
Print Assumptions C12_sig_cache_sufficient.
Print Assumptions C12_pre_eval_cache_sufficient.
Print Assumptions C12_memo_gated_transparent.
Print Assumptions C12_pre_eval_cache_transparent.
Print Assumptions C12_inverse_cache_sufficient.
Print Assumptions C12_zip_cache_sufficient.
Print Assumptions C12_inverse_cache_transparent.
Print Assumptions C12_zip_cache_transparent.
Print Assumptions C12_inverse_key_needs_index.
Print Assumptions C12_memo_store_transparent.
Print Assumptions C12_inverse_cache_store_transparent.
Print Assumptions C12_under_cache_sufficient.
Print Assumptions C12_anti_cache_sufficient.
Print Assumptions C12_under_cache_store_transparent.
Print Assumptions C12_anti_cache_store_transparent.
Print Assumptions C12_purity_cache_refuted.
Print Assumptions C12_inverse_sufficient_after_fix.
Print Assumptions C12_zip_sufficient_after_fix.
Print Assumptions C12_purity_sufficient_after_fix.
Print Assumptions C12_inverse_cache_refuted_pre.
Print Assumptions C12_inverse_fix_input_spans_refuted_pre.
Print Assumptions C12_zip_cache_refuted_span_pre.
Print Assumptions C12_zip_cache_refuted_index_pre.
Print Assumptions C12_inverse_cache_names_refuted_pre.
Print Assumptions C12_zip_cache_names_refuted_pre.
Print Assumptions C12_sig_cache_refuted_pre.
Print Assumptions C12_anti_cache_for_un_refuted_pre.
Print Assumptions C12_pre_eval_cache_backend_refuted_pre.
Print Assumptions C12_inverse_cache_spans_len_refuted_pre.
Print Assumptions C12_repaired_keys_separate_pre.
