(** C01 — compile-time rewriting never changes what a program computes.
    Property theorems only; every proof is [exact lemma].

    [run] evaluates a straight-line run of primitives and integer literals on a stack of
    well-formed arrays with the reference semantics of Model/Prims.v; the statements have the
    property's direction: if the original run succeeds, the rewritten run succeeds with the same
    stack.  The theorems cover the rules of [proved]; the rules of [listed_unproved], the
    recursion into operands and pre-evaluation are decided by the checks of lib/c01.py only. *)
From Coq Require Import List ZArith NArith Bool.
From UV Require Import Model.Node Model.Sig Model.Opt Model.Prims Proofs.Opt.
Import ListNotations.

(** a positional rule that is sound at position 0 is sound wherever match_and_replace applies it,
    whatever precedes and follows in the run *)
Theorem C01_match_and_replace_sound : forall f, prule_sound f -> lrule_sound (mar f).
Proof. exact mar_sound. Qed.

(** the proved rules, as they stand in the transcribed UNSORTED_OPTS:
    reverse;first -> last, reverse;last -> first, rise;first -> FirstMinIndex, fall;last -> LastMinIndex,
    sort;first -> FirstSort, sort;last -> LastSort, sort;reverse -> SortDown, SortDown;reverse -> sort,
    absolute value;negate -> NegAbs,
    fall;first -> FirstMaxIndex, rise;last -> LastMaxIndex (the last two pairs since fix commits 1f3e8d8, 2d75a21),
    deduplicate;length -> CountUnique, TransposeOpt (all three shapes, every count >= 0), PopConst *)
Theorem C01_proved_rules_sound :
  forall o, In o unsorted_opts -> In (opt_name o) proved -> lrule_sound (snd o).
Proof. exact proved_rules_sound. Qed.

(** the fix-point loop of optimize_run at either level: when it applied proved rules only, the
    optimised run succeeds with the same stack whenever the original run does *)
Theorem C01_optimize_run_sound : forall fuel lv ns used ns',
  fix_rules fuel (rules_at lv) ns = Some (used, ns') ->
  incl used proved ->
  forall st out, run ns st = Ok out -> run ns' st = Ok out.
Proof. exact optimize_run_sound. Qed.

(** the same for any set of rules, each assumed sound (the driver adds nothing of its own) *)
Theorem C01_fix_rules_sound : forall fuel rules ns used ns',
  fix_rules fuel rules ns = Some (used, ns') ->
  (forall o, In o rules -> In (opt_name o) used -> lrule_sound (snd o)) ->
  forall st out, run ns st = Ok out -> run ns' st = Ok out.
Proof. exact fix_rules_sound. Qed.

(** every one of the 43 entries of the table is either proved or named in listed_unproved *)
Theorem C01_all_rules_accounted :
  forallb (fun o => xorb (mem_name (opt_name o) proved) (mem_name (opt_name o) listed_unproved)) unsorted_opts = true
  /\ length unsorted_opts = 43%nat /\ length optimizations = 43%nat.
Proof. exact all_rules_accounted. Qed.

(** Node::push: where the model computes the inlined literal (length, reverse, transpose, sort of an
    integer scalar), the literal is what the primitive returns *)
Theorem C01_push_inline_sound : forall id a o z z' st,
  inlinable id = true -> inline_val id (SInt z) = SInt z' ->
  run [Push (SInt z); Prim id a o] st = run [Push (SInt z')] st.
Proof. exact push_inline_sound. Qed.

(** array-level content of the rules *)
Theorem C01_reverse_first_is_last : forall a, wfb a = true ->
  forall v, p_first None (p_reverse a) = Ok v -> p_last None a = Ok v.
Proof. exact reverse_first_is_last. Qed.
Theorem C01_reverse_last_is_first : forall a, wfb a = true ->
  forall v, p_last None (p_reverse a) = Ok v -> p_first None a = Ok v.
Proof. exact reverse_last_is_first. Qed.
Theorem C01_rise_first_is_first_min : forall fixed a u v,
  p_rise a = Ok u -> p_first None u = Ok v -> p_first_index fixed row_le a = Ok v.
Proof. exact rise_first_is_first_min. Qed.
(** since fix commits 1f3e8d8 and 2d75a21 the fused index primitives equal the unfused forms,
    failure on an empty array included, wherever rise / fall is defined *)
Theorem C01_rise_first_equiv : forall a u, p_rise a = Ok u -> p_first_index true row_le a = p_first None u.
Proof. exact rise_first_equiv. Qed.
Theorem C01_fall_first_equiv : forall a u, p_fall a = Ok u -> p_first_index true row_ge a = p_first None u.
Proof. exact fall_first_equiv. Qed.
Theorem C01_rise_last_equiv : forall a u, p_rise a = Ok u -> p_last_index row_le a = p_last None u.
Proof. exact rise_last_equiv. Qed.
Theorem C01_fall_last_equiv : forall a u, p_fall a = Ok u -> p_last_index row_ge a = p_last None u.
Proof. exact fall_last_equiv. Qed.
(** sort then first / last equals the fused FirstSort / LastSort on every well-formed array,
    failure on an array without rows included *)
Theorem C01_sort_first_equiv : forall a, wfb a = true ->
  p_first_sort a = (v <- p_sort a ;; p_first None v).
Proof. exact sort_first_equiv. Qed.
Theorem C01_sort_last_equiv : forall a, wfb a = true ->
  p_last_sort a = (v <- p_sort a ;; p_last None v).
Proof. exact sort_last_equiv. Qed.
(** sort then reverse equals the fused SortDown, and SortDown then reverse equals sort, on every
    well-formed array (rev_isort: the reverse of a stable ascending insertion sort is the insertion
    sort by the strict descending order) *)
Theorem C01_sort_reverse_equiv : forall a, wfb a = true ->
  p_sort_down a = (v <- p_sort a ;; Ok (p_reverse v)).
Proof. exact sort_reverse_equiv. Qed.
Theorem C01_sortdown_reverse_equiv : forall a, wfb a = true ->
  p_sort a = (v <- p_sort_down a ;; Ok (p_reverse v)).
Proof. exact sortdown_reverse_equiv. Qed.
(** absolute value then negate is the fused NegAbs *)
Theorem C01_abs_neg_is_neg_abs : forall a u v,
  p_perv1 PAbs a = Ok u -> p_perv1 PNeg u = Ok v -> p_neg_abs a = Ok v.
Proof. exact abs_neg_is_neg_abs. Qed.
Theorem C01_transposeN_compose : forall x y st out, (0 <= x)%Z -> (0 <= y)%Z ->
  (st' <- on_top (fun a => Ok (Nat.iter (Z.to_nat x) p_transpose a)) st ;;
   on_top (fun a => Ok (Nat.iter (Z.to_nat y) p_transpose a)) st') = Ok out ->
  on_top (fun a => Ok (Nat.iter (Z.to_nat (x + y)) p_transpose a)) st = Ok out.
Proof. exact transposeN_compose. Qed.

(** instances with tied extremes (ascending with the maximum repeated, descending with both repeated,
    rank 2 with a repeated maximal row): fused = unfused, and the values are the leftmost / rightmost
    extremal rows.  The marks of an implementation value are not an input of the model. *)
Example C01_tied_extremes :
  let up := Prims.Arr TNum [4%nat] [ENum 1; ENum 2; ENum 3; ENum 3] in
  let dn := Prims.Arr TNum [4%nat] [ENum 3; ENum 3; ENum 1; ENum 1] in
  let r2 := Prims.Arr TNum [3%nat; 2%nat] [ENum 3; ENum 4; ENum 1; ENum 2; ENum 3; ENum 4] in
  map (fun a => (run [nFall; nFirst] [a], run [nRise; nLast] [a], run [nRise; nFirst] [a], run [nFall; nLast] [a])) [up; dn; r2] =
  map (fun a => (run [nFirstMaxIndex] [a], run [nLastMaxIndex] [a], run [nFirstMinIndex] [a], run [nLastMinIndex] [a])) [up; dn; r2]
  /\ run [nFirstMaxIndex] [up] = Ok [num 2] /\ run [nLastMaxIndex] [up] = Ok [num 3]
  /\ run [nFirstMinIndex] [dn] = Ok [num 2] /\ run [nLastMinIndex] [dn] = Ok [num 3]
  /\ run [nFirstMaxIndex] [r2] = Ok [num 0] /\ run [nLastMaxIndex] [r2] = Ok [num 2].
Proof. exact tied_extremes. Qed.

(** records of repaired defects (models of the code before the fix commits) *)
Theorem C01_first_rise_empty_refuted_pre :
  let a := Prims.Arr TNum [0%nat] [] in
  (u <- p_rise a ;; p_first None u) = Err /\ p_first_index false row_le a = Ok (num 0).
Proof. exact first_rise_empty_refuted_pre. Qed.
Theorem C01_first_rise_empty_agrees :
  let st := [Prims.Arr TNum [0%nat] []] in
  run [nRise; nFirst] st = Err /\ run [nFirstMinIndex] st = Err.
Proof. exact first_rise_empty_agrees. Qed.
Theorem C01_last_rise_sorted_refuted_pre :
  let a := Prims.Arr TNum [2%nat] [ENum 1; ENum 2] in
  (u <- p_rise a ;; p_last None u) = Ok (num 1) /\ p_last_max_index_pre true a = Ok (num 0) /\
  p_last_index row_le a = Ok (num 1).
Proof. exact last_rise_sorted_refuted_pre. Qed.

(** non-vacuity: four proved rules fire on one run, which succeeds on a 3x2 array before and after *)
Example C01_nonvacuous :
  let a := Prims.Arr TNum [3%nat; 2%nat] [ENum 5; ENum 1; ENum 2; ENum 7; ENum 2; ENum 0] in
  let ns := [nReverse; nFirst; nTranspose; nTranspose; nDup; nRise; nFirst; Push (SInt 4); nPop] in
  exists used ns',
    fix_rules 20 (rules_at Full) ns = Some (used, ns') /\ incl used proved /\
    used = [RTuple 1; RTuple 3; RTranspose; RPopConst] /\
    ns' = [nLast; nTransposeN 2; nDup; nFirstMinIndex] /\
    run ns [a] = Ok [num 1; Prims.Arr TNum [2%nat] [ENum 2; ENum 0]] /\
    run ns' [a] = Ok [num 1; Prims.Arr TNum [2%nat] [ENum 2; ENum 0]].
Proof. exact opt_nonvacuous. Qed.

Print Assumptions C01_match_and_replace_sound.
Print Assumptions C01_proved_rules_sound.
Print Assumptions C01_optimize_run_sound.
Print Assumptions C01_fix_rules_sound.
Print Assumptions C01_all_rules_accounted.
Print Assumptions C01_push_inline_sound.
Print Assumptions C01_reverse_first_is_last.
Print Assumptions C01_reverse_last_is_first.
Print Assumptions C01_rise_first_is_first_min.
Print Assumptions C01_sort_first_equiv.
Print Assumptions C01_sort_last_equiv.
Print Assumptions C01_sort_reverse_equiv.
Print Assumptions C01_sortdown_reverse_equiv.
Print Assumptions C01_abs_neg_is_neg_abs.
Print Assumptions C01_transposeN_compose.
Print Assumptions C01_rise_first_equiv.
Print Assumptions C01_fall_first_equiv.
Print Assumptions C01_rise_last_equiv.
Print Assumptions C01_fall_last_equiv.
Print Assumptions C01_first_rise_empty_refuted_pre.
Print Assumptions C01_first_rise_empty_agrees.
Print Assumptions C01_last_rise_sorted_refuted_pre.
