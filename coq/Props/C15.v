(** C15 — Equality, ordering and hashing of values are mutually consistent.
    Property theorems only; every proof is [exact lemma]. *)
From Coq Require Import List ZArith NArith Bool.
From UV Require Import Base.Value Model.Order Proofs.CmpLaws Proofs.Order Proofs.OrderPre.
Import ListNotations.

(** match is an equivalence relation (on values whose data length fits their shape: C05) *)
Theorem C15_eq_refl : forall a, wf_shape a = true -> value_eq true a a = true.
Proof. exact eq_refl_v. Qed.
Theorem C15_eq_sym : forall a b, wf_shape a = true -> wf_shape b = true ->
  value_eq true a b = true -> value_eq true b a = true.
Proof. exact eq_sym_v. Qed.
Theorem C15_eq_trans : forall a b d, wf_shape a = true -> wf_shape b = true -> wf_shape d = true ->
  value_eq true a b = true -> value_eq true b d = true -> value_eq true a d = true.
Proof. exact eq_trans_v. Qed.

(** the ordering is a total preorder ... *)
Theorem C15_cmp_refl : forall a, value_cmp true a a = Eq.
Proof. exact cmp_refl. Qed.
Theorem C15_cmp_antisym : forall a b, value_cmp true b a = CompOpp (value_cmp true a b).
Proof. exact cmp_antisym. Qed.
Theorem C15_cmp_total : forall a b, value_cmp true a b <> Gt \/ value_cmp true b a <> Gt.
Proof. exact cmp_total. Qed.
Theorem C15_cmp_trans : forall a b d,
  value_cmp true a b <> Gt -> value_cmp true b d <> Gt -> value_cmp true a d <> Gt.
Proof. exact cmp_trans. Qed.
Theorem C15_cmp_lt_trans : forall a b d,
  value_cmp true a b = Lt -> value_cmp true b d = Lt -> value_cmp true a d = Lt.
Proof. exact cmp_lt_trans. Qed.
Theorem C15_cmp_eq_compat : forall a b d,
  value_cmp true a b = Eq -> value_cmp true a d = value_cmp true b d.
Proof. exact cmp_eq_compat_l. Qed.

(** ... whose "equal" coincides with match *)
Theorem C15_cmp_eq_iff : forall a b, wf_shape a = true -> wf_shape b = true ->
  (value_eq true a b = true <-> value_cmp true a b = Eq).
Proof. exact cmp_eq_iff. Qed.

(** equal values hash alike (sentinel-free values) *)
Theorem C15_eq_hash : forall a b, wf_shape a = true -> wf_shape b = true ->
  plain a = true -> plain b = true ->
  value_eq true a b = true -> value_hash true a = value_hash true b.
Proof. exact eq_hash. Qed.

(** records of the two defects repaired by fix: commits (model of the code before them) *)
Theorem C15_cmp_transitive_refuted_pre :
  exists a b c, wf_shape a = true /\ wf_shape b = true /\ wf_shape c = true /\
    value_cmp false a b = Lt /\ value_cmp false b c = Lt /\ value_cmp false c a = Lt.
Proof. exact cmp_transitive_refuted_pre. Qed.
Theorem C15_eq_hash_refuted_pre :
  exists a b, wf_shape a = true /\ wf_shape b = true /\ plain a = true /\ plain b = true /\
    value_eq false a b = true /\ value_hash false a <> value_hash false b.
Proof. exact eq_hash_refuted_pre. Qed.

(** non-vacuity: the premises are met by non-trivial values *)
Example C15_nonvacuous :
  let a := VBox [2]%nat [VNum [2]%nat [0; F_NEG_ZERO]%N; VByte []%nat [3]%N] in
  let b := VBox [2]%nat [VByte [2]%nat [0; 0]%N; VNum []%nat [4613937818241073152]%N] in
  wf_shape a = true /\ wf_shape b = true /\ plain a = true /\ plain b = true /\
  value_eq true a b = true /\ value_hash true a = value_hash true b /\ value_cmp true a b = Eq.
Proof. vm_compute. repeat split; reflexivity. Qed.

Print Assumptions C15_eq_refl.
Print Assumptions C15_eq_sym.
Print Assumptions C15_eq_trans.
Print Assumptions C15_cmp_refl.
Print Assumptions C15_cmp_antisym.
Print Assumptions C15_cmp_total.
Print Assumptions C15_cmp_trans.
Print Assumptions C15_cmp_lt_trans.
Print Assumptions C15_cmp_eq_compat.
Print Assumptions C15_cmp_eq_iff.
Print Assumptions C15_eq_hash.
Print Assumptions C15_cmp_transitive_refuted_pre.
Print Assumptions C15_eq_hash_refuted_pre.
