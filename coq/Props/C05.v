(** C05 — every array the interpreter produces is internally well-formed.
    Property theorems only; every proof is [exact lemma].
    Level "other": the theorems cover the flag algebra and the concretely modelled primitives
    ([proved p = true]: reverse, first, last, fix, deshape, sort, sort-down, couple of equal shapes);
    every other primitive and all modifiers are under the release-mode monitor only. *)
From Coq Require Import List ZArith NArith Bool.
From UV Require Import Base.Value Model.Order Model.Flags Proofs.Flags.
Import ListNotations.

(** well-formedness (data length fits the shape, deeply; marks truthful w.r.t. C15's row order)
    is preserved by the modelled primitives *)
Theorem C05_wf_preserved : forall p args outs,
  proved p = true -> Forall wf args -> prim_c p args = Ok outs -> Forall wf outs.
Proof. exact wf_preserved. Qed.

(** each helper of the flag algebra preserves truthfulness under its side condition *)
Theorem C05_flag_algebra_sound :
  (forall v f, flags_okb v f = true -> flags_okb v (clear_sorted f) = true /\ flags_okb v (sorted_part f) = true) /\
  (forall v f, flags_okb v f = true -> flags_okb v (clear_value f) = true) /\
  (forall v f g, flags_okb v f = true -> flags_okb v (sorted_part g) = true -> flags_okb v (or_sorted f g) = true) /\
  (forall v f b, flags_okb v f = true -> (b = true -> up_ok v = true) -> flags_okb v (mark_up f b) = true) /\
  (forall v f b, flags_okb v f = true -> (b = true -> down_ok v = true) -> flags_okb v (mark_down f b) = true) /\
  (forall v self other, flags_okb v self = true -> flags_okb v (combine self other) = true) /\
  (forall v v' f, vrows v' = rev (vrows v) -> (bool_ok v = true -> bool_ok v' = true) ->
                  flags_okb v f = true -> flags_okb v' (reverse_sorted f) = true) /\
  (forall v f, (f_bool f = true -> bool_ok v = true) -> flags_okb v (derive_sortedness v f) = true) /\
  (forall v v' f, monotone_rows v v' -> flags_okb v (sorted_part f) = true -> flags_okb v' (sorted_part f) = true) /\
  (forall v v' f, antitone_rows v v' -> flags_okb v (sorted_part f) = true ->
                  flags_okb v' (sorted_part (reverse_sorted f)) = true) /\
  (forall v v' cur taken, flags_okb v' cur = true -> flags_okb v (sorted_part taken) = true ->
                  (match v' with VBox _ _ | VChar _ _ => True | _ => antitone_rows v v' end) ->
                  flags_okb v' (or_sorted_rev true v' cur taken) = true).
Proof. exact flag_algebra_sound. Qed.

(** sorting produces rows in ascending order of C15's ordering, for every element type *)
Theorem C05_sort_sorted : forall v, wf_shape v = true -> up_ok (vdata_rows_sorted le_b v) = true.
Proof. exact sort_sorted. Qed.

(** range of a natural below 257 is a well-formed byte array marked ascending *)
Theorem C05_range_bytes_wf : forall n, (n <= 256)%nat -> wf (p_range_nat n).
Proof. exact range_bytes_wf. Qed.

(** negating characters: the repaired rule gives no marks and is sound; the rule before the
    commit "fix: negating a character array must not mark the result as sorted" is refuted *)
Theorem C05_neg_chars_repaired : forall m swapped r,
  wf m -> length swapped = data_len (mv_v m) -> p_neg_chars true m swapped = Ok r -> wf r.
Proof. exact neg_chars_repaired. Qed.
Theorem C05_neg_chars_mark_refuted_pre :
  exists m swapped r, wf m /\ length swapped = data_len (mv_v m) /\
    p_neg_chars false m swapped = Ok r /\ wfb r = false.
Proof. exact neg_chars_mark_refuted_pre. Qed.

(** the faithful model of the CURRENT mark rule of floor/ceil/round violates the property
    (confirmed on the implementation: `⌊⍆[ℂ5 1.2 ℂ0 1.7]`) *)
Theorem C05_floor_rule_refuted :
  exists a out f, wf a /\ rule_flags RFloor [a] out = Some f /\ wf_shape out = true /\ flags_okb out f = false.
Proof. exact floor_rule_refuted. Qed.

(** non-vacuity: a non-trivial well-formed marked argument and a run of the model on it *)
Example C05_nonvacuous :
  let a := MV (VBox [3]%nat [VNum [2]%nat [0; F_NEG_ZERO]%N; VByte []%nat [3]%N; VChar [1]%nat [97]%N]) (FL false false false) in
  (wfb a &&
   match prim_c CSort [a] with Ok [o] => f_up (mv_f o) && wfb o | _ => false end &&
   match prim_c CReverse [MV (VByte [3]%nat [0; 1; 1]%N) (FL true true false)] with
   | Ok [o] => flags_eqb (mv_f o) (FL true false true) && wfb o | _ => false end) = true.
Proof. vm_compute. reflexivity. Qed.

Print Assumptions C05_wf_preserved.
Print Assumptions C05_flag_algebra_sound.
Print Assumptions C05_sort_sorted.
Print Assumptions C05_range_bytes_wf.
Print Assumptions C05_neg_chars_repaired.
Print Assumptions C05_neg_chars_mark_refuted_pre.
Print Assumptions C05_floor_rule_refuted.
