(** C05 — every array the interpreter produces is internally well-formed.
    Property theorems only; every proof is [exact lemma].
    Level "other": the theorems cover the flag algebra and the concretely modelled primitives
    ([proved p = true]: reverse, first, last, fix, deshape, sort, sort-down, couple of equal shapes);
    every other primitive and all modifiers are under the release-mode monitor only. *)
From Coq Require Import List ZArith NArith Bool.
From UV Require Import Base.Value Model.Order Model.Flags Proofs.Flags.
Import ListNotations.

(** well-formedness (data length fits the shape, deeply; marks truthful w.r.t. C15's row order)
    is preserved by the modelled primitives *)
Theorem C05_wf_preserved : forall p args outs,
  proved p = true -> Forall wf args -> prim_c p args = Ok outs -> Forall wf outs.
Proof. exact wf_preserved. Qed.

(** each helper of the flag algebra preserves truthfulness under its side condition *)
Theorem C05_flag_algebra_sound :
  (forall v f, flags_okb v f = true -> flags_okb v (clear_sorted f) = true /\ flags_okb v (sorted_part f) = true) /\
  (forall v f, flags_okb v f = true -> flags_okb v (clear_value f) = true) /\
  (forall v f g, flags_okb v f = true -> flags_okb v (sorted_part g) = true -> flags_okb v (or_sorted f g) = true) /\
  (forall v f b, flags_okb v f = true -> (b = true -> up_ok v = true) -> flags_okb v (mark_up f b) = true) /\
  (forall v f b, flags_okb v f = true -> (b = true -> down_ok v = true) -> flags_okb v (mark_down f b) = true) /\
  (forall v self other, flags_okb v self = true -> flags_okb v (combine self other) = true) /\
  (forall v v' f, vrows v' = rev (vrows v) -> (bool_ok v = true -> bool_ok v' = true) ->
                  flags_okb v f = true -> flags_okb v' (reverse_sorted f) = true) /\
  (forall v f, (f_bool f = true -> bool_ok v = true) -> flags_okb v (derive_sortedness v f) = true) /\
  (forall v v' f, monotone_rows v v' -> flags_okb v (sorted_part f) = true -> flags_okb v' (sorted_part f) = true) /\
  (forall v v' f, antitone_rows v v' -> flags_okb v (sorted_part f) = true ->
                  flags_okb v' (sorted_part (reverse_sorted f)) = true) /\
  (forall v v' cur taken, flags_okb v' cur = true -> flags_okb v (sorted_part taken) = true ->
                  (match v' with VBox _ _ | VChar _ _ => True | _ => antitone_rows v v' end) ->
                  flags_okb v' (or_sorted_rev cur_ver v' cur taken) = true).
Proof. exact flag_algebra_sound. Qed.

(** sorting produces rows in ascending order of C15's ordering, for every element type *)
Theorem C05_sort_sorted : forall v, wf_shape v = true -> up_ok (vdata_rows_sorted le_b v) = true.
Proof. exact sort_sorted. Qed.

(** range of a natural below 257 is a well-formed byte array marked ascending *)
Theorem C05_range_bytes_wf : forall n, (n <= 256)%nat -> wf (p_range_nat n).
Proof. exact range_bytes_wf. Qed.

(** negating characters: the repaired rule gives no marks and is sound; the rule before the
    commit "fix: negating a character array must not mark the result as sorted" is refuted *)
Theorem C05_neg_chars_repaired : forall m swapped r,
  wf m -> length swapped = data_len (mv_v m) -> p_neg_chars true m swapped = Ok r -> wf r.
Proof. exact neg_chars_repaired. Qed.
Theorem C05_neg_chars_mark_refuted_pre :
  exists m swapped r, wf m /\ length swapped = data_len (mv_v m) /\
    p_neg_chars false m swapped = Ok r /\ wfb r = false.
Proof. exact neg_chars_mark_refuted_pre. Qed.

(** records of the mark defects repaired by the round-2 fix: commits (model of the code before
    them, [fixed = false]), each confirmed on the implementation at the time:
    f306b49 floor/ceil/round on complex and box arrays (`⌊⍆[ℂ5 1.2 ℂ0 1.7]`) *)
Theorem C05_floor_rule_refuted_pre :
  exists a out f, wf a /\ rule_flags false RFloor [a] out = Some f /\ wf_shape out = true /\ flags_okb out f = false.
Proof. exact floor_rule_refuted_pre. Qed.
(** eea1d01 `+ ⍆[¯∞ 1] ⍆[∞ ∞]`, 60de79d `÷ ¯0 ⇌⍆[0.5 149 ¯∞]`, 9703aa4 `÷ ⍆[¯1 1] 1` *)
Theorem C05_dyadic_rules_refuted_pre :
  rule_truthful false RAdd [w_add_a; w_add_b] w_add_out = false /\
  rule_truthful false RDiv [w_div0_a; w_div0_b] w_div0_out = false /\
  rule_truthful false RDiv [w_dvd_a; w_dvd_b] w_dvd_out = false.
Proof. exact dyadic_rules_refuted_pre. Qed.

(** the CURRENT rules on those classes: rounding gives sortedness marks to arrays of real
    numbers only, and is truthful whenever it maps the argument's rows monotonically *)
Theorem C05_round_rule_fixed_nonreal : forall p a out f, is_round p = true -> is_num_ty out = false ->
  rule_flags true p [a] out = Some f -> f_up f = false /\ f_down f = false.
Proof. exact round_rule_fixed_nonreal. Qed.
Theorem C05_round_rule_fixed : forall p a out f, is_round p = true ->
  flags_okb (mv_v a) (mv_f a) = true -> rule_flags true p [a] out = Some f ->
  (f_bool (mv_f a) = true -> bool_ok out = true) ->
  (is_num_ty out = true -> monotone_rows (mv_v a) out) -> flags_okb out f = true.
Proof. exact round_rule_fixed. Qed.
(** the repaired dyadic rules are truthful on the former witnesses, take marks from lists of
    real numbers only (never from the dividend side) and are truthful whenever the marks
    or-ed in hold of the result (NaN results excepted by the guard) *)
Theorem C05_dyadic_rules_fixed_witnesses :
  rule_truthful true RAdd [w_add_a; w_add_b] w_add_out = true /\
  rule_truthful true RDiv [w_div0_a; w_div0_b] w_div0_out = true /\
  rule_truthful true RDiv [w_dvd_a; w_dvd_b] w_dvd_out = true.
Proof. exact dyadic_rules_fixed_witnesses. Qed.
Theorem C05_pre_signed_fixed_guard : forall left a b l f, pre_signed true left a b l = Some f ->
  rank_le1 (mv_v a) = true /\ is_num_ty (mv_v a) = true /\ (forall s, left = Some s -> l = s).
Proof. exact pre_signed_fixed_guard. Qed.
Theorem C05_pre_scalar_fixed_guard : forall left a b l f, pre_scalar true left a b l = Some f ->
  rank_le1 (mv_v a) = true /\ (is_num_ty (mv_v a) || is_char_ty (mv_v a)) = true.
Proof. exact pre_scalar_fixed_guard. Qed.
Theorem C05_pre_both_fixed_guard : forall a b f, pre_both true a b = Some f ->
  rank_le1 (mv_v a) = true /\ rank_le1 (mv_v b) = true /\ nan_at_end (mv_v a) = false /\ nan_at_end (mv_v b) = false.
Proof. exact pre_both_fixed_guard. Qed.
Theorem C05_handle_pre_sound : forall ng res resf pa pb,
  flags_okb res resf = true ->
  (forall g, or_else pa pb = Some g -> ng && has_nan res = false -> flags_okb res (sorted_part g) = true) ->
  flags_okb res (handle_pre ng res resf pa pb) = true.
Proof. exact handle_pre_sound. Qed.

(** select: the mark rule (dyadic/structure.rs:1324-1414) is truthful when the result's rows are
    the rows of the selected-from array at the in-bounds positions [is] (which is what "every index
    is non-negative" guarantees: a negative index wraps to row_count + i) *)
Theorem C05_select_marks_sound : forall b out fb (is : list nat) d,
  flags_okb b fb = true ->
  vrows out = map (fun i => nth i (vrows b) d) is ->
  Forall (fun i => (i < length (vrows b))%nat) is ->
  let iu := chain Nat.leb is in
  let id := chain (fun x y => Nat.leb y x) is in
  flags_okb out (FL false (iu && f_up fb || id && f_down fb) (iu && f_down fb || id && f_up fb)) = true.
Proof. exact select_marks_sound. Qed.
(** and a rule that looks at the first index only is not: `⊏ [1 0 ¯1] ⍆[30 10 20]` *)
Theorem C05_select_first_index_rule_refuted :
  let out := VByte [3%nat] [20; 10; 30]%N in
  wf_shape out = true /\ flags_okb out (FL false false true) = false /\
  rule_flags true RSelect [MV (VNum [3%nat] [4607182418800017408; 0; 13830554455654793216]%N) fl_none;
                           MV (VByte [3%nat] [10; 20; 30]%N) (FL false true false)] out = Some fl_none.
Proof. exact select_first_index_rule_refuted. Qed.

(** take / drop with one integer amount and no fill (dyadic/structure.rs:491-612, 759-822) are now
    under C05_wf_preserved ([CTake z], [CDrop z]); their lemmas stated on their own: *)
Theorem C05_take1_wf : forall z m r, wf m -> p_take1 z m = Ok r -> wf r.
Proof. exact take1_wf. Qed.
Theorem C05_drop1_wf : forall z m r, wf m -> p_drop1 z m = Ok r -> wf r.
Proof. exact drop1_wf. Qed.

(** a result made of the rows of [b] at non-decreasing in-bounds positions keeps both
    sortedness marks; keep (scalar natural count or list of natural counts) is the instance
    with the positions [kidx 0 counts] *)
Theorem C05_monotone_selection_keeps_marks : forall b out fb bo (is : list nat) d,
  flags_okb b fb = true ->
  vrows out = map (fun i => nth i (vrows b) d) is ->
  Forall (fun i => (i < length (vrows b))%nat) is ->
  chain Nat.leb is = true ->
  (bo = true -> bool_ok out = true) ->
  flags_okb out (FL bo (f_up fb) (f_down fb)) = true.
Proof. exact monotone_selection_keeps_marks. Qed.
Theorem C05_keep_marks_sound : forall b out fb bo (cs : list nat) d,
  flags_okb b fb = true -> length cs = length (vrows b) ->
  vrows out = map (fun i => nth i (vrows b) d) (kidx 0 cs) ->
  (bo = true -> bool_ok out = true) ->
  flags_okb out (FL bo (f_up fb) (f_down fb)) = true.
Proof. exact keep_marks_sound. Qed.
(** rotate (and every primitive that clears the sortedness marks while moving elements) owes
    only the boolean mark *)
Theorem C05_cleared_marks_sound : forall v v' f, (bool_ok v = true -> bool_ok v' = true) ->
  flags_okb v f = true -> flags_okb v' (clear_sorted f) = true.
Proof. exact cleared_marks_sound. Qed.

(** non-vacuity: a non-trivial well-formed marked argument and a run of the model on it *)
Example C05_nonvacuous :
  let a := MV (VBox [3]%nat [VNum [2]%nat [0; F_NEG_ZERO]%N; VByte []%nat [3]%N; VChar [1]%nat [97]%N]) (FL false false false) in
  (wfb a &&
   match prim_c CSort [a] with Ok [o] => f_up (mv_f o) && wfb o | _ => false end &&
   match prim_c CReverse [MV (VByte [3]%nat [0; 1; 1]%N) (FL true true false)] with
   | Ok [o] => flags_eqb (mv_f o) (FL true false true) && wfb o | _ => false end) = true.
Proof. vm_compute. reflexivity. Qed.

Print Assumptions C05_wf_preserved.
Print Assumptions C05_flag_algebra_sound.
Print Assumptions C05_sort_sorted.
Print Assumptions C05_range_bytes_wf.
Print Assumptions C05_neg_chars_repaired.
Print Assumptions C05_neg_chars_mark_refuted_pre.
Print Assumptions C05_floor_rule_refuted_pre.
Print Assumptions C05_dyadic_rules_refuted_pre.
Print Assumptions C05_round_rule_fixed_nonreal.
Print Assumptions C05_round_rule_fixed.
Print Assumptions C05_dyadic_rules_fixed_witnesses.
Print Assumptions C05_pre_signed_fixed_guard.
Print Assumptions C05_pre_scalar_fixed_guard.
Print Assumptions C05_pre_both_fixed_guard.
Print Assumptions C05_handle_pre_sound.
Print Assumptions C05_select_marks_sound.
Print Assumptions C05_select_first_index_rule_refuted.
Print Assumptions C05_take1_wf.
Print Assumptions C05_drop1_wf.
Print Assumptions C05_monotone_selection_keeps_marks.
Print Assumptions C05_keep_marks_sound.
Print Assumptions C05_cleared_marks_sound.
