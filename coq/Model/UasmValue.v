(** C17 model, part (ii): values as JSON.
    Transcribed from src/array.rs:1406-1685 (ArrayRep, its From impls, ArrayValueSer, the
    collections, F64Rep), src/value.rs:26-43 (Value: untagged, order Byte Num Complex Char Box),
    src/boxed.rs:13-20 (BoxedRep {b}), parser/src/complex.rs:9-10 (Complex as (f64, f64)).
    serde's rule for an untagged enum: the FIRST variant that parses wins.  serde_json writes a
    non-finite f64 as null.  A float literal is taken to denote its nearest double (serde_json
    with float_roundtrip, /repo 41a5003).
    Every function takes [cur : bool]: [true] is the code now; [false] is the representation
    before /repo c00f690 (complex parts as bare f64), 6da1960 (a character list spelled like a
    named number written as a bare string), 1df8995 (every other NaN written as "NaN") and
    71ff4d9 (unknown metadata fields ignored).
    Labels and map keys are modelled at the top level of a value only. *)
From Coq Require Import List NArith Bool.
From UV Require Import Base.Value Model.Uasm.
Import ListNotations.
Open Scope N_scope.

Inductive json :=
| JNull | JBool (b : bool) | JInt (n : N) | JNeg (n : N) | JFloat (bits : f64)
| JStr (s : text) | JArr (l : list json) | JObj (l : list (text * json)).

(** a value with its top-level label and (normalised) map keys *)
Inductive mval := MV (v : value) (label : option text) (keys : option value).

Definition S_NAN : text := [78;97;78].
Definition S_W : text := [87].
Definition S_EMPTY : text := [101;109;112;116;121].
Definition S_TOMB : text := [116;111;109;98].
Definition S_INF : text := [8734].
Definition S_NINF : text := [45;8734].
Definition K_B : text := [98].
Definition K_NAN : text := [110;97;110].
Definition K_LABEL : text := [108;97;98;101;108].
Definition K_EMPTY_BOXES : text := [101;109;112;116;121;95;98;111;120;101;115].
Definition K_EMPTY_COMPLEX : text := [101;109;112;116;121;95;99;111;109;112;108;101;120].
Definition F_NEG_INF : f64 := 18442240474082181120.

(** the strings that F64Rep reserves for its unit variants *)
Definition is_spelling (s : text) : bool :=
  text_eqb s S_NAN || text_eqb s S_W || text_eqb s S_EMPTY || text_eqb s S_TOMB ||
  text_eqb s S_INF || text_eqb s S_NINF.

(** ---- writing *)
(** From<f64> for F64Rep; the newtype variant NaNBits(u64) is written {"nan":bits} *)
Definition f64rep_json (cur : bool) (x : f64) : json :=
  if f_is_nan x then
    if x =? F_WILD_NAN then JStr S_W else if x =? F_EMPTY_NAN then JStr S_EMPTY
    else if x =? F_TOMB_NAN then JStr S_TOMB
    else if cur then (if x =? F_NAN_BITS then JStr S_NAN else JObj [(K_NAN, JInt x)])
    else JStr S_NAN
  else if x =? F_INF_BITS then JStr S_INF else if x =? F_NEG_INF then JStr S_NINF else JFloat x.
(** serde_json on a bare f64 *)
Definition f64_json (x : f64) : json := if F_INF_BITS <=? f_mag x then JNull else JFloat x.
(** one complex number of a ComplexCollection::List *)
Definition pair_json (cur : bool) (c : f64 * f64) : json :=
  if cur then JArr [f64rep_json cur (fst c); f64rep_json cur (snd c)]
  else JArr [f64_json (fst c); f64_json (snd c)].
Definition shape_json (s : list nat) : json := JArr (map (fun n => JInt (N.of_nat n)) s).

Fixpoint to_json (cur : bool) (v : value) : json :=
  let wrap sh coll scalar :=
    match sh with
    | [] => match scalar with Some j => j | None => JArr [shape_json sh; coll] end
    | [_] => coll
    | _ => JArr [shape_json sh; coll]
    end in
  match v with
  | VNum sh d => wrap sh (JArr (map (f64rep_json cur) d)) (match d with x :: _ => Some (f64rep_json cur x) | [] => None end)
  | VByte sh d => wrap sh (JArr (map JInt d)) (match d with x :: _ => Some (JInt x) | [] => None end)
  | VChar sh d => if cur && is_spelling d then JArr [shape_json sh; JStr d]   (* list_reads_as_other_type *)
                  else wrap sh (JStr d) None
  | VCplx sh d => wrap sh (match d with
                           | [] => JObj [(K_EMPTY_COMPLEX, JArr [])]
                           | _ => JArr (map (pair_json cur) d) end) None
  | VBox sh d => wrap sh (match d with
                          | [] => JObj [(K_EMPTY_BOXES, JArr [])]
                          | _ => JArr (map (fun x => JObj [(K_B, to_json cur x)]) d) end)
                      (match d with x :: _ => Some (JObj [(K_B, to_json cur x)]) | [] => None end)
  end.

(** the collection alone (T::make_collection) *)
Definition coll_json (cur : bool) (v : value) : json :=
  match v with
  | VNum _ d => JArr (map (f64rep_json cur) d)
  | VByte _ d => JArr (map JInt d)
  | VChar _ d => JStr d
  | VCplx _ d => match d with [] => JObj [(K_EMPTY_COMPLEX, JArr [])]
                 | _ => JArr (map (pair_json cur) d) end
  | VBox _ d => match d with [] => JObj [(K_EMPTY_BOXES, JArr [])]
                | _ => JArr (map (fun x => JObj [(K_B, to_json cur x)]) d) end
  end.

(** From<Array<T>> for ArrayRep<T>, array.rs:1469: keys only -> Map; a label -> Full
    (label together with keys is outside the model) *)
Definition mto_json (cur : bool) (m : mval) : option json :=
  match m with
  | MV v None None => Some (to_json cur v)
  | MV v None (Some k) => Some (JArr [shape_json (shape_of v); to_json cur k; coll_json cur v])
  | MV v (Some l) None => Some (JArr [shape_json (shape_of v); coll_json cur v; JObj [(K_LABEL, JStr l)]])
  | MV _ (Some _) (Some _) => None
  end.

(** ---- reading *)
Definition opt_map {A B} (f : A -> option B) : list A -> option (list B) :=
  fix go l := match l with
              | [] => Some []
              | x :: t => match f x, go t with Some y, Some r => Some (y :: r) | _, _ => None end
              end.

Definition f_of_N (n : N) : f64 :=
  if n =? 0 then 0 else
  let k := N.log2 n in N.lor (N.shiftl (1023 + k) 52) (N.shiftl (n - N.shiftl 1 k) (52 - k)).
Definition p_u8 (j : json) : option N := match j with JInt n => if n <=? 255 then Some n else None | _ => None end.
Definition p_usize (j : json) : option nat := match j with JInt n => Some (N.to_nat n) | _ => None end.
Definition p_shape (j : json) : option (list nat) := match j with JArr l => opt_map p_usize l | _ => None end.
(** f64 accepts integers too (below 2^53 exactly) *)
Definition p_f64 (j : json) : option f64 :=
  match j with
  | JFloat b => Some b | JInt n => Some (f_of_N n)
  | JNeg n => Some (N.lor (f_of_N n) F_NEG_ZERO) | _ => None end.
(** F64Rep: the unit variants by name, the newtype variant {"nan":u64}, then the untagged Num(f64) *)
Definition unit_variant (s : text) : option f64 :=
  if text_eqb s S_NAN then Some F_NAN_BITS else if text_eqb s S_W then Some F_WILD_NAN
  else if text_eqb s S_EMPTY then Some F_EMPTY_NAN else if text_eqb s S_TOMB then Some F_TOMB_NAN
  else if text_eqb s S_INF then Some F_INF_BITS else if text_eqb s S_NINF then Some F_NEG_INF else None.
Definition p_f64rep (cur : bool) (j : json) : option f64 :=
  match j with
  | JStr s => unit_variant s
  | JObj [(k, JNull)] => unit_variant k            (* a unit variant also reads from {"name":null} *)
  | JObj [(k, JInt n)] => if cur && text_eqb k K_NAN && (n <? 18446744073709551616) then Some n else None
  | _ => p_f64 j
  end.
Definition p_complex (j : json) : option (f64 * f64) :=
  match j with
  | JArr [a; b] => match p_f64 a, p_f64 b with Some x, Some y => Some (x, y) | _, _ => None end
  | _ => None end.
(** one element of ComplexCollection::List: (F64Rep, F64Rep) now, Complex = (f64, f64) before *)
Definition p_complex_el (cur : bool) (j : json) : option (f64 * f64) :=
  if cur then
    match j with
    | JArr [a; b] => match p_f64rep cur a, p_f64rep cur b with Some x, Some y => Some (x, y) | _, _ => None end
    | _ => None end
  else p_complex j.
Fixpoint assoc (k : text) (l : list (text * json)) : option json :=
  match l with [] => None | (k', v) :: t => if text_eqb k k' then Some v else assoc k t end.

Definition rows (sh : list nat) : nat := match sh with [] => 1%nat | n :: _ => n end.
(** MapKeys::grow_to turns byte keys into numbers when the first key is inserted (map.rs:456);
    an empty key list is kept as it is *)
Definition to_num (v : value) : value := match v with VByte s (x :: d) => VNum s (map f_of_byte (x :: d)) | _ => v end.

(** TryFrom<ArrayRep<T>> for Array<T> (/repo 61c09df): the Map / Metaless / Full forms are refused
    unless the product of the shape equals the number of data elements (the List and Scalar forms
    make their own shape).  The check comes after the variant is chosen: no other variant of the
    same element type is tried when it fails. *)
Definition check_shape (cur : bool) (m : option mval) : option mval :=
  match m with
  | Some (MV v l k) => if cur && negb (Nat.eqb (data_len v) (shape_prod (shape_of v))) then None else Some (MV v l k)
  | None => None
  end.

Section Read.
  Variable cur : bool.
  (** [self] reads a nested Value (one level less fuel) *)
  Variable self : json -> option mval.

  (** BoxedRep {b}: now only from the object form (/repo 55312e0); the derived reader before also
      took the one-element sequence [v] *)
  Definition p_boxed (j : json) : option value :=
    match j with
    | JObj l => match assoc K_B l with
                | Some x => match self x with Some (MV v None None) => Some v | _ => None end
                | None => None end
    | JArr [x] => if cur then None else match self x with Some (MV v None None) => Some v | _ => None end
    | _ => None end.

  (** element kinds: 0 byte, 1 num, 2 complex, 3 char, 4 box.  [p_coll] gives the value with shape [sh] *)
  Definition p_coll (kind : nat) (sh : list nat) (j : json) : option value :=
    match kind, j with
    | 0%nat, JArr l => option_map (VByte sh) (opt_map p_u8 l)
    | 1%nat, JArr l => option_map (VNum sh) (opt_map (p_f64rep cur) l)
    | 2%nat, JObj [(k, JArr [])] => if text_eqb k K_EMPTY_COMPLEX then Some (VCplx sh []) else None
    | 2%nat, JArr l => option_map (VCplx sh) (opt_map (p_complex_el cur) l)
    | 3%nat, JStr s => Some (VChar sh s)
    | 4%nat, JObj [(k, JArr [])] => if text_eqb k K_EMPTY_BOXES then Some (VBox sh []) else None
    | 4%nat, JArr l => option_map (VBox sh) (opt_map p_boxed l)
    | _, _ => None
    end.
  Definition p_scalar (kind : nat) (j : json) : option value :=
    match kind with
    | 0%nat => option_map (fun x => VByte [] [x]) (p_u8 j)
    | 1%nat => option_map (fun x => VNum [] [x]) (p_f64rep cur j)
    | 2%nat => option_map (fun x => VCplx [] [x]) (p_complex j)
    | 3%nat => match j with JStr [c] => Some (VChar [] [c]) | _ => None end
    | _ => option_map (fun x => VBox [] [x]) (p_boxed j)
    end.
  (** ArrayMeta = Option<Arc<ArrayMetaInner>>.  Now (#[serde(deny_unknown_fields)], /repo 71ff4d9) an
      object with a field other than label / flags / map_keys is refused; before, unknown fields
      were ignored.  flags / map_keys fields are outside the model (read as "unsupported"). *)
  Definition p_meta (j : json) : option (option text) :=
    match j with
    | JNull => Some None
    | JObj l => if cur && negb (forallb (fun kv => text_eqb (fst kv) K_LABEL) l) then None else
                match assoc K_LABEL l with
                | Some (JStr s) => Some (Some s)
                | Some JNull => Some None
                | Some _ => None
                | None => Some None end
    | _ => None end.

  (** ArrayRep<T>: List, Scalar, Map, Metaless, Full - in this order *)
  Definition p_array (kind : nat) (j : json) : option mval :=
    let list_len v := match v with VNum _ d => length d | VByte _ d => length d | VChar _ d => length d
                                 | VCplx _ d => length d | VBox _ d => length d end in
    match p_coll kind [] j with
    | Some v => Some (MV (match v with
                          | VNum _ d => VNum [length d] d | VByte _ d => VByte [length d] d
                          | VChar _ d => VChar [length d] d | VCplx _ d => VCplx [length d] d
                          | VBox _ d => VBox [length d] d end) None None)
    | None =>
    match p_scalar kind j with
    | Some v => Some (MV v None None)
    | None =>
    let map_try := match j with
      | JArr [s; k; c] =>
          match p_shape s, self k with
          | Some sh, Some (MV kv None None) =>
              match p_coll kind sh c with
              | Some v => Some (MV v None (if Nat.eqb (rows (shape_of kv)) (rows sh) then Some (to_num kv) else None))
              | None => None end
          | _, _ => None end
      | _ => None end in
    check_shape cur
    (match map_try with
     | Some m => Some m
     | None =>
     match j with
     | JArr [s; c] => match p_shape s with
                      | Some sh => option_map (fun v => MV v None None) (p_coll kind sh c)
                      | None => None end
     | JArr [s; c; m] => match p_shape s, p_meta m with
                         | Some sh, Some lbl => option_map (fun v => MV v lbl None) (p_coll kind sh c)
                         | _, _ => None end
     | _ => None end end) end end.

  (** Value: Byte, Num, Complex, Char, Box - in this order *)
  Definition p_value (j : json) : option mval :=
    match p_array 0 j with Some m => Some m | None =>
    match p_array 1 j with Some m => Some m | None =>
    match p_array 2 j with Some m => Some m | None =>
    match p_array 3 j with Some m => Some m | None => p_array 4 j end end end end.
End Read.

Fixpoint of_json_fuel (cur : bool) (fuel : nat) (j : json) : option mval :=
  match fuel with
  | O => None
  | S f => p_value cur (of_json_fuel cur f) j
  end.
Definition of_json (cur : bool) (j : json) : option mval := of_json_fuel cur 12 j.

(** ---- comparison used by the tie: exact, bit for bit ([canon_f] is what the OLD representation kept of a NaN) *)
Definition canon_f (x : f64) : f64 :=
  if f_is_nan x then (if (x =? F_WILD_NAN) || (x =? F_EMPTY_NAN) || (x =? F_TOMB_NAN) then x else F_NAN_BITS) else x.
Fixpoint list_eqb {A} (e : A -> A -> bool) (a b : list A) : bool :=
  match a, b with [], [] => true | x :: a', y :: b' => e x y && list_eqb e a' b' | _, _ => false end.
Fixpoint value_same (a b : value) : bool :=
  match a, b with
  | VNum s d, VNum s' d' => list_eqb Nat.eqb s s' && list_eqb N.eqb d d'
  | VByte s d, VByte s' d' => list_eqb Nat.eqb s s' && list_eqb N.eqb d d'
  | VChar s d, VChar s' d' => list_eqb Nat.eqb s s' && list_eqb N.eqb d d'
  | VCplx s d, VCplx s' d' => list_eqb Nat.eqb s s' &&
      list_eqb (fun x y => (fst x =? fst y) && (snd x =? snd y)) d d'
  | VBox s d, VBox s' d' => list_eqb Nat.eqb s s' &&
      (fix go (x y : list value) : bool := match x, y with
         | [], [] => true | p :: x', q :: y' => value_same p q && go x' y' | _, _ => false end) d d'
  | _, _ => false
  end.
Definition opt_eqb {A} (e : A -> A -> bool) (a b : option A) : bool :=
  match a, b with None, None => true | Some x, Some y => e x y | _, _ => false end.
Definition mval_same (a b : mval) : bool :=
  match a, b with MV v l k, MV v' l' k' => value_same v v' && opt_eqb text_eqb l l' && opt_eqb value_same k k' end.
Fixpoint json_eqb (a b : json) : bool :=
  match a, b with
  | JNull, JNull => true | JBool x, JBool y => Bool.eqb x y | JInt x, JInt y => x =? y | JNeg x, JNeg y => x =? y
  | JFloat x, JFloat y => x =? y | JStr x, JStr y => text_eqb x y
  | JArr x, JArr y => (fix go (x y : list json) : bool := match x, y with
         | [], [] => true | p :: x', q :: y' => json_eqb p q && go x' y' | _, _ => false end) x y
  | JObj x, JObj y => (fix go (x y : list (text * json)) : bool := match x, y with
         | [], [] => true | (k, p) :: x', (k', q) :: y' => text_eqb k k' && json_eqb p q && go x' y' | _, _ => false end) x y
  | _, _ => false end.

(** a tie case: (the value that was written, if any; the JSON text as a tree; what the
    implementation read back, if it did) *)
Definition vcase_ok (cur : bool) (c : option mval * json * option mval) : bool :=
  let '(v, j, back) := c in
  match v with
  | Some m => match mto_json cur m with Some j' => json_eqb j' j | None => true end
  | None => true end &&
  opt_eqb mval_same (of_json cur j) back.

Fixpoint failing_from {A} (ok : A -> bool) (i : N) (l : list A) : list N :=
  match l with [] => [] | x :: t => (if ok x then [] else [i]) ++ failing_from ok (i + 1) t end.

(** ---- the sortedness marks of a value that is read (impl From<ArrayRep<T>> for Array<T>,
    "Update sortedness flags").  The writer strips all flags; the reader walks the rows once,
    comparing each row with the next (ArrayCmpSlice), and stops early when both directions are
    ruled out.  The loop only sees the comparison of adjacent rows, so it is modelled on that list:
      for row in rows { if !up && !down { break }
                        match cmp(curr, row) { Equal => {}, Less => down = false, Greater => up = false } } *)
Fixpoint scan_marks (up down : bool) (cs : list comparison) : bool * bool :=
  match cs with
  | [] => (up, down)
  | c :: t => if negb up && negb down then (up, down)
              else match c with
                   | Eq => scan_marks up down t
                   | Lt => scan_marks up false t
                   | Gt => scan_marks false down t
                   end
  end.
Definition recompute_marks (cs : list comparison) : bool * bool := scan_marks true true cs.

(** the truthful marks: sorted up = no adjacent pair is descending, sorted down = none ascending *)
Definition truthful_marks (cs : list comparison) : bool * bool :=
  (forallb (fun c => match c with Gt => false | _ => true end) cs,
   forallb (fun c => match c with Lt => false | _ => true end) cs).

(** tie case: adjacent row comparisons (0 Lt, 1 Eq, 2 Gt) and the two marks of the re-read value *)
Definition cmp_of_N (n : N) : comparison := if n =? 0 then Lt else if n =? 1 then Eq else Gt.
Definition marks_case_ok (c : list N * (bool * bool)) : bool :=
  let '(ns, (u, d)) := c in
  let '(u', d') := recompute_marks (map cmp_of_N ns) in Bool.eqb u u' && Bool.eqb d d'.
