(** C07 — iterating modifiers: the DEFINITIONS (apply F by hand to each row / element / pair /
    prefix and assemble, parser/src/defs.rs:2030-2140) and the specialised KERNELS the interpreter
    substitutes for them (src/algorithm/zip.rs f_mon_fast_fn, src/algorithm/monadic/mod.rs *_depth,
    src/algorithm/reduce.rs fast_reduce / generic_reduce_inner, src/compile/modifier.rs
    extract_node_pervasives).  Arrays and primitives are those of Model/Prims.v.
    Executable definitions only. *)
From Coq Require Import List ZArith NArith Bool Arith Lia.
From UV Require Import Model.Prims.
Import ListNotations.

(* ================================================================== definitions *)

Definition same_kind (a b : arr) : bool :=
  ety_eqb (aty b) (aty a) && list_eqb Nat.eqb (ash b) (ash a).
(** assembling result rows (Value::from_row_values without fill): all rows must agree in shape
    and element type.  Over an EMPTY mapped axis only the leading length 0 is meaningful
    (the property compares nothing else there). *)
Definition assemble (t0 : ety) (rs : list arr) : res arr :=
  match rs with
  | [] => Ok (Arr t0 [0%nat] [])
  | r :: t => if forallb (same_kind r) t then Ok (from_rows (aty r) (ash r) rs) else Err end.

(** rows (defs.rs:2057-2090): apply F to each row; "Scalars are considered to have one row" and
    the result for a scalar is F's result itself *)
Definition rows_def (F : arr -> res arr) (x : arr) : res arr :=
  match ash x with
  | [] => F x
  | _ :: _ => rs <- mapM F (rows x) ;; assemble (aty x) rs end.
Fixpoint rows_iter (k : nat) (F : arr -> res arr) : arr -> res arr :=
  match k with O => F | S k' => rows_def (rows_iter k' F) end.

(** each (defs.rs:2031-2050): every element *)
Definition elems (x : arr) : list arr := map (fun e => Arr (aty x) [] [e]) (adata x).
Definition each_def (F : arr -> res arr) (x : arr) : res arr :=
  rs <- mapM F (elems x) ;;
  match rs with
  | [] => Ok (Arr (aty x) (ash x) [])
  | r :: t => if forallb (same_kind r) t
              then Ok (Arr (aty r) (ash x ++ ash r) (concat (map adata rs))) else Err end.

(** inventory (defs.rs:2091-2126): "each unboxed row ... and re-box the results"; "For non-box
    arrays, inventory works identically to rows, except it boxes each result row" *)
Definition unbox_row (r : arr) : arr :=
  match aty r, ash r, adata r with TBox, [], [EBox t s d] => Arr t s d | _, _, _ => r end.
Definition box_elem (a : arr) : elem := EBox (aty a) (ash a) (adata a).
Definition inventory_def (F : arr -> res arr) (x : arr) : res arr :=
  match ash x with
  | [] => y <- F (unbox_row x) ;; Ok (p_box y)
  | _ :: _ => rs <- mapM (fun r => F (unbox_row r)) (rows x) ;;
              Ok (Arr TBox [length rs] (map box_elem rs)) end.

(** table (defs.rs:2127-2150): "each combination of rows"; the shape starts with the two lengths *)
Definition table_def (F : arr -> arr -> res arr) (x y : arr) : res arr :=
  rows_def (fun a => rows_def (fun b => F a b) y) x.

(** reduce (defs.rs:1960-1985): left fold over the rows; F's first argument is the accumulator.
    An empty array gives the identity when the function has one, else fails. *)
Fixpoint foldM (F : arr -> arr -> res arr) (acc : arr) (l : list arr) : res arr :=
  match l with [] => Ok acc | r :: t => a <- F acc r ;; foldM F a t end.
Definition reduce_def (F : arr -> arr -> res arr) (ident : option elem) (x : arr) : res arr :=
  match ash x with
  | [] => Ok x
  | _ :: s =>
    match rows x with
    | [] => match ident with Some e => Ok (Arr TNum s (repeat e (prodn s))) | None => Unspec end
    | r :: t => foldM F r t end end.
(** scan (defs.rs:2009-2030): the accumulated prefixes *)
Fixpoint scanM (F : arr -> arr -> res arr) (acc : arr) (l : list arr) : res (list arr) :=
  match l with [] => Ok [] | r :: t => a <- F acc r ;; rest <- scanM F a t ;; Ok (a :: rest) end.
Definition scan_def (F : arr -> arr -> res arr) (x : arr) : res arr :=
  match ash x with
  | [] => Err
  | _ :: _ => match rows x with
              | [] => Ok (Arr (aty x) [0%nat] [])
              | r :: t => rs <- scanM F r t ;; assemble (aty x) (r :: rs) end end.
(** fold (defs.rs:1986-2008): F gets the row first, the accumulator second *)
Definition fold_def (F : arr -> arr -> res arr) (x acc : arr) : res arr :=
  foldM (fun a r => F r a) acc (rows x).
Fixpoint repeat_def (F : arr -> res arr) (n : nat) (x : arr) : res arr :=
  match n with O => Ok x | S n' => y <- F x ;; repeat_def F n' y end.

(* ================================================================== operands *)

(** the catalogue of monadic operands; [FSeq f g] runs f, then g *)
Inductive mfn :=
| FId | FRev | FTrans | FFirst | FLast | FSort | FDeshape | FFix | FBox
| FPerv (o : pop1) | FLen | FShape
| FReduce (o : pop2)
| FRows (f : mfn)
| FSeq (f g : mfn).

Definition red_ident (o : pop2) : option elem :=
  match o with PAdd | PSub => Some (ENum 0) | PMul => Some (ENum 1) | _ => None end.
Definition red2 (o : pop2) : arr -> arr -> res arr := fun acc r => p_perv2 o None acc r.

(** the meaning of an operand BY DEFINITION *)
Fixpoint sem (f : mfn) (x : arr) : res arr :=
  match f with
  | FId => Ok x
  | FRev => Ok (p_reverse x)
  | FTrans => Ok (p_transpose x)
  | FFirst => p_first None x
  | FLast => p_last None x
  | FSort => p_sort x
  | FDeshape => Ok (p_deshape x)
  | FFix => Ok (p_fix x)
  | FBox => Ok (p_box x)
  | FPerv o => p_perv1 o x
  | FLen => Ok (p_len x)
  | FShape => Ok (p_shape x)
  | FReduce o => reduce_def (red2 o) (red_ident o) x
  | FRows g => rows_def (sem g) x
  | FSeq g h => y <- sem g x ;; sem h y
  end.

(* ================================================================== depth kernels *)

(** [depth = depth.min(self.rank())] opens every *_depth function *)
Definition dmin (d : nat) (x : arr) : nat := Nat.min d (length (ash x)).
(** the flat data cut at depth d: prod(shape[..d]) blocks of prod(shape[d..]) elements
    (chunks_exact(chunk_size) yields exactly that many for a valid array, C05) *)
Definition blocks (d : nat) (x : arr) : list (list elem) :=
  chunk (prodn (skipn d (ash x))) (prodn (firstn d (ash x))) (adata x).

(* reverse_depth, monadic/mod.rs:1153-1195 *)
Definition rev_block (n rl : nat) (blk : list elem) : list elem := concat (rev (chunk rl n blk)).
Definition k_reverse (d : nat) (x : arr) : arr :=
  let d := dmin d x in
  match skipn d (ash x) with
  | [] => x
  | n :: rest =>
      if Nat.eqb (prodn (n :: rest)) 0 then x else
      Arr (aty x) (ash x) (concat (map (rev_block n (prodn rest)) (blocks d x))) end.

(* transpose_depth(depth, 1), monadic/mod.rs:1219-1300 *)
Definition trans_block (n rl : nat) (blk : list elem) : list elem := concat (cols rl (chunk rl n blk)).
Definition k_transpose (d : nat) (x : arr) : arr :=
  match ash x with [] => x | _ =>
  let d := dmin d x in
  let rank := length (ash x) in
  let tc := (1 mod rank)%nat in
  if Nat.ltb (rank - d) 2 || Nat.eqb (d + tc) rank || Nat.eqb tc 0 then x else
  match skipn d (ash x) with
  | [] => x
  | n :: rest =>
      let sh' := firstn d (ash x) ++ rest ++ [n] in
      if existsb (Nat.eqb 0) (n :: rest) || (Nat.ltb 0 d && Nat.eqb (nth (d - 1) (ash x) 1%nat) 0)
      then Arr (aty x) sh' (adata x)
      else Arr (aty x) sh' (concat (map (trans_block n (prodn rest)) (blocks d x))) end end.

(* first_depth / last_depth, monadic/mod.rs:1017-1170 (no fill value set).  Since commit 09b3e8b
   an empty axis ABOVE the depth means there is no row to take the first of: the axis is removed
   and nothing fails.  [pre = true]: the code before it, which failed on empty rows regardless. *)
Definition no_cells (pre : bool) (d : nat) (x : arr) : bool :=
  negb pre && existsb (Nat.eqb 0) (firstn d (ash x)).
Definition k_first (pre : bool) (d : nat) (x : arr) : res arr :=
  let d := dmin d x in
  match d with O => p_first None x | _ =>
  match skipn d (ash x) with
  | [] => Ok x
  | n :: rest =>
    if no_cells pre d x then Ok (Arr (aty x) (firstn d (ash x) ++ rest) (adata x)) else
    match n with
    | O => Err
    | 1%nat => Ok (Arr (aty x) (firstn d (ash x) ++ rest) (adata x))
    | _ => Ok (Arr (aty x) (firstn d (ash x) ++ rest) (concat (map (firstn (prodn rest)) (blocks d x))))
    end end end.
Definition k_last (pre : bool) (d : nat) (x : arr) : res arr :=
  let d := dmin d x in
  match d with O => p_last None x | _ =>
  match skipn d (ash x) with
  | [] => Ok x
  | n :: rest =>
    if no_cells pre d x then Ok (Arr (aty x) (firstn d (ash x) ++ rest) (adata x)) else
    match n with
    | O => Err
    | 1%nat => Ok (Arr (aty x) (firstn d (ash x) ++ rest) (adata x))
    | _ => Ok (Arr (aty x) (firstn d (ash x) ++ rest)
                 (concat (map (skipn ((n - 1) * prodn rest)) (blocks d x))))
    end end end.

(* sort_up_depth, monadic/sort.rs:244-288 (sortedness marks are not modelled: C06) *)
Definition k_sort (d : nat) (x : arr) : res arr :=
  if negb (sortable x) then Unspec else
  let d := dmin d x in
  if Nat.eqb (length (ash x)) d || Nat.eqb (prodn (ash x)) 0 then Ok x else
  match skipn d (ash x) with
  | [] => Ok x
  | n :: rest =>
      if Nat.eqb (prodn (n :: rest)) 0 || Nat.eqb (prodn rest) 0 then Ok x else
      Ok (Arr (aty x) (ash x)
            (concat (map (fun blk => concat (isort row_le (chunk (prodn rest) n blk))) (blocks d x)))) end.

(* deshape_depth, monadic/mod.rs:42-51; fix_depth, shape.rs:112-116 *)
Definition k_deshape (d : nat) (x : arr) : arr :=
  let d := dmin d x in Arr (aty x) (firstn d (ash x) ++ [prodn (skipn d (ash x))]) (adata x).
Definition k_fix (d : nat) (x : arr) : arr :=
  let d := dmin d x in Arr (aty x) (firstn d (ash x) ++ 1%nat :: skipn d (ash x)) (adata x).

(* box_depth, monadic/mod.rs:737-754 with Array::into_row_shaped_slices, array.rs:587-603:
   data.into_slices(row_len) yields len/row_len slices; when row_len = 0 it yields
   prod(shape[..rank - row_shape.len()]) empty slices (since commit 3374592).
   [pre = true]: the code before that commit, which yielded [self.row_count()] empty slices -
   the length of the FIRST axis, whatever the depth *)
Definition k_box (pre : bool) (d : nat) (x : arr) : arr :=
  let d := dmin d x in
  match d with O => p_box x | _ =>
  let rs := skipn d (ash x) in
  let cnt := if Nat.eqb (prodn rs) 0
             then (if pre then nrows (ash x) else prodn (firstn (length (ash x) - length rs) (ash x)))
             else (length (adata x) / prodn rs)%nat in
  Arr TBox (firstn d (ash x)) (map (EBox (aty x) rs) (chunk (prodn rs) cnt (adata x))) end.

(** the same written with [blocks]: one slice per cell at that depth *)
Definition k_box_fixed (d : nat) (x : arr) : arr :=
  let d := dmin d x in
  match d with O => p_box x | _ =>
  Arr TBox (firstn d (ash x)) (map (EBox (aty x) (skipn d (ash x))) (blocks d x)) end.

(* ================================================================== reduce kernels *)

(** fast_reduce, reduce.rs:507-612, on number arrays without fill; [f acc b] *)
Fixpoint fold_rows (f : elem -> elem -> res elem) (acc : list elem) (rs : list (list elem)) : res (list elem) :=
  match rs with
  | [] => Ok acc
  | r :: t => a <- mapM (fun ab => f (fst ab) (snd ab)) (combine acc r) ;; fold_rows f a t end.
Definition pel_acc (o : pop2) : elem -> elem -> res elem := fun acc b => pel2 o acc b.
Definition k_reduce_num (o : pop2) (d : nat) (x : arr) : res arr :=
  match aty x with TNum =>
  let d := dmin d x in
  let f := pel_acc o in
  let rank := length (ash x) in
  if Nat.eqb rank d then Ok x else
  match skipn d (ash x) with
  | [] => Ok x
  | n :: rest =>
      let crl := prodn rest in
      if Nat.eqb (prodn (n :: rest)) 0 then
        (* chunk_len == 0 (or an empty list / no rows at depth 0): the identity fills the result *)
        match red_ident o with
        | Some e => Ok (Arr TNum (firstn d (ash x) ++ rest) (repeat e (prodn (firstn d (ash x)) * crl)))
        | None => Unspec end        (* infinities are not representable in the reference arrays *)
      else
        ds <- mapM (fun blk => match chunk crl n blk with
                               | [] => Ok []
                               | a :: t => fold_rows f a t end) (blocks d x) ;;
        Ok (Arr TNum (firstn d (ash x) ++ rest) (concat ds))
  end
  | _ => Unspec end.

(** the sorted-list shortcut of reduce_nums (reduce.rs:430-465): a list marked sorted-up gives its
    last (max) / first (min) element.  [pre] = the condition before commit 73cdc70 (no test on depth). *)
Definition k_reduce_minmax (pre : bool) (sorted_up : bool) (o : pop2) (d : nat) (x : arr) : res arr :=
  let cond := (pre || Nat.eqb d 0) && Nat.eqb (length (ash x)) 1 && sorted_up in
  match o, cond, adata x with
  | PMax, true, _ :: _ => Ok (Arr TNum [] [last (adata x) zero_elem])
  | PMin, true, e :: _ => Ok (Arr TNum [] [e])
  | _, _, _ => k_reduce_num o d x end.

(** generic_reduce_inner for a dyadic function, reduce.rs:672-760: at depth > 0 the rows are
    reduced one level down and re-assembled with rows_to_value.  Since commit 68a793c the depth
    is first limited to the rank ("rows of a scalar are the scalar itself").  [pre = true]: the
    code before it, where a scalar row was treated as a one-row array and its single result NOT
    unwrapped (contrast rows1's is_scalar / undo_fix) *)
Fixpoint k_reduce_gen (pre : bool) (F : arr -> arr -> res arr) (ident : option elem) (d : nat) (x : arr) : res arr :=
  match d with
  | O => reduce_def F ident x
  | S d' =>
      match ash x with
      | O :: _ => Unspec                       (* empty: reduce_identity / best effort *)
      | [] => if pre then rs <- mapM (k_reduce_gen pre F ident d') [x] ;; assemble (aty x) rs
              else reduce_def F ident x
      | _ => rs <- mapM (k_reduce_gen pre F ident d') (rows x) ;; assemble (aty x) rs end end.

(* ================================================================== fast-path selection *)

Inductive katom := KId | KRev | KTrans | KFirst | KLast | KSort | KDeshape | KFix | KBox
                 | KPerv (o : pop1) | KReduce (o : pop2).

Definition run_katom (a : katom) (d : nat) (x : arr) : res arr :=
  match a with
  | KId => Ok x
  | KRev => Ok (k_reverse d x)
  | KTrans => Ok (k_transpose d x)
  | KFirst => k_first false d x
  | KLast => k_last false d x
  | KSort => k_sort d x
  | KDeshape => Ok (k_deshape d x)
  | KFix => Ok (k_fix d x)
  | KBox => Ok (k_box false d x)
  | KPerv o => p_perv1 o x                       (* pervasive kernels ignore the depth *)
  | KReduce o =>
      match aty x with
      | TNum => k_reduce_num o d x                (* reduce_nums / fast_reduce *)
      | _ => k_reduce_gen false (red2 o) (red_ident o) d x end
  end.
Fixpoint run_kernels (ks : list katom) (d : nat) (x : arr) : res arr :=
  match ks with [] => Ok x | k :: t => y <- run_katom k d x ;; run_kernels t d y end.

(** prim_mon_fast_fn (zip.rs:47-83) and the Reduce arm of f_mon_fast_fn_impl (zip.rs:183-192).
    [deep]: the node is one segment of a composite; box is refused there (zip.rs:158-163). *)
Definition atom_kernel (deep : bool) (f : mfn) : option katom :=
  match f with
  | FId => Some KId
  | FRev => Some KRev | FTrans => Some KTrans | FFirst => Some KFirst | FLast => Some KLast
  | FSort => Some KSort | FDeshape => Some KDeshape | FFix => Some KFix
  | FBox => if deep then None else Some KBox
  | FPerv o => Some (KPerv o)
  | FReduce o => Some (KReduce o)
  | _ => None end.

Fixpoint flatten (f : mfn) : list mfn :=
  match f with FSeq g h => flatten g ++ flatten h | _ => [f] end.

(** f_mon_fast_fn / f_mon_fast_fn_impl, zip.rs:133-248: Some (kernels in execution order, depth).
    [fast_fn]: deep = false (a whole operand); [fast_seg]: the segments of a composite
    (deep = true).  All segments must report the same depth (zip.rs:223-225); `rows` adds one. *)
Definition bump (kd : list katom * nat) : list katom * nat := (fst kd, S (snd kd)).
Definition merge (a b : option (list katom * nat)) : option (list katom * nat) :=
  match a, b with
  | Some (k1, d1), Some (k2, d2) => if Nat.eqb d1 d2 then Some (k1 ++ k2, d1) else None
  | _, _ => None end.
Fixpoint fast_fn (f : mfn) : option (list katom * nat) :=
  match f with
  | FRows h => option_map bump (fast_fn h)
  | FSeq g h => merge (fast_seg g) (fast_seg h)
  | _ => option_map (fun k => ([k], 0%nat)) (atom_kernel false f) end
with fast_seg (f : mfn) : option (list katom * nat) :=
  match f with
  | FRows h => option_map bump (fast_fn h)
  | FSeq g h => merge (fast_seg g) (fast_seg h)
  | _ => option_map (fun k => ([k], 0%nat)) (atom_kernel true f) end.

(** what the interpreter computes for an operand: rows1 (zip.rs:649-700) asks f_mon_fast_fn for
    its operand and calls the kernel at depth min (d + 1) (rank x) (the limit to the rank: commit
    68a793c), else loops over the rows *)
Fixpoint exec_mfn (f : mfn) (x : arr) : res arr :=
  match f with
  | FRows g => match fast_fn g with
               | Some (ks, d) => run_kernels ks (Nat.min (S d) (length (ash x))) x
               | None => rows_def (exec_mfn g) x end
  | FSeq g h => y <- exec_mfn g x ;; exec_mfn h y
  | FReduce o => run_katom (KReduce o) 0 x
  | _ => sem f x end.

Fixpoint rowsk (k : nat) (f : mfn) : mfn := match k with O => f | S k' => FRows (rowsk k' f) end.

(** inventory's compile-time split (compile/modifier.rs:2366-2420): a pervasive SUFFIX of the
    operand is pulled out of the modifier.  When nothing is left, rows and table disappear, but
    inventory stays with the identity as its function (boxes_results, since commit f64950a);
    [pre = true]: before that commit inventory disappeared too *)
Definition is_perv (f : mfn) : bool := match f with FPerv _ => true | _ => false end.
Fixpoint split_perv (l : list mfn) : list mfn * list mfn :=   (* (kept inside, extracted) of a reversed list *)
  match l with
  | f :: t => if is_perv f then let (k, e) := split_perv t in (k, e ++ [f]) else (rev l, [])
  | [] => ([], []) end.
Definition seq_sem (l : list mfn) (x : arr) : res arr :=
  fold_left (fun r f => y <- r ;; sem f y) l (Ok x).
(** pervasives reach into boxes: G applied to each box's content *)
Definition in_boxes (G : arr -> res arr) (y : arr) : res arr :=
  match aty y with
  | TBox => ds <- mapM (fun e => match e with
                                 | EBox t s d => z <- G (Arr t s d) ;; Ok (box_elem z)
                                 | _ => Unspec end) (adata y) ;;
            Ok (Arr TBox (ash y) ds)
  | _ => Unspec end.
Definition exec_inventory (pre : bool) (f : mfn) (x : arr) : res arr :=
  let (kept, extracted) := split_perv (rev (flatten f)) in
  match kept, pre with
  | [], true => seq_sem extracted x                   (* `return extracted`: no inventory at all *)
  | _, _ => y <- inventory_def (seq_sem kept) x ;; in_boxes (seq_sem extracted) y end.

(* ================================================================== tie *)

Definition arr_eqr (a b : arr) : bool :=
  list_eqb Nat.eqb (ash a) (ash b) && row_eqb (adata a) (adata b) &&
  (ety_eqb (aty a) (aty b) || match adata a with [] => true | _ => false end).
Fixpoint first_zero (l : list nat) : option nat :=
  match l with [] => None | O :: _ => Some O | _ :: t => option_map S (first_zero t) end.
(** the property's relation between a definition's outcome and the observed one *)
Definition agree_b (lead : list nat) (r : res arr) (obs : option arr) : bool :=
  match first_zero lead with
  | Some i => match r, obs with
              | Ok a, Some b => list_eqb Nat.eqb (firstn (S i) (ash a)) (firstn (S i) (ash b))
              | _, _ => false end
  | None => match r, obs with
            | Ok a, Some b => arr_eqr a b
            | Err, None => true
            | _, _ => false end end.
Definition exact_b (r : res arr) (obs : option arr) : bool :=
  match r, obs with Ok a, Some b => arr_eqr a b | Err, None => true | _, _ => false end.
Definition is_unspec (r : res arr) : bool := match r with Unspec => true | _ => false end.

(** how many axes the operand itself maps over (rows inside the operand) *)
Fixpoint rows_depth (f : mfn) : nat :=
  match f with FRows g => S (rows_depth g) | FSeq g h => Nat.max (rows_depth g) (rows_depth h) | _ => O end.

Record kcase := KC { kc_f : mfn; kc_k : nat; kc_x : arr; kc_out : option arr }.
(** bit 1: faithful model <> implementation; bit 2: definition <> implementation (under the
    property's relation); bit 4 / 8: model / definition undetermined; bit 16: a fast path was used *)
Definition kcase_code (c : kcase) : N :=
  let p := rowsk (kc_k c) (kc_f c) in
  let lead := firstn (kc_k c + rows_depth (kc_f c)) (ash (kc_x c)) in
  let fast := match fast_fn p with Some _ => true | None => false end in
  let m := exec_mfn p (kc_x c) in
  let s := sem p (kc_x c) in
  ((if is_unspec m then 4 else
      if (if fast then exact_b m (kc_out c) else agree_b lead m (kc_out c)) then 0 else 1) +
   (if is_unspec s then 8 else if agree_b lead s (kc_out c) then 0 else 2) +
   (if fast then 16 else 0))%N.
Definition kcodes (cs : list kcase) : list N := map kcase_code cs.
