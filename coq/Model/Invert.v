(** C03 - the inversion engine on the exactly-invertible catalogue.
    [tn]: straight-line templates as the real compiler emits them (exported by harness/src/bin/c03.rs
    `tn`, primitives by NAME), their reference semantics over the arrays of Model/Prims.v, and
    [cinv]: a transcription of what `un_inverse` (src/compile/invert/un.rs) does on the catalogue:
    PrimPat / ImplPrimPat arms (un.rs `PrimPat`), InnerAnti with ANTI_PATTERNS entries
    `(Add, Sub) (Sub, Add) (Rotate, AntiRotate) (AntiRotate, Rotate)` (un.rs:262-272),
    JoinPat's last branch for a join preceded by a dipped function (un.rs:820-930, parameter [fixed]:
    before / after commit 8f54207), DipPat / BothPat / ImplBothPat /
    BracketPat (un.rs:440-490) and the reversal of sequences (un_inverse_impl `node.prepend`, un.rs:70-96).
    Executable definitions only. *)
From Coq Require Import List ZArith NArith Bool Arith Lia.
From UV Require Import Model.Prims.
Import ListNotations.

Inductive pname :=
| P_Identity | P_Flip | P_Neg | P_Not | P_Reverse | P_Transpose | P_Couple | P_UnCouple | P_Box | P_UnBox | P_Fix | P_UnFix
| P_Add | P_Sub | P_Mul | P_Div | P_Rotate | P_AntiRotate | P_Join | P_UnJoin | P_UnJoinShape | P_UnJoinShape2 | P_MatchPattern
| P_Shape | P_Dup | P_Over | P_Pop | P_Bits | P_UnBits | P_Utf8 | P_UnUtf8 | P_Where | P_UnWhere | P_Len | P_First | P_Last
| P_Deshape | P_Take | P_Drop | P_Select | P_Pick | P_Keep | P_Rise | P_Fall | P_Sort | P_Classify | P_Deduplicate | P_Range
| P_Reshape | P_Rerank | P_UndoFirst | P_UndoLast | P_UndoTake | P_UndoDrop | P_UndoSelect | P_UndoPick | P_UndoKeep
| P_UndoDeshape | P_UndoFix | P_UndoRotate | P_UndoReverse | P_UndoReshape | P_UndoRerank | P_UndoWhere | P_UndoInsert
| P_UndoRemove | P_UndoGet | P_Get | P_Insert | P_Remove | P_AntiDrop | P_AntiSelect | P_AntiPick | P_AntiKeep | P_UndoUnBits
| P_UndoJoin | P_UndoClassify | P_UndoDeduplicate | P_UndoSort | P_UndoRise | P_UndoFall | P_Unique | P_UndoPartition1
| P_UndoPartition2 | P_UndoGroup1 | P_UndoGroup2 | P_Has
| P_TransposeN (k : Z).

Inductive tn :=
| TPush (z : Z)
| TP (p : pname)
| TRun (l : list tn)
| TDip (f : list tn)
| TDipN (k : nat) (f : list tn)
| TBoth (a o : nat) (f : list tn)
| TUnBoth (a o : nat) (f : list tn)
| TBracket (a o : nat) (f : list tn) (a' o' : nat) (g : list tn)
| TUnBracket (a o : nat) (f : list tn) (a' o' : nat) (g : list tn)
| TRows (a o : nat) (f : list tn)
| TOn (a o : nat) (f : list tn)
| TBy (a o : nat) (f : list tn)
| TFill (fl f : list tn)
| TPushU (k : nat) | TCopyU (k : nat) | TPopU (k : nat)
| TOther.

Definition pname_eq_dec (x y : pname) : {x = y} + {x <> y}.
Proof. decide equality; apply Z.eq_dec. Defined.
Fixpoint tn_eq_dec (x y : tn) {struct x} : {x = y} + {x <> y}.
Proof.
  decide equality; try apply Z.eq_dec; try apply Nat.eq_dec; try apply pname_eq_dec;
    apply (list_eq_dec tn_eq_dec).
Defined.
Definition tnl_eqb (f g : list tn) : bool := if list_eq_dec tn_eq_dec f g then true else false.

(* ------------------------------------------------------------------ values *)

(** integers exactly representable, valid code points, boxes of such *)
Fixpoint elem_okb (e : elem) : bool :=
  match e with
  | ENum z => (Z.abs z <? big)%Z
  | EChar c => valid_char (Z.of_N c)
  | EBox _ sh d => Nat.eqb (length d) (prodn sh) && forallb elem_okb d end.
Definition arr_okb (a : arr) : bool := wfb a && forallb elem_okb (adata a).

Definition st := (list arr * list arr)%type.      (* stack, context ("under") stack; top first *)
Definition st_okb (s : st) : bool := forallb arr_okb (fst s) && forallb arr_okb (snd s).

Definition ck (v : arr) (r : list arr) : res (list arr) := if arr_okb v then Ok (v :: r) else Unspec.
Definition ck2 (v w : arr) (r : list arr) : res (list arr) :=
  if arr_okb v && arr_okb w then Ok (v :: w :: r) else Unspec.

(** a pervasive dyadic function with a scalar first argument *)
Definition scalar_perv (o : pop2) (c : Z) (x : arr) : res arr := p_perv2 o None (num c) x.

(** rotate the rows by a scalar amount (defs.rs rotate: "Rotate the elements of an array by n") *)
Definition rot_by (k : Z) (x : arr) : res arr :=
  match ash x with
  | [] => Unspec
  | n :: s =>
      if Nat.eqb n 0 then Ok x else
      let j := Z.to_nat (k mod Z.of_nat n) in
      Ok (Arr (aty x) (n :: s) (concat (rotl j (chunk (prodn s) n (adata x))))) end.

(** the trailing axis becomes the leading one: TransposeN(-1) *)
Definition p_untranspose (a : arr) : arr :=
  match rev (ash a) with
  | n :: (_ :: _) as rs =>
      let t := rev rs in
      Arr (aty a) (n :: t) (concat (cols n (chunk n (prodn t) (adata a))))
  | _ => a end.
Fixpoint iter {A} (k : nat) (f : A -> A) (x : A) : A := match k with O => x | S k' => f (iter k' f x) end.
Definition transpose_n (k : Z) (a : arr) : arr :=
  if (0 <=? k)%Z then iter (Z.to_nat k) p_transpose a else iter (Z.to_nat (- k)) p_untranspose a.

(** couple / un-couple on the exactly-invertible sub-domain: equal types and shapes *)
Definition couple_eq (a b : arr) : res arr :=
  if ety_eqb (aty a) (aty b) && list_eqb Nat.eqb (ash a) (ash b)
  then Ok (Arr (aty a) (2%nat :: ash a) (adata a ++ adata b)) else Unspec.
Definition uncouple (x : arr) : res (arr * arr) :=
  match ash x with
  | 2%nat :: s => Ok (Arr (aty x) s (firstn (prodn s) (adata x)), Arr (aty x) s (skipn (prodn s) (adata x)))
  | _ => Err end.
Definition unfix (x : arr) : res arr :=
  match ash x with 1%nat :: s => Ok (Arr (aty x) s (adata x)) | _ => Err end.
Definition is_box_scalar (x : arr) : bool :=
  match aty x, ash x, adata x with TBox, [], [EBox _ _ _] => true | _, _, _ => false end.

(** join a scalar onto the front of a list of the same type (the literal case of the catalogue) *)
Definition join_scalar (a b : arr) : res arr :=
  match ash a, ash b, adata a with
  | [], [n], [e] => if ety_eqb (aty a) (aty b) then Ok (Arr (aty b) [S n] (e :: adata b)) else Unspec
  | _, _, _ => Unspec end.
(** UnJoinShape with an empty shape argument: split off the first element of a list
    (algorithm/dyadic/combine.rs unjoin_shape, scalar-first case) *)
Definition unjoin_scalar (sh x : arr) : res (arr * arr) :=
  match ash sh, ash x, adata x with
  | [O], [S n], e :: d => Ok (Arr (aty x) [] [e], Arr (aty x) [n] d)
  | [O], [O], _ => Err
  | [], [n], d =>
      (* `push k, UnJoinShape` (JoinPat with count k > 1): the first k elements as a list, and the rest *)
      match adata sh with
      | [ENum k] => if ((0 <=? k) && (k <=? Z.of_nat n))%Z
                    then Ok (Arr (aty x) [Z.to_nat k] (firstn (Z.to_nat k) d), Arr (aty x) [(n - Z.to_nat k)%nat] (skipn (Z.to_nat k) d))
                    else Err
      | _ => Unspec end
  | _, _, _ => Unspec end.

(** ×c and ÷c with a literal integer c, on integer-valued number arrays where the result is exact:
    the product must stay below 2^53, the quotient must be whole (defs.rs multiply / divide) *)
Definition scalar_mul (c : Z) (x : arr) : res arr :=
  match aty x with
  | TNum => d <- mapM (fun e => match e with ENum z => znum (z * c) | _ => Unspec end) (adata x) ;; Ok (Arr TNum (ash x) d)
  | _ => Unspec end.
Definition scalar_div (c : Z) (x : arr) : res arr :=
  if Z.eqb c 0 then Unspec else
  match aty x with
  | TNum => d <- mapM (fun e => match e with
                                 | ENum z => if Z.eqb (z mod c) 0 then Ok (ENum (z / c)) else Unspec
                                 | _ => Unspec end) (adata x) ;; Ok (Arr TNum (ash x) d)
  | _ => Unspec end.

(** UnJoin (°⊂) on a list: its first element and the rest *)
Definition unjoin1 (x : arr) : res (arr * arr) :=
  match ash x, adata x with
  | [S n], e :: d => Ok (Arr (aty x) [] [e], Arr (aty x) [n] d)
  | _, _ => Unspec end.

Definition prim_sem (p : pname) (stk : list arr) : res (list arr) :=
  match p, stk with
  | P_Identity, x :: r => Ok (x :: r)
  | P_Flip, a :: b :: r => Ok (b :: a :: r)
  | P_Dup, x :: r => Ok (x :: x :: r)
  | P_Over, a :: b :: r => Ok (b :: a :: b :: r)
  | P_Pop, _ :: r => Ok r
  | P_Neg, x :: r => v <- p_perv1 PNeg x ;; ck v r
  | P_Not, x :: r => v <- p_perv1 PNot x ;; ck v r
  | P_Reverse, x :: r => ck (p_reverse x) r
  | P_Transpose, x :: r => ck (p_transpose x) r
  | P_TransposeN k, x :: r => ck (transpose_n k x) r
  | P_Box, x :: r => ck (p_box x) r
  | P_UnBox, x :: r => if is_box_scalar x then v <- p_unbox x ;; ck v r else Unspec
  | P_Fix, x :: r => ck (p_fix x) r
  | P_UnFix, x :: r => v <- unfix x ;; ck v r
  | P_Couple, a :: b :: r => v <- couple_eq a b ;; ck v r
  | P_UnCouple, x :: r => p <- uncouple x ;; ck2 (fst p) (snd p) r
  | P_Add, a :: b :: r => v <- p_perv2 PAdd None a b ;; ck v r
  | P_Sub, a :: b :: r => v <- p_perv2 PSub None a b ;; ck v r
  | P_Mul, a :: b :: r => match ash a, adata a with [], [ENum c] => v <- scalar_mul c b ;; ck v r | _, _ => Unspec end
  | P_Div, a :: b :: r => match ash a, adata a with [], [ENum c] => v <- scalar_div c b ;; ck v r | _, _ => Unspec end
  | P_Rotate, a :: b :: r => match ash a, adata a with [], [ENum c] => v <- rot_by c b ;; ck v r | _, _ => Unspec end
  | P_AntiRotate, a :: b :: r => match ash a, adata a with [], [ENum c] => v <- rot_by (- c) b ;; ck v r | _, _ => Unspec end
  | P_Shape, x :: r => ck (p_shape x) r
  | P_Join, a :: b :: r => v <- join_scalar a b ;; ck v r
  | P_UnJoin, x :: r => p <- unjoin1 x ;; ck2 (fst p) (snd p) r
  | P_UnJoinShape, sh :: x :: r => p <- unjoin_scalar sh x ;; ck2 (fst p) (snd p) r
  | P_MatchPattern, a :: b :: r => if arr_eqb a b then Ok r else Err
  | _, _ => Unspec end.

Definition split_at (k : nat) (l : list arr) : res (list arr * list arr) :=
  if Nat.leb k (length l) then Ok (firstn k l, skipn k l) else Err.

(** operands of both / bracket are run on exactly their arguments (justified by the frame theorem
    C02_sig_sound: an operand never touches what lies beneath its arguments) and must leave exactly
    the number of values their stored signature announces *)
Definition iso (run : st -> res st) (o : nat) (args und : list arr) : res st :=
  s' <- run (args, und) ;; if Nat.eqb (length (fst s')) o then Ok s' else Unspec.

Fixpoint tstep (n : tn) (s : st) {struct n} : res st :=
  let trun := fix go (l : list tn) (s : st) {struct l} : res st :=
    match l with [] => Ok s | x :: t => bind (tstep x s) (go t) end in
  match n with
  | TPush z => Ok (num z :: fst s, snd s)
  | TP p => stk <- prim_sem p (fst s) ;; Ok (stk, snd s)
  | TRun l => trun l s
  | TDip f => match fst s with [] => Err | x :: r => s' <- trun f (r, snd s) ;; Ok (x :: fst s', snd s') end
  | TDipN k f => p <- split_at k (fst s) ;; s' <- trun f (snd p, snd s) ;; Ok (fst p ++ fst s', snd s')
  | TBoth a o f =>
      (* run_prim.rs Both: f on the lower arguments first, then on the upper ones *)
      p <- split_at a (fst s) ;; q <- split_at a (snd p) ;;
      s1 <- iso (trun f) o (fst q) (snd s) ;; s2 <- iso (trun f) o (fst p) (snd s1) ;;
      Ok (fst s2 ++ fst s1 ++ snd q, snd s2)
  | TUnBoth a o f =>
      (* run_prim.rs:1783 UnBothImpl: f on top, set its outputs aside, f again, put them back *)
      p <- split_at a (fst s) ;; q <- split_at a (snd p) ;;
      s1 <- iso (trun f) o (fst p) (snd s) ;; s2 <- iso (trun f) o (fst q) (snd s1) ;;
      Ok (fst s1 ++ fst s2 ++ snd q, snd s2)
  | TBracket a o f a' o' g =>
      (* run_prim.rs Bracket: g on the lower arguments first, then f on the upper ones *)
      p <- split_at a (fst s) ;; q <- split_at a' (snd p) ;;
      s1 <- iso (trun g) o' (fst q) (snd s) ;; s2 <- iso (trun f) o (fst p) (snd s1) ;;
      Ok (fst s2 ++ fst s1 ++ snd q, snd s2)
  | TUnBracket a o f a' o' g =>
      (* run_prim.rs:1504 UnBracket: f first, then g, outputs pushed back in reverse *)
      p <- split_at a (fst s) ;; q <- split_at a' (snd p) ;;
      s1 <- iso (trun f) o (fst p) (snd s) ;; s2 <- iso (trun g) o' (fst q) (snd s1) ;;
      Ok (fst s1 ++ fst s2 ++ snd q, snd s2)
  | TPushU k => p <- split_at k (fst s) ;; Ok (snd p, rev (fst p) ++ snd s)
  | TCopyU k => p <- split_at k (fst s) ;; Ok (fst s, rev (fst p) ++ snd s)
  | TPopU k => p <- split_at k (snd s) ;; Ok (rev (fst p) ++ fst s, snd p)
  | _ => Unspec end.
Fixpoint trun (l : list tn) (s : st) {struct l} : res st :=
  match l with [] => Ok s | x :: t => bind (tstep x s) (trun t) end.

(* ------------------------------------------------------------------ the inversion engine *)

(** the emitted inverse of one primitive (un.rs PrimPat / ImplPrimPat arms) *)
Definition prim_inv (p : pname) : option (list tn) :=
  match p with
  | P_Identity => Some [TP P_Identity] | P_Flip => Some [TP P_Flip]
  | P_Neg => Some [TP P_Neg] | P_Not => Some [TP P_Not] | P_Reverse => Some [TP P_Reverse]
  | P_Box => Some [TP P_UnBox] | P_UnBox => Some [TP P_Box]
  | P_Fix => Some [TP P_UnFix] | P_UnFix => Some [TP P_Fix]
  | P_Couple => Some [TP P_UnCouple] | P_UnCouple => Some [TP P_Couple]
  (* JoinPat with nothing in front of the join (un.rs JoinPat, last branch, count = 1) / ImplPrimPat *)
  | P_Join => Some [TP P_UnJoin] | P_UnJoin => Some [TP P_Join]
  | _ => None end.
(** InnerAnti: a literal followed by a dyadic function with an anti pattern *)
Definition lit_inv (c : Z) (p : pname) : option (list tn) :=
  match p with
  | P_Add => Some [TPush c; TP P_Sub] | P_Sub => Some [TPush c; TP P_Add]
  | P_Rotate => Some [TPush c; TP P_AntiRotate] | P_AntiRotate => Some [TPush c; TP P_Rotate]
  (* ANTI_PATTERNS ((IgnoreMany(Flip), Mul), Div) and (Div, Mul), un.rs:266-267 *)
  | P_Mul => if Z.eqb c 0 then None else Some [TPush c; TP P_Div]
  | P_Div => if Z.eqb c 0 then None else Some [TPush c; TP P_Mul]
  | _ => None end.

Definition obind {A B} (o : option A) (f : A -> option B) : option B := match o with Some x => f x | None => None end.

Fixpoint tsize (n : tn) : nat :=
  let ls := fix go (l : list tn) : nat := match l with [] => O | x :: t => S (tsize x + go t) end in
  match n with
  | TRun l | TDip l | TDipN _ l | TBoth _ _ l | TUnBoth _ _ l | TRows _ _ l | TOn _ _ l | TBy _ _ l => S (ls l)
  | TBracket _ _ f _ _ g | TUnBracket _ _ f _ _ g | TFill f g => S (ls f + ls g)
  | _ => 1 end.
Fixpoint lsize (l : list tn) : nat := match l with [] => O | x :: t => S (tsize x + lsize t) end.

Definition is_joinb (x : tn) : bool := match x with TP P_Join => true | _ => false end.
(** a straight line of monadic 1 -> 1 pieces of the catalogue: join-free and with a balanced inverse,
    the class for which commit 8f54207 keeps the dip (a sufficient condition of the code's
    `sig.args() == sig.outputs() && !contains_join(inner)`, un.rs JoinPat invert_inner) *)
Fixpoint mono1 (l : list tn) : bool :=
  match l with
  | [] => true
  | TPush _ :: TP p :: r =>
      match p with P_Add | P_Sub | P_Rotate | P_AntiRotate => mono1 r | _ => false end
  | TP p :: r =>
      match p with
      | P_Identity | P_Neg | P_Not | P_Reverse | P_Box | P_UnBox | P_Fix | P_UnFix => mono1 r
      | _ => false end
  | _ => false end.

(** `c : -` (the flipped subtraction `˜-c`, ANTI_PATTERNS ((Flip, Sub), (Flip, Sub)), un.rs:265): its own inverse *)
Definition rsub_tail (l : list tn) : option (list tn) :=
  match l with TP P_Flip :: TP P_Sub :: r => Some r | _ => None end.

(** [cinv fixed fuel f]: the inverse the engine emits for the sequence f (reversal of the pieces).
    [fixed = false] is the engine BEFORE commit 8f54207: JoinPat's invert_inner put the inverse of a
    dipped function that precedes a join after the un-join WITHOUT the dip (un.rs:877-905 at b634517);
    [fixed = true] is the current engine (commits 2e21ff6, 6d27c00): every dipped piece before a join is
    inverted as a dip and the pieces' inverses are applied in reverse order - the general rule of
    sequences.  (Not modelled: a bare `⊙⊂` link of a chain is inverted as `⊙(1 UnJoinShape)`, and pieces
    with unbalanced inverses turn the un-join into `k UnJoinShape`; on such templates the validator
    reports "differs", never "validated".)  The intermediate engine of 8f54207 is [inv_8f5] below. *)
Fixpoint cinv (fixed : bool) (fuel : nat) (f : list tn) : option (list tn) :=
  match fuel with O => None | S fuel =>
  match f with
  | [] => Some []
  | TPush c :: rest0 =>
      match rsub_tail rest0 with
      | Some rest => obind (cinv fixed fuel rest) (fun r => Some (r ++ [TPush c; TP P_Flip; TP P_Sub]))
      | None =>
          match rest0 with
          | TP p :: rest => obind (lit_inv c p) (fun i => obind (cinv fixed fuel rest) (fun r => Some (r ++ i)))
          | _ => None end
      end
  | TP p :: rest =>
      obind (prim_inv p) (fun i => obind (cinv fixed fuel rest) (fun r => Some (r ++ i)))
  | TDip g :: rest =>
      let generic := obind (cinv fixed fuel g) (fun gi => obind (cinv fixed fuel rest) (fun r => Some (r ++ [TDip gi]))) in
      match rest with
      | y :: rest' =>
          if is_joinb y then
            if fixed then generic
            else obind (cinv fixed fuel g) (fun gi => obind (cinv fixed fuel rest') (fun r => Some (r ++ TP P_UnJoin :: gi)))
          else generic
      | [] => generic end
  | TDipN k g :: rest =>
      (* DipNPat, un.rs:447 *)
      obind (cinv fixed fuel g) (fun gi => obind (cinv fixed fuel rest) (fun r => Some (r ++ [TDipN k gi])))
  | TBoth a o g :: rest =>
      obind (cinv fixed fuel g) (fun gi => obind (cinv fixed fuel rest) (fun r => Some (r ++ [TUnBoth o a gi])))
  | TUnBoth a o g :: rest =>
      obind (cinv fixed fuel g) (fun gi => obind (cinv fixed fuel rest) (fun r => Some (r ++ [TBoth o a gi])))
  | TBracket a o g a' o' h :: rest =>
      obind (cinv fixed fuel g) (fun gi => obind (cinv fixed fuel h) (fun hi =>
        obind (cinv fixed fuel rest) (fun r => Some (r ++ [TUnBracket o a gi o' a' hi]))))
  | TUnBracket a o g a' o' h :: rest =>
      obind (cinv fixed fuel g) (fun gi => obind (cinv fixed fuel h) (fun hi =>
        obind (cinv fixed fuel rest) (fun r => Some (r ++ [TBracket o a gi o' a' hi]))))
  | _ => None end end.

(** The engine AT commit 8f54207 for `before ⊂` (un.rs JoinPat, last branch, as of that commit):
    the pieces of [before] - maximal dip-free segments and dips - are inverted one by one and
    concatenated in FORWARD order; a dipped function keeps its dip only if it is join-free with a
    balanced inverse ([mono1]), one that contains a join is flattened; the un-join takes
    1 + (outputs - arguments of the result) leading elements.  Transcribed for dip-free dipped functions. *)
Definition is_dipb (x : tn) : bool := match x with TDip _ | TDipN _ _ => true | _ => false end.
Fixpoint span_nondip (l : list tn) : list tn * list tn :=
  match l with
  | [] => ([], [])
  | x :: r => if is_dipb x then ([], l) else let p := span_nondip r in (x :: fst p, snd p) end.
Fixpoint tnet_f (fuel : nat) (l : list tn) : option Z :=
  match fuel with O => None | S fuel =>
  match l with
  | [] => Some 0%Z
  | x :: r =>
      obind (match x with
             | TPush _ => Some 1%Z
             | TP p => match p with
                       | P_Identity | P_Flip | P_Neg | P_Not | P_Reverse | P_Box | P_UnBox | P_Fix | P_UnFix => Some 0%Z
                       | P_Couple | P_Add | P_Sub | P_Rotate | P_AntiRotate | P_Join | P_Pop => Some (-1)%Z
                       | P_UnCouple | P_UnJoin | P_Dup => Some 1%Z
                       | _ => None end
             | TDip g => tnet_f fuel g
             | _ => None end) (fun a => obind (tnet_f fuel r) (fun b => Some (a + b)%Z)) end end.
Definition tnet (l : list tn) : option Z := tnet_f (S (lsize l)) l.
Fixpoint inner_8f5 (fuel : nat) (l : list tn) : option (list tn) :=
  match fuel with O => None | S fuel =>
  match l with
  | [] => Some []
  | TDip g :: r =>
      if existsb is_dipb g then None else
      obind (cinv true (S (lsize g)) g) (fun gi => obind (inner_8f5 fuel r) (fun rest =>
        if mono1 g then Some (TDip gi :: rest)
        else if existsb is_joinb g then Some (gi ++ rest) else None))
  | _ =>
      let p := span_nondip l in
      obind (cinv true (S (lsize (fst p))) (fst p)) (fun si => obind (inner_8f5 fuel (snd p)) (fun rest => Some (si ++ rest)))
  end end.
Definition inv_8f5 (before : list tn) : option (list tn) :=
  obind (inner_8f5 (S (length before)) before) (fun bi => obind (tnet bi) (fun k =>
    Some ((if (k <=? 0)%Z then [TP P_UnJoin] else [TPush (k + 1); TP P_UnJoinShape]) ++ bi))).

(** 0 = the real inverse is the one the model derives; 1 = it differs; 2 = outside the catalogue model *)
Definition check_un_code (f g : list tn) : N :=
  match cinv true (S (lsize f)) f with
  | Some g' => if tnl_eqb g' g then 0%N else 1%N
  | None => 2%N end.
Definition check_un (f g : list tn) : bool := N.eqb (check_un_code f g) 0.
