(** C10 (V tie): structural equality on the IR of Model/Node.v.  The harness exports the compiled
    trees (root + functions) of a source text and of the formatter's output; the run evaluates
    [prog_eqb] on them.  Executable definitions only. *)
From Coq Require Import List ZArith NArith Bool.
From UV Require Import Model.Node.
Import ListNotations.

Definition sval_eqb (a b : sval) : bool :=
  match a, b with
  | SInt x, SInt y => Z.eqb x y
  | SOpq x, SOpq y => N.eqb x y
  | _, _ => false
  end.

Definition osig_eqb (a b : option sig) : bool :=
  match a, b with
  | Some x, Some y => sig_eqb x y
  | None, None => true
  | _, _ => false
  end.

Definition modk_eqb (a b : modk) : bool :=
  match a, b with
  | MDip, MDip | MGap, MGap | MOn, MOn | MBy, MBy | MWith, MWith | MOff, MOff | MAbove, MAbove
  | MBelow, MBelow | MBoth, MBoth | MFork, MFork | MBracket, MBracket | MReach, MReach
  | MTry, MTry | MPattern, MPattern | MCase, MCase | MFill, MFill | MUnFill, MUnFill | MSidedFill, MSidedFill
  | MRepeat, MRepeat | MDo, MDo | MReduce, MReduce | MScan, MScan | MFold, MFold
  | MRows, MRows | MEach, MEach | MInventory, MInventory | MTable, MTable | MTuples, MTuples
  | MStencil, MStencil | MGroup, MGroup | MPartition, MPartition
  | MContent, MContent | MMemo, MMemo | MComptime, MComptime | MUn, MUn | MAnti, MAnti
  | MSpawn, MSpawn | MPool, MPool | MDump, MDump
  | MReduceContent, MReduceContent | MUndoRows, MUndoRows | MUndoInventory, MUndoInventory
  | MEachSub, MEachSub | MFixMatchRanks, MFixMatchRanks | MUnBracket, MUnBracket | MUnScan, MUnScan
  | MRepeatWithInverse, MRepeatWithInverse | MRepeatCountConv, MRepeatCountConv | MHandleSig, MHandleSig => true
  | MOnSub x, MOnSub y | MBySub x, MBySub y | MWithSub x, MWithSub y | MOffSub x, MOffSub y
  | MDipN x, MDipN y | MReduceDepth x, MReduceDepth y => Nat.eqb x y
  | MBothImpl r n, MBothImpl r' n' | MUnBothImpl r n, MUnBothImpl r' n' => Nat.eqb r r' && Nat.eqb n n'
  | MOther i f, MOther i' f' => N.eqb i i' && osig_eqb f f'
  | _, _ => false
  end.

Fixpoint node_eqb (a b : node) {struct a} : bool :=
  let fix list_eqb (l m : list node) {struct l} : bool :=
    match l, m with
    | [], [] => true
    | x :: l', y :: m' => node_eqb x y && list_eqb l' m'
    | _, _ => false
    end in
  let fix args_eqb (l m : list (sig * node)) {struct l} : bool :=
    match l, m with
    | [], [] => true
    | (s, x) :: l', (t, y) :: m' => sig_eqb s t && node_eqb x y && args_eqb l' m'
    | _, _ => false
    end in
  match a, b with
  | Push v, Push w => sval_eqb v w
  | Prim i x y, Prim i' x' y' => N.eqb i i' && Nat.eqb x x' && Nat.eqb y y'
  | PrimIndet i, PrimIndet i' => N.eqb i i'
  | Run ns, Run ms => list_eqb ns ms
  | Mod m args, Mod m' args' => modk_eqb m m' && args_eqb args args'
  | Call f s, Call f' s' => Nat.eqb f f' && sig_eqb s s'
  | CallGlobal f s, CallGlobal f' s' => Nat.eqb f f' && sig_eqb s s'
  | CallMacro f s, CallMacro f' s' => Nat.eqb f f' && sig_eqb s s'
  | BindGlobal, BindGlobal => true
  | Arr l i bx, Arr l' i' bx' => Nat.eqb l l' && node_eqb i i' && Bool.eqb bx bx'
  | Unpack c u, Unpack c' u' => Nat.eqb c c' && Bool.eqb u u'
  | Switch brs s u, Switch brs' s' u' => args_eqb brs brs' && sig_eqb s s' && Bool.eqb u u'
  | PushUnder n, PushUnder n' => Nat.eqb n n'
  | CopyToUnder n, CopyToUnder n' => Nat.eqb n n'
  | PopUnder n, PopUnder n' => Nat.eqb n n'
  | NoInline i, NoInline i' => node_eqb i i'
  | TrackCaller s i, TrackCaller s' i' => sig_eqb s s' && node_eqb i i'
  | CustomInv s h ns nm, CustomInv s' h' ns' nm' =>
      osig_eqb s s' && Bool.eqb h h' && sig_eqb ns ns' && node_eqb nm nm'
  | Label, Label => true
  | RemoveLabel, RemoveLabel => true
  | Format p, Format p' => Nat.eqb p p'
  | MatchFormat p, MatchFormat p' => Nat.eqb p p'
  | Dynamic s, Dynamic s' => sig_eqb s s'
  | SetOutputComment, SetOutputComment => true
  | _, _ => false
  end.

Fixpoint nodes_eqb (l m : list node) : bool :=
  match l, m with
  | [], [] => true
  | x :: l', y :: m' => node_eqb x y && nodes_eqb l' m'
  | _, _ => false
  end.

(** a compiled program as exported: (root, Assembly::functions) *)
Definition prog := (node * list node)%type.
Definition prog_eqb (p q : prog) : bool := node_eqb (fst p) (fst q) && nodes_eqb (snd p) (snd q).

Fixpoint failing_pairs (i : N) (l : list (prog * prog)) : list N :=
  match l with
  | [] => []
  | (p, q) :: t => if prog_eqb p q then failing_pairs (i + 1) t else i :: failing_pairs (i + 1) t
  end.
