(** C05 model: the marks an array carries (boolean / sorted ascending / sorted descending),
    what it means for them to be truthful, the flag algebra of src/array.rs and src/value.rs,
    and the concrete mark behaviour of a set of primitives.
    Executable definitions only; proofs are in Proofs/Flags.v.

    Sortedness is stated with the value ordering of C15 ([value_cmp true], Model/Order.v)
    applied to the rows (major cells) of the array, as `Array::validate` (array.rs:736-768)
    and the release-mode validator `verif::check_value` do. *)
From Coq Require Import List ZArith NArith Bool Arith Lia.
From UV Require Import Base.Value Model.Order.
Import ListNotations.
Open Scope N_scope.

Notation vcmp := (value_cmp true).

(* ------------------------------------------------------------------ marks *)

(** ArrayFlags (array.rs:256-275): BOOLEAN, SORTED_UP, SORTED_DOWN.  BOOLEAN_LITERAL is a
    hint for the formatter only and carries no claim about the data; it is not modelled. *)
Record flags := FL { f_bool : bool; f_up : bool; f_down : bool }.
Definition fl_none : flags := FL false false false.
Record mvalue := MV { mv_v : value; mv_f : flags }.

Definition flags_eqb (a b : flags) : bool :=
  Bool.eqb (f_bool a) (f_bool b) && Bool.eqb (f_up a) (f_up b) && Bool.eqb (f_down a) (f_down b).

(* ------------------------------------------------------------------ rows *)

Fixpoint chunk {A} (n k : nat) (l : list A) : list (list A) :=
  match k with O => [] | S k' => firstn n l :: chunk n k' (skipn n l) end.

(** the rows of an array of rank >= 1; a scalar has none that the validator inspects
    (check_value: `if (up || down) && arr.rank() > 0`) *)
Definition vrows (v : value) : list value :=
  match v with
  | VNum (n :: s) d => map (VNum s) (chunk (shape_prod s) n d)
  | VByte (n :: s) d => map (VByte s) (chunk (shape_prod s) n d)
  | VChar (n :: s) d => map (VChar s) (chunk (shape_prod s) n d)
  | VCplx (n :: s) d => map (VCplx s) (chunk (shape_prod s) n d)
  | VBox (n :: s) d => map (VBox s) (chunk (shape_prod s) n d)
  | _ => []
  end.

Definition le_b (a b : value) : bool := match vcmp a b with Gt => false | _ => true end.
Definition ge_b (a b : value) : bool := match vcmp a b with Lt => false | _ => true end.

(** every adjacent pair is related *)
Fixpoint chain {A} (r : A -> A -> bool) (l : list A) : bool :=
  match l with
  | x :: ((y :: _) as t) => r x y && chain r t
  | _ => true
  end.

Definition up_ok (v : value) : bool := chain le_b (vrows v).
Definition down_ok (v : value) : bool := chain ge_b (vrows v).
(** the boolean mark is a claim about byte arrays only: every reader of it is a byte arm
    (value.rs:1818 `[|meta| meta.flags.is_boolean(), Byte, bool]`, reduce.rs:101,144,
    array.rs:1147 `dbg_validate` for u8) *)
Definition bool_ok (v : value) : bool :=
  match v with VByte _ d => forallb (fun x => x <=? 1) d | _ => true end.

(** truthfulness of the marks of one array *)
Definition flags_okb (v : value) (f : flags) : bool :=
  (negb (f_bool f) || bool_ok v) && (negb (f_up f) || up_ok v) && (negb (f_down f) || down_ok v).

(** C05's invariant for one value seen from outside: data length fits the shape (deeply) and the
    marks of the array are truthful *)
Definition wfb (m : mvalue) : bool := wf_shape (mv_v m) && flags_okb (mv_v m) (mv_f m).
Definition wf (m : mvalue) : Prop := wfb m = true.

(** marks of an array and, recursively, of the arrays inside its boxes *)
Inductive ftree := FT (b u d : bool) (kids : list ftree).
Definition ft_flags (t : ftree) : flags := match t with FT b u d _ => FL b u d end.

Definition shape_fits (v : value) : bool := Nat.eqb (data_len v) (shape_prod (shape_of v)).

(** the deep invariant, as `verif::check_value` computes it (maps excepted): at every level
    the data length fits and the marks are truthful *)
Fixpoint deep_okb (v : value) (t : ftree) {struct t} : bool :=
  match t with
  | FT b u d kids =>
      shape_fits v && flags_okb v (FL b u d) &&
      match v with
      | VBox _ data =>
          (fix go (vs : list value) (ks : list ftree) {struct ks} : bool :=
             match vs, ks with
             | [], [] => true
             | x :: vs', k :: ks' => deep_okb x k && go vs' ks'
             | _, _ => false
             end) data kids
      | _ => true
      end
  end.

(* ------------------------------------------------------------------ the flag algebra *)

(** ArrayMeta::take_sorted_flags (array.rs:148-152): returns the sortedness marks, clears them *)
Definition sorted_part (f : flags) : flags := FL false (f_up f) (f_down f).
Definition clear_sorted (f : flags) : flags := FL (f_bool f) false false.
(** ArrayMeta::take_value_flags (array.rs:154-158) *)
Definition clear_value (f : flags) : flags := FL false (f_up f) (f_down f).
(** ArrayMeta::or_sorted_flags (array.rs:176-182): only the sortedness bits of [g] are or-ed in *)
Definition or_sorted (f g : flags) : flags := FL (f_bool f) (f_up f || f_up g) (f_down f || f_down g).
(** mark_sorted_up / mark_sorted_down (array.rs:186-203) *)
Definition mark_up (f : flags) (b : bool) : flags := FL (f_bool f) b (f_down f).
Definition mark_down (f : flags) (b : bool) : flags := FL (f_bool f) (f_up f) b.
(** ArrayFlags::reverse_sorted (array.rs:287-292) *)
Definition reverse_sorted (f : flags) : flags := FL (f_bool f) (f_down f) (f_up f).
(** ArrayMeta::reset_flags *)
Definition reset_flags (_ : flags) : flags := fl_none.
(** ArrayMeta::combine (array.rs:205-215).  [other = None]: the other array has no metadata
    block at all; then only the value marks of [self] are cleared and its sortedness marks STAY
    (every caller overwrites or clears them afterwards: combine.rs:315-,395-,533-,937-) *)
Definition combine (self : flags) (other : option flags) : flags :=
  match other with
  | Some o => FL (f_bool self && f_bool o) (f_up self && f_up o) (f_down self && f_down o)
  | None => clear_value self
  end.

Definition has_nan (v : value) : bool :=
  match v with VNum _ d => existsb f_is_nan d | _ => false end.
Definition is_num_ty (v : value) : bool := match v with VNum _ _ | VByte _ _ => true | _ => false end.
Definition is_scalar (v : value) : bool := match shape_of v with [] => true | _ => false end.
Definition has_nan_c (v : value) : bool :=
  match v with VCplx _ d => existsb (fun c => f_is_nan (fst c) || f_is_nan (snd c)) d | _ => false end.
Definition is_char_ty (v : value) : bool := match v with VChar _ _ => true | _ => false end.
Definition rank_le1 (v : value) : bool := Nat.leb (length (shape_of v)) 1.
(** a number array whose first or last element is NaN (value.rs, maintain_both_sortedness) *)
Definition nan_at_end (v : value) : bool :=
  match v with
  | VNum _ (x :: t) => f_is_nan x || f_is_nan (last t x)
  | _ => false end.

(** versions of the code: 0 = before "fix: negating a character array must not mark the result
    as sorted"; 1 = after it; 2 = after the round-2 mark repairs (f306b49, eea1d01, ade6601,
    60de79d, 9703aa4, f50d52f, 7af2e92) = the current code *)
Definition cur_ver : nat := 2.

(** Value::or_sorted_flags_rev (value.rs:304-326).  Version 0 has no special case for
    characters and boxes; versions 0 and 1 guard NaN in number arrays only, version 2 (f50d52f)
    also in complex arrays *)
Definition or_sorted_rev (ver : nat) (v : value) (cur taken : flags) : flags :=
  if Nat.leb 1 ver && match v with VBox _ _ | VChar _ _ => true | _ => false end then clear_sorted cur
  else if negb (f_up taken || f_down taken) then cur
  else
    let f := or_sorted cur (reverse_sorted taken) in
    if (f_up f || f_down f) && (has_nan v || (Nat.leb 2 ver && has_nan_c v)) then clear_sorted f else f.

(** Array::derive_sortedness (array.rs:701-732), for wildcard-free data *)
Definition derive_sortedness (v : value) (cur : flags) : flags :=
  FL (f_bool cur) (up_ok v) (down_ok v).

(** Value::try_shrink (value.rs:1343-1384): the metadata moves to the byte array; the boolean
    mark is set when every element is 0 or 1 *)
Definition try_shrink_flags (shrunk : value) (cur : flags) : flags :=
  match shrunk with
  | VByte _ d => if forallb (fun x => x <=? 1) d then FL true (f_up cur) (f_down cur) else cur
  | _ => cur end.

(** the three `pre` rules of value_dy_math_impl (value.rs:2252-2395).  [a] is the argument the
    marks are taken from, [b] the other one; [is_left] says whether [a] is the second operand.
    [fixed = false] is the code before the round-2 repairs: the rules then applied to an [a] of
    any element type and rank. *)
Definition pre_scalar (fixed : bool) (left : option bool) (a b : mvalue) (is_left : bool) : option flags :=
  if negb (is_scalar (mv_v b) && is_num_ty (mv_v b)) then None
  (* ade6601: only lists of real numbers or characters *)
  else if fixed && negb (rank_le1 (mv_v a) && (is_num_ty (mv_v a) || is_char_ty (mv_v a))) then None
  else let f := sorted_part (mv_f a) in
       Some (match left with
             | Some l => if negb (Bool.eqb is_left l) then reverse_sorted f else f
             | None => f end).
Definition pre_both (fixed : bool) (a b : mvalue) : option flags :=
  if negb (is_num_ty (mv_v a) && is_num_ty (mv_v b)) then None
  (* eea1d01: no rows of several numbers; 7af2e92: no NaN at either end of either argument *)
  else if fixed && (negb (rank_le1 (mv_v a) && rank_le1 (mv_v b)) || nan_at_end (mv_v a) || nan_at_end (mv_v b)) then None
  else let fa := sorted_part (mv_f a) in
       Some (if is_scalar (mv_v b) then fa
             else FL false (f_up fa && f_up (mv_f b)) (f_down fa && f_down (mv_f b))).
(** sign of the scalar: None = NaN or infinite (no marks), Some true = negative.
    60de79d: negative zero counts as negative (`is_sign_negative`), before it did not (`< 0.0`) *)
Definition scalar_sign (fixed : bool) (b : value) : option bool :=
  match b with
  | VNum [] [x] => if f_is_nan x || (f_mag x =? F_INF_BITS) then None
                   else Some (if fixed then f_neg x else f_neg x && negb (f_mag x =? 0))
  | VByte [] [_] => Some false
  | _ => None end.
Definition pre_signed (fixed : bool) (left : option bool) (a b : mvalue) (is_left : bool) : option flags :=
  match scalar_sign fixed (mv_v b) with
  | None => None
  | Some negative =>
      let f := sorted_part (mv_f a) in
      let f := if negative then reverse_sorted f else f in
      if fixed then
        (* ade6601: only lists of real numbers; 9703aa4: no marks when the scalar is the dividend *)
        if negb (rank_le1 (mv_v a) && is_num_ty (mv_v a)) then None
        else match left with
             | Some l => if negb (Bool.eqb is_left l) then None else Some f
             | None => Some f end
      else
      Some (match left with
            | Some l => if negb (Bool.eqb is_left l) then reverse_sorted f else f
            | None => f end)
  end.
Definition or_else {A} (x y : option A) : option A := match x with Some _ => x | None => y end.
(** handle_pre: the marks found by get_pre on either side are or-ed into the result, whose own
    sortedness marks were taken before (`a.meta.take_sorted_flags(); b.meta...`) *)
Definition handle_pre (nan_guard : bool) (res : value) (resf : flags) (pa pb : option flags) : flags :=
  let f := match or_else pa pb with Some g => or_sorted resf g | None => resf end in
  if nan_guard && (f_up f || f_down f) && has_nan res then clear_sorted f else f.

(* ------------------------------------------------------------------ concrete primitives *)

Inductive res (A : Type) := Ok (a : A) | Err.
Arguments Ok {A} a.
Arguments Err {A}.

Definition vdata_map (f : forall A, list A -> list A) (sh : list nat) (v : value) : value :=
  match v with
  | VNum _ d => VNum sh (f _ d) | VByte _ d => VByte sh (f _ d) | VChar _ d => VChar sh (f _ d)
  | VCplx _ d => VCplx sh (f _ d) | VBox _ d => VBox sh (f _ d) end.

Definition rev_rows (n m : nat) : forall A, list A -> list A :=
  fun A d => concat (rev (chunk m n d)).

(** Array::reverse_depth(0) (monadic/mod.rs:1153-1193): rank 0 and empty rows return early
    with the marks untouched; otherwise the rows are reversed and the marks swapped *)
Definition p_reverse (m : mvalue) : mvalue :=
  match shape_of (mv_v m) with
  | [] => m
  | n :: s =>
      if Nat.eqb (shape_prod (n :: s)) 0 then m
      else MV (vdata_map (rev_rows n (shape_prod s)) (n :: s) (mv_v m)) (reverse_sorted (mv_f m))
  end.

(** Array::first (monadic/mod.rs:960-1000), no fill: a scalar is returned as it is; an empty
    array is an error; otherwise the first row, sortedness marks cleared *)
Definition p_first (m : mvalue) : res mvalue :=
  match shape_of (mv_v m) with
  | [] => Ok m
  | O :: _ => Err
  | S _ :: s => Ok (MV (vdata_map (fun A d => firstn (shape_prod s) d) s (mv_v m)) (clear_sorted (mv_f m)))
  end.
(** Array::last (monadic/mod.rs:1036-1075) *)
Definition p_last (m : mvalue) : res mvalue :=
  match shape_of (mv_v m) with
  | [] => Ok m
  | O :: _ => Err
  | S n :: s => Ok (MV (vdata_map (fun A d => skipn (n * shape_prod s) d) s (mv_v m)) (clear_sorted (mv_f m)))
  end.

(** Value::fix (value.rs:366-383): a length-1 axis is added; the marks stay *)
Definition p_fix (m : mvalue) : mvalue :=
  MV (vdata_map (fun A d => d) (1%nat :: shape_of (mv_v m)) (mv_v m)) (mv_f m).

(** Array::deshape_depth(0) (monadic/mod.rs:42-51): sortedness marks cleared *)
Definition p_deshape (m : mvalue) : mvalue :=
  MV (vdata_map (fun A d => d) [shape_prod (shape_of (mv_v m))] (mv_v m)) (clear_sorted (mv_f m)).

(** stable insertion sort of the rows *)
Fixpoint insert {A} (le : A -> A -> bool) (x : A) (l : list A) : list A :=
  match l with [] => [x] | y :: t => if le x y then x :: l else y :: insert le x t end.
Fixpoint isort {A} (le : A -> A -> bool) (l : list A) : list A :=
  match l with [] => [] | x :: t => insert le x (isort le t) end.

Definition vdata_rows_sorted (le : value -> value -> bool) (v : value) : value :=
  match v with
  | VNum (n :: s) d => VNum (n :: s) (concat (isort (fun a b => le (VNum s a) (VNum s b)) (chunk (shape_prod s) n d)))
  | VByte (n :: s) d => VByte (n :: s) (concat (isort (fun a b => le (VByte s a) (VByte s b)) (chunk (shape_prod s) n d)))
  | VChar (n :: s) d => VChar (n :: s) (concat (isort (fun a b => le (VChar s a) (VChar s b)) (chunk (shape_prod s) n d)))
  | VCplx (n :: s) d => VCplx (n :: s) (concat (isort (fun a b => le (VCplx s a) (VCplx s b)) (chunk (shape_prod s) n d)))
  | VBox (n :: s) d => VBox (n :: s) (concat (isort (fun a b => le (VBox s a) (VBox s b)) (chunk (shape_prod s) n d)))
  | _ => v end.

(** Array::sort_up_depth(0) (monadic/sort.rs:244-288), wildcard-free data: unchanged when the
    array is a scalar, empty, or already marked ascending; otherwise sorted and marked
    ascending, the descending mark removed *)
Definition p_sort (m : mvalue) : mvalue :=
  match shape_of (mv_v m) with
  | [] => m
  | sh => if Nat.eqb (shape_prod sh) 0 || f_up (mv_f m) then m
          else MV (vdata_rows_sorted le_b (mv_v m)) (mark_down (mark_up (mv_f m) true) false)
  end.
(** Array::sort_down_depth(0) (monadic/sort.rs:289-333) *)
Definition p_sort_down (m : mvalue) : mvalue :=
  match shape_of (mv_v m) with
  | [] => m
  | sh => if Nat.eqb (shape_prod sh) 0 || f_down (mv_f m) then m
          else MV (vdata_rows_sorted ge_b (mv_v m)) (mark_down (mark_up (mv_f m) false) true)
  end.

(** Value::range of a natural scalar (monadic/mod.rs:777-797): bytes when the values fit,
    marked ascending; also descending when empty *)
Definition p_range_nat (n : nat) : mvalue :=
  let l := map N.of_nat (seq 0 n) in
  MV (if Nat.leb n 256 then VByte [n] l else VNum [n] (map f_of_byte l)) (FL false true (Nat.eqb n 0)).

(** IEEE negation flips the sign bit *)
Definition f_negate (x : f64) : f64 := N.lxor x F_NEG_ZERO.
(** uppercase <-> lowercase on ASCII letters; other characters are left to the tie as data *)
(** Value::neg (value.rs:2018-2060) on numbers: scalar_neg (new f64 array for bytes), then
    or_sorted_flags_rev with the marks taken before.  The value marks are kept by keep_meta
    only through the label/map-key path: the flags of a byte argument are dropped with its
    metadata when the new array is built ((array.shape, new).into()), the flags of a number
    array stay (in place). *)
Definition p_neg_num (ver : nat) (m : mvalue) : res mvalue :=
  let taken := sorted_part (mv_f m) in
  match mv_v m with
  | VNum s d =>
      let v := VNum s (map f_negate d) in
      Ok (MV v (or_sorted_rev ver v (clear_sorted (mv_f m)) taken))
  | VByte s d =>
      let v := VNum s (map (fun b => f_negate (f_of_byte b)) d) in
      Ok (MV v (or_sorted_rev ver v fl_none taken))
  | _ => Err end.

(** negation of characters swaps the case; [swapped] is the result's data.  The old rule
    ([repaired = false]) reversed the marks as for numbers. *)
Definition p_neg_chars (repaired : bool) (m : mvalue) (swapped : list N) : res mvalue :=
  match mv_v m with
  | VChar s _ => let v := VChar s swapped in
                 Ok (MV v (or_sorted_rev (if repaired then cur_ver else 0%nat) v (clear_sorted (mv_f m)) (sorted_part (mv_f m))))
  | _ => Err end.

(** Value::couple of two arrays of the same type and shape (dyadic/combine.rs:960-1000):
    the result has the two arguments as rows; marks by comparing them (combine.rs:988-997:
    Less -> ascending, Greater -> descending, Equal -> neither) *)
Definition same_ctor (a b : value) : bool :=
  match a, b with
  | VNum _ _, VNum _ _ | VByte _ _, VByte _ _ | VChar _ _, VChar _ _
  | VCplx _ _, VCplx _ _ | VBox _ _, VBox _ _ => true
  | _, _ => false end.
Definition vappend (sh : list nat) (a b : value) : option value :=
  match a, b with
  | VNum _ x, VNum _ y => Some (VNum sh (x ++ y))
  | VByte _ x, VByte _ y => Some (VByte sh (x ++ y))
  | VChar _ x, VChar _ y => Some (VChar sh (x ++ y))
  | VCplx _ x, VCplx _ y => Some (VCplx sh (x ++ y))
  | VBox _ x, VBox _ y => Some (VBox sh (x ++ y))
  | _, _ => None end.
Definition shape_eq (a b : list nat) : bool := is_eq (lex_cmp a b).
Definition p_couple_same (a b : mvalue) : res mvalue :=
  if negb (shape_eq (shape_of (mv_v a)) (shape_of (mv_v b))) then Err else
  match vappend (2%nat :: shape_of (mv_v a)) (mv_v a) (mv_v b) with
  | None => Err
  | Some v =>
      let c := vcmp (mv_v a) (mv_v b) in
      Ok (MV v (FL (f_bool (mv_f a) && f_bool (mv_f b))
                   (match c with Lt => true | _ => false end)
                   (match c with Gt => true | _ => false end)))
  end.

(** mark rules of primitives whose data the model does not recompute: the expected marks of the
    result are a function of the arguments' marks/types/shapes and of the result value itself *)
Inductive rprim :=
| RClassify | RDedup | RRise | RFall | RWhere | RTranspose | RNot | RAbs | RSign
| RFloor | RCeil | RRound
| RAdd | RSub | RMul | RDiv | RMin | RMax
| REq | RNe | RLt | RLe | RGt | RGe
| RTake | RDrop | RRotate | RSelect | RKeep | RJoin | RReshape | RMatch | RLen | RShape | RUnique.

(** order keys of an index list (integers stored as bytes or doubles): monotone in the index,
    negative exactly for negative indices (¯0 is index 0) *)
Definition idx_keys (v : value) : list Z :=
  match v with
  | VByte _ d => map Z.of_N d
  | VNum _ d => map f_key d
  | _ => [] end.

Definition nth_arg (args : list mvalue) (i : nat) : mvalue := nth i args (MV (VNum [] []) fl_none).

(** both arguments are boolean byte arrays: the in-place [bool_bool] arm keeps the result's
    (second argument's) metadata; every other arm builds a fresh array *)
Definition both_bool (a b : mvalue) : bool :=
  match mv_v a, mv_v b with
  | VByte _ _, VByte _ _ => f_bool (mv_f a) && f_bool (mv_f b)
  | _, _ => false end.

Definition rule_flags (fixed : bool) (p : rprim) (args : list mvalue) (out : value) : option flags :=
  let a := nth_arg args 0 in
  let b := nth_arg args 1 in
  match p with
  (* Value::classify (monadic/mod.rs:1350-1367): ascending iff the argument is marked ascending *)
  | RClassify => if is_scalar (mv_v a) then Some fl_none else Some (FL false (f_up (mv_f a)) false)
  (* Array::transpose_depth (monadic/mod.rs:1300-1316): rank < 2 returns early, marks stay *)
  | RTranspose => if Nat.ltb (length (shape_of (mv_v a))) 2 then Some (mv_f a) else Some (clear_sorted (mv_f a))
  (* Value::wher (monadic/mod.rs:1840-1883): ascending; rank 0 also descending (all zeros) *)
  | RWhere => Some (FL false true (is_scalar (mv_v a)))
  (* floor / ceil / round (value.rs:1892-1921): marks kept when the result's rank < 2 and
     (f306b49) the result is an array of real numbers *)
  | RFloor | RCeil | RRound =>
      let f := clear_sorted (mv_f a) in
      Some (if Nat.ltb (length (shape_of out)) 2 && (negb fixed || is_num_ty out)
            then or_sorted f (sorted_part (mv_f a)) else f)
  (* add / min / max: maintain_both_sortedness *)
  | RAdd | RMin | RMax =>
      let base := if both_bool a b then
                    (match p with RAdd => clear_value (clear_sorted (mv_f b)) | _ => clear_sorted (mv_f b) end)
                  else fl_none in
      Some (handle_pre fixed out base (pre_both fixed a b) (pre_both fixed b a))
  | RSub => Some (handle_pre fixed out fl_none (pre_scalar fixed (Some true) a b false) (pre_scalar fixed (Some true) b a true))
  | RMul => let base := if both_bool a b then clear_sorted (mv_f b) else fl_none in
            Some (handle_pre true out base (pre_signed fixed None a b false) (pre_signed fixed None b a true))
  | RDiv => Some (handle_pre true out fl_none (pre_signed fixed (Some true) a b false) (pre_signed fixed (Some true) b a true))
  (* not (value.rs:1815-1824): numbers / boolean bytes / complex in place, other bytes into a
     fresh array; then or_sorted_flags_rev with the marks taken before *)
  | RNot =>
      let base := match mv_v a with
                  | VByte _ _ => if f_bool (mv_f a) then clear_sorted (mv_f a) else fl_none
                  | _ => clear_sorted (mv_f a) end in
      Some (or_sorted_rev (if fixed then cur_ver else 1%nat) out base (sorted_part (mv_f a)))
  (* scalar_abs (value.rs:1825-1833): numbers in place, bytes and complex into a fresh array; no marks *)
  | RAbs => Some (match mv_v a with VNum _ _ => clear_sorted (mv_f a) | _ => fl_none end)
  (* sign (value.rs:1834-1842): numbers, bytes, complex in place *)
  | RSign => Some (clear_sorted (mv_f a))
  (* Array::select with a rank-1 index list, no fill (dyadic/structure.rs:1324-1414): the result
     is a fresh array (no value marks); it is marked ascending iff (the indices are non-decreasing
     and ALL non-negative and the selected-from array is marked ascending) or (non-increasing, all
     non-negative, marked descending); symmetrically for descending.  A scalar index gives no
     marks.  [a] = indices, [b] = selected-from array. *)
  | RSelect =>
      match shape_of (mv_v a) with
      | [] => Some fl_none
      | [_] =>
          let ks := idx_keys (mv_v a) in
          let nn := forallb (fun k => (0 <=? k)%Z) ks in
          let iu := nn && chain Z.leb ks in
          let id := nn && chain (fun x y => Z.leb y x) ks in
          let su := f_up (mv_f b) in let sd := f_down (mv_f b) in
          Some (FL false (iu && su || id && sd) (iu && sd || id && su))
      | _ => None end
  (* Value::keep (dyadic/mod.rs:574-592).  [a] = counts, [b] = kept array.  A scalar natural
     count repeats every row (keep_scalar_integer, mod.rs:667-716): the metadata stays (a byte
     array is converted to numbers WITH its metadata).  A list of counts (keep_list,
     mod.rs:781-850) takes the sortedness marks and or-s them back; the value marks stay,
     except for a scalar kept array, which is rebuilt from its one element. *)
  | RKeep =>
      if is_scalar (mv_v a) then Some (mv_f b)
      else if is_scalar (mv_v b) then Some (sorted_part (mv_f b))
      else Some (mv_f b)
  (* Value::rotate_depth (dyadic/mod.rs:1159-1189, 1335-1345): nothing happens for an amount
     without rows; otherwise the sortedness marks are cleared, the value marks stay *)
  | RRotate =>
      if match shape_of (mv_v a) with O :: _ => true | _ => false end then Some (mv_f b)
      else Some (clear_sorted (mv_f b))
  | _ => None
  end.

(* ------------------------------------------------------------------ tie support *)

Definition same_value (a b : value) : bool := same_ctor a b && value_eq true a b.
Definition mv_same (a b : mvalue) : bool := same_value (mv_v a) (mv_v b) && flags_eqb (mv_f a) (mv_f b).

(** Array::take with one integer amount and no fill (dyadic/structure.rs:491-612, the `&[taking]`
    arm): the first (or, for a negative amount, the last) |n| rows; more than there are is an
    error without a fill.  Array::drop with one integer amount (structure.rs:759-822): what
    take leaves.  Both keep the metadata of the array: the marks stay. *)
Definition p_prefix (j : nat) (m : mvalue) : mvalue :=
  match shape_of (mv_v m) with
  | [] => m
  | _ :: s => MV (vdata_map (fun A d => firstn (j * shape_prod s) d) (j :: s) (mv_v m)) (mv_f m) end.
Definition p_suffix (j : nat) (m : mvalue) : mvalue :=
  match shape_of (mv_v m) with
  | [] => m
  | n :: s => MV (vdata_map (fun A d => skipn ((n - j) * shape_prod s) d) (j :: s) (mv_v m)) (mv_f m) end.
Definition p_take1 (z : Z) (m : mvalue) : res mvalue :=
  match shape_of (mv_v m) with
  | [] => Err
  | n :: _ => let k := Z.to_nat (Z.abs z) in
              if Nat.ltb n k then Err else Ok (if (0 <=? z)%Z then p_prefix k m else p_suffix k m) end.
Definition p_drop1 (z : Z) (m : mvalue) : res mvalue :=
  match shape_of (mv_v m) with
  | [] => Err
  | n :: _ => let k := Nat.min (Z.to_nat (Z.abs z)) n in
              Ok (if (0 <=? z)%Z then p_suffix (n - k) m else p_prefix (n - k) m) end.

Inductive cprim := CReverse | CFirst | CLast | CFix | CDeshape | CSort | CSortDown | CNeg | CCouple | CRange
                 | CTake (z : Z) | CDrop (z : Z).

Definition prim_c (p : cprim) (args : list mvalue) : res (list mvalue) :=
  match p, args with
  | CReverse, [a] => Ok [p_reverse a]
  | CFirst, [a] => match p_first a with Ok r => Ok [r] | Err => Err end
  | CLast, [a] => match p_last a with Ok r => Ok [r] | Err => Err end
  | CFix, [a] => Ok [p_fix a]
  | CDeshape, [a] => Ok [p_deshape a]
  | CSort, [a] => Ok [p_sort a]
  | CSortDown, [a] => Ok [p_sort_down a]
  | CNeg, [a] => match p_neg_num cur_ver a with Ok r => Ok [r] | Err => Err end
  | CCouple, [a; b] => match p_couple_same a b with Ok r => Ok [r] | Err => Err end
  | CRange, [a] => match mv_v a with
                   | VByte [] [n] => Ok [p_range_nat (N.to_nat n)]
                   | _ => Err end
  | CTake z, [a] => match p_take1 z a with Ok r => Ok [r] | Err => Err end
  | CDrop z, [a] => match p_drop1 z a with Ok r => Ok [r] | Err => Err end
  | _, _ => Err
  end.

(** one observed case of a concretely modelled primitive: 0 = agreement, 1 = value differs,
    2 = marks differ, 3 = outcome (error / success) differs, 4 = case outside the model *)
Record ccase := CC { cc_p : cprim; cc_args : list mvalue; cc_out : option mvalue }.
Definition ccase_check (c : ccase) : N :=
  match prim_c (cc_p c) (cc_args c), cc_out c with
  | Ok [r], Some o =>
      if negb (same_value (mv_v r) (mv_v o)) then 1
      else if negb (flags_eqb (mv_f r) (mv_f o)) then 2 else 0
  | Err, None => 0
  | _, _ => 3
  end.
(** one observed case of a rule-modelled primitive: 0 = agreement, 2 = marks differ,
    5 = the implementation's marks are not truthful, 4 = no rule *)
Record rcase := RC { rc_p : rprim; rc_args : list mvalue; rc_out : mvalue }.
Definition rcase_check (c : rcase) : N :=
  match rule_flags true (rc_p c) (rc_args c) (mv_v (rc_out c)) with
  | None => 4
  | Some f => if negb (flags_eqb f (mv_f (rc_out c))) then 2
              else if negb (wfb (rc_out c)) then 5 else 0
  end.
Fixpoint codes_from {A} (chk : A -> N) (i : N) (l : list A) : list (N * N) :=
  match l with
  | [] => []
  | c :: t => match chk c with 0 => codes_from chk (i + 1) t | k => (i, k) :: codes_from chk (i + 1) t end
  end.

(** validator cross-check: the implementation's verdict on a value with its tree of marks *)
Record xcase := XC { xc_v : value; xc_t : ftree; xc_ok : bool }.
Definition xcase_ok (c : xcase) : bool := Bool.eqb (deep_okb (xc_v c) (xc_t c)) (xc_ok c).
Fixpoint failing_x (i : N) (l : list xcase) : list N :=
  match l with [] => [] | c :: t => if xcase_ok c then failing_x (i + 1) t else i :: failing_x (i + 1) t end.
