(** C15 model: equality, ordering and hashing of values.
    Transcribed from src/array.rs (ArrayCmp impls, PartialEq/PartialOrd/Hash for Array),
    src/value.rs (PartialEq/Ord/Hash for Value), parser/src/complex.rs.
    Executable definitions only; proofs are in Proofs/Order.v. *)
From Coq Require Import List ZArith NArith Bool Lia.
From UV Require Import Base.Value.
Import ListNotations.
Open Scope N_scope.

Definition cmp_then (c k : comparison) : comparison := match c with Eq => k | _ => c end.
Definition is_eq (c : comparison) : bool := match c with Eq => true | _ => false end.

(** bool::cmp *)
Definition bool_cmp (a b : bool) : comparison :=
  match a, b with false, true => Lt | true, false => Gt | _, _ => Eq end.

(** f64::partial_cmp *)
Definition f_pcmp (a b : f64) : option comparison :=
  if f_is_nan a || f_is_nan b then None else Some (Z.compare (f_key a) (f_key b)).

(** ArrayCmp for f64 (wildcard-free) *)
Definition f_cmp (a b : f64) : comparison :=
  match f_pcmp a b with Some c => c | None => bool_cmp (f_is_nan a) (f_is_nan b) end.

(** derived PartialOrd for Complex {re, im}, then the fallback of ArrayCmp for Complex.
    [fixed = true] is the repaired comparison (part-wise total order). *)
Definition c_pcmp (a b : f64 * f64) : option comparison :=
  match f_pcmp (fst a) (fst b) with
  | Some Eq => f_pcmp (snd a) (snd b)
  | r => r end.
Definition c_cmp_old (a b : f64 * f64) : comparison :=
  match c_pcmp a b with Some c => c
  | None => cmp_then (bool_cmp (f_is_nan (fst a)) (f_is_nan (fst b)))
                     (bool_cmp (f_is_nan (snd a)) (f_is_nan (snd b))) end.
Definition c_cmp (a b : f64 * f64) : comparison :=
  cmp_then (f_cmp (fst a) (fst b)) (f_cmp (snd a) (snd b)).

(** zipped comparison: first non-Equal pair, Eq when the shorter list is exhausted *)
Fixpoint zip_cmp {A B} (f : A -> B -> comparison) (a : list A) (b : list B) : comparison :=
  match a, b with
  | x :: a', y :: b' => cmp_then (f x y) (zip_cmp f a' b')
  | _, _ => Eq end.

(** slice Ord on shapes *)
Fixpoint lex_cmp (a b : list nat) : comparison :=
  match a, b with
  | [], [] => Eq | [], _ => Lt | _, [] => Gt
  | x :: a', y :: b' => cmp_then (Nat.compare x y) (lex_cmp a' b') end.

(** PartialOrd for Array: rank, zipped data, then the tail.
    old tail: shape only.  repaired tail: data length, then shape. *)
Definition arr_cmp_old (sa sb : list nat) (zipped : comparison) : comparison :=
  cmp_then (Nat.compare (length sa) (length sb)) (cmp_then zipped (lex_cmp sa sb)).
Definition arr_cmp (sa sb : list nat) (la lb : nat) (zipped : comparison) : comparison :=
  cmp_then (Nat.compare (length sa) (length sb))
    (cmp_then zipped (cmp_then (Nat.compare la lb) (lex_cmp sa sb))).

Definition type_id (v : value) : nat :=
  match v with VNum _ _ | VByte _ _ => 0 | VChar _ _ => 1 | VBox _ _ => 2 | VCplx _ _ => 3 end%nat.

Definition num_data (v : value) : option (list f64) :=
  match v with VNum _ d => Some d | VByte _ d => Some (map f_of_byte d) | _ => None end.

Section Cmp.
  Variable fixed : bool.   (* true: repaired code; false: code before the fix: commits *)
  Definition acmp (sa sb : list nat) (la lb : nat) (z : comparison) :=
    if fixed then arr_cmp sa sb la lb z else arr_cmp_old sa sb z.
  Definition ccmp := if fixed then c_cmp else c_cmp_old.

  (** Ord for Value *)
  Fixpoint value_cmp (a b : value) {struct a} : comparison :=
    cmp_then (Nat.compare (type_id a) (type_id b))
    match a, b with
    | VBox sa da, VBox sb db =>
        acmp sa sb (length da) (length db)
          ((fix zc (l1 l2 : list value) {struct l1} : comparison :=
              match l1, l2 with
              | x :: l1', y :: l2' => cmp_then (value_cmp x y) (zc l1' l2')
              | _, _ => Eq end) da db)
    | VChar sa da, VChar sb db => acmp sa sb (length da) (length db) (zip_cmp N.compare da db)
    | VCplx sa da, VCplx sb db => acmp sa sb (length da) (length db) (zip_cmp ccmp da db)
    | _, _ =>
        match num_data a, num_data b with
        | Some da, Some db => acmp (shape_of a) (shape_of b) (length da) (length db) (zip_cmp f_cmp da db)
        | _, _ => Eq   (* unreachable when type ids agree *)
        end
    end.

  (** PartialEq for Array: shapes equal and all zipped pairs array_eq *)
  Definition shape_eqb (a b : list nat) : bool := is_eq (lex_cmp a b).
  Definition value_eq (a b : value) : bool :=
    match a, b with
    | VBox sa da, VBox sb db => shape_eqb sa sb && is_eq (zip_cmp value_cmp da db)
    | VChar sa da, VChar sb db => shape_eqb sa sb && is_eq (zip_cmp N.compare da db)
    | VCplx sa da, VCplx sb db => shape_eqb sa sb && is_eq (zip_cmp ccmp da db)
    | _, _ =>
        match num_data a, num_data b with
        | Some da, Some db => shape_eqb (shape_of a) (shape_of b) && is_eq (zip_cmp f_cmp da db)
        | _, _ => false end
    end.

  (** What is fed to the hasher: a list of (width in bits, value) writes. *)
  Definition f_hash_norm (b : f64) : N :=
    if (b =? F_EMPTY_NAN) || (b =? F_TOMB_NAN) || (b =? F_WILD_NAN) then b
    else if f_is_nan b then F_NAN_BITS
    else if b =? F_NEG_ZERO then 0 else b.
  Definition c_hash (c : f64 * f64) : list (N * N) :=
    if fixed then [(64, f_hash_norm (fst c)); (64, f_hash_norm (snd c))]
    else [(64, f_hash_norm (fst c)); (64, f_hash_norm (snd c))].
  Definition shape_hash (s : list nat) : list (N * N) :=
    (64, N.of_nat (length s)) :: map (fun d => (64, N.of_nat d)) s.
  Fixpoint value_hash (v : value) : list (N * N) :=
    match v with
    | VNum s d => (8, 0) :: shape_hash s ++ map (fun x => (64, f_hash_norm x)) d
    | VByte s d => (8, 0) :: shape_hash s ++ map (fun x => (64, f_of_byte x)) d
    | VChar s d => (8, 1) :: shape_hash s ++ map (fun x => (32, x)) d
    | VCplx s d => (8, 3) :: shape_hash s ++ flat_map c_hash d
    | VBox s d =>
        match s, d with
        | [], x :: _ => (8, 2) :: value_hash x
        | _, _ => (8, 2) :: shape_hash s ++ flat_map value_hash d
        end
    end.
End Cmp.

(** sentinel-free: no map-cell NaNs / wildcard NaN / wildcard or cell characters *)
Definition f_plain (b : f64) : bool :=
  negb ((b =? F_EMPTY_NAN) || (b =? F_TOMB_NAN) || (b =? F_WILD_NAN)) && (b <? 18446744073709551616).
Definition ch_plain (c : N) : bool := negb ((c =? 1048576) || (c =? 196607) || (c =? 196606)).
Fixpoint plain (v : value) : bool :=
  match v with
  | VNum _ d => forallb f_plain d
  | VByte _ d => forallb (fun x => x <? 256) d
  | VChar _ d => forallb ch_plain d
  | VCplx _ d => forallb (fun c => f_plain (fst c) && f_plain (snd c)) d
  | VBox _ d => forallb plain d
  end.

(** Tie helpers: compare the model with what the implementation reported for a pair. *)
Fixpoint pairs_eqb (a b : list (N * N)) : bool :=
  match a, b with
  | [], [] => true
  | (x1, y1) :: a', (x2, y2) :: b' => (x1 =? x2) && (y1 =? y2) && pairs_eqb a' b'
  | _, _ => false end.
Definition cmp_code (c : comparison) : N := match c with Lt => 0 | Eq => 1 | Gt => 2 end.
Record ocase := OC { oc_a : value; oc_b : value; oc_eq : bool; oc_cmp : N;
                     oc_ha : list (N * N); oc_hb : list (N * N) }.
Definition ocase_ok (fixed : bool) (c : ocase) : bool :=
  Bool.eqb (value_eq fixed (oc_a c) (oc_b c)) (oc_eq c) &&
  (cmp_code (value_cmp fixed (oc_a c) (oc_b c)) =? oc_cmp c) &&
  pairs_eqb (value_hash fixed (oc_a c)) (oc_ha c) &&
  pairs_eqb (value_hash fixed (oc_b c)) (oc_hb c).
Fixpoint failing_from {A} (ok : A -> bool) (i : N) (l : list A) : list N :=
  match l with [] => [] | x :: t => if ok x then failing_from ok (i + 1) t else i :: failing_from ok (i + 1) t end.
Definition ocase_obs (fixed : bool) (c : ocase) :=
  (value_eq fixed (oc_a c) (oc_b c), cmp_code (value_cmp fixed (oc_a c) (oc_b c)),
   value_hash fixed (oc_a c), value_hash fixed (oc_b c)).
