(** C17 model, part (ii) continued: the representation invariants under which the JSON round
    trip of the CURRENT representation is exact ([repr_ok]) and what a value reads back as
    ([norm]).  Executable definitions only. *)
From Coq Require Import List NArith Bool.
From UV Require Import Base.Value Model.Uasm Model.UasmValue.
Import ListNotations.
Open Scope N_scope.

(** bytes are bytes and binary64 patterns are 64-bit patterns (invariants of the encoding of
    uiua values as [value] terms, not conditions on the uiua value) *)
Definition f64_ok (x : f64) : bool := x <? 18446744073709551616.
Fixpoint repr_ok (v : value) : bool :=
  match v with
  | VNum _ d => forallb f64_ok d
  | VByte _ d => forallb (fun x => x <=? 255) d
  | VChar _ _ => true
  | VCplx _ d => forallb (fun c => f64_ok (fst c) && f64_ok (snd c)) d
  | VBox _ d => forallb repr_ok d
  end.

(** what a value reads back as: itself, except that an EMPTY number array comes back with byte
    storage (the JSON text [] is tried as a byte list first; equal as a uiua value, same shape,
    both of type "number").  Every NaN keeps its sign and payload. *)
Fixpoint norm (v : value) : value :=
  match v with
  | VNum sh [] => VByte sh []
  | VBox sh d => VBox sh (map norm d)
  | _ => v
  end.

Fixpoint vdepth (v : value) : nat :=
  match v with
  | VBox _ d => S (fold_right (fun x n => Nat.max (vdepth x) n) 0%nat d)
  | _ => 1%nat
  end.

(** the values the representation BEFORE c00f690 / 6da1960 / 1df8995 could not carry *)
Definition finite (x : f64) : bool := f_mag x <? F_INF_BITS.
