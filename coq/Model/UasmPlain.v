(** C17 model, part (ii) continued: the values on which the JSON round trip is exact
    ([plain_json]) and what a value reads back as ([norm]).  Executable definitions only. *)
From Coq Require Import List NArith Bool.
From UV Require Import Base.Value Model.Uasm Model.UasmValue.
Import ListNotations.
Open Scope N_scope.

(** the strings that F64Rep reserves for its unit variants *)
Definition is_spelling (s : text) : bool :=
  text_eqb s S_NAN || text_eqb s S_W || text_eqb s S_EMPTY || text_eqb s S_TOMB ||
  text_eqb s S_INF || text_eqb s S_NINF.
Definition finite (x : f64) : bool := f_mag x <? F_INF_BITS.

(** - bytes are bytes;
    - a character LIST (the only character arrays written as a bare JSON string) is not a
      reserved spelling (else: C17_value_json_refuted_string);
    - complex parts are finite (else: C17_value_json_refuted_complex);
    labels and map keys are not part of [value] (for char-keyed maps over an empty box array see
    C17_value_json_refuted_map). *)
Fixpoint plain_json (v : value) : bool :=
  match v with
  | VNum _ _ => true
  | VByte _ d => forallb (fun x => x <=? 255) d
  | VChar sh d => match sh with [_] => negb (is_spelling d) | _ => true end
  | VCplx _ d => forallb (fun c => finite (fst c) && finite (snd c)) d
  | VBox _ d => forallb plain_json d
  end.

(** what a value reads back as: an empty number array comes back with byte storage (equal as a
    uiua value, same shape, both "number"), a NaN that is not one of the three reserved NaNs comes
    back as f64::NAN (payload and sign are not kept) *)
Fixpoint norm (v : value) : value :=
  match v with
  | VNum sh [] => VByte sh []
  | VNum sh d => VNum sh (map canon_f d)
  | VBox sh d => VBox sh (map norm d)
  | _ => v
  end.

Fixpoint vdepth (v : value) : nat :=
  match v with
  | VBox _ d => S (fold_right (fun x n => Nat.max (vdepth x) n) 0%nat d)
  | _ => 1%nat
  end.
