(** C17 model, part (ii) continued: the representation invariants under which the JSON round
    trip of the CURRENT representation is exact ([repr_ok]) and what a value reads back as
    ([norm]).  Executable definitions only. *)
From Coq Require Import List NArith Bool.
From UV Require Import Base.Value Model.Uasm Model.UasmValue.
Import ListNotations.
Open Scope N_scope.

(** bytes are bytes and binary64 patterns are 64-bit patterns (invariants of the encoding of
    uiua values as [value] terms, not conditions on the uiua value) *)
Definition f64_ok (x : f64) : bool := x <? 18446744073709551616.
Fixpoint repr_ok (v : value) : bool :=
  match v with
  | VNum _ d => forallb f64_ok d
  | VByte _ d => forallb (fun x => x <=? 255) d
  | VChar _ _ => true
  | VCplx _ d => forallb (fun c => f64_ok (fst c) && f64_ok (snd c)) d
  | VBox _ d => forallb repr_ok d
  end.

(** what a value reads back as: itself, except that an EMPTY number array comes back with byte
    storage (the JSON text [] is tried as a byte list first; equal as a uiua value, same shape,
    both of type "number").  Every NaN keeps its sign and payload. *)
Fixpoint norm (v : value) : value :=
  match v with
  | VNum sh [] => VByte sh []
  | VBox sh d => VBox sh (map norm d)
  | _ => v
  end.

Fixpoint vdepth (v : value) : nat :=
  match v with
  | VBox _ d => S (fold_right (fun x n => Nat.max (vdepth x) n) 0%nat d)
  | _ => 1%nat
  end.

(** what a value with a top-level label or top-level map keys reads back as (theorems
    label_json_roundtrip / map_json_roundtrip); no statement for label together with keys (outside
    the model) *)
Definition meta_expect (m : mval) : option mval :=
  match m with
  | MV v None None => Some (MV (norm v) None None)
  | MV v (Some l) None => Some (MV (norm v) (Some l) None)
  | MV v None (Some k) =>
      Some (MV (norm v) None (if Nat.eqb (rows (shape_of k)) (rows (shape_of v)) then Some (to_num (norm k)) else None))
  | MV _ (Some _) (Some _) => None
  end.
(** tie case: (the value that was written, what the implementation read back) *)
Definition meta_case_ok (c : mval * option mval) : bool :=
  match meta_expect (fst c) with
  | Some e => opt_eqb mval_same (Some e) (snd c)
  | None => true
  end.

(** the values the representation BEFORE c00f690 / 6da1960 / 1df8995 could not carry *)
Definition finite (x : f64) : bool := f_mag x <? F_INF_BITS.
