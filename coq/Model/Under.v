(** C04 - the undo primitives as lenses over the reference arrays of Model/Prims.v.
    [lget] is the selector F, [lput x v] is what the undo primitive computes from the stashed
    original x and the new part v (algorithm/dyadic/structure.rs undo_take / undo_drop, monadic.rs
    undo_first / undo_last, UndoFix = unfix, UndoDeshape = reshape to the stashed shape,
    ⍜⇌ / ⍜↻: the inverse function).  Executable definitions only. *)
From Coq Require Import List ZArith NArith Bool Arith Lia.
From UV Require Import Model.Prims Model.Invert.
Import ListNotations.

Record lens := Lens { lget : arr -> res arr; lput : arr -> arr -> res arr }.

Definition same_cell (t : ety) (s : list nat) (v : arr) : bool :=
  ety_eqb (aty v) t && list_eqb Nat.eqb (ash v) s && wfb v.

(** ⊢ / UndoFirst: the first row *)
Definition l_first : lens := Lens
  (fun x => match ash x with S n :: s => Ok (Arr (aty x) s (firstn (prodn s) (adata x))) | _ => Unspec end)
  (fun x v => match ash x with
              | S n :: s => if same_cell (aty x) s v
                            then Ok (Arr (aty x) (S n :: s) (adata v ++ skipn (prodn s) (adata x))) else Err
              | _ => Unspec end).
(** ⊣ / UndoLast *)
Definition l_last : lens := Lens
  (fun x => match ash x with S n :: s => Ok (Arr (aty x) s (skipn (n * prodn s) (adata x))) | _ => Unspec end)
  (fun x v => match ash x with
              | S n :: s => if same_cell (aty x) s v
                            then Ok (Arr (aty x) (S n :: s) (firstn (n * prodn s) (adata x) ++ adata v)) else Err
              | _ => Unspec end).
(** ↙k / UndoTake, 0 <= k <= rows *)
Definition l_take (k : nat) : lens := Lens
  (fun x => match ash x with
            | n :: s => if Nat.leb k n then Ok (Arr (aty x) (k :: s) (firstn (k * prodn s) (adata x))) else Unspec
            | [] => Unspec end)
  (fun x v => match ash x with
              | n :: s => if Nat.leb k n && same_cell (aty x) (k :: s) v
                          then Ok (Arr (aty x) (n :: s) (adata v ++ skipn (k * prodn s) (adata x))) else Err
              | [] => Unspec end).
(** ↘k / UndoDrop *)
Definition l_drop (k : nat) : lens := Lens
  (fun x => match ash x with
            | n :: s => if Nat.leb k n then Ok (Arr (aty x) ((n - k)%nat :: s) (skipn (k * prodn s) (adata x))) else Unspec
            | [] => Unspec end)
  (fun x v => match ash x with
              | n :: s => if Nat.leb k n && same_cell (aty x) ((n - k)%nat :: s) v
                          then Ok (Arr (aty x) (n :: s) (firstn (k * prodn s) (adata x) ++ adata v)) else Err
              | [] => Unspec end).
(** ⇌ *)
Definition l_reverse : lens := Lens (fun x => Ok (p_reverse x))
  (fun x v => if same_cell (aty x) (ash x) v then Ok (p_reverse v) else Err).
(** ¤ / UndoFix *)
Definition l_fix : lens := Lens (fun x => Ok (p_fix x))
  (fun x v => if same_cell (aty x) (1%nat :: ash x) v then unfix v else Err).
(** ♭ / UndoDeshape *)
Definition l_deshape : lens := Lens (fun x => Ok (p_deshape x))
  (fun x v => if same_cell (aty x) [prodn (ash x)] v then Ok (Arr (aty x) (ash x) (adata v)) else Err).
(** ↻k *)
Definition l_rotate (k : Z) : lens := Lens (rot_by k)
  (fun x v => if same_cell (aty x) (ash x) v then rot_by (- k) v else Err).

(** sequencing: ⍜(F2 F1) - do F1, then F2; undo F2, then F1 *)
Definition l_seq (l1 l2 : lens) : lens := Lens
  (fun x => y <- lget l1 x ;; lget l2 y)
  (fun x v => y <- lget l1 x ;; y' <- lput l2 y v ;; lput l1 x y').

(** `⍜F G x` *)
Definition under_run (l : lens) (g : arr -> res arr) (x : arr) : res arr :=
  v <- lget l x ;; w <- g v ;; lput l x w.
