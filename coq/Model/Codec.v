(** C18 — models of the encoders/decoders whose logic lives in /repo.
    Executable Gallina definitions only.  All numbers are [Z]; bytes are [Z] in 0..255;
    an f64 is its 64-bit pattern (a [Z] in 0..2^64-1).  [nat] is used for widths, counts, fuel. *)
From Coq Require Import List ZArith Bool Lia.
Import ListNotations.
Open Scope Z_scope.

(** * Positional digits, shared by bits, base and the little-endian integer layouts *)

(** [digits k b n]: k least-significant base-[b] digits of n >= 0, least significant first.
    Rust: the loops `n & 1; n >>= 1` (monadic/mod.rs:1779-1787), `rem_euclid(base); div_euclid(base)`
    (dyadic/mod.rs:1908-1911) and `to_le_bytes`. *)
Fixpoint digits (k : nat) (b n : Z) : list Z :=
  match k with O => [] | S k' => (n mod b) :: digits k' b (n / b) end.

(** Horner evaluation from the least significant digit: `n += bit * coeff; coeff *= 2`
    (monadic/mod.rs:1826-1831), `slice[i].mul_add(base, n)` over the reversed row
    (dyadic/mod.rs:1999-2001) and `from_le_bytes`. *)
Fixpoint horner (b : Z) (ds : list Z) : Z :=
  match ds with [] => 0 | d :: t => d + b * horner b t end.

Fixpoint chunks (fuel k : nat) (l : list Z) : list (list Z) :=
  match fuel with
  | O => []
  | S f => match l with [] => [] | _ => firstn k l :: chunks f k (skipn k l) end
  end.

Definition zprod (sh : list Z) : Z := fold_right Z.mul 1 sh.
Definition sgn_of (n : Z) : Z := if n <? 0 then -1 else 1.
Definition zmax_list (l : list Z) : Z := fold_right Z.max 0 l.

(** number of binary digits: `while max != 0 { max_bits += 1; max >>= 1 }` (monadic/mod.rs:1747-1751) *)
Definition bit_len (n : Z) : nat := match n with Zpos p => Pos.size_nat p | _ => O end.

(** * bits / un bits  (monadic/mod.rs:1698-1836) — integer-valued data, no subscript *)
Module Bits.
  Definition U128_MAX : Z := 2 ^ 128 - 1.
  (** `n.abs() > u128::MAX as f64` (the cast rounds to 2^128) is an error; `as u128` saturates *)
  Definition nat_of (n : Z) : option Z :=
    if 2 ^ 128 <? Z.abs n then None else Some (Z.min (Z.abs n) U128_MAX).
  Fixpoint nats_of (ns : list Z) : option (list Z) :=
    match ns with
    | [] => Some []
    | n :: t => match nat_of n, nats_of t with Some a, Some r => Some (a :: r) | _, _ => None end
    end.
  (** one row: LSB first, only the first 127 bits are written (`bit_count.min(127)`), negative
      numbers give negated bits *)
  Definition row (bc : nat) (n a : Z) : list Z :=
    map (Z.mul (sgn_of n)) (digits (Nat.min bc 127) 2 a) ++ repeat 0 (bc - 127)%nat.
  Definition bits (sh : list Z) (ns : list Z) : option (list Z * list Z) :=
    match nats_of ns with
    | None => None
    | Some nats =>
        let bc := bit_len (zmax_list nats) in
        Some (sh ++ [Z.of_nat bc], concat (map (fun p => row bc (fst p) (snd p)) (combine ns nats)))
    end.
  (** un_bits: rank 0 is returned unchanged; last axis 0 gives zeros *)
  Definition un_bits (sh : list Z) (ds : list Z) : list Z * list Z :=
    match rev sh with
    | [] => (sh, ds)
    | bc :: rest =>
        let sh' := rev rest in
        if bc =? 0 then (sh', repeat 0 (Z.to_nat (zprod sh')))
        else (sh', map (horner 2) (chunks (length ds) (Z.to_nat bc) ds))
    end.
End Bits.

(** * base / anti base with a scalar base >= 2  (dyadic/mod.rs:1883-1913, 1991-2005)
    The row length is `max digits_needed_for_base`, computed with floating-point logarithms
    (dyadic/mod.rs:1853-1864); it is a parameter [len] of the model (the tie takes it from the
    implementation's output and the search checks that it is large enough). *)
Module Base.
  Definition row (len : nat) (b n : Z) : list Z :=
    map (Z.mul (sgn_of n)) (digits len b (Z.abs n)).
  Definition base (len : nat) (b : Z) (sh ns : list Z) : list Z * list Z :=
    (sh ++ [Z.of_nat len], concat (map (row len b) ns)).
  (** digits_needed_for_base (dyadic/mod.rs:1853-1869).  [est b n] stands for the floating-point
      estimate `log as usize + 1`; since the repair dfd90e9 ([fixed] = true) one digit is added when
      `base.powi(digits) <= |n|` (exact for |n| < 2^53: every intermediate power is <= |n|) *)
  Definition digits_needed (fixed : bool) (est : Z -> Z -> nat) (b n : Z) : nat :=
    if n =? 0 then O else
    let d := est b n in
    if fixed && (1 <? b) && (b ^ Z.of_nat d <=? Z.abs n) then S d else d.
  (** `max_row_len = data.iter().map(digits_needed).max().unwrap_or(0)` *)
  Definition row_len (fixed : bool) (est : Z -> Z -> nat) (b : Z) (ns : list Z) : nat :=
    fold_right Nat.max O (map (digits_needed fixed est b) ns).
  Definition base_auto (fixed : bool) (est : Z -> Z -> nat) (b : Z) (sh ns : list Z) : list Z * list Z :=
    base (row_len fixed est b ns) b sh ns.
  (** `shape.pop().unwrap_or(1)`; row_len 0 gives zeros *)
  Definition anti_base (b : Z) (sh ds : list Z) : list Z * list Z :=
    match rev sh with
    | [] => ([], map (horner b) (chunks (length ds) 1 ds))
    | rl :: rest =>
        let sh' := rev rest in
        if rl =? 0 then (sh', repeat 0 (Z.to_nat (zprod sh')))
        else (sh', map (horner b) (chunks (length ds) (Z.to_nat rl) ds))
    end.
End Base.

(** * UTF-8 (monadic/mod.rs:2129-2143: `String::into_bytes` / `String::from_utf8`, i.e. the
    standard codec on Unicode scalar values) *)
Module Utf8.
  Definition valid_scalar (c : Z) : Prop := 0 <= c < 55296 \/ 57344 <= c < 1114112.
  Definition valid_scalarb (c : Z) : bool :=
    ((0 <=? c) && (c <? 55296)) || ((57344 <=? c) && (c <? 1114112)).
  Definition enc (c : Z) : list Z :=
    if c <? 128 then [c]
    else if c <? 2048 then [192 + c / 64; 128 + c mod 64]
    else if c <? 65536 then [224 + c / 4096; 128 + (c / 64) mod 64; 128 + c mod 64]
    else [240 + c / 262144; 128 + (c / 4096) mod 64; 128 + (c / 64) mod 64; 128 + c mod 64].
  Definition utf8 (cps : list Z) : list Z := flat_map enc cps.
  Definition cont (b : Z) : bool := (128 <=? b) && (b <=? 191).
  Definition rng (lo hi b : Z) : bool := (lo <=? b) && (b <=? hi).
  Definition consO (c : Z) (r : option (list Z)) : option (list Z) :=
    match r with Some l => Some (c :: l) | None => None end.
  (** the validation table of core::str::from_utf8 (Unicode table 3-7: well-formed byte sequences) *)
  Fixpoint un_utf8 (bs : list Z) : option (list Z) :=
    match bs with
    | [] => Some []
    | b0 :: t1 =>
      if rng 0 127 b0 then consO b0 (un_utf8 t1) else
      match t1 with
      | [] => None
      | b1 :: t2 =>
        if rng 194 223 b0 then
          (if cont b1 then consO ((b0 - 192) * 64 + (b1 - 128)) (un_utf8 t2) else None)
        else
        match t2 with
        | [] => None
        | b2 :: t3 =>
          if rng 224 239 b0 then
            (if (if b0 =? 224 then rng 160 191 b1 else if b0 =? 237 then rng 128 159 b1 else cont b1)
                && cont b2
             then consO ((b0 - 224) * 4096 + (b1 - 128) * 64 + (b2 - 128)) (un_utf8 t3) else None)
          else
          match t3 with
          | [] => None
          | b3 :: t4 =>
            if rng 240 244 b0 then
              (if (if b0 =? 240 then rng 144 191 b1 else if b0 =? 244 then rng 128 143 b1 else cont b1)
                  && cont b2 && cont b3
               then consO ((b0 - 240) * 262144 + (b1 - 128) * 4096 + (b2 - 128) * 64 + (b3 - 128)) (un_utf8 t4)
               else None)
            else None
          end
        end
      end
    end.
End Utf8.

(** * UTF-16 (monadic/mod.rs:2134-2148: `encode_utf16` / `String::from_utf16`) *)
Module Utf16.
  Definition enc (c : Z) : list Z :=
    if c <? 65536 then [c] else [55296 + (c - 65536) / 1024; 56320 + (c - 65536) mod 1024].
  Definition utf16 (cps : list Z) : list Z := flat_map enc cps.
  Fixpoint un_utf16 (us : list Z) : option (list Z) :=
    match us with
    | [] => Some []
    | u :: t1 =>
      if Utf8.rng 55296 56319 u then
        match t1 with
        | [] => None
        | v :: t2 => if Utf8.rng 56320 57343 v
                     then Utf8.consO (65536 + (u - 55296) * 1024 + (v - 56320)) (un_utf16 t2) else None
        end
      else if Utf8.rng 56320 57343 u then None
      else Utf8.consO u (un_utf16 t1)
    end.
End Utf16.

(** * bytes / anti bytes: fixed-width integer formats (encode.rs:348-523) *)
Module Bytes.
  (** format = (signed, width in bytes): u8 i8 u16 i16 u32 i32 u64 i64 u128 i128 *)
  Record fmt := { signed : bool; width : nat }.
  Definition bitsz (f : fmt) : Z := 8 * Z.of_nat (width f).
  Definition lo (f : fmt) : Z := if signed f then - 2 ^ (bitsz f - 1) else 0.
  Definition hi (f : fmt) : Z := if signed f then 2 ^ (bitsz f - 1) - 1 else 2 ^ bitsz f - 1.
  (** `n as $ty`: saturating float-to-int cast of an integer-valued number *)
  Definition clamp (f : fmt) (n : Z) : Z := Z.max (lo f) (Z.min (hi f) n).
  (** two's-complement little-endian bytes of an in-range integer *)
  Definition le_bytes (w : nat) (n : Z) : list Z := digits w 256 (n mod 2 ^ (8 * Z.of_nat w)).
  Definition of_le (f : fmt) (bs : list Z) : Z :=
    let u := horner 256 bs in
    if signed f && (2 ^ (bitsz f - 1) <=? u) then u - 2 ^ bitsz f else u.
  (** side: false = little endian (none = native = little on the checked platform, left), true = big *)
  Definition enc1 (f : fmt) (big : bool) (n : Z) : list Z :=
    let bs := le_bytes (width f) (clamp f n) in if big then rev bs else bs.
  Definition dec1 (f : fmt) (big : bool) (bs : list Z) : Z :=
    of_le f (if big then rev bs else bs).
  (** encode.rs:438-441: the extra axis is only added when elem_size != 1 *)
  Definition encode (f : fmt) (big : bool) (sh ns : list Z) : list Z * list Z :=
    (if Nat.eqb (width f) 1 then sh else sh ++ [Z.of_nat (width f)], concat (map (enc1 f big) ns)).
  (** encode.rs:462-486: u8 returns the bytes unchanged; the other formats pop the last axis and
      demand that it equals elem_size -- since the repair 821d336 only when elem_size != 1
      ([fixed] = true is the current code, false the code before the repair, where i8 also popped) *)
  Definition decode (fixed : bool) (f : fmt) (big : bool) (sh bs : list Z) : option (list Z * list Z) :=
    if negb (signed f) && Nat.eqb (width f) 1 then Some (sh, bs) else
    if fixed && Nat.eqb (width f) 1
    then Some (sh, firstn (Z.to_nat (zprod sh)) (map (dec1 f big) (chunks (length bs) 1 bs))) else
    match rev sh with
    | [] => Some ([], map (dec1 f big) (chunks (length bs) (width f) bs))
    | d :: rest =>
        if d =? Z.of_nat (width f)
        then Some (rev rest, firstn (Z.to_nat (zprod (rev rest))) (map (dec1 f big) (chunks (length bs) (width f) bs)))
        else None
    end.
End Bytes.

(** * binary / un binary  (encode.rs:526-867) *)
Module Bin.
  (** numeric operations on f64 bit patterns that the width selection and the data casts need.
      They are parameters of the model; [Proofs/Codec.v] states their laws, the concrete
      bit-level instance below is what the tie evaluates. *)
  Record numops := {
    to_int : Z -> option Z;     (* Some z iff the float is finite/integral (`fract() == 0.0`), z its value *)
    nonneg : Z -> bool;         (* `n >= 0.0` *)
    of_int : Z -> Z;            (* `x as f64` for an integer (round to nearest even) *)
    to_f32 : Z -> Z;            (* `n as f32` as a 32-bit pattern *)
    of_f32 : Z -> Z;            (* `x as f64` for an f32 bit pattern *)
    negzero : Z -> bool;        (* `n == 0.0 && n.is_sign_negative()` *)
  }.

  Inductive leaf :=
  | LNum (d : list Z)            (* f64 bit patterns *)
  | LByte (d : list Z)
  | LChar (d : list Z)           (* code points *)
  | LCplx (d : list (Z * Z)).    (* (re, im) bit patterns *)

  (** [alloc]: the metadata block is allocated (`meta != ArrayMeta::default()` compares the
      Option<Arc<..>> representation, so an allocated block with default fields is still written) *)
  Record hdr := { alloc : bool; flags : Z; label : list Z (* UTF-8 bytes; [] = none *); shape : list Z }.

  (** [keys] = the normalized map keys (what `°map` returns), if the array is a map *)
  Inductive bval :=
  | BLeaf (h : hdr) (keys : option bval) (p : leaf)
  | BBox (h : hdr) (keys : option bval) (d : list bval).

  Definition MAX_DEPTH : nat := 32.   (* release build: encode.rs:544 *)

  Definition le (w : nat) (n : Z) : list Z := digits w 256 n.
  Definition has_meta (h : hdr) (keys : option bval) : bool :=
    alloc h || negb ((flags h =? 0) && match label h with [] => true | _ => false end
          && match keys with None => true | _ => false end).
  Definition write_shape (sh : list Z) : list Z :=
    (Z.of_nat (length sh) mod 256) :: flat_map (fun d => le 4 (d mod 2 ^ 32)) sh.

  Inductive bty := U8 | U16 | U32 | U64 | I8 | I16 | I32 | I64 | F32 | F64.
  Definition ty_code (t : bty) : Z :=
    match t with U8 => 0 | U16 => 1 | U32 => 2 | U64 => 3 | I8 => 4 | I16 => 5 | I32 => 6 | I64 => 7
               | F32 => 8 | F64 => 9 end.
  Definition CHAR := 16. Definition BOX := 32. Definition COMPLEX := 48.

  Section WithOps.
    Variable NO : numops.

    (** encode.rs:604-648.  min/max start at 0 and ignore NaN; on the integer branches every
        element is an integer so they are the integer min/max with 0 *)
    (** all_int, with the values.  Since b303665 ([excl] = true, the current code) negative zero does
        not count as an integer: `all_int &= n.fract() == 0.0 && !(n == 0.0 && n.is_sign_negative())` *)
    Definition ints_of (excl : bool) (d : list Z) : option (list Z) :=
      fold_right (fun n acc => if excl && negzero NO n then None else
                               match to_int NO n, acc with Some z, Some l => Some (z :: l) | _, _ => None end)
                 (Some []) d.
    Definition all_f32 (d : list Z) : bool := forallb (fun n => of_f32 NO (to_f32 NO n) =? n) d.
    Definition choose_gen (excl : bool) (d : list Z) : bty :=
      match ints_of excl d with
      | Some zs =>
          let mx := fold_right Z.max 0 zs in
          let mn := fold_right Z.min 0 zs in
          if forallb (nonneg NO) d then
            if mx <=? 255 then U8 else if mx <=? 65535 then U16 else if mx <=? 4294967295 then U32
            else if mx <=? 2 ^ 64 then U64 else if mx <=? 2 ^ 24 then F32 else F64
          else
            if (-128 <=? mn) && (mx <=? 127) then I8
            else if (-32768 <=? mn) && (mx <=? 32767) then I16
            else if (- 2 ^ 31 <=? mn) && (mx <=? 2 ^ 31 - 1) then I32
            else if (- 2 ^ 63 <=? mn) && (mx <=? 2 ^ 63) then I64
            else if (- 2 ^ 24 <=? mn) && (mx <=? 2 ^ 24) then F32 else F64
      | None => if all_f32 d then F32 else F64
      end.
    Definition choose : list Z -> bty := choose_gen true.        (* the current code *)
    Definition choose_pre : list Z -> bty := choose_gen false.   (* before b303665 *)
    (** `n as uN` / `n as iN` saturate; two's complement little endian *)
    Definition sat (lo hi z : Z) : Z := Z.max lo (Z.min hi z).
    Definition zint (n : Z) : Z := match to_int NO n with Some z => z | None => 0 end.
    Definition write_num (t : bty) (n : Z) : list Z :=
      match t with
      | U8 => le 1 (sat 0 255 (zint n))
      | U16 => le 2 (sat 0 65535 (zint n))
      | U32 => le 4 (sat 0 4294967295 (zint n))
      | U64 => le 8 (sat 0 (2 ^ 64 - 1) (zint n))
      | I8 => le 1 (sat (-128) 127 (zint n) mod 2 ^ 8)
      | I16 => le 2 (sat (-32768) 32767 (zint n) mod 2 ^ 16)
      | I32 => le 4 (sat (- 2 ^ 31) (2 ^ 31 - 1) (zint n) mod 2 ^ 32)
      | I64 => le 8 (sat (- 2 ^ 63) (2 ^ 63 - 1) (zint n) mod 2 ^ 64)
      | F32 => le 4 (to_f32 NO n)
      | F64 => le 8 n
      end.

    (** write_ty_meta (encode.rs:565-601) without pointer/handle (not representable here) *)
    Definition write_meta (code : Z) (h : hdr) (keys : option bval) (kbytes : option (list Z)) : option (list Z) :=
      if has_meta h keys then
        match keys, kbytes with
        | Some _, None => None
        | _, _ =>
          Some ([code + 128; flags h] ++ le 4 (Z.of_nat (length (label h)) mod 2 ^ 32) ++ label h
                ++ match kbytes with Some kb => 1 :: kb | None => [0] end)
        end
      else Some [code].

    Definition write_leaf (p : leaf) : Z * list Z :=
      match p with
      | LNum d => let t := choose d in (ty_code t, flat_map (write_num t) d)
      | LByte d => (ty_code U8, d)
      | LChar d => let s := Utf8.utf8 d in (CHAR, le 4 (Z.of_nat (length s) mod 2 ^ 32) ++ s)
      | LCplx d => (COMPLEX, flat_map (fun c => le 8 (fst c) ++ le 8 (snd c)) d)
      end.

    Definition obind {A B} (o : option A) (f : A -> option B) : option B :=
      match o with Some a => f a | None => None end.

    (** to_binary_impl: [depth] as in the Rust; error above MAX_DEPTH and for rank > 255 *)
    Fixpoint to_binary (depth : nat) (v : bval) : option (list Z) :=
      if Nat.ltb MAX_DEPTH depth then None else
      match v with
      | BLeaf h keys p =>
          if Nat.ltb 255 (length (shape h)) then None else
          let kb := match keys with Some k => to_binary (S depth) k | None => None end in
          let '(code, payload) := write_leaf p in
          obind (write_meta code h keys kb) (fun m => Some (m ++ write_shape (shape h) ++ payload))
      | BBox h keys d =>
          if Nat.ltb 255 (length (shape h)) then None else
          let kb := match keys with Some k => to_binary (S depth) k | None => None end in
          obind (write_meta BOX h keys kb) (fun m =>
            obind ((fix go (l : list bval) : option (list Z) :=
                      match l with
                      | [] => Some []
                      | x :: t => obind (to_binary (S depth) x) (fun bx => obind (go t) (fun bt => Some (bx ++ bt)))
                      end) d)
                  (fun body => Some (m ++ write_shape (shape h) ++ body)))
      end.

    (** ** decoder *)
    Definition takeZ (n : Z) (bs : list Z) : option (list Z * list Z) :=
      if n <=? Z.of_nat (length bs) then Some (firstn (Z.to_nat n) bs, skipn (Z.to_nat n) bs) else None.
    Definition take (n : nat) (bs : list Z) : option (list Z * list Z) := takeZ (Z.of_nat n) bs.
    Definition signed_of (w : nat) (u : Z) : Z :=
      if 2 ^ (8 * Z.of_nat w - 1) <=? u then u - 2 ^ (8 * Z.of_nat w) else u.
    Definition ty_of_code (c : Z) : option bty :=
      match c with 0 => Some U8 | 1 => Some U16 | 2 => Some U32 | 3 => Some U64 | 4 => Some I8
                 | 5 => Some I16 | 6 => Some I32 | 7 => Some I64 | 8 => Some F32 | 9 => Some F64
                 | _ => None end.
    Definition width_of (t : bty) : nat :=
      match t with U8 | I8 => 1 | U16 | I16 => 2 | U32 | I32 | F32 => 4 | U64 | I64 | F64 => 8 end%nat.
    Definition read_num (t : bty) (bs : list Z) : Z :=
      let u := horner 256 bs in
      match t with
      | U8 => u   (* stays a byte *)
      | U16 | U32 | U64 => of_int NO u
      | I8 => of_int NO (signed_of 1 u) | I16 => of_int NO (signed_of 2 u)
      | I32 => of_int NO (signed_of 4 u) | I64 => of_int NO (signed_of 8 u)
      | F32 => of_f32 NO u
      | F64 => u
      end.
    Fixpoint read_shape (rank : nat) (bs : list Z) : option (list Z * list Z) :=
      match rank with
      | O => Some ([], bs)
      | S r => obind (take 4 bs) (fun '(d, rest) =>
               obind (read_shape r rest) (fun '(sh, rest') => Some (horner 256 d :: sh, rest')))
      end.
    (** `make`: count elements of [w] bytes each *)
    Definition read_elems (w : nat) (count : Z) (bs : list Z) : option (list (list Z) * list Z) :=
      if Z.of_nat (length bs) <? count * Z.of_nat w then None else
      let n := (Z.to_nat count * w)%nat in
      Some (chunks (Z.to_nat count) w (firstn n bs), skipn n bs).

    Definition set_keys (v : bval) (h : hdr) (keys : option bval) : bval :=
      match v with BLeaf _ _ p => BLeaf h keys p | BBox _ _ d => BBox h keys d end.
    Definition row_count (v : bval) : Z :=
      let sh := match v with BLeaf h _ _ | BBox h _ _ => shape h end in
      match sh with [] => 1 | d :: _ => d end.

    (** `map` inserts the key rows one by one; the first insertion grows the table, which stores
        byte keys as numbers (algorithm/map.rs:456-460).  Scalar keys and zero rows: unchanged *)
    Definition norm_keys (k : bval) : bval :=
      match k with
      | BLeaf h ks (LByte d) =>
          match shape h with
          | [] => k
          | r :: _ => if r =? 0 then k else BLeaf h ks (LNum (map (of_int NO) d))
          end
      | _ => k
      end.

    (** validate_size (algorithm/mod.rs:133-160, since 1cc30f2): an empty shape is accepted only if the
        product of its non-zero dimensions fits isize; the limits on non-empty shapes (u32::MAX
        elements, UIUA_MAX_MB) are subsumed by the "remaining input" guards of parse_payload *)
    Definition nz_prod (sh : list Z) : Z := fold_right (fun d acc => if d =? 0 then acc else d * acc) 1 sh.
    Definition count_of (sh : list Z) : option Z :=
      if existsb (Z.eqb 0) sh then (if 2 ^ 63 <? nz_prod sh then None else Some 0) else Some (zprod sh).

    (** from_binary_impl, in three parsers.  [rec] is the recursive call at depth + 1. *)
    Section Parsers.
      Variable rec : list Z -> option (bval * list Z).

      (** flags, label, map keys (encode.rs:726-769) *)
      Definition parse_meta (has_m : bool) (bs1 : list Z) : option (Z * list Z * option bval * list Z) :=
        if has_m then
          match bs1 with
          | [] => None
          | fl :: bs2 =>
            if 15 <? fl then None else
            obind (take 4 bs2) (fun '(lb, bs3) =>
            obind (takeZ (horner 256 lb) bs3) (fun '(lbl, bs4) =>
            if match Utf8.un_utf8 lbl with Some _ => false | None => true end then None else
            match bs4 with
            | [] => None
            | hk :: bs5 =>
              if hk =? 0 then Some (fl, lbl, None, bs5)
              else obind (rec bs5) (fun '(k, bs6) => Some (fl, lbl, Some (norm_keys k), bs6))
            end))
          end
        else Some (0, [], None, bs1).

      (** rank byte and u32 dimensions (encode.rs:771-787) *)
      Definition parse_shape (bs : list Z) : option (list Z * list Z) :=
        match bs with
        | [] => None
        | rk :: bsr => read_shape (Z.to_nat rk) bsr
        end.

      Fixpoint read_boxes (n : nat) (bs : list Z) : option (list bval * list Z) :=
        match n with
        | O => Some ([], bs)
        | S n' => obind (rec bs) (fun '(x, r1) =>
                  obind (read_boxes n' r1) (fun '(xs, r2) => Some (x :: xs, r2)))
        end.

      (** the data (encode.rs:789-870).  [count] = validate_size = product of the shape (0 as soon as a
          dimension is 0); since 5718f7d every branch refuses a count the remaining input cannot hold
          before allocating (`available < elem_count`, `bytes.len() < elem_count` for boxes) *)
      Definition parse_payload (code : Z) (h : hdr) (count : Z) (bsd : list Z) : option (bval * list Z) :=
        if code <=? 9 then
          match ty_of_code code with
          | None => None
          | Some t =>
            obind (read_elems (width_of t) count bsd) (fun '(els, rest) =>
            let d := map (read_num t) els in
            Some (match t with U8 => BLeaf h None (LByte d) | _ => BLeaf h None (LNum d) end, rest))
          end
        else if code =? 16 then
          obind (take 4 bsd) (fun '(cb, bs7) =>
          obind (takeZ (horner 256 cb) bs7) (fun '(sb, rest) =>
          match Utf8.un_utf8 sb with
          | None => None
          | Some cps => if Z.of_nat (length cps) =? count then Some (BLeaf h None (LChar cps), rest) else None
          end))
        else if code =? 48 then
          obind (read_elems 16 count bsd) (fun '(els, rest) =>
          Some (BLeaf h None (LCplx (map (fun e => (horner 256 (firstn 8 e), horner 256 (skipn 8 e))) els)), rest))
        else
          if Z.of_nat (length bsd) <? count then None else
          obind (read_boxes (Z.to_nat count) bsd) (fun '(xs, rest) => Some (BBox h None xs, rest)).

      Definition finish (v : bval) (h : hdr) (keys : option bval) (rest : list Z) : option (bval * list Z) :=
        match keys with
        | None => Some (set_keys v h None, rest)
        | Some k =>
          (* `val.map(keys)`: the keys must have as many rows as the value *)
          if row_count k =? row_count v then Some (set_keys v h (Some k), rest) else None
        end.

      Definition parse_value (bs : list Z) : option (bval * list Z) :=
        match bs with
        | [] => None
        | tyb :: bs1 =>
          let has_m := 128 <=? tyb in
          let code := tyb mod 128 in
          if negb (orb (orb (code <=? 9) (code =? 16)) (orb (code =? 32) (code =? 48))) then None else
          obind (parse_meta has_m bs1) (fun '(fl, lbl, keys, bsm) =>
          obind (parse_shape bsm) (fun '(sh, bsd) =>
          let h := {| alloc := has_m; flags := fl; label := lbl; shape := sh |} in
          obind (count_of sh) (fun count =>
          obind (parse_payload code h count bsd) (fun '(v, rest) => finish v h keys rest))))
        end.
    End Parsers.

    (** [fuel] = MAX_DEPTH + 1 - depth, so fuel 0 is `depth > MAX_BINARY_DEPTH` *)
    Fixpoint from_binary (fuel : nat) (bs : list Z) : option (bval * list Z) :=
      match fuel with
      | O => None
      | S fuel' => parse_value (from_binary fuel') bs
      end.

    Definition to_binary_top (v : bval) : option (list Z) := to_binary 0 v.
    Definition from_binary_top (bs : list Z) : option bval :=
      match from_binary (S MAX_DEPTH) bs with Some (v, _) => Some v | None => None end.
  End WithOps.

  (** ** the concrete bit-level instance evaluated by the tie *)
  Definition P52 := 2 ^ 52.
  Definition f_sign (b : Z) : Z := b / 2 ^ 63.
  Definition f_exp (b : Z) : Z := (b / P52) mod 2048.
  Definition f_man (b : Z) : Z := b mod P52.
  Definition c_to_int (b : Z) : option Z :=
    let e := f_exp b in let m := f_man b in
    let s := if f_sign b =? 1 then -1 else 1 in
    if e =? 0 then (if m =? 0 then Some 0 else None)
    else if e =? 2047 then None
    else let M := P52 + m in
         if 1075 <=? e then Some (s * (M * 2 ^ (e - 1075)))
         else let r := 1075 - e in
              if 52 <? r then None
              else if M mod 2 ^ r =? 0 then Some (s * (M / 2 ^ r)) else None.
  Definition c_nonneg (b : Z) : bool :=
    let e := f_exp b in let m := f_man b in
    if (e =? 2047) && negb (m =? 0) then false            (* NaN >= 0.0 is false *)
    else (f_sign b =? 0) || ((e =? 0) && (m =? 0)).       (* -0.0 >= 0.0 *)
  (** round to nearest, ties to even, of n / 2^s *)
  Definition rne (n s : Z) : Z :=
    if s <=? 0 then n * 2 ^ (- s) else
    let q := n / 2 ^ s in let r := n mod 2 ^ s in let half := 2 ^ (s - 1) in
    if (half <? r) || ((r =? half) && Z.odd q) then q + 1 else q.
  Definition c_of_nat (n : Z) : Z :=
    if n =? 0 then 0 else
    let k := Z.log2 n in
    let q := rne n (k - 52) in
    (1023 + k) * P52 + (q - P52).
  Definition c_of_int (z : Z) : Z := if z <? 0 then 2 ^ 63 + c_of_nat (- z) else c_of_nat z.
  Definition c_to_f32 (b : Z) : Z :=
    let s := f_sign b in let e := f_exp b in let m := f_man b in
    let sb := s * 2 ^ 31 in
    if e =? 2047 then
      (if m =? 0 then sb + 2139095040 else sb + 2139095040 + Z.lor (m / 2 ^ 29) 4194304)
    else if (e =? 0) then sb      (* zero and f64 subnormals (far below the f32 range) *)
    else
      let M := P52 + m in
      let x := e - 1023 in
      if 128 <=? x then sb + 2139095040
      else if -126 <=? x then
        let q := rne M 29 in
        Z.min (sb + 2139095040) (sb + (x + 127) * 2 ^ 23 + (q - 2 ^ 23))
      else
        (* subnormal result: multiples of 2^-149 *)
        let sh := (-149 - (x - 52)) in
        if 60 <? sh - 52 then sb else sb + rne M sh.
  Definition c_of_f32 (u : Z) : Z :=
    let s := u / 2 ^ 31 in let e := (u / 2 ^ 23) mod 256 in let m := u mod 2 ^ 23 in
    let sb := s * 2 ^ 63 in
    if e =? 255 then (if m =? 0 then sb + 2047 * P52 else sb + 2047 * P52 + Z.lor (m * 2 ^ 29) (2 ^ 51))
    else if e =? 0 then
      (if m =? 0 then sb else
       let k := Z.log2 m in sb + (k - 149 + 1023) * P52 + (m - 2 ^ k) * 2 ^ (52 - k))
    else sb + (e - 127 + 1023) * P52 + m * 2 ^ 29.
  Definition cops : numops :=
    {| to_int := c_to_int; nonneg := c_nonneg; of_int := c_of_int; to_f32 := c_to_f32; of_f32 := c_of_f32;
       negzero := fun b => b =? 2 ^ 63 |}.
End Bin.

(** * cases of the correspondence check (rendered by lib/c18.py from the harness output) *)
Fixpoint list_beq (A : Type) (eqb : A -> A -> bool) (l1 l2 : list A) : bool :=
  match l1, l2 with
  | [], [] => true
  | x :: t1, y :: t2 => eqb x y && list_beq A eqb t1 t2
  | _, _ => false
  end.
Definition olz_eqb (a b : option (list Z * list Z)) : bool :=
  match a, b with
  | Some (s1, d1), Some (s2, d2) => list_beq Z Z.eqb s1 s2 && list_beq Z Z.eqb d1 d2
  | None, None => true
  | _, _ => false
  end.
Definition ol_eqb (a b : option (list Z)) : bool :=
  match a, b with Some x, Some y => list_beq Z Z.eqb x y | None, None => true | _, _ => false end.

Fixpoint bval_eqb (a b : Bin.bval) {struct a} : bool :=
  let heq (h1 h2 : Bin.hdr) := Bool.eqb (Bin.alloc h1) (Bin.alloc h2) && (Bin.flags h1 =? Bin.flags h2) && list_beq Z Z.eqb (Bin.label h1) (Bin.label h2)
                               && list_beq Z Z.eqb (Bin.shape h1) (Bin.shape h2) in
  let keq (k1 : option Bin.bval) (k2 : option Bin.bval) :=
    match k1, k2 with Some x, Some y => bval_eqb x y | None, None => true | _, _ => false end in
  match a, b with
  | Bin.BLeaf h1 k1 p1, Bin.BLeaf h2 k2 p2 =>
      heq h1 h2 && keq k1 k2 &&
      match p1, p2 with
      | Bin.LNum d1, Bin.LNum d2 | Bin.LByte d1, Bin.LByte d2 | Bin.LChar d1, Bin.LChar d2 => list_beq Z Z.eqb d1 d2
      | Bin.LCplx d1, Bin.LCplx d2 => list_beq (Z * Z) (fun x y => (fst x =? fst y) && (snd x =? snd y)) d1 d2
      | _, _ => false
      end
  | Bin.BBox h1 k1 d1, Bin.BBox h2 k2 d2 =>
      heq h1 h2 && keq k1 k2 &&
      (fix go (l1 l2 : list Bin.bval) : bool :=
         match l1, l2 with
         | [], [] => true
         | x :: t1, y :: t2 => bval_eqb x y && go t1 t2
         | _, _ => false
         end) d1 d2
  | _, _ => false
  end.

Inductive tcase :=
| TBits (sh d : list Z) (out : option (list Z * list Z))
| TUnBits (sh d : list Z) (out : option (list Z * list Z))
| TUtf8 (cps : list Z) (out : list Z)
| TUnUtf8 (bs : list Z) (out : option (list Z))
| TUtf16 (cps : list Z) (out : list Z)
| TUnUtf16 (us : list Z) (out : option (list Z))
| TBase (b : Z) (sh d : list Z) (osh od : list Z)
| TAntiBase (b : Z) (sh d : list Z) (osh od : list Z)
| TBytes (sg : bool) (w : nat) (big : bool) (sh d : list Z) (osh od : list Z)
| TUnBytes (sg : bool) (w : nat) (big : bool) (sh d : list Z) (out : option (list Z * list Z))
| TBinary (v : Bin.bval) (out : option (list Z))
| TUnBinary (bs : list Z) (out : option Bin.bval)
| TCast (bits : Z) (int : option Z) (nonneg : bool) (f32 f32back : Z)
| TOfInt (z bits : Z)
| TOf32 (u bits : Z).

Definition oz_eqb (a b : option Z) : bool :=
  match a, b with Some x, Some y => x =? y | None, None => true | _, _ => false end.

Definition tcase_ok (c : tcase) : bool :=
  match c with
  | TBits sh d out => olz_eqb (Bits.bits sh d) out
  | TUnBits sh d out => olz_eqb (Some (Bits.un_bits sh d)) out
  | TUtf8 cps out => list_beq Z Z.eqb (Utf8.utf8 cps) out
  | TUnUtf8 bs out => ol_eqb (Utf8.un_utf8 bs) out
  | TUtf16 cps out => list_beq Z Z.eqb (Utf16.utf16 cps) out
  | TUnUtf16 us out => ol_eqb (Utf16.un_utf16 us) out
  | TBase b sh d osh od =>
      (* the row length is taken from the implementation; it must be sufficient for the largest entry
         (premise of C18_antibase_base / est_close) and at most one digit longer than needed (the
         float logarithm may round up: log2 (2^53-1) = 53.0) *)
      let len := Z.to_nat (last osh 0) in
      let m := zmax_list (map Z.abs d) in
      olz_eqb (Some (Base.base len b sh d)) (Some (osh, od))
      && (m <? b ^ Z.of_nat len) && ((len <=? 1)%nat || (b ^ Z.of_nat (len - 2) <=? m))
  | TAntiBase b sh d osh od => olz_eqb (Some (Base.anti_base b sh d)) (Some (osh, od))
  | TBytes sg w big sh d osh od =>
      olz_eqb (Some (Bytes.encode {| Bytes.signed := sg; Bytes.width := w |} big sh d)) (Some (osh, od))
  | TUnBytes sg w big sh d out => olz_eqb (Bytes.decode true {| Bytes.signed := sg; Bytes.width := w |} big sh d) out
  | TBinary v out => ol_eqb (Bin.to_binary_top Bin.cops v) out
  | TUnBinary bs out =>
      match Bin.from_binary_top Bin.cops bs, out with
      | Some a, Some b => bval_eqb a b | None, None => true | _, _ => false end
  | TCast b i nn f32 back =>
      oz_eqb (match Bin.c_to_int b with Some z => if Z.abs z <=? 2 ^ 64 then Some z else None | None => None end) i
      && Bool.eqb (Bin.c_nonneg b) nn && (Bin.c_to_f32 b =? f32) && (Bin.c_of_f32 f32 =? back)
  | TOfInt z b => Bin.c_of_int z =? b
  | TOf32 u b => Bin.c_of_f32 u =? b
  end.

Fixpoint failing_from (i : nat) (cs : list tcase) : list nat :=
  match cs with [] => [] | c :: t => (if tcase_ok c then [] else [i]) ++ failing_from (S i) t end.
