(** The interpreter spine: IR nodes (src/tree.rs `node!`), signatures (parser/src/signature.rs).
    Executable definitions only. *)
From Coq Require Import List ZArith NArith Bool Lia.
Import ListNotations.

Record sig := Sig { sa : nat; so : nat; sua : nat; suo : nat }.
Definition sig2 (a o : nat) : sig := Sig a o 0 0.

Definition sig_eqb (x y : sig) : bool :=
  Nat.eqb (sa x) (sa y) && Nat.eqb (so x) (so y) && Nat.eqb (sua x) (sua y) && Nat.eqb (suo x) (suo y).

(** Signature::compose: self after other *)
Definition sig_compose (s o : sig) : sig :=
  Sig (sa o + (sa s - so o)) (so s + (so o - sa s))
      (sua o + (sua s - suo o)) (suo s + (suo o - sua s)).
Definition sig_inverse (s : sig) : sig := sig2 (so s) (sa s).
Definition sig_anti (s : sig) : option sig :=
  if Nat.eqb (sa s) 0 then None else Some (sig2 (so s + 1) (sa s - 1)).

(** run-time values of the spine: integers are interpreted, everything else is opaque *)
Inductive sval := SInt (z : Z) | SOpq (id : N).

Inductive modk :=
| MDip | MGap | MOn | MBy | MWith | MOff | MAbove | MBelow | MBoth | MFork | MBracket | MReach
| MTry | MPattern | MCase | MFill | MUnFill | MSidedFill
| MRepeat | MDo | MReduce | MScan | MFold
| MRows | MEach | MInventory | MTable | MTuples | MStencil | MGroup | MPartition
| MContent | MMemo | MComptime | MUn | MAnti | MSpawn | MPool | MDump
| MOnSub (n : nat) | MBySub (n : nat) | MWithSub (n : nat) | MOffSub (n : nat) | MDipN (n : nat)
| MReduceDepth (d : nat) | MReduceContent | MUndoRows | MUndoInventory | MEachSub | MFixMatchRanks
| MUnBracket | MUnScan | MRepeatWithInverse | MRepeatCountConv | MBothImpl (reused n : nat) | MUnBothImpl (reused n : nat) | MHandleSig
| MOther (id : N) (fixed : option sig).   (* any other modifier: signature from its table entry, if any *)

Inductive node :=
| Push (v : sval)
| Prim (id : N) (a o : nat)                 (* Prim / ImplPrim with the arity of its table entry *)
| PrimIndet (id : N)                        (* indeterminate arity in the table *)
| Run (ns : list node)
| Mod (m : modk) (args : list (sig * node))
| Call (f : nat) (s : sig)                  (* Function { index, sig } *)
| CallGlobal (i : nat) (s : sig)
| CallMacro (i : nat) (s : sig)
| BindGlobal
| Arr (len : nat) (inner : node) (boxed : bool)
| Unpack (count : nat) (unbox : bool)
| Switch (brs : list (sig * node)) (s : sig) (under_cond : bool)
| PushUnder (n : nat) | CopyToUnder (n : nat) | PopUnder (n : nat)
| NoInline (inner : node)
| TrackCaller (s : sig) (inner : node)
| CustomInv (s : option sig) (has_normal : bool) (nsig : sig) (normal : node)   (* cust.sig(), cust.normal *)
| Label | RemoveLabel
| Format (parts : nat) | MatchFormat (parts : nat)
| Dynamic (s : sig)
| SetOutputComment.

(** induction principle through the nested lists *)
Section NodeInd.
  Variable P : node -> Prop.
  Hypothesis HPush : forall v, P (Push v).
  Hypothesis HPrim : forall i a o, P (Prim i a o).
  Hypothesis HPrimI : forall i, P (PrimIndet i).
  Hypothesis HRun : forall ns, Forall P ns -> P (Run ns).
  Hypothesis HMod : forall m args, Forall (fun a => P (snd a)) args -> P (Mod m args).
  Hypothesis HCall : forall f s, P (Call f s).
  Hypothesis HCallG : forall f s, P (CallGlobal f s).
  Hypothesis HCallM : forall f s, P (CallMacro f s).
  Hypothesis HBind : P BindGlobal.
  Hypothesis HArr : forall l i b, P i -> P (Arr l i b).
  Hypothesis HUnpack : forall c u, P (Unpack c u).
  Hypothesis HSwitch : forall brs s u, Forall (fun a => P (snd a)) brs -> P (Switch brs s u).
  Hypothesis HPushU : forall n, P (PushUnder n).
  Hypothesis HCopyU : forall n, P (CopyToUnder n).
  Hypothesis HPopU : forall n, P (PopUnder n).
  Hypothesis HNoInl : forall i, P i -> P (NoInline i).
  Hypothesis HTrack : forall s i, P i -> P (TrackCaller s i).
  Hypothesis HCust : forall s h ns nm, P nm -> P (CustomInv s h ns nm).
  Hypothesis HLabel : P Label.
  Hypothesis HRLabel : P RemoveLabel.
  Hypothesis HFormat : forall p, P (Format p).
  Hypothesis HMFormat : forall p, P (MatchFormat p).
  Hypothesis HDyn : forall s, P (Dynamic s).
  Hypothesis HSOC : P SetOutputComment.
  Fixpoint node_ind' (n : node) : P n :=
    match n with
    | Push v => HPush v | Prim i a o => HPrim i a o | PrimIndet i => HPrimI i
    | Run ns => HRun ns ((fix go (l : list node) : Forall P l :=
        match l with [] => Forall_nil P | x :: t => Forall_cons x (node_ind' x) (go t) end) ns)
    | Mod m args => HMod m args ((fix go (l : list (sig * node)) : Forall (fun a => P (snd a)) l :=
        match l with [] => Forall_nil _ | x :: t => Forall_cons x (node_ind' (snd x)) (go t) end) args)
    | Call f s => HCall f s | CallGlobal f s => HCallG f s | CallMacro f s => HCallM f s
    | BindGlobal => HBind
    | Arr l i b => HArr l i b (node_ind' i)
    | Unpack c u => HUnpack c u
    | Switch brs s u => HSwitch brs s u ((fix go (l : list (sig * node)) : Forall (fun a => P (snd a)) l :=
        match l with [] => Forall_nil _ | x :: t => Forall_cons x (node_ind' (snd x)) (go t) end) brs)
    | PushUnder n => HPushU n | CopyToUnder n => HCopyU n | PopUnder n => HPopU n
    | NoInline i => HNoInl i (node_ind' i)
    | TrackCaller s i => HTrack s i (node_ind' i)
    | CustomInv s h ns nm => HCust s h ns nm (node_ind' nm)
    | Label => HLabel | RemoveLabel => HRLabel
    | Format p => HFormat p | MatchFormat p => HMFormat p
    | Dynamic s => HDyn s | SetOutputComment => HSOC
    end.
End NodeInd.
