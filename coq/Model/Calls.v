(** C14 - naming code does not change it.  Executable definitions only.

    What a name is in the IR (src/compile/mod.rs:2139 `global_index`): a reference to a
    function binding compiles to `Node::Call(f, span)` where `f : Function` carries the INDEX
    of the body in `Assembly::functions` and the signature; an index macro call compiles to a
    `Call` of a freshly added function too (src/compile/modifier.rs), a module path `M~F`
    resolves to the same `Call` (src/compile/mod.rs:1819 `ref_path`).  At run time
    (src/run.rs:796 `call_with_span`) a `Call` is `without_fill(exec_with_frame_span(body))`:
    a fill boundary, a stack frame (named in error traces) and the height check.

    [inlc]  replaces every `Call f sg` that is not lexically inside a fill operand by the
            body wrapped in a marker that keeps the frame and the height check but NOT the fill
            boundary: `CustomInv (Some sg) true sg body` is exactly `exec_with_span`
            (Exec.v: a frame without fill boundary).  Calls where a fill may be visible are kept.
    [flat]  strips the markers and flattens runs (Node::push / Node::normalize, src/tree.rs:398,474):
            the form in which the compiler emits a parenthesised body written in place.
    [equiv_mod_naming]  structural equality of the two inlined programs. *)
From Coq Require Import List ZArith NArith Bool Lia.
From UV Require Import Model.Node Model.Sig Model.Exec.
Import ListNotations.

(** * structural equality (spans are absent from the model) *)
Definition sval_eqb (a b : sval) : bool :=
  match a, b with SInt x, SInt y => Z.eqb x y | SOpq x, SOpq y => N.eqb x y | _, _ => false end.

Definition modk_eq_dec (a b : modk) : {a = b} + {a <> b}.
Proof.
  decide equality; try apply Nat.eq_dec; try apply N.eq_dec.
  decide equality. decide equality; apply Nat.eq_dec.
Defined.
Definition modk_eqb (a b : modk) : bool := if modk_eq_dec a b then true else false.

Fixpoint node_eqb (a b : node) {struct a} : bool :=
  match a, b with
  | Push x, Push y => sval_eqb x y
  | Prim i a1 o1, Prim j a2 o2 => N.eqb i j && Nat.eqb a1 a2 && Nat.eqb o1 o2
  | PrimIndet i, PrimIndet j => N.eqb i j
  | Run l1, Run l2 =>
      (fix go (l1 l2 : list node) {struct l1} : bool :=
         match l1, l2 with
         | [], [] => true
         | x :: t, y :: u => node_eqb x y && go t u
         | _, _ => false end) l1 l2
  | Mod m1 a1, Mod m2 a2 =>
      modk_eqb m1 m2 &&
      (fix go (l1 l2 : list (sig * node)) {struct l1} : bool :=
         match l1, l2 with
         | [], [] => true
         | x :: t, y :: u => sig_eqb (fst x) (fst y) && node_eqb (snd x) (snd y) && go t u
         | _, _ => false end) a1 a2
  | Call f s, Call g t => Nat.eqb f g && sig_eqb s t
  | CallGlobal f s, CallGlobal g t => Nat.eqb f g && sig_eqb s t
  | CallMacro f s, CallMacro g t => Nat.eqb f g && sig_eqb s t
  | BindGlobal, BindGlobal => true
  | Arr l1 i1 b1, Arr l2 i2 b2 => Nat.eqb l1 l2 && node_eqb i1 i2 && Bool.eqb b1 b2
  | Unpack c1 u1, Unpack c2 u2 => Nat.eqb c1 c2 && Bool.eqb u1 u2
  | Switch b1 s1 u1, Switch b2 s2 u2 =>
      sig_eqb s1 s2 && Bool.eqb u1 u2 &&
      (fix go (l1 l2 : list (sig * node)) {struct l1} : bool :=
         match l1, l2 with
         | [], [] => true
         | x :: t, y :: u => sig_eqb (fst x) (fst y) && node_eqb (snd x) (snd y) && go t u
         | _, _ => false end) b1 b2
  | PushUnder n1, PushUnder n2 => Nat.eqb n1 n2
  | CopyToUnder n1, CopyToUnder n2 => Nat.eqb n1 n2
  | PopUnder n1, PopUnder n2 => Nat.eqb n1 n2
  | NoInline i1, NoInline i2 => node_eqb i1 i2
  | TrackCaller s1 i1, TrackCaller s2 i2 => sig_eqb s1 s2 && node_eqb i1 i2
  | CustomInv c1 h1 s1 n1, CustomInv c2 h2 s2 n2 =>
      osig_eqb c1 c2 && Bool.eqb h1 h2 && sig_eqb s1 s2 && node_eqb n1 n2
  | Label, Label => true
  | RemoveLabel, RemoveLabel => true
  | Format p1, Format p2 => Nat.eqb p1 p2
  | MatchFormat p1, MatchFormat p2 => Nat.eqb p1 p2
  | Dynamic s1, Dynamic s2 => sig_eqb s1 s2
  | SetOutputComment, SetOutputComment => true
  | _, _ => false
  end.

(** * inlining *)
(** modifiers whose operands run with a fill frame pushed (run_prim.rs: Fill, UnFill, SidedFill);
    conservatively for both operands *)
Definition sets_fill (m : modk) : bool :=
  match m with MFill | MUnFill | MSidedFill => true | _ => false end.

Section Inline.
  Variable asm : list node.

  (** [inlc k vis n]: k bounds the nesting of inlined calls (recursion is `CallGlobal`, never
      `Call`, but the bound makes the definition total for any table); [vis]: a fill frame may be
      visible here, so the call boundary is observable and the call is kept *)
  Fixpoint inlc (k : nat) : bool -> node -> node :=
    fix go (vis : bool) (n : node) {struct n} : node :=
      match n with
      | Call f sg =>
          if vis then n else
          match k with
          | S k' => match nth_error asm f with
                    | Some body => CustomInv (Some sg) true sg (inlc k' false body)
                    | None => n end
          | O => n end
      | Run ns => Run (map (go vis) ns)
      | Mod m args => Mod m (map (fun a : sig * node => (fst a, go (vis || sets_fill m) (snd a))) args)
      | Arr len inner boxed => Arr len (go false inner) boxed     (* make_array runs inner under without_fill *)
      | Switch brs sg uc => Switch (map (fun a : sig * node => (fst a, go vis (snd a))) brs) sg uc
      | NoInline inner => NoInline (go vis inner)
      | TrackCaller sg inner => TrackCaller sg (go vis inner)
      | CustomInv cs has sg nm => CustomInv cs has sg (go vis nm)
      | _ => n
      end.
End Inline.

Definition as_list (n : node) : list node := match n with Run l => l | x => [x] end.
Definition mkrun (l : list node) : node := match l with [x] => x | _ => Run l end.

(** strip the frame markers, flatten runs *)
Fixpoint flat (n : node) : node :=
  match n with
  | Run ns => mkrun (concat (map (fun x => as_list (flat x)) ns))
  | Mod m args => Mod m (map (fun a : sig * node => (fst a, flat (snd a))) args)
  | Arr len inner boxed => Arr len (flat inner) boxed
  | Switch brs sg uc => Switch (map (fun a : sig * node => (fst a, flat (snd a))) brs) sg uc
  | NoInline inner => NoInline (flat inner)
  | TrackCaller sg inner => TrackCaller sg (flat inner)
  | CustomInv cs has sg nm => if has then flat nm else CustomInv cs has sg (flat nm)
  | _ => n
  end.

Definition inline (asm : list node) (k : nat) (n : node) : node := flat (inlc asm k false n).
Definition inline_tab (asm : list node) (k : nat) : list node := map (inline asm k) asm.

(** indices of the calls that remain *)
Fixpoint calls_of (n : node) : list nat :=
  match n with
  | Call f _ => [f]
  | Run ns => concat (map calls_of ns)
  | Mod _ args => concat (map (fun a : sig * node => calls_of (snd a)) args)
  | Switch brs _ _ => concat (map (fun a : sig * node => calls_of (snd a)) brs)
  | Arr _ i _ | NoInline i | TrackCaller _ i | CustomInv _ _ _ i => calls_of i
  | _ => [] end.

(** the remaining calls (kept because a fill is visible) must refer to equal inlined bodies *)
Fixpoint agree (t1 t2 : list node) (fuel : nat) (fs : list nat) : bool :=
  match fuel with
  | O => match fs with [] => true | _ => false end
  | S k => forallb (fun f => match nth_error t1 f, nth_error t2 f with
                             | Some a, Some b => node_eqb a b && agree t1 t2 k (calls_of a)
                             | None, None => true
                             | _, _ => false end) fs end.

Definition INLINE_DEPTH : nat := 12.
Definition equiv_mod_naming (P1 P2 : list node * node) : bool :=
  let r1 := inline (fst P1) INLINE_DEPTH (snd P1) in
  let r2 := inline (fst P2) INLINE_DEPTH (snd P2) in
  node_eqb r1 r2 &&
  agree (inline_tab (fst P1) INLINE_DEPTH) (inline_tab (fst P2) INLINE_DEPTH) INLINE_DEPTH (calls_of r1).

(** * tie helper: 0 = equivalent, 1 = not equivalent; second component: number of calls
    replaced (non-triviality), third: calls kept *)
Definition count_calls (n : node) : nat := length (calls_of n).
Definition ncase_code (c : (list node * node) * (list node * node)) : N * N * N :=
  let '(P1, P2) := c in
  ((if equiv_mod_naming P1 P2 then 0 else 1)%N,
   N.of_nat (count_calls (snd P1) + count_calls (snd P2)),
   N.of_nat (count_calls (inline (fst P1) INLINE_DEPTH (snd P1))
             + count_calls (inline (fst P2) INLINE_DEPTH (snd P2)))).
