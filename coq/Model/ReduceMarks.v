(** C06 model (small): the sorted-mark shortcuts of min/max reduction on a byte list
    (src/algorithm/reduce.rs, byte arm of [reduce_impl], Primitive::Min / Primitive::Max,
    depth = 0, rank 1, no fill), next to the generic path they must agree with.
    Executable definitions only. *)
From Coq Require Import List NArith Bool.
Import ListNotations.
Local Open Scope N_scope.

(** f64 results that can arise from bytes *)
Inductive ext := Fin (n : N) | PosInf | NegInf.

(** the generic path: [row_count() == 0] -> [fast_reduce_different] returns the identity;
    otherwise [fast_reduce(bytes, 0, None, 0, min::byte_byte)] folds from the first element *)
Definition reduce_min_generic (l : list N) : ext :=
  match l with [] => PosInf | x :: t => Fin (fold_left N.min t x) end.
Definition reduce_max_generic (l : list N) : ext :=
  match l with [] => NegInf | x :: t => Fin (fold_left N.max t x) end.

(** reduce.rs Primitive::Min: [if depth == 0 && bytes.rank() == 1]: sorted up -> first element
    (or INFINITY), sorted down -> last element (or INFINITY); else the generic path *)
Definition reduce_min_c (up down : bool) (l : list N) : ext :=
  if up then match l with [] => PosInf | x :: _ => Fin x end
  else if down then match rev l with [] => PosInf | x :: _ => Fin x end
  else reduce_min_generic l.
(** reduce.rs Primitive::Max: sorted up -> last (or NEG_INFINITY), sorted down -> first *)
Definition reduce_max_c (up down : bool) (l : list N) : ext :=
  if up then match rev l with [] => NegInf | x :: _ => Fin x end
  else if down then match l with [] => NegInf | x :: _ => Fin x end
  else reduce_max_generic l.

Fixpoint sorted_up (l : list N) : bool :=
  match l with
  | x :: ((y :: _) as t) => N.leb x y && sorted_up t
  | _ => true
  end.
Fixpoint sorted_down (l : list N) : bool :=
  match l with
  | x :: ((y :: _) as t) => N.leb y x && sorted_down t
  | _ => true
  end.

Definition ext_eqb (a b : ext) : bool :=
  match a, b with
  | Fin x, Fin y => N.eqb x y
  | PosInf, PosInf | NegInf, NegInf => true
  | _, _ => false
  end.

(** tie support: one observed case (marks, data, implementation's /↧ and /↥) *)
Record rcase := RC { r_up : bool; r_down : bool; r_data : list N; r_min : ext; r_max : ext }.
Definition rcase_ok (c : rcase) : bool :=
  ext_eqb (reduce_min_c (r_up c) (r_down c) (r_data c)) (r_min c) &&
  ext_eqb (reduce_max_c (r_up c) (r_down c) (r_data c)) (r_max c) &&
  (* marks handed to the implementation are truthful *)
  (negb (r_up c) || sorted_up (r_data c)) && (negb (r_down c) || sorted_down (r_data c)).
Fixpoint rfailing (i : nat) (l : list rcase) : list nat :=
  match l with [] => [] | c :: t => if rcase_ok c then rfailing (S i) t else i :: rfailing (S i) t end.
