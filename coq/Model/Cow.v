(** C06 model: the copy-on-write buffer [CowSlice] of src/cowslice.rs over [ecow::EcoVec].

    Heap: buffer id -> (contents of the WHOLE underlying EcoVec, reference count);
    ids are allocated by a counter and never reused.  A handle is a CowSlice:
    ([hb] = the EcoVec, [None] = the unallocated empty EcoVec ([EcoVec::new()], which has no
    header: ecow vec.rs:776 [is_unique] is then [true] and [clone] counts nothing, vec.rs:785),
    [hst], [hen] = the window fields [start], [end] (cowslice.rs:30-34).

    EcoVec facts used (ecow-0.2.4/src/vec.rs): [clone] = refs+1 (782); [drop] = refs-1 (800);
    [reserve n] allocates iff n > 0 when unallocated and keeps the (unique) buffer otherwise
    (446-475); [extend_from_slice]/[extend_from_trusted]/[extend] do nothing on an empty input and
    reserve otherwise (479, 503, 1033); [truncate t] does nothing when t >= len (412);
    [clear] does nothing when empty and keeps the allocation when unique (173);
    [make_mut] of a unique vector is in place (224); [with_capacity 0] does not allocate (122).

    Executable definitions only; proofs are in Proofs/Cow.v. *)
From Coq Require Import List NArith Bool Arith Lia.
Import ListNotations.

Definition T := N.

Record heap := Heap { dat : nat -> list T; rc : nat -> nat; next : nat }.
Record handle := H { hb : option nat; hst : nat; hen : nat }.
Definition state := (heap * list handle)%type.

Definition heap0 : heap := Heap (fun _ => []) (fun _ => 0) 0.
Definition state0 : state := (heap0, []).

Definition upd {A} (f : nat -> A) (k : nat) (v : A) : nat -> A :=
  fun b => if Nat.eqb b k then v else f b.

Definition bdata (hp : heap) (o : option nat) : list T :=
  match o with None => [] | Some b => dat hp b end.

(** [as_slice]: &data[start..end] (cowslice.rs:53) *)
Definition view (hp : heap) (h : handle) : list T :=
  firstn (hen h - hst h) (skipn (hst h) (bdata hp (hb h))).

(** [EcoVec::is_unique] *)
Definition unique (hp : heap) (o : option nat) : bool :=
  match o with None => true | Some b => Nat.eqb (rc hp b) 1 end.

Definition incr (hp : heap) (o : option nat) : heap :=
  match o with None => hp | Some b => Heap (dat hp) (upd (rc hp) b (S (rc hp b))) (next hp) end.
Definition decr (hp : heap) (o : option nat) : heap :=
  match o with None => hp | Some b => Heap (dat hp) (upd (rc hp) b (pred (rc hp b))) (next hp) end.
Definition alloc (hp : heap) (l : list T) : heap * nat :=
  (Heap (upd (dat hp) (next hp) l) (upd (rc hp) (next hp) 1) (S (next hp)), next hp).
Definition setdat (hp : heap) (b : nat) (l : list T) : heap :=
  Heap (upd (dat hp) b l) (rc hp) (next hp).

Definition isnil {A} (l : list A) : bool := match l with [] => true | _ => false end.

(** A closure run on an [&mut EcoVec]: its effect on the whole vector, and whether it reserves
    capacity even when it adds nothing ([reserve n], n > 0). *)
Record vop := V { vf : list T -> list T; vforce : bool }.
(** does the closure allocate when run on the unallocated empty vector *)
Definition valloc (g : vop) : bool := vforce g || negb (isnil (vf g [])).

(** [EcoVec::from(&**self)] (allocated iff the window is non-empty), then the closure, then
    [*self = vec.into()] (cowslice.rs:151-153 / 167-169, From<EcoVec> 369) *)
Definition fresh_from (hp : heap) (w : list T) (g : vop) : heap * handle :=
  let r := vf g w in
  if negb (isnil w) || valloc g then
    let '(hp', b) := alloc hp r in (hp', H (Some b) 0 (length r))
  else (hp, H None 0 0).

(** [modify] (cowslice.rs:142, [ns] = true: in place iff unique && start == 0 && end == len)
    and [modify_end] (cowslice.rs:158, [ns] = false: in place iff unique && end == len).
    In place, the closure runs on the WHOLE vector [self.data], then end = data.len(). *)
Definition modify_gen (ns : bool) (hp : heap) (h : handle) (g : vop) : heap * handle :=
  let d := bdata hp (hb h) in
  if unique hp (hb h) && (negb ns || Nat.eqb (hst h) 0) && Nat.eqb (hen h) (length d) then
    match hb h with
    | Some b => let d' := vf g d in (setdat hp b d', H (Some b) (hst h) (length d'))
    | None =>
        if valloc g then
          let '(hp', b) := alloc hp (vf g []) in (hp', H (Some b) (hst h) (length (vf g [])))
        else (hp, h)
    end
  else
    let '(hp1, h1) := fresh_from hp (view hp h) g in
    (decr hp1 (hb h), h1).

Definition rotl (n : nat) (d : list T) : list T := skipn n d ++ firstn n d.
Definition rotr (n : nat) (d : list T) : list T := rotl (length d - n) d.

Definition v_id : vop := V (fun d => d) false.
Definition v_app (l : list T) : vop := V (fun d => d ++ l) false.
Definition v_reserve (n : nat) : vop := V (fun d => d) (negb (Nat.eqb n 0)).
Definition v_clear : vop := V (fun _ => []) false.
(** cowslice.rs:200-218: rotate_left(start); truncate(len - (end - start)) *)
Definition v_remove (a b : nat) : vop :=
  V (fun d => firstn (length d - (b - a)) (rotl a d)) false.
(** cowslice.rs:241-251 [extend_repeat_fill] and 257-269 [extend_repeat_slice_fill]:
    [let len = self.len()] is taken before [modify_end]; the closure appends [ext], and for a
    left-sided fill rotates [data[start..]] right by the number of added elements, where
    [start = data.len() - len - added] (the slice's own window).
    [fixed = false] is the code before commit 1c88250, which rotated the whole vector. *)
Definition v_fill (fixed lf : bool) (ext : list T) (len : nat) : vop :=
  V (fun d =>
       let d' := d ++ ext in
       let a := length ext in
       if lf then
         if fixed then let start := length d' - len - a in firstn start d' ++ rotr a (skipn start d')
         else rotr a d'
       else d') false.
(** cowslice.rs:283-293 [extend_repeat_slice]: nothing / repeat one element / append count times *)
Definition rep_slice (l : list T) (n : nat) : list T := concat (repeat l n).
Definition v_repeat_slice (l : list T) (n : nat) : vop := V (fun d => d ++ rep_slice l n) false.

(** [truncate] (cowslice.rs:79-84) *)
Definition truncate (hp : heap) (h : handle) (n : nat) : heap * handle :=
  let hp' := if unique hp (hb h) then
               match hb h with Some b => setdat hp b (firstn (hst h + n) (dat hp b)) | None => hp end
             else hp in
  (hp', H (hb h) (hst h) (Nat.min (hst h + n) (hen h))).

(** [as_mut_slice] (cowslice.rs:85-94) *)
Definition as_mut (hp : heap) (h : handle) : heap * handle :=
  if unique hp (hb h) then (hp, h)
  else let '(hp1, h1) := fresh_from hp (view hp h) v_id in (decr hp1 (hb h), h1).

Fixpoint set_nth {A} (k : nat) (x : A) (l : list A) : list A :=
  match l, k with
  | [], _ => []
  | _ :: t, O => x :: t
  | y :: t, S k => y :: set_nth k x t
  end.
Fixpoint del_nth {A} (k : nat) (l : list A) : list A :=
  match l, k with
  | [], _ => []
  | _ :: t, O => t
  | y :: t, S k => y :: del_nth k t
  end.

(** as_mut_slice()[k] = x *)
Definition write (hp : heap) (h : handle) (k : nat) (x : T) : heap * handle :=
  let '(hp1, h1) := as_mut hp h in
  match hb h1 with
  | Some b => if Nat.ltb k (hen h1 - hst h1)
              then (setdat hp1 b (set_nth (hst h1 + k) x (dat hp1 b)), h1) else (hp1, h1)
  | None => (hp1, h1)
  end.

(** [clear] (cowslice.rs:174-182) *)
Definition clear (hp : heap) (h : handle) : heap * handle :=
  if unique hp (hb h) then
    let '(hp1, h1) := modify_gen true hp h v_clear in (hp1, H (hb h1) 0 0)
  else (decr hp (hb h), H None 0 0).

(** [split_off] (cowslice.rs:193-199): other = with_capacity(len - at) (allocated iff len > at),
    extended in place by self[at..]; then self.truncate(at).  Returns (heap, self, other). *)
Definition split_off (hp : heap) (h : handle) (at_ : nat) : heap * handle * handle :=
  let '(hp1, o) := fresh_from hp (skipn at_ (view hp h)) v_id in
  let '(hp2, h2) := truncate hp1 h at_ in
  (hp2, h2, o).

(** operations of a history; handles are addressed by their position in the list of live
    handles; new handles are appended; consumed handles are deleted (positions shift) *)
Inductive op :=
| ONew (l : list T)
| OClone (i : nat)
| OSlice (i a b : nat)
| OIntoSlices (i size : nat)
| OWrite (i k : nat) (x : T)
| OTruncate (i n : nat)
| OExtSlice (i : nat) (l : list T)     (* extend_from_slice: modify *)
| OExtVec (i : nat) (l : list T)       (* extend_from_vec (225) / Extend::extend (551): modify_end *)
| OExtCow (i j : nat)                  (* extend_from_cowslice(other) (233): the uniqueness test of
                                          modify_end runs while [other] is alive; then it is dropped *)
| OExtRepeat (i : nat) (x : T) (n : nat)
| OExtRepeatFill (i : nat) (x : T) (lf : bool) (n : nat)
| OExtRepeatSlice (i : nat) (l : list T) (n : nat)
| OExtRepeatSliceFill (i : nat) (l : list T) (lf : bool) (n : nat)
| ORemove (i a b : nat)
| OClear (i : nat)
| OReserve (i n : nat)
| OSplitOff (i at_ : nat)
| ODrop (i : nat).                     (* drop / into_vec *)

Definition hd0 : handle := H None 0 0.

(** apply a (heap, handle) transformer to the i-th live handle *)
Definition on_handle (s : state) (i : nat) (f : heap -> handle -> heap * handle) : state :=
  match nth_error (snd s) i with
  | Some h => let '(hp', h') := f (fst s) h in (hp', set_nth i h' (snd s))
  | None => s
  end.

Definition mk_slices (h : handle) (size count : nat) : list handle :=
  map (fun i => H (hb h) (hst h + i * size) (hst h + i * size + size)) (seq 0 count).

Fixpoint incr_n (n : nat) (hp : heap) (o : option nat) : heap :=
  match n with O => hp | S n => incr (incr_n n hp o) o end.

Definition step (fixed : bool) (s : state) (o : op) : state :=
  let '(hp, hs) := s in
  match o with
  | ONew l =>
      (* from_vec: FromIterator (cowslice.rs:543): EcoVec::new(); extend; into *)
      let '(hp', h) := fresh_from hp [] (v_app l) in (hp', hs ++ [h])
  | OClone i =>
      match nth_error hs i with
      | Some h => (incr hp (hb h), hs ++ [h])
      | None => s end
  | OSlice i a b =>
      match nth_error hs i with
      | Some h =>
          if Nat.leb a b && Nat.leb (hst h + b) (hen h)
          then (incr hp (hb h), hs ++ [H (hb h) (hst h + a) (hst h + b)]) else s
      | None => s end
  | OIntoSlices i size =>
      match nth_error hs i with
      | Some h =>
          let len := hen h - hst h in
          if Nat.eqb size 0 then (decr hp (hb h), del_nth i hs)
          else if Nat.eqb (len mod size) 0 then
            let count := len / size in
            (decr (incr_n count hp (hb h)) (hb h), del_nth i hs ++ mk_slices h size count)
          else s
      | None => s end
  | OWrite i k x => on_handle s i (fun hp h => write hp h k x)
  | OTruncate i n => on_handle s i (fun hp h => truncate hp h n)
  | OExtSlice i l => on_handle s i (fun hp h => modify_gen true hp h (v_app l))
  | OExtVec i l => on_handle s i (fun hp h => modify_gen false hp h (v_app l))
  | OExtCow i j =>
      match nth_error hs i, nth_error hs j with
      | Some h, Some hj =>
          if Nat.eqb i j then s else
          let '(hp1, h1) := modify_gen false hp h (v_app (view hp hj)) in
          (decr hp1 (hb hj), del_nth j (set_nth i h1 hs))
      | _, _ => s end
  | OExtRepeat i x n => on_handle s i (fun hp h => modify_gen false hp h (v_app (repeat x n)))
  | OExtRepeatFill i x lf n =>
      on_handle s i (fun hp h => modify_gen false hp h (v_fill fixed lf (repeat x n) (hen h - hst h)))
  | OExtRepeatSliceFill i l lf n =>
      on_handle s i (fun hp h => modify_gen false hp h (v_fill fixed lf (rep_slice l n) (hen h - hst h)))
  | OExtRepeatSlice i l n => on_handle s i (fun hp h => modify_gen false hp h (v_repeat_slice l n))
  | ORemove i a b =>
      match nth_error hs i with
      | Some h => if Nat.leb a b && Nat.leb b (hen h - hst h)
                  then on_handle s i (fun hp h => modify_gen true hp h (v_remove a b)) else s
      | None => s end
  | OClear i => on_handle s i clear
  | OReserve i n => on_handle s i (fun hp h => modify_gen false hp h (v_reserve n))
  | OSplitOff i at_ =>
      match nth_error hs i with
      | Some h =>
          if Nat.leb at_ (hen h - hst h) then
            let '(hp', h', o) := split_off hp h at_ in (hp', set_nth i h' hs ++ [o])
          else s
      | None => s end
  | ODrop i =>
      match nth_error hs i with
      | Some h => (decr hp (hb h), del_nth i hs)
      | None => s end
  end.

Definition run (fixed : bool) (ops : list op) (s : state) : state := fold_left (step fixed) ops s.

(** observations *)
Definition contents (s : state) : list (list T) := map (view (fst s)) (snd s).
Definition uniques (s : state) : list bool := map (fun h => unique (fst s) (hb h)) (snd s).
Definition opt_eqb (a b : option nat) : bool :=
  match a, b with None, None => true | Some x, Some y => Nat.eqb x y | _, _ => false end.
(** [is_copy_of] (cowslice.rs:64): same data pointer (all unallocated vectors share the dangling
    pointer), same window *)
Definition copy_of (h1 h2 : handle) : bool :=
  opt_eqb (hb h1) (hb h2) && Nat.eqb (hst h1) (hst h2) && Nat.eqb (hen h1) (hen h2).

(** ---- the specification: the same history on independent plain lists *)
Definition sstate := list (list T).

Fixpoint chunks (size count : nat) (l : list T) : list (list T) :=
  match count with
  | O => []
  | S c => firstn size l :: chunks size c (skipn size l)
  end.

Definition on_list (s : sstate) (i : nat) (f : list T -> list T) : sstate :=
  match nth_error s i with Some l => set_nth i (f l) s | None => s end.

Definition sstep (s : sstate) (o : op) : sstate :=
  match o with
  | ONew l => s ++ [l]
  | OClone i => match nth_error s i with Some l => s ++ [l] | None => s end
  | OSlice i a b =>
      match nth_error s i with
      | Some l => if Nat.leb a b && Nat.leb b (length l) then s ++ [firstn (b - a) (skipn a l)] else s
      | None => s end
  | OIntoSlices i size =>
      match nth_error s i with
      | Some l =>
          if Nat.eqb size 0 then del_nth i s
          else if Nat.eqb (length l mod size) 0 then del_nth i s ++ chunks size (length l / size) l
          else s
      | None => s end
  | OWrite i k x => on_list s i (fun l => if Nat.ltb k (length l) then set_nth k x l else l)
  | OTruncate i n => on_list s i (firstn n)
  | OExtSlice i l => on_list s i (vf (v_app l))
  | OExtVec i l => on_list s i (vf (v_app l))
  | OExtCow i j =>
      match nth_error s i, nth_error s j with
      | Some l, Some lj => if Nat.eqb i j then s else del_nth j (set_nth i (l ++ lj) s)
      | _, _ => s end
  | OExtRepeat i x n => on_list s i (vf (v_app (repeat x n)))
  | OExtRepeatFill i x lf n => on_list s i (fun l => vf (v_fill true lf (repeat x n) (length l)) l)
  | OExtRepeatSliceFill i l lf n => on_list s i (fun v => vf (v_fill true lf (rep_slice l n) (length v)) v)
  | OExtRepeatSlice i l n => on_list s i (vf (v_repeat_slice l n))
  | ORemove i a b =>
      match nth_error s i with
      | Some l => if Nat.leb a b && Nat.leb b (length l) then on_list s i (vf (v_remove a b)) else s
      | None => s end
  | OClear i => on_list s i (fun _ => [])
  | OReserve i n => s
  | OSplitOff i at_ =>
      match nth_error s i with
      | Some l => if Nat.leb at_ (length l) then set_nth i (firstn at_ l) s ++ [skipn at_ l] else s
      | None => s end
  | ODrop i => del_nth i s
  end.

Definition srun (ops : list op) (s : sstate) : sstate := fold_left sstep ops s.

(** ---- tie support: a history with the implementation's observations after every step *)
Record obs := Obs { o_op : op; o_contents : list (list T); o_unique : list bool;
                    o_copy : list (nat * nat * bool) }.

Definition list_eqb {A} (e : A -> A -> bool) := fix go (a b : list A) : bool :=
  match a, b with
  | [], [] => true
  | x :: a, y :: b => e x y && go a b
  | _, _ => false end.

Definition obs_ok (s : state) (o : obs) : bool :=
  list_eqb (list_eqb N.eqb) (contents s) (o_contents o)
  && list_eqb Bool.eqb (uniques s) (o_unique o)
  && forallb (fun t => let '(i, j, r) := t in
                Bool.eqb (copy_of (nth i (snd s) hd0) (nth j (snd s) hd0)) r) (o_copy o).

(** index of the first step whose observations differ (None = all agree) *)
Fixpoint check_hist (k : nat) (s : state) (os : list obs) : option nat :=
  match os with
  | [] => None
  | o :: r =>
      let s' := step true s (o_op o) in
      if obs_ok s' o then check_hist (S k) s' r else Some k
  end.
(** first step at which the implementation's contents differ from the plain-list replay *)
Fixpoint check_spec (k : nat) (sp : sstate) (os : list obs) : option nat :=
  match os with
  | [] => None
  | o :: r =>
      let sp' := sstep sp (o_op o) in
      if list_eqb (list_eqb N.eqb) sp' (o_contents o) then check_spec (S k) sp' r else Some k
  end.

(** failures of a batch of histories: (history, kind, step); kind 0 = the model disagrees with the
    implementation, kind 1 = the implementation disagrees with the plain-list replay *)
Definition hist_fail (os : list obs) : list (nat * nat) :=
  (match check_hist 0 state0 os with Some k => [(0, k)] | None => [] end) ++
  (match check_spec 0 [] os with Some k => [(1, k)] | None => [] end).
Fixpoint failing (i : nat) (hs : list (list obs)) : list (nat * nat * nat) :=
  match hs with
  | [] => []
  | h :: t => map (fun p => (i, fst p, snd p)) (hist_fail h) ++ failing (S i) t
  end.
