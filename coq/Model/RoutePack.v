(** C07 — fork and bracket with a PACK of n functions (src/run_prim.rs run_prim_mod, the
    `ops.len() != 2` branch of Primitive::Fork, lines 420-432, and Primitive::Bracket, lines
    434-446), transcribed over a stack of abstract values (top first).  Model/Exec.v carries the
    2-function fork / bracket only; the n-ary forms are modelled here with the operands as pure
    "arguments -> outputs" maps (their frame behaviour is built in: Frame.sig_sound).
    Executable definitions only. *)
From Coq Require Import List Arith Bool.
Import ListNotations.

Section Pack.
  Variable V : Type.
  (** an operand: its arity and its outputs (top first) from its arguments (top first), or failure *)
  Definition fn : Type := (nat * (list V -> option (list V)))%type.
  Definition run_fn (f : fn) (st : list V) : option (list V) :=
    if length st <? fst f then None else
    match snd f (firstn (fst f) st) with
    | Some o => Some (o ++ skipn (fst f) st)
    | None => None end.
  Definition max_args (ops : list fn) : nat := fold_right (fun f m => Nat.max (fst f) m) 0 ops.
  Definition step (pick : fn -> list V) (acc : option (list V)) (op : fn) : option (list V) :=
    match acc with Some s => run_fn op (pick op ++ s) | None => None end.

  (** fork: pop max_args values; every function but the first runs, last one first, on a copy of
      its top [sa] arguments; then the first function.  [mutant]: the seeded defect
      `.rev().take(k)` for the first function (the DEEPEST k arguments, reversed). *)
  Definition fork_pack (mutant : bool) (ops : list fn) (st : list V) : option (list V) :=
    let m := max_args ops in
    if length st <? m then None else
    let args := firstn m st in
    match ops with
    | [] => None
    | first :: others =>
        match fold_left (step (fun op => firstn (fst op) args)) (rev others) (Some (skipn m st)) with
        | Some s => run_fn first ((if mutant then rev (firstn (fst first) (rev args)) else firstn (fst first) args) ++ s)
        | None => None end end.

  (** bracket: the argument groups of all functions but the last are popped in pack order; the
      last function runs on what is left; then the others, last one first, each on its own group *)
  Fixpoint pop_groups (ops : list fn) (st : list V) : option (list (fn * list V) * list V) :=
    match ops with
    | [] => Some ([], st)
    | f :: t => if length st <? fst f then None else
                match pop_groups t (skipn (fst f) st) with
                | Some (gs, rest) => Some ((f, firstn (fst f) st) :: gs, rest)
                | None => None end end.
  Definition bracket_pack (ops : list fn) (st : list V) : option (list V) :=
    match rev ops with
    | [] => Some st
    | last :: init_rev =>
        match pop_groups (rev init_rev) st with
        | None => None
        | Some (gs, rest) =>
            fold_left (fun acc g => match acc with Some s => run_fn (fst g) (snd g ++ s) | None => None end)
                      (rev gs) (run_fn last rest) end end.
End Pack.
