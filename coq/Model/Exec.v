(** The interpreter spine: a fuelled model of Uiua::exec_impl (src/run.rs), run_prim_mod
    (src/run_prim.rs), try_ and switch (src/algorithm/mod.rs) on the stack, the under
    ("context") stack, the fill stack with its call boundaries, and the call depth.
    Primitives are abstract: [psem] gives their outputs (or failure) from the visible fill
    and the popped arguments.  Executable definitions only. *)
From Coq Require Import List ZArith NArith Bool Lia.
From UV Require Import Model.Node Model.Sig.
Import ListNotations.

Record rt := RT {
  stk : list sval;            (* top first *)
  und : list sval;            (* under stack, top first *)
  fills : list (list sval);   (* fill frames, innermost first *)
  fbs : list nat;             (* fill boundaries: fill-stack length at each enclosing call *)
  depth : nat                 (* call-stack length above Main *)
}.
Definition set_stk (s : rt) (l : list sval) : rt := RT l (und s) (fills s) (fbs s) (depth s).
Definition set_und (s : rt) (l : list sval) : rt := RT (stk s) l (fills s) (fbs s) (depth s).
Definition set_su (s : rt) (l u : list sval) : rt := RT l u (fills s) (fbs s) (depth s).

(** Ok: finished; Err c: failed (c = the error came through `case`), state at the moment of
    failure; OOF: fuel exhausted; Unk: outside the modelled fragment / table arity violated *)
Inductive res := Ok (s : rt) | Err (c : bool) (s : rt) | OOF | Unk.
Definition bind (r : res) (k : rt -> res) : res := match r with Ok s => k s | x => x end.

(** the fill frame a primitive can see: Uiua::fill_frame *)
Definition fillctx (s : rt) : option (list sval) :=
  match fbs s with
  | b :: _ => if length (fills s) <=? b then None else hd_error (fills s)
  | [] => hd_error (fills s) end.

Definition errval : sval := SOpq 0.
Definition need (k : nat) (s : rt) : bool := k <=? length (stk s).
(** Uiua::remove_n(n, depth): drop the n values that lie just above depth [depth] *)
Definition remove_n (n dep : nat) (l : list sval) : list sval := firstn (dep - n) l ++ skipn dep l.
(** Uiua::insert_stack(depth, [v]) *)
Definition insert_at (dep : nat) (v : sval) (l : list sval) : list sval := firstn dep l ++ v :: skipn dep l.
(** Vec::truncate to the bottom [keep] values *)
Definition keep_bottom (keep : nat) (l : list sval) : list sval := skipn (length l - keep) l.

(** * Iterating modifiers (rows, each, inventory, reduce, scan, fold, table, tuples, group,
    partition, spawn, pool): the array side is abstract.  Three reserved oracle ids of [psem]
    decide, from the visible fill and the popped values, how many times the operand runs
    ([ITER_N]), which [sa] values it is given at step i (from the popped values and everything
    produced so far: [ITER_ARG]) and what is pushed at the end ([ITER_OUT]); the model fixes what
    the implementations share: the A argument values are popped first, every step pushes exactly
    [sa] values for the operand and pops its [so] results, the operand runs in the caller's fill
    context, and a failure of the operand is the failure of the whole. *)
Definition ITER_N : N := 900001.
Definition ITER_ARG : N := 900002.
Definition ITER_OUT : N := 900003.
Definition GLOBAL_GET : N := 900010.
Definition mk_tag (mk : modk) : Z :=
  match mk with
  | MReduce => 1 | MScan => 2 | MFold => 3 | MRows => 4 | MEach => 5 | MInventory => 6
  | MTable => 7 | MTuples => 8 | MGroup => 9 | MPartition => 10 | MSpawn => 11 | MPool => 12
  | MRepeat => 13 | MStencil => 14 | MReduceContent => 15 | MRepeatWithInverse => 17 | MHandleSig => 20
  | MUndoRows => 21 | MUndoInventory => 22
  | MReduceDepth d => 1000 + Z.of_nat d
  | _ => 0 end%Z.
(** values popped / pushed by the modifier as a whole (run_prim.rs / algorithm/{zip,reduce,loops,table,groups}.rs) *)
Definition iter_ao (mk : modk) (sg : sig) : option (nat * nat) :=
  match mk with
  | MReduce | MScan => Some (Nat.max (sa sg - so sg) 1, so sg)
  (* MHandleSig: subscripted table, sided tuples, reduce-conjoin-inventory *)
  | MRows | MEach | MInventory | MTable | MTuples | MHandleSig => Some (sa sg, so sg)
  | MFold => if Nat.eqb (sa sg) 0 && Nat.eqb (so sg) 0 then None
             else if Nat.eqb (sa sg) 0 then Some (0, so sg)
             else if sa sg <=? so sg then Some (sa sg, so sg + 1 - sa sg) else Some (sa sg, so sg)
  | MGroup | MPartition => Some (Nat.max (sa sg) 1 + 1, so sg)
  | MSpawn | MPool => Some (sa sg, 1)
  (* repeat: the count, then the operand's arguments; excess outputs are collected into arrays *)
  | MRepeat | MRepeatWithInverse => Some (1 + sa sg, if sa sg <? so sg then so sg - sa sg else so sg)
  | MStencil => Some (if sa sg <=? 1 then 2 else 1, so sg)
  | MReduceContent | MReduceDepth _ => Some (sa sg - so sg, so sg)
  (* the undo halves of rows / inventory: the row count saved by the do half is popped first *)
  | MUndoRows | MUndoInventory => Some (1 + sa sg, so sg)
  | _ => None end.

(** Uiua::without_fill around one run *)
Definition without_fill_body (run : rt -> res) (s : rt) : res :=
  match run (RT (stk s) (und s) (fills s) (length (fills s) :: fbs s) (depth s)) with
  | Ok s1 => Ok (RT (stk s1) (und s1) (fills s1) (tl (fbs s1)) (depth s1))
  | Err c s1 => Err c (RT (stk s1) (und s1) (fills s1) (tl (fbs s1)) (depth s1))
  | r => r end.

Fixpoint iter_loop (body : rt -> res) (argsof : Z -> list sval -> option (list sval)) (fa fo : nat)
    (k : nat) (i : Z) (cur : rt) (acc : list sval) {struct k} : res * list sval :=
  match k with
  | O => (Ok cur, acc)
  | S k =>
      match argsof i acc with
      | Some l =>
          if negb (Nat.eqb (length l) fa) then (Unk, acc) else
          match body (set_stk cur (l ++ stk cur)) with
          | Ok s2 =>
              if negb (need fo s2) then (Err false s2, acc) else
              iter_loop body argsof fa fo k (i + 1)%Z (set_stk s2 (skipn fo (stk s2))) (acc ++ firstn fo (stk s2))
          | r => (r, acc) end
      | None => (Err false cur, acc) end
  end.

(** Uiua::exec_clean_stack: at a failure the stacks are truncated to beneath the function's arguments *)
Definition clean_of (ex : node -> rt -> res) (sg : sig) (f : node) (s : rt) : res :=
  let bottom := length (stk s) - sa sg in
  let ubottom := length (und s) - sua sg in
  match ex f s with
  | Err c s' => Err c (set_su s' (keep_bottom bottom (stk s')) (keep_bottom ubottom (und s')))
  | r => r end.

(** algorithm::try_ (pattern = false), the loop over the handlers: [f] is the function to try now,
    [hs] the handlers after it, [te] whether [f] is a handler that was given the error value
    (which then lies beneath the try's arguments, unless [f] takes it as its deepest argument) *)
Fixpoint try_loop (ex : node -> rt -> res) (ts : sig) (any : bool)
    (sf : sig) (f : node) (hs : list (sig * node)) (te : bool) (s : rt) {struct hs} : res :=
  let targs := sa ts in
  match hs with
  | [] =>
      (* after the loop: remove_n((f.net - try.net).max(0), try_args); exec f *)
      let n2 := Z.to_nat (Z.max 0 ((Z.of_nat (so sf) - Z.of_nat (sa sf)) - (Z.of_nat (so ts) - Z.of_nat (sa ts)))) in
      if negb (Nat.eqb n2 0) && negb (need targs s) then Err false s else
      ex f (set_stk s (remove_n n2 targs (stk s)))
  | (sh, hnd) :: hs' =>
      let nb := Nat.min targs (sa sf) in
      if negb (need nb s) then Err false s else
      let backup := firstn nb (stk s) in
      match clean_of ex sf f s with
      | Ok s2 =>
          let n1 := Z.to_nat (Z.max 0 ((Z.of_nat (so sf) - Z.of_nat (sa sf)) - (Z.of_nat (so ts) - Z.of_nat (sa ts)))) in
          let dep := (targs + so sf) - sa sf in
          if negb (Nat.eqb n1 0) && negb (need dep s2) then Err false s2 else
          Ok (set_stk s2 (remove_n n1 dep (stk s2)))
      | Err c s2 =>
          (* the error value that was given to the failed handler is still beneath the try
             arguments it did not take, unless it took it as an argument (fix 5e30998) *)
          let stale := te && (sa sf <=? targs) in
          if stale && negb (need (targs - sa sf + 1) s2) then Err false s2 else
          let s2 := if stale then set_stk s2 (remove_n 1 (targs - sa sf + 1) (stk s2)) else s2 in
          let takes := any && Nat.eqb (sa sh + (so ts - so sh)) (targs + 1) in
          if c then
            (* a `case` error passes through a plain try *)
            let n1 := targs - sa sf in
            if negb (Nat.eqb n1 0) && negb (need n1 s2) then Err false s2 else
            Err false (set_stk s2 (remove_n n1 n1 (stk s2)))
          else
          let dep := targs - sa sf in
          if takes && negb (need dep s2) then Err false s2 else
          let st1 := if takes then insert_at dep errval (stk s2) else stk s2 in
          try_loop ex ts any sh hnd hs' takes (set_stk s2 (backup ++ st1))
      | r => r end
  end.

(** loops.rs do_ in the case comp_sig.args = comp_sig.outputs (nothing preserved, nothing collected):
    copy the condition's arguments, run the condition, pop the boolean; if it is 1 run the body and
    go round again.  [k] bounds the number of rounds (out of fuel beyond it). *)
Fixpoint do_loop (cond body : rt -> res) (cc : nat) (k : nat) (s : rt) {struct k} : res :=
  match k with
  | O => OOF
  | S k' =>
      if negb (need cc s) then Err false s else
      match cond (set_stk s (firstn cc (stk s) ++ stk s)) with
      | Ok s2 =>
          match stk s2 with
          | [] => Err false s2
          | SInt z :: rest =>
              if Z.eqb z 0 then Ok (set_stk s2 rest)
              else if Z.eqb z 1 then
                match body (set_stk s2 rest) with
                | Ok s3 => do_loop cond body cc k' s3
                | r => r end
              else Err false (set_stk s2 rest)
          | SOpq _ :: _ => Unk
          end
      | r => r end
  end.

(** both with a numeric subscript (run_prim.rs ImplPrimitive::BothImpl, no side): the operand runs k
    times, first on the deepest group of [a] arguments, then on the next one above it, ... ; the
    groups above the deepest are popped before the first run *)
Fixpoint both_loop (body : rt -> res) (a : nat) (k : nat) (s : rt) {struct k} : res :=
  match k with
  | O => Ok s
  | S k' =>
      match k' with
      | O => body s
      | S _ =>
          if negb (need a s) then Err false s else
          let vals := firstn a (stk s) in
          bind (both_loop body a k' (set_stk s (skipn a (stk s))))
               (fun s2 => body (set_stk s2 (vals ++ stk s2)))
      end
  end.

(** un-both (ImplPrimitive::UnBothImpl, no side): the operand runs k times, first on the top group;
    the outputs of all runs but the last are set aside and pushed back at the end, the first
    run's on top *)
Fixpoint unboth_loop (body : rt -> res) (o : nat) (k : nat) (s : rt) {struct k} : res :=
  match k with
  | O => Ok s
  | S k' =>
      match k' with
      | O => body s
      | S _ =>
          bind (body s) (fun s1 =>
            if negb (need o s1) then Err false s1 else
            let vals := firstn o (stk s1) in
            bind (unboth_loop body o k' (set_stk s1 (skipn o (stk s1))))
                 (fun s2 => Ok (set_stk s2 (vals ++ stk s2))))
      end
  end.

Section Exec.
  Variable pknown : N -> list sval -> bool.     (* primitive applications the instance interprets; others are outside the model *)
  Variable psem : N -> option (list sval) -> list sval -> option (list sval).
  Variable arrsem : bool -> list sval -> option sval.          (* make_array *)
  Variable unpacksem : nat -> bool -> sval -> option (list sval).
  Variable fmtsem : list sval -> sval.
  Variable asm : list node.                                     (* Assembly::functions *)

  Definition run_list (ex : node -> rt -> res) (ns : list node) (s : rt) : res :=
    fold_left (fun r n => bind r (ex n)) ns (Ok s).


  Definition iter_exec (body : rt -> res) (tag : Z) (na no fa fo : nat) (s : rt) : res :=
    if negb (need na s) then Err false s else
    let vals := firstn na (stk s) in
    let cur := set_stk s (skipn na (stk s)) in
    let ctx := fillctx s in
    let hdr := [SInt tag; SInt (Z.of_nat fa); SInt (Z.of_nat fo)] in
    if negb (pknown ITER_N (hdr ++ vals)) then Unk else
    match psem ITER_N ctx (hdr ++ vals) with
    | Some [SInt n] =>
        match iter_loop body (fun i acc => psem ITER_ARG ctx (hdr ++ SInt i :: SInt (Z.of_nat na) :: vals ++ acc))
                fa fo (Z.to_nat n) 0%Z cur [] with
        | (Ok s2, acc) =>
            match psem ITER_OUT ctx (hdr ++ SInt (Z.of_nat na) :: vals ++ acc) with
            | Some outs => if Nat.eqb (length outs) no then Ok (set_stk s2 (outs ++ stk s2)) else Unk
            | None => Err false s2 end
        | (r, _) => r end
    | Some _ => Unk
    | None => Err false cur
    end.

  (** as [iter_exec], but a negative count is outside the model (repeat with an inverse runs the
      inverse operand for negative counts) *)
  Definition iter_exec_nn (body : rt -> res) (tag : Z) (na no fa fo : nat) (s : rt) : res :=
    if need na s then
      match psem ITER_N (fillctx s) ([SInt tag; SInt (Z.of_nat fa); SInt (Z.of_nat fo)] ++ firstn na (stk s)) with
      | Some [SInt n] => if (n <? 0)%Z then Unk else iter_exec body tag na no fa fo s
      | _ => iter_exec body tag na no fa fo s end
    else iter_exec body tag na no fa fo s.

  Fixpoint exec (fuel : nat) (n : node) (s : rt) {struct fuel} : res :=
    match fuel with O => OOF | S fuel =>
    let ex := exec fuel in
    match n with
    | Push v => Ok (set_stk s (v :: stk s))
    | Prim id a o =>
        if negb (need a s) then Err false s else
        if negb (pknown id (firstn a (stk s))) then Unk else
        match psem id (fillctx s) (firstn a (stk s)) with
        | Some outs => if Nat.eqb (length outs) o then Ok (set_stk s (outs ++ skipn a (stk s))) else Unk
        | None => Err false (set_stk s (skipn a (stk s))) end
    | PrimIndet _ => Unk
    | Run ns => run_list ex ns s
    | Call f sg =>
        (* call_with_span: without_fill (exec_with_frame_span ...) *)
        match nth_error asm f with None => Unk | Some body =>
          let s1 := RT (stk s) (und s) (fills s) (length (fills s) :: fbs s) (S (depth s)) in
          match ex body s1 with
          | Ok s2 =>
              let s3 := RT (stk s2) (und s2) (fills s2) (tl (fbs s2)) (pred (depth s2)) in
              if Z.eqb (Z.of_nat (length (stk s2)) - Z.of_nat (length (stk s)))
                       (Z.of_nat (so sg) - Z.of_nat (sa sg))
              then Ok s3 else Err false s3
          | Err c s2 => Err c (RT (stk s2) (und s2) (fills s2) (tl (fbs s2)) (pred (depth s2)))
          | r => r end end
    | Arr len inner boxed =>
        (* make_array: run inner under without_fill, then collect len values *)
        let s0 := RT (stk s) (und s) (fills s) (length (fills s) :: fbs s) (depth s) in
        match ex inner s0 with
        | Ok s1' =>
          let s1 := RT (stk s1') (und s1') (fills s1') (tl (fbs s1')) (depth s1') in
          if negb (need len s1) then Err false s1 else
          match arrsem boxed (firstn len (stk s1)) with
          | Some v => Ok (set_stk s1 (v :: skipn len (stk s1)))
          | None => Err false (set_stk s1 (skipn len (stk s1))) end
        | Err c s1' => Err c (RT (stk s1') (und s1') (fills s1') (tl (fbs s1')) (depth s1'))
        | r => r end
    | Unpack count unbox =>
        match stk s with [] => Err false s | x :: rest =>
          match unpacksem count unbox x with
          | Some vs => if Nat.eqb (length vs) count then Ok (set_stk s (vs ++ rest)) else Unk
          | None => Err false (set_stk s rest) end end
    | Switch brs sg uc =>
        match stk s with [] => Err false s | sel :: rest =>
          match sel with
          | SInt z =>
              if (z <? 0)%Z || (Z.of_nat (length brs) <=? z)%Z then Err false (set_stk s rest) else
              match nth_error brs (Z.to_nat z) with None => Unk | Some (fs, f) =>
                (* discard the deepest excess arguments: stack.drain(discard_start..discard_end) *)
                let len := length rest in
                let dstart := len - sa sg in
                let dend := Nat.min (Nat.max dstart ((dstart + sa sg + so fs) - (sa fs + so sg)))
                                    (dstart + (sa sg - sa fs)) in
                if len <? dend then Err false (set_stk s rest) else
                let rest' := firstn (len - dend) rest ++ skipn (len - dstart) rest in
                bind (ex f (set_stk s rest')) (fun s2 =>
                  Ok (if uc then set_und s2 (sel :: und s2) else s2)) end
          | SOpq _ => Unk end end
    | PushUnder k =>
        if negb (need k s) then Err false s else
        Ok (set_su s (skipn k (stk s)) (rev (firstn k (stk s)) ++ und s))
    | CopyToUnder k =>
        if negb (need k s) then Err false s else
        Ok (set_und s (rev (firstn k (stk s)) ++ und s))
    | PopUnder k =>
        if length (und s) <? k then Err false s else
        Ok (set_su s (rev (firstn k (und s)) ++ stk s) (skipn k (und s)))
    | NoInline inner => ex inner s
    | TrackCaller sg inner => if negb (need (sa sg) s) then Err false s else ex inner s
    | CustomInv _ has sg normal =>
        if has then
          (* exec_with_span: a frame without fill boundary *)
          let s1 := RT (stk s) (und s) (fills s) (fbs s) (S (depth s)) in
          match ex normal s1 with
          | Ok s2 =>
              let s3 := RT (stk s2) (und s2) (fills s2) (fbs s2) (pred (depth s2)) in
              if Z.eqb (Z.of_nat (length (stk s2)) - Z.of_nat (length (stk s)))
                       (Z.of_nat (so sg) - Z.of_nat (sa sg))
              then Ok s3 else Err false s3
          | Err c s2 => Err c (RT (stk s2) (und s2) (fills s2) (fbs s2) (pred (depth s2)))
          | r => r end
        else Err false s
    | Label | RemoveLabel => if need 1 s then Ok s else Err false s
    | Format parts =>
        let k := parts - 1 in
        if negb (need k s) then Err false (set_stk s []) else
        Ok (set_stk s (fmtsem (firstn k (stk s)) :: skipn k (stk s)))
    | SetOutputComment => Ok s
    | CallGlobal i sg =>
        (* a constant binding: pushes its value (or fails); function bindings are exported as [Call] *)
        if Nat.eqb (sa sg) 0 && Nat.eqb (so sg) 1 && Nat.eqb (sua sg) 0 && Nat.eqb (suo sg) 0 then
          if negb (pknown GLOBAL_GET [SInt (Z.of_nat i)]) then Unk else
          match psem GLOBAL_GET (fillctx s) [SInt (Z.of_nat i)] with
          | Some [v] => Ok (set_stk s (v :: stk s))
          | Some _ => Unk
          | None => Err false s end
        else Unk
    | BindGlobal =>
        match stk s with [] => Err false s | _ :: rest => Ok (set_stk s rest) end
    | CallMacro _ _ | MatchFormat _ | Dynamic _ => Unk
    | Mod mk args =>
        match mk, args with
        | MDip, [(_, f)] =>
            match stk s with [] => Err false s | x :: rest =>
              bind (ex f (set_stk s rest)) (fun s2 => Ok (set_stk s2 (x :: stk s2))) end
        | MGap, [(_, f)] =>
            match stk s with [] => Err false s | _ :: rest => ex f (set_stk s rest) end
        | MOn, [(_, f)] =>
            match stk s with [] => Err false s | x :: _ =>
              bind (ex f s) (fun s2 => Ok (set_stk s2 (x :: stk s2))) end
        | MBy, [(sg, f)] =>
            let d := Nat.max (sa sg) 1 in
            if negb (need d s) then Err false s else
            match nth_error (stk s) (d - 1) with None => Err false s | Some x =>
              ex f (set_stk s (firstn d (stk s) ++ x :: skipn d (stk s))) end
        | MWith, [(sg, f)] =>
            if Nat.eqb (sa sg) 0 then Unk else
            match nth_error (stk s) (sa sg - 1) with None => Err false s | Some x =>
              bind (ex f s) (fun s2 => Ok (set_stk s2 (x :: stk s2))) end
        | MOff, [(sg, f)] =>
            match stk s with [] => Err false s | x :: _ =>
              bind (ex f s) (fun s2 =>
                if negb (need (so sg) s2) then Err false (set_stk s2 (x :: stk s2)) else
                Ok (set_stk s2 (firstn (so sg) (stk s2) ++ x :: skipn (so sg) (stk s2)))) end
        | MAbove, [(sg, f)] =>
            if negb (need (sa sg) s) then Err false s else
            let vals := firstn (sa sg) (stk s) in
            bind (ex f s) (fun s2 => Ok (set_stk s2 (vals ++ stk s2)))
        | MBelow, [(sg, f)] =>
            if negb (need (sa sg) s) then Err false s else
            ex f (set_stk s (firstn (sa sg) (stk s) ++ stk s))
        | MBoth, [(sg, f)] =>
            if negb (need (sa sg) s) then Err false s else
            let vals := firstn (sa sg) (stk s) in
            bind (ex f (set_stk s (skipn (sa sg) (stk s)))) (fun s2 => ex f (set_stk s2 (vals ++ stk s2)))
        | MFork, [(sf, f); (sg, g)] =>
            let fa := sa sf in let ga := sa sg in
            if negb (need fa s) then Err false s else
            let vals := firstn fa (stk s) in
            let stk' := if ga <? fa then firstn ga (stk s) ++ skipn fa (stk s) else stk s in
            bind (ex g (set_stk s stk')) (fun s2 => ex f (set_stk s2 (vals ++ stk s2)))
        | MBracket, [(sf, f); (sg, g)] =>
            if negb (need (sa sf) s) then Err false s else
            let vals := firstn (sa sf) (stk s) in
            bind (ex g (set_stk s (skipn (sa sf) (stk s)))) (fun s2 => ex f (set_stk s2 (vals ++ stk s2)))
        | MCase, [(_, f)] =>
            match ex f s with Err _ s' => Err true s' | r => r end
        | MFill, [(sfl, fl); (_, f)] =>
            if Nat.eqb (so sfl) 0 then Unk else
            bind (ex fl s) (fun s1 =>
              if negb (need (so sfl) s1) then Err false s1 else
              let frame := firstn (so sfl) (stk s1) in
              let s2 := RT (skipn (so sfl) (stk s1)) (und s1) (frame :: fills s1) (fbs s1) (depth s1) in
              match ex f s2 with
              | Ok s3 => Ok (RT (stk s3) (und s3) (tl (fills s3)) (fbs s3) (depth s3))
              | Err c s3 => Err c (RT (stk s3) (und s3) (tl (fills s3)) (fbs s3) (depth s3))
              | r => r end)
        | MTry, (sf, f) :: (sh, hnd) :: hs =>
            (* algorithm::try_ with any number of handlers, pattern = false *)
            let sigs := sf :: sh :: map fst hs in
            let ts := fst (try_sig sigs) in
            let any_err := snd (try_sig sigs) in
            if negb (need (sa ts) s) then Err false s else
            try_loop ex ts any_err sf f ((sh, hnd) :: hs) false s
        | MDipN k, [(_, f)] =>
            if negb (need k s) then Err false s else
            let vals := firstn k (stk s) in
            bind (ex f (set_stk s (skipn k (stk s)))) (fun s2 => Ok (set_stk s2 (vals ++ stk s2)))
        | (MReduce | MScan | MFold | MRows | MEach | MInventory | MTable | MTuples
           | MGroup | MPartition | MStencil | MReduceContent | MReduceDepth _ | MHandleSig
           | MUndoRows | MUndoInventory), [(sg, f)] =>
            match iter_ao mk sg with
            | Some (na, no) => iter_exec (ex f) (mk_tag mk) na no (sa sg) (so sg) s
            | None => Unk end
        | MRepeat, [(sg, f)] =>
            (* loops.rs repeat / repeat_impl: the operand runs under without_fill *)
            match iter_ao mk sg with
            | Some (na, no) => iter_exec (without_fill_body (ex f)) (mk_tag mk) na no (sa sg) (so sg) s
            | None => Unk end
        | MRepeatWithInverse, [(sg, f); (si, _)] =>
            if negb (sig_eqb (sig_inverse sg) si) then Unk else
            match iter_ao mk sg with
            | Some (na, no) => iter_exec_nn (without_fill_body (ex f)) (mk_tag mk) na no (sa sg) (so sg) s
            | None => Unk end
        | MDo, [(sb, body); (sc, cond)] =>
            let cc := sa sc - (so sc - 1) in
            let cs := sig2 (sa sc) ((so sc + cc) - 1) in
            let comp := sig_compose sb cs in
            (* values preserved for / collected from the body are outside the model *)
            if Nat.eqb (so sc) 0 || negb (Nat.eqb (sa comp) (so comp)) then Unk else
            do_loop (ex cond) (ex body) cc fuel s
        | MBothImpl reused k, [(sg, f)] =>
            (* the sided forms (reused > 0) are outside the model *)
            if negb (Nat.eqb reused 0) then Unk else
            if negb (need (sa sg * (k - 1)) s) then Err false s else
            both_loop (ex f) (sa sg) k s
        | MUnBothImpl reused k, [(sg, f)] =>
            if negb (Nat.eqb reused 0) then Unk else unboth_loop (ex f) (so sg) k s
        | MOnSub k, [(_, f)] =>
            (* copy_n(k); exec f; push the copies back *)
            if negb (need k s) then Err false s else
            let vals := firstn k (stk s) in
            bind (ex f s) (fun s2 => Ok (set_stk s2 (vals ++ stk s2)))
        | (MSpawn | MPool), [(sg, _)] =>
            (* the operand runs on another thread's stacks: here only the arguments go and a handle comes *)
            iter_exec (fun s => Unk) (mk_tag mk) (sa sg) 1 0 0 s
        | _, _ => Unk
        end
    end end.
End Exec.

(** * A concrete instance on integers, for the correspondence check *)
Definition lastn {A} (k : nat) (l : list A) : list A := skipn (length l - k) l.
Definition b2z (b : bool) : sval := SInt (if b then 1 else 0)%Z.
Definition zsem (id : N) (_ : option (list sval)) (args : list sval) : option (list sval) :=
  match id, args with
  | 1%N, [x] => Some [x]
  | 2%N, [x] => Some [x; x]
  | 3%N, [a; b] => Some [b; a]
  | 4%N, [_] => Some []
  | 5%N, [SInt a; SInt b] => Some [SInt (b + a)%Z]
  | 6%N, [SInt a; SInt b] => Some [SInt (b - a)%Z]
  | 7%N, [SInt a; SInt b] => Some [SInt (b * a)%Z]
  | 8%N, [SInt a] => Some [SInt (- a)%Z]
  | 9%N, [SInt a; SInt b] => Some [b2z (Z.eqb b a)]
  | 10%N, [SInt a; SInt b] => Some [b2z (Z.ltb b a)]
  | 11%N, [SInt a; SInt b] => Some [b2z (Z.ltb a b)]
  | 12%N, [_; SInt 1] => Some []
  | 13%N, [SInt a] => Some [SInt (1 - a)%Z]
  | 14%N, [SInt a; SInt b] => Some [SInt (Z.max a b)]
  | 15%N, [SInt a; SInt b] => Some [SInt (Z.min a b)]
  | 16%N, [SInt a; SInt b] => Some [b2z (negb (Z.eqb b a))]
  | 17%N, [SInt a; SInt b] => Some [b2z (Z.leb b a)]
  | 18%N, [SInt a; SInt b] => Some [b2z (Z.leb a b)]
  | 19%N, [SInt a] => Some [SInt (Z.abs a)]
  | 20%N, [SInt a] => Some [SInt (Z.sgn a)]
  (* iteration over scalars: rows / each / table of scalars run the operand once on the scalars
     themselves; reducing a scalar returns it without running the operand *)
  | 900001%N, SInt 13 :: _ :: _ :: SInt n :: _ => Some [SInt n]
  | 900001%N, SInt tag :: _ => Some [SInt (if Z.eqb tag 1 then 0 else 1)]
  (* repeat: the previous outputs on top of the preserved deeper arguments *)
  | 900002%N, SInt 13 :: SInt _ :: SInt fo :: SInt i :: SInt na :: rest =>
      let args0 := tl (firstn (Z.to_nat na) rest) in
      let acc := skipn (Z.to_nat na) rest in
      Some (if Z.eqb i 0 then args0 else lastn (Z.to_nat fo) acc ++ skipn (Z.to_nat fo) args0)
  | 900002%N, SInt _ :: SInt _ :: SInt _ :: SInt _ :: SInt na :: rest => Some (firstn (Z.to_nat na) rest)
  | 900003%N, SInt 13 :: SInt _ :: SInt fo :: SInt na :: rest =>
      let args0 := tl (firstn (Z.to_nat na) rest) in
      let acc := skipn (Z.to_nat na) rest in
      Some (match acc with [] => firstn (Z.to_nat fo) args0 | _ => lastn (Z.to_nat fo) acc end)
  | 900003%N, SInt tag :: SInt _ :: SInt _ :: SInt na :: rest =>
      Some (if Z.eqb tag 1 then firstn (Z.to_nat na) rest else skipn (Z.to_nat na) rest)
  | _, _ => None
  end.
Definition is_int (v : sval) : bool := match v with SInt _ => true | SOpq _ => false end.
Definition zknown (id : N) (args : list sval) : bool :=
  ((1 <=? id)%N && (id <=? 20)%N &&
   ((id <=? 4)%N || forallb is_int args ||
    (N.eqb id 12 && match args with [_; c] => is_int c | _ => false end))) ||
  (N.eqb id ITER_N &&
   match args with
   | SInt tag :: SInt fa :: SInt fo :: x :: vals =>
       forallb is_int (x :: vals) &&
       (Z.eqb tag 4 || Z.eqb tag 5 || Z.eqb tag 7 ||
        (Z.eqb tag 1 && Z.eqb fa 2 && Z.eqb fo 1 && match vals with [] => true | _ => false end) ||
        (Z.eqb tag 13 && (fo <=? fa)%Z && match x with SInt n => (0 <=? n)%Z && (n <=? 64)%Z | _ => false end))
   | _ => false end).
Definition no_arr (_ : bool) (_ : list sval) : option sval := None.
Definition no_unpack (_ : nat) (_ : bool) (_ : sval) : option (list sval) := None.
Definition no_fmt (_ : list sval) : sval := SOpq 1.
Definition rt0 : rt := RT [] [] [] [] 0.

(** outcome of a whole program: 0 = Ok with the final stack (top first, integers) and under
    height, 1 = error, 2 = out of fuel, 3 = outside the model *)
Definition zrun (fuel : nat) (asm : list node) (root : node) : N * list Z * N :=
  match exec zknown zsem no_arr no_unpack no_fmt asm fuel root rt0 with
  | Ok s => (0%N, map (fun v => match v with SInt z => z | SOpq _ => (-999999)%Z end) (stk s),
             N.of_nat (length (und s)))
  | Err _ _ => (1%N, [], 0%N)
  | OOF => (2%N, [], 0%N)
  | Unk => (3%N, [], 0%N) end.

(** Tie helper: 0 = model agrees with the observed outcome, 1 = disagrees, 3 = outside the model *)
Fixpoint zlist_eqb (a b : list Z) : bool :=
  match a, b with [] , [] => true | x :: a', y :: b' => Z.eqb x y && zlist_eqb a' b' | _, _ => false end.
Record xcase := XC { xc_asm : list node; xc_root : node; xc_code : N; xc_stack : list Z; xc_under : N }.
Definition xcase_code (fuel : nat) (c : xcase) : N :=
  match zrun fuel (xc_asm c) (xc_root c) with
  | (3%N, _, _) => 3%N
  | (code, st, u) =>
      if N.eqb code (xc_code c) && (negb (N.eqb code 0) || (zlist_eqb st (xc_stack c) && N.eqb u (xc_under c)))
      then 0%N else 1%N end.
Fixpoint xcodes_from (fuel : nat) (i : N) (l : list xcase) : list (N * N) :=
  match l with [] => [] | c :: t =>
    let k := xcase_code fuel c in
    if N.eqb k 0 then xcodes_from fuel (i + 1)%N t else (i, k) :: xcodes_from fuel (i + 1)%N t end.
