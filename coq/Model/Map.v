(** C16 — model of uiua's map arrays: the open-addressing key table [MapKeys]
    (/repo/src/algorithm/map.rs) and the value-level operations that keep the
    table and the rows of the array in step.

    Executable definitions only.  The model is a transcription of what the code
    does (line numbers refer to /repo/src/algorithm/map.rs unless said otherwise):

    - a cell of the key table is [Empty] (EMPTY_NAN / EMPTY_CHAR, l.894-900),
      [Tomb] (the TOMBSTONE constants) or [Key k];
    - the table is {cells; idx; len} = MapKeys {keys; indices; len} (l.440);
      capacity = number of indices (l.448);
    - [hash : key -> N] is ANY function (section variable); probing starts at
      [hash k mod max cap 1] (l.903-907).  [hash_empty]/[hash_tomb] are the hashes
      of the two placeholder cells, which grow_impl re-inserts like every other
      old cell (l.491);
    - [keq] is the equality used by the code on keys (array_eq).
    - [fixed = true] is the CURRENT code.  [fixed = false] is the code before the repairs
      d33ad92 (get / remove_impl compared [key == cell] BEFORE testing for a placeholder;
      [nanlike k] says that key [k] compares equal to the two placeholder cells: all NaNs are
      equal under array_eq and the placeholders of number keys are NaNs), 1d73a86 (Array::drop's
      early return left the keys alone), ca07ac6 (MapKeys::join renumbered the rows in discovery
      order) and 5017b06 (Array::map removed replaced rows in discovery order).  The old
      behaviour is kept for the [*_refuted_pre] records of Proofs/MapPre.v only; with
      [fixed = true] nothing depends on [nanlike].
    - A stored key is always a [Key] cell: keys one of whose elements is bit-identical to a
      placeholder (f64 0x7ff8000000000001 / ...02, also as the real part of a complex number;
      the characters U+2FFFF / U+2FFFE; recursively inside boxes: is_any_empty_cell /
      is_any_tombstone) read back as placeholder cells and are outside the model.

    Not modelled: key/value coercion (coerce_values), zero-width keys
    (key_row_len = 0), the fix stack, rank-0 key tables, negative take/drop
    amounts, multi-key insert/remove/get/has. *)
From Coq Require Import List Arith NArith ZArith Lia Bool.
Import ListNotations.

Inductive cell (K : Type) : Type := Empty | Tomb | Key (k : K).
Arguments Empty {K}.
Arguments Tomb {K}.
Arguments Key {K} k.

Record mk (K : Type) : Type := MK { cells : list (cell K); idx : list nat; len : nat }.
Arguments MK {K} _ _ _.
Arguments cells {K} _.
Arguments idx {K} _.
Arguments len {K} _.

Fixpoint set_nth {A} (n : nat) (x : A) (l : list A) : list A :=
  match l, n with
  | [], _ => []
  | _ :: t, 0 => x :: t
  | h :: t, S n => h :: set_nth n x t
  end.

Fixpoint remove_nth {A} (n : nat) (l : list A) : list A :=
  match l, n with
  | [], _ => []
  | _ :: t, 0 => t
  | h :: t, S n => h :: remove_nth n t
  end.

(** stable insertion sort of (a, index) pairs by index: sort_unstable_by_key on
    lists whose indices are distinct (on slices of at most 20 elements the standard
    library's unstable sort is an insertion sort as well) *)
Fixpoint ins_sorted {A} (x : A * nat) (l : list (A * nat)) : list (A * nat) :=
  match l with
  | [] => [x]
  | y :: t => if snd x <=? snd y then x :: l else y :: ins_sorted x t
  end.
Definition sort_by_snd {A} (l : list (A * nat)) : list (A * nat) := fold_right ins_sorted [] l.

(** probing starts at [hash % capacity.max(1)] (l.906) *)
Definition start_of (h : N) (c : nat) : nat := N.to_nat (N.modulo h (N.of_nat (Nat.max c 1))).

Inductive getres (V : Type) : Type := GVal (x : V) | GMissing | GErr.
Arguments GVal {V} x.
Arguments GMissing {V}.
Arguments GErr {V}.

Section MapModel.
Variable key : Type.
Variable val : Type.
Variable keq : key -> key -> bool.
Variable nanlike : key -> bool.
Variable fixed : bool.
Variable hash : key -> N.
Variable hash_empty : N.
Variable hash_tomb : N.

Notation cellk := (cell key).
Notation mkk := (mk key).

Definition cap (m : mkk) : nat := length (idx m).            (* l.448 *)
Definition hstart (k : key) (c : nat) : nat := start_of (hash k) c.

(** [key == cell] as evaluated by get (l.613) and remove_impl (l.643) *)
Definition cell_eqk (c : cellk) (k : key) : bool :=
  match c with Key k' => keq k k' | Empty => nanlike k | Tomb => nanlike k end.
(** [cell == key] where the code has already excluded placeholders (l.543, l.554) *)
Definition cell_is_key (c : cellk) (k : key) : bool :=
  match c with Key k' => keq k k' | _ => false end.

(** MapKeys::get, l.599-626: at most [cap] probes, stops on wrap-around.  Current code:
    empty cell -> None; not a tombstone and equal -> found; (before d33ad92: equal -> found;
    empty cell -> None) *)
Fixpoint get_loop (fuel : nat) (m : mkk) (k : key) (start i : nat) : option nat :=
  match fuel with
  | 0 => None
  | S fuel =>
    let c := nth i (cells m) Empty in
    let next := let i' := S i mod cap m in
                if i' =? start then None else get_loop fuel m k start i' in
    if fixed then
      match c with
      | Empty => None
      | Tomb => next
      | Key k' => if keq k k' then Some (nth i (idx m) 0) else next
      end
    else
      if cell_eqk c k then Some (nth i (idx m) 0)
      else match c with Empty => None | _ => next end
  end.
Definition get (m : mkk) (k : key) : option nat :=
  if length (cells m) =? 0 then None                       (* l.601 *)
  else get_loop (cap m) m k (hstart k (cap m)) (hstart k (cap m)).

(** the tombstone look-ahead of insert_impl, l.528-548: (present, key_index) *)
Fixpoint tomb_probe (fuel : nat) (m : mkk) (k : key) (orig i : nat) : bool * nat :=
  match fuel with
  | 0 => (false, orig)
  | S fuel =>
    let i' := S i mod cap m in
    if i' =? orig then (false, orig)
    else match nth i' (cells m) Empty with
         | Tomb => tomb_probe fuel m k orig i'
         | Empty => (false, orig)
         | Key k' => if keq k k' then (true, i') else tomb_probe fuel m k orig i'
         end
  end.

(** insert_impl, l.507-572.  None = Err (wrapped around without finding a place) *)
Fixpoint ins_loop (fuel : nat) (m : mkk) (k : key) (index start i : nat) : option (mkk * option nat) :=
  match fuel with
  | 0 => None
  | S fuel =>
    let c := nth i (cells m) Empty in
    let '(present, i2) :=
      match c with
      | Empty => (false, i)
      | Tomb => tomb_probe (cap m) m k i i
      | Key _ => (true, i)
      end in
    let c2 := nth i2 (cells m) Empty in
    if negb present || cell_is_key c2 k then
      let replaced := if present then Some (nth i2 (idx m) 0) else None in
      Some (MK (set_nth i2 (Key k) (cells m)) (set_nth i2 index (idx m))
               (if present then len m else S (len m)), replaced)
    else
      let i3 := S i2 mod cap m in
      if i3 =? start then None else ins_loop fuel m k index start i3
  end.

(** grow_impl, l.472-505: every old cell - placeholders included - is put at the first
    empty cell found from its hash position.  (The Rust loop does not terminate when
    there is no empty cell; the fuel runs out instead.) *)
Fixpoint place (fuel : nat) (cs : list cellk) (is : list nat) (c : cellk) (ix i : nat)
  : list cellk * list nat :=
  match fuel with
  | 0 => (cs, is)
  | S fuel =>
    match nth i cs Empty with
    | Empty => (set_nth i c cs, set_nth i ix is)
    | _ => place fuel cs is c ix (S i mod length cs)
    end
  end.
Definition cell_start (c : cellk) (n : nat) : nat :=
  match c with
  | Key k => hstart k n
  | Empty => start_of hash_empty n
  | Tomb => start_of hash_tomb n
  end.
Definition place_all (newcap : nat) (old : list (cellk * nat)) (init : list cellk * list nat)
  : list cellk * list nat :=
  fold_left (fun acc ci => place newcap (fst acc) (snd acc) (fst ci) (snd ci) (cell_start (fst ci) newcap))
            old init.
Definition grow_to (m : mkk) (newcap : nat) : mkk :=
  let r := place_all newcap (combine (cells m) (idx m)) (repeat Empty newcap, repeat 0 newcap) in
  MK (fst r) (snd r) (len m).
(** l.452: capacity = 0 or len / capacity > 0.75 (exact in f64 for capacities < 2^50) *)
Definition need_grow (m : mkk) : bool := (cap m =? 0) || (3 * cap m <? 4 * len m).
Definition grow (m : mkk) : mkk := if need_grow m then grow_to m (Nat.max (2 * cap m) 1) else m.

(** MapKeys::insert, l.506-598.  The Rust retries by recursion after [self.grow()];
    the model bounds the retries by fuel (Proofs/Map.v shows that under the invariant
    the first attempt succeeds). *)
Fixpoint insert_f (fuel : nat) (m : mkk) (k : key) (index : nat) : mkk * option nat :=
  match fuel with
  | 0 => (m, None)
  | S fuel =>
    let m := if cap m =? 0 then grow m else m in
    match ins_loop (cap m) m k index (hstart k (cap m)) (hstart k (cap m)) with
    | Some (m', r) => (grow m', r)
    | None => insert_f fuel (grow m) k index
    end
  end.
Definition insert := insert_f 4.

(** remove_impl, l.628-663 (same order of tests as get) *)
Fixpoint rem_loop (fuel : nat) (m : mkk) (k : key) (start i : nat) : mkk * option nat :=
  match fuel with
  | 0 => (m, None)
  | S fuel =>
    let c := nth i (cells m) Empty in
    let hit := (MK (set_nth i Tomb (cells m)) (set_nth i 0 (idx m)) (len m - 1), Some (nth i (idx m) 0)) in
    let next := let i' := S i mod cap m in
                if i' =? start then (m, None) else rem_loop fuel m k start i' in
    if fixed then
      match c with
      | Empty => (m, None)
      | Tomb => next
      | Key k' => if keq k k' then hit else next
      end
    else
      if cell_eqk c k then hit
      else match c with Empty => (m, None) | _ => next end
  end.
Definition remove (m : mkk) (k : key) : mkk * option nat :=
  rem_loop (cap m) m k (hstart k (cap m)) (hstart k (cap m)).

(** (key, row index) of the present keys in table order; with positions *)
Definition binds (m : mkk) : list (key * nat) :=
  flat_map (fun ci => match fst ci with Key k => [(k, snd ci)] | _ => [] end) (combine (cells m) (idx m)).
Fixpoint present_from (p : nat) (l : list (cellk * nat)) : list (nat * nat) :=
  match l with
  | [] => []
  | (Key _, i) :: t => (p, i) :: present_from (S p) t
  | _ :: t => present_from (S p) t
  end.
(** present_indices, l.726-733: table positions of the present keys in row order *)
Definition present_indices (m : mkk) : list nat :=
  map fst (sort_by_snd (present_from 0 (combine (cells m) (idx m)))).

Definition swap_nth (a b : nat) (l : list nat) : list nat :=
  set_nth a (nth b l 0) (set_nth b (nth a l 0) l).
(** reverse, l.734-740 *)
Definition mk_reverse (m : mkk) : mkk :=
  let p := present_indices m in
  let pairs := combine (firstn (length p / 2) p) (rev p) in
  MK (cells m) (fold_left (fun is ab => swap_nth (fst ab) (snd ab) is) pairs (idx m)) (len m).
(** rotate, l.741-756 *)
Definition mk_rotate (m : mkk) (by_ : Z) : mkk :=
  let p := present_indices m in
  let n := length p in
  if n =? 0 then m else
  let b := Z.to_nat (Z.modulo (- by_) (Z.of_nat n)) in
  if b =? 0 then m else
  let old := idx m in
  MK (cells m)
     (fold_left (fun is ii => set_nth (snd ii) (nth (nth ((fst ii + b) mod n) p 0) old 0) is)
                (combine (seq 0 n) p) (idx m))
     (len m).
Definition set_tombs (ps : list nat) (cs : list cellk) : list cellk :=
  fold_left (fun cs p => set_nth p Tomb cs) ps cs.
(** drop, l.757-778 (the indices of the dropped cells keep their stale values) *)
Definition mk_drop (m : mkk) (n : nat) : mkk :=
  let p := present_indices m in
  let n := Nat.min n (length p) in
  MK (set_tombs (firstn n p) (cells m))
     (fold_left (fun is q => set_nth q (nth q is 0 - n) is) (skipn n p) (idx m))
     (len m - n).
(** take, l.779-797 *)
Definition mk_take (m : mkk) (n : nat) : mkk :=
  let p := present_indices m in
  let n := Nat.min n (length p) in
  MK (set_tombs (skipn n p) (cells m)) (idx m) n.

Definition dec_above (r : nat) (is : list nat) : list nat := map (fun j => if r <? j then j - 1 else j) is.

Fixpoint ins_desc (x : nat) (l : list nat) : list nat :=
  match l with [] => [x] | y :: t => if y <=? x then x :: l else y :: ins_desc x t end.
Definition sort_desc (l : list nat) : list nat := fold_right ins_desc [] l.

(** MapKeys::join, l.802-834: returns the replaced row indices.  Current code renumbers the rows
    for the highest replaced row first (before ca07ac6: in discovery order) *)
Definition mk_join (a b : mkk) : mkk * list nat :=
  let shifted := map (fun i => i + len a) (idx b) in
  let to_insert := sort_by_snd (binds (MK (cells b) shifted (len b))) in
  let '(a', rem) := fold_left (fun acc ki =>
        let '(m', r) := insert (fst acc) (fst ki) (snd ki) in
        (m', snd acc ++ match r with Some i => [i] | None => [] end)) to_insert (a, []) in
  let order := if fixed then sort_desc rem else rem in
  (MK (cells a') (fold_left (fun is r => dec_above r is) order (idx a')) (len a'), rem).

(** ---- value level: the table together with the rows of the array *)
Definition vmap : Type := mkk * list val.
Definition empty_map : vmap := (MK [] [] 0, []).

(** Value::insert, l.246-313 (single key) *)
Definition v_insert (v : vmap) (k : key) (x : val) : option vmap :=
  let '(m, rows) := v in
  if negb (len m =? length rows) then None                               (* l.279 *)
  else match get m k with
       | Some i => if length rows <? i then None     (* set_row (dyadic/structure.rs:66) panics beyond the end, *)
                   else Some (fst (insert m k i), set_nth i x rows)       (* writes nothing AT the end *)
       | None => Some (fst (insert m k (length rows)), rows ++ [x])
       end.
(** Value::remove, l.387-427 *)
Definition v_remove (v : vmap) (k : key) : option vmap :=
  let '(m, rows) := v in
  if length rows =? 0 then Some v                                        (* l.398 *)
  else if negb (len m =? length rows) then None                          (* l.406 *)
  else match remove m k with
       | (m', Some i) => if length rows <=? i then None                  (* l.413 *)
                         else Some (MK (cells m') (dec_above i (idx m')) (len m'), remove_nth i rows)
       | (m', None) => Some (m', rows)
       end.
(** Value::get, l.187-224 (no fill value set) *)
Definition v_get (v : vmap) (k : key) : getres val :=
  let '(m, rows) := v in
  if length rows =? 0 then GMissing                                      (* l.201 *)
  else if negb (len m =? length rows) then GErr                          (* l.207 *)
  else match get m k with
       | Some i => match nth_error rows i with Some x => GVal x | None => GErr end
       | None => GMissing
       end.
(** Value::has_key, l.226-243 *)
Definition v_has (v : vmap) (k : key) : bool :=
  let '(m, rows) := v in
  if length rows =? 0 then false else match get m k with Some _ => true | None => false end.
(** normalized, l.681-704, and unmap l.179 *)
Definition unmap_keys (m : mkk) : list key :=
  if len m =? 0 then [] else map fst (sort_by_snd (binds m)).
Definition v_unmap (v : vmap) : list key * list val := (unmap_keys (fst v), snd v).

(** reverse / rotate of the rows (monadic/mod.rs:1150-1191, dyadic/mod.rs:1280-1287) *)
Definition v_reverse (v : vmap) : vmap :=
  let '(m, rows) := v in
  if length rows =? 0 then v else (mk_reverse m, rev rows).
Definition rot_rows {A} (b : nat) (l : list A) : list A := skipn b l ++ firstn b l.
Definition v_rotate (v : vmap) (by_ : Z) : vmap :=
  let '(m, rows) := v in
  let n := length rows in
  (mk_rotate m by_, if n =? 0 then rows else rot_rows (Z.to_nat (Z.modulo by_ (Z.of_nat n))) rows).
(** take with a non-negative amount (dyadic/structure.rs:703-720) *)
Definition v_take (v : vmap) (n : nat) : option vmap :=
  let '(m, rows) := v in
  if length rows <? n then None else Some (mk_take m n, firstn n rows).
(** drop with a non-negative amount (dyadic/structure.rs:724-752 and 814-825): when the amount
    is at least the row count an early return empties the rows; it now drops the keys as
    well (before 1d73a86 it left the key table as it was) *)
Definition v_drop (v : vmap) (n : nat) : vmap :=
  let '(m, rows) := v in
  if length rows <=? n then ((if fixed then mk_drop m n else m), []) else (mk_drop m n, skipn n rows).
(** Array::map, l.50-92, on a key list and a value list of the same length: replaced rows are
    removed highest first (before 5017b06: in reverse discovery order) *)
Definition v_map (l : list (key * val)) : vmap :=
  let '(m, rem, _) := fold_left (fun acc kx =>
        let '(m, rem, i) := acc in
        let '(m', r) := insert m (fst kx) i in
        (m', rem ++ match r with Some j => [j] | None => [] end, S i)) l (MK [] [] 0, [], 0) in
  fold_left (fun (v : vmap) i => (MK (cells (fst v)) (dec_above i (idx (fst v))) (len (fst v)), remove_nth i (snd v)))
            (if fixed then sort_desc rem else rev rem) (m, map snd l).
(** join of two maps (dyadic/combine.rs:394-515): rows appended, replaced rows removed
    in descending order *)
Definition v_join (a b : vmap) : vmap :=
  let '(m, rem) := mk_join (fst a) (fst b) in
  (m, fold_left (fun rows i => remove_nth i rows) (sort_desc rem) (snd a ++ snd b)).

(** ---- operation histories *)
Inductive op : Type :=
| OIns (k : key) (x : val) | ORem (k : key) | OGet (k : key) | OHas (k : key) | OLen | OUnmap
| ORev | ORot (by_ : Z) | OTake (n : nat) | ODrop (n : nat) | OJoin (l : list (key * val)).
Inductive out : Type :=
| RNone | RErr | RVal (x : val) | RMissing | RBool (b : bool) | RNat (n : nat)
| RKV (ks : list key) (vs : list val).

(** an operation that fails leaves the state as it was and outputs [RErr] (the
    interpreter aborts the program; histories end there) *)
Definition step (v : vmap) (o : op) : vmap * out :=
  match o with
  | OIns k x => match v_insert v k x with Some v' => (v', RNone) | None => (v, RErr) end
  | ORem k => match v_remove v k with Some v' => (v', RNone) | None => (v, RErr) end
  | OGet k => (v, match v_get v k with GVal x => RVal x | GMissing => RMissing | GErr => RErr end)
  | OHas k => (v, RBool (v_has v k))
  | OLen => (v, RNat (length (snd v)))
  | OUnmap => (v, RKV (fst (v_unmap v)) (snd (v_unmap v)))
  | ORev => (v_reverse v, RNone)
  | ORot b => (v_rotate v b, RNone)
  | OTake n => match v_take v n with Some v' => (v', RNone) | None => (v, RErr) end
  | ODrop n => (v_drop v n, RNone)
  | OJoin l => (v_join v (v_map l), RNone)
  end.

Definition is_core (o : op) : bool :=
  match o with OIns _ _ | ORem _ | OGet _ | OHas _ | OLen | OUnmap => true | _ => false end.

(** ---- specification: an association list in insertion order *)
Definition alist : Type := list (key * val).
Fixpoint a_insert (a : alist) (k : key) (x : val) : alist :=
  match a with
  | [] => [(k, x)]
  | (k', y) :: t => if keq k k' then (k, x) :: t else (k', y) :: a_insert t k x
  end.
Fixpoint a_remove (a : alist) (k : key) : alist :=
  match a with
  | [] => []
  | (k', y) :: t => if keq k k' then t else (k', y) :: a_remove t k
  end.
Fixpoint a_get (a : alist) (k : key) : option val :=
  match a with
  | [] => None
  | (k', y) :: t => if keq k k' then Some y else a_get t k
  end.
(** joining appends the other map's entries; an entry whose key is already there
    moves to the end with the new value *)
Definition a_join (a b : alist) : alist := fold_left (fun a kx => a_remove a (fst kx) ++ [kx]) b a.
Definition a_map (l : list (key * val)) : alist := fold_left (fun a kx => a_remove a (fst kx) ++ [kx]) l [].

Definition sstep (a : alist) (o : op) : alist * out :=
  match o with
  | OIns k x => (a_insert a k x, RNone)
  | ORem k => (a_remove a k, RNone)
  | OGet k => (a, match a_get a k with Some x => RVal x | None => RMissing end)
  | OHas k => (a, RBool (match a_get a k with Some _ => true | None => false end))
  | OLen => (a, RNat (length a))
  | OUnmap => (a, RKV (map fst a) (map snd a))
  | ORev => (rev a, RNone)
  | ORot b => (if length a =? 0 then a else rot_rows (Z.to_nat (Z.modulo b (Z.of_nat (length a)))) a, RNone)
  | OTake n => if length a <? n then (a, RErr) else (firstn n a, RNone)
  | ODrop n => (skipn n a, RNone)
  | OJoin l => (a_join a (a_map l), RNone)
  end.

(** run a history (first operation first); outputs in order *)
Fixpoint run (v : vmap) (ops : list op) : vmap * list out :=
  match ops with
  | [] => (v, [])
  | o :: t => let '(v', r) := step v o in let '(v'', rs) := run v' t in (v'', r :: rs)
  end.
Fixpoint srun (a : alist) (ops : list op) : alist * list out :=
  match ops with
  | [] => (a, [])
  | o :: t => let '(a', r) := sstep a o in let '(a'', rs) := srun a' t in (a'', r :: rs)
  end.

(** abstraction of a concrete state: the key bound to row i (if any) next to row i *)
Definition key_at (m : mkk) (i : nat) : option key :=
  match find (fun p => snd p =? i) (binds m) with Some (k, _) => Some k | None => None end.
Definition abs (v : vmap) : list (option key * val) :=
  combine (map (key_at (fst v)) (seq 0 (length (snd v)))) (snd v).
Definition lift (a : alist) : list (option key * val) := map (fun p => (Some (fst p), snd p)) a.

End MapModel.

Arguments OIns {key val}. Arguments ORem {key val}. Arguments OGet {key val}. Arguments OHas {key val}.
Arguments OLen {key val}. Arguments OUnmap {key val}. Arguments ORev {key val}. Arguments ORot {key val}.
Arguments OTake {key val}. Arguments ODrop {key val}. Arguments OJoin {key val}.
Arguments RNone {key val}. Arguments RErr {key val}. Arguments RVal {key val}. Arguments RMissing {key val}.
Arguments RBool {key val}. Arguments RNat {key val}. Arguments RKV {key val}.

(** ---- instance used by the tie and by the executable tests: keys and values are N *)
Module NInst.
Definition okey := N.
Definition assoc_hash (tbl : list (N * N)) (k : N) : N :=
  match find (fun p => N.eqb (fst p) k) tbl with Some p => snd p | None => 0%N end.

Definition cell_eqb (a b : cell N) : bool :=
  match a, b with Empty, Empty => true | Tomb, Tomb => true | Key x, Key y => N.eqb x y | _, _ => false end.
Fixpoint list_eqb {A} (e : A -> A -> bool) (a b : list A) : bool :=
  match a, b with [] , [] => true | x :: s, y :: t => e x y && list_eqb e s t | _, _ => false end.
Definition out_eqb (a b : @out N N) : bool :=
  match a, b with
  | RNone, RNone => true | RErr, RErr => true | RMissing, RMissing => true
  | RVal x, RVal y => N.eqb x y
  | RBool x, RBool y => Bool.eqb x y
  | RNat x, RNat y => Nat.eqb x y
  | RKV k1 v1, RKV k2 v2 => list_eqb N.eqb k1 k2 && list_eqb N.eqb v1 v2
  | _, _ => false
  end.
Definition state_eqb (v : vmap N N) (cs : list (cell N)) (is : list nat) (n : nat) (rows : list N) : bool :=
  list_eqb cell_eqb (cells (fst v)) cs && list_eqb Nat.eqb (idx (fst v)) is && Nat.eqb (len (fst v)) n
  && list_eqb N.eqb (snd v) rows.

(** one observed step of the implementation: operation, output, dump after the step *)
Record obs := Obs { o_op : @op N N; o_out : @out N N; o_cells : list (cell N); o_idx : list nat; o_len : nat; o_rows : list N }.

(** -0.0 (coded 1000) and 0.0 (coded 0) are the same key with two representations *)
Definition keq_negzero (a b : N) : bool :=
  N.eqb (if N.eqb a 1000 then 0 else a) (if N.eqb b 1000 then 0 else b).

Section Replay.
Variable keqN : N -> N -> bool.
Variable tbl : list (N * N).
Variable he ht : N.
(** the tie replays the current code *)
Definition mstep := step N N keqN (fun _ => false) true (assoc_hash tbl) he ht.
(** index of the first step at which model and implementation differ *)
Fixpoint replay (v : vmap N N) (l : list obs) (n : nat) : option nat :=
  match l with
  | [] => None
  | s :: t =>
    let '(v', r) := mstep v (o_op s) in
    if out_eqb r (o_out s) && state_eqb v' (o_cells s) (o_idx s) (o_len s) (o_rows s)
    then replay v' t (S n) else Some n
  end.
End Replay.

(** agreement of a model run with the association-list spec (executable test) *)
Definition spec_agrees (fixed : bool) (nan : N -> bool) (hash : N -> N) (he ht : N) (ops : list (@op N N)) : bool :=
  let '(v, outs) := run N N N.eqb nan fixed hash he ht (empty_map N N) ops in
  let '(a, souts) := srun N N N.eqb [] ops in
  list_eqb out_eqb outs souts &&
  list_eqb (fun p q => match fst p, fst q with Some x, Some y => N.eqb x y | _, _ => false end && N.eqb (snd p) (snd q))
           (abs N N v) (lift N N a).
End NInst.
