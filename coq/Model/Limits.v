(** C09: the resource guards of the toolchain.  Executable definitions only.

    (a) [validate_size]  src/algorithm/mod.rs:133-189 validate_size_impl.  The Rust code multiplies
        the dimensions AS f64 (there is no usize arithmetic in it, hence no wrap-around inside
        the guard); f64 on non-negative integers is modelled exactly by [rnd53] (round to nearest,
        ties to even, 53 significant bits) with +inf as [None].
    (b) [cexec]  where the interpreter's call stack grows and where it is guarded:
        src/run.rs:823-833 exec_with_frame_span pushes a frame for every Node::Call, every
        SigNode operand executed by a modifier / switch (exec_with_span) and every CallGlobal of
        a function; only the last one is preceded by respect_recursion_limit (run.rs:541,
        1392-1409: `call_stack.len() > recursion_limit` -> error).  The same shape (a counter
        compared to a constant before descending) is the macro expansion guard of
        src/compile/modifier.rs:1764-1770.
    (c) [enc_ok]  src/algorithm/encode.rs:552-556, 597, 687: `binary` refuses box nesting deeper than
        MAX_BINARY_DEPTH. *)
From Coq Require Import List NArith ZArith Arith Bool Lia.
From UV Require Import Model.Node Model.Sig.
Import ListNotations.

(* ------------------------------------------------------------------ (a) the array size guard *)
Open Scope N_scope.

(** an f64 holding a non-negative integer value: round-to-nearest-even to 53 significant bits *)
Definition rnd53 (n : N) : N :=
  let k := N.log2 n in
  if k <? 53 then n else
  let sh := k - 52 in
  let q := n / 2 ^ sh in
  let r := n mod 2 ^ sh in
  let half := 2 ^ (sh - 1) in
  let q' := if (half <? r) || ((r =? half) && N.odd q) then q + 1 else q in
  q' * 2 ^ sh.

(** f64 values met by the guard: [Some n] a finite non-negative integer, [None] = +inf *)
Definition fin (n : N) : option N := if n <? 2 ^ 1024 then Some n else None.
(** `size as f64` for a usize (< 2^64: never infinite) *)
Definition of_usize (n : N) : option N := Some (rnd53 n).
(** f64 multiplication of two such values (inf * 0 does not occur: see [size_loop], and
    `elements` is finite where it is multiplied by elem_size) *)
Definition fmul (a b : option N) : option N :=
  match a, b with Some x, Some y => fin (rnd53 (x * y)) | _, _ => None end.

Inductive lres := LZero | LVal (e : option N).
(** THE CODE BEFORE commit 1cc30f2 (kept as the `_pre` model; see [size_guard_refuted_pre]):
    `for size in sizes { if size == 0 { return Ok(0) } elements *= size as f64 }` *)
Fixpoint size_loop (acc : option N) (dims : list N) : lres :=
  match dims with
  | [] => LVal acc
  | d :: t => if d =? 0 then LZero else size_loop (fmul acc (of_usize d)) t
  end.

Inductive vres := Accept (n : N) | Reject.
Definition u32max : N := 4294967295.
(** [L] = floor of `max_mb * 1024f64.powi(2)` (4096 MB = 2^32 by default, UIUA_MAX_MB otherwise);
    an integer-valued f64 is `> thr` iff it is `> floor thr` *)
Definition validate_size_pre (es : N) (dims : list N) (L : N) : vres :=
  match size_loop (Some 1) dims with
  | LZero => Accept 0                                   (* mod.rs:139-141 *)
  | LVal None => Reject                                 (* inf > u32::MAX *)
  | LVal (Some e) =>
      if u32max <? e then Reject else                   (* mod.rs:144 *)
      match fmul (Some e) (of_usize es) with            (* mod.rs:150 *)
      | None => Reject
      | Some sz => if L <? sz then Reject else Accept e (* mod.rs:182-188, `elements as usize` *)
      end
  end.

(** THE CURRENT CODE (commit 1cc30f2, mod.rs:137-157): zero dimensions are skipped and remembered;
    `if any_zero { if elements > isize::MAX as f64 { Err } else { Ok(0) } }` *)
Fixpoint size_loop2 (acc : option N) (z : bool) (dims : list N) : option N * bool :=
  match dims with
  | [] => (acc, z)
  | d :: t => if d =? 0 then size_loop2 acc true t else size_loop2 (fmul acc (of_usize d)) z t
  end.
(** `isize::MAX as f64` = 2^63 *)
Definition isize_max_f : N := rnd53 9223372036854775807.
Definition validate_size (es : N) (dims : list N) (L : N) : vres :=
  match size_loop2 (Some 1) false dims with
  | (None, _) => Reject                                 (* inf > anything *)
  | (Some e, true) => if isize_max_f <? e then Reject else Accept 0      (* mod.rs:146-156 *)
  | (Some e, false) =>
      if u32max <? e then Reject else                   (* mod.rs:158 *)
      match fmul (Some e) (of_usize es) with
      | None => Reject
      | Some sz => if L <? sz then Reject else Accept e
      end
  end.

Definition prod (dims : list N) : N := fold_right N.mul 1 dims.
(** the dimensions that are not zero *)
Definition nz (dims : list N) : list N := filter (fun d => negb (d =? 0)) dims.
Definition usize_max : N := 18446744073709551615.

(** tie helper: 0 = reject, n+1 = accept n *)
Definition vcode (r : vres) : N := match r with Reject => 0 | Accept n => n + 1 end.

Close Scope N_scope.

(* ------------------------------------------------------------------ (b) call depth *)

Inductive cnode :=
| CPrim                      (* neither calls nor pushes a frame *)
| CFail                      (* raises an error *)
| CRun (l : list cnode)
| CFrame (n : cnode)         (* exec_with_frame_span without a check *)
| CChoice (l : list cnode)   (* switch / modifier choosing an operand: the oracle says which (none if out of range) *)
| CLoop (n : cnode)          (* a modifier repeating its operand: the oracle gives the count *)
| CGlobal (i : nat).         (* respect_recursion_limit; call_with_span (asm[f]) *)

Inductive cres := COk | CErr | COOF.

Section CExec.
  Variable limit : nat.             (* Runtime::recursion_limit *)
  Variable gl : list cnode.         (* bodies of the bound functions *)

  (** result, deepest call stack seen, rest of the oracle *)
  Definition cout := (cres * nat * list nat)%type.

  Fixpoint run_seq (ex : cnode -> nat -> list nat -> cout) (l : list cnode) (d : nat) (o : list nat) : cout :=
    match l with
    | [] => (COk, d, o)
    | x :: t =>
        match ex x d o with
        | (COk, m, o') => match run_seq ex t d o' with (r, m', o'') => (r, Nat.max m m', o'') end
        | other => other
        end
    end.

  Fixpoint run_times (ex : nat -> list nat -> cout) (k : nat) (d : nat) (o : list nat) : cout :=
    match k with
    | O => (COk, d, o)
    | S k =>
        match ex d o with
        | (COk, m, o') => match run_times ex k d o' with (r, m', o'') => (r, Nat.max m m', o'') end
        | other => other
        end
    end.

  (** [d] = call_stack.len() on entry *)
  Fixpoint cexec (fuel : nat) (n : cnode) (d : nat) (o : list nat) {struct fuel} : cout :=
    match fuel with O => (COOF, d, o) | S fuel =>
    match n with
    | CPrim => (COk, d, o)
    | CFail => (CErr, d, o)
    | CRun l => run_seq (cexec fuel) l d o
    | CFrame b => cexec fuel b (S d) o            (* push; exec; pop *)
    | CChoice l =>
        match o with
        | [] => (CErr, d, [])
        | k :: o' => match nth_error l k with None => (COk, d, o') | Some b => cexec fuel b d o' end
        end
    | CLoop b =>
        match o with
        | [] => (CErr, d, [])
        | k :: o' => run_times (cexec fuel b) k d o'
        end
    | CGlobal i =>
        if limit <? d then (CErr, d, o)           (* run.rs:1393 *)
        else match nth_error gl i with
             | None => (CErr, d, o)
             | Some b => cexec fuel b (S d) o     (* run.rs:831 *)
             end
    end end.
End CExec.

(** frames a node can stack up without passing a guarded call *)
Fixpoint fdepth (n : cnode) : nat :=
  match n with
  | CPrim | CFail | CGlobal _ => 0
  | CRun l | CChoice l =>
      (fix go (l : list cnode) : nat := match l with [] => 0 | x :: t => Nat.max (fdepth x) (go t) end) l
  | CFrame b => S (fdepth b)
  | CLoop b => fdepth b
  end.
Definition fdepth_list (l : list cnode) : nat :=
  (fix go (l : list cnode) : nat := match l with [] => 0 | x :: t => Nat.max (fdepth x) (go t) end) l.

(** the programs of the tie.  `F ← |1 ⨬(F-1|∘)=0.` : the switch runs the chosen branch as a SigNode
    (one frame), the recursive branch calls the global *)
Definition rec_direct : list cnode :=
  [CRun [CPrim; CChoice [CFrame (CRun [CPrim; CGlobal 0]); CFrame CPrim]]].
(** `F ← |1 ⨬(◌⊙F 0 -1|∘)=0.` : the call sits one more operand frame down (dip runs its operand as a
    SigNode) *)
Definition rec_dipped : list cnode :=
  [CRun [CPrim; CChoice [CFrame (CRun [CPrim; CPrim; CFrame (CGlobal 0); CPrim]); CFrame CPrim]]].
Definition rec_main : cnode := CRun [CPrim; CGlobal 0].
(** F n: n recursive choices, then the base case *)
Definition rec_oracle (n : nat) : list nat := repeat 0 n ++ [1].
Definition rec_verdict (limit : nat) (gl : list cnode) (n : nat) : bool :=
  match cexec limit gl (8 * n + 40) rec_main 1 (rec_oracle n) with (COk, _, _) => true | _ => false end.

(** macro expansion (modifier.rs:1764): `comptime_depth += 1; if comptime_depth > MAX { error }` is
    [CGlobal] with limit MAX - 1 on a depth starting at 0; a chain of k macros *)
Definition MAX_COMPTIME_DEPTH : nat := 20.
Definition macro_chain (k : nat) : list cnode :=
  CPrim :: map (fun i => CGlobal i) (seq 0 (k - 1)).
Definition macro_verdict (k : nat) : bool :=
  match cexec (MAX_COMPTIME_DEPTH - 1) (macro_chain k) (2 * k + 4) (CGlobal (k - 1)) 0 [] with
  | (COk, _, _) => true | _ => false end.

(* ------------------------------------------------------------------ (c) box nesting in `binary` *)

Inductive btree := BLeaf | BBox (l : list btree).
Definition MAX_BINARY_DEPTH : nat := 32.
(** Value::to_binary_impl(depth) succeeds *)
Fixpoint enc_ok (depth : nat) (t : btree) : bool :=
  if MAX_BINARY_DEPTH <? depth then false else
  match t with
  | BLeaf => true
  | BBox l => (fix go (l : list btree) : bool := match l with [] => true | x :: r => enc_ok (S depth) x && go r end) l
  end.
Fixpoint bheight (t : btree) : nat :=
  match t with
  | BLeaf => 0
  | BBox l => S ((fix go (l : list btree) : nat := match l with [] => 0 | x :: r => Nat.max (bheight x) (go r) end) l)
  end.
Fixpoint box_chain (k : nat) : btree := match k with O => BLeaf | S k => BBox [box_chain k] end.

(* ------------------------------------------------------------------ (d) tie programs for the signature checker *)
(** the IR of `F ← |1 ⊂1[⊂1[ ... ⊂1[1] ... ]]` with k brackets, as the compiler emits it (harness
    `spine show`): the innermost literal is folded to a constant, every other level is
    Array { inner: Run [level; Push 1; join] } *)
Fixpoint arr_chain (j : nat) : node :=
  match j with
  | O => Push (SOpq 1)
  | S j => Arr 1 (Run [arr_chain j; Push (SInt 1%Z); Prim 1084 2 1]) false
  end.
Definition arr_prog (k : nat) : node :=
  Run [arr_chain (k - 1); Push (SInt 1%Z); Prim 1084 2 1; Mod MDip [(Sig 1 0 0 0, Prim 4 1 0)]].
Definition arr_verdict (k : nat) : bool := match root_sig (arr_prog k) with Some _ => true | None => false end.

(* ------------------------------------------------------------------ (e) range and rerank (commits 9313bfc, 13d1954) *)
Open Scope N_scope.
(** monadic/mod.rs range_impl: the element count of `⇡ dims` (a list of |dims| numbers per cell) is
    validated as dims ++ [rank] with 8-byte elements.  BEFORE 9313bfc a zero dimension returned the
    empty result without validating, and the caller built a shape out of the other dimensions *)
Definition has_zero (dims : list N) : bool := existsb (fun d => d =? 0) dims.
Definition range_len_pre (dims : list N) (L : N) : vres :=
  match dims with [] => Accept 1 | _ =>
    if has_zero dims then Accept 0 else validate_size 8 (dims ++ [N.of_nat (length dims)]) L end.
Definition range_len (dims : list N) (L : N) : vres :=
  match dims with [] => Accept 1 | _ =>
    match validate_size 8 (dims ++ [N.of_nat (length dims)]) L with
    | Reject => Reject
    | Accept n => if has_zero dims then Accept 0 else Accept n
    end end.

(** dyadic/mod.rs rerank with a non-negative rank on an array of [len] axes: the number of axes of
    length 1 it prepends one by one (None = refused).  BEFORE 13d1954 there was no bound *)
Definition MAX_DIMS : N := 99.
Definition rerank_prepends_pre (rank len : N) : option N :=
  if len <=? rank then Some (rank - len + 1) else Some 0.
Definition rerank_prepends (rank len : N) : option N :=
  if len <=? rank then (if MAX_DIMS <=? rank then None else Some (rank - len + 1)) else Some 0.
Definition ocode (o : option N) : N := match o with None => 0 | Some n => n + 1 end.
Close Scope N_scope.
