(** C20 - the purity gate of compile-time evaluation and the effect trace of the interpreter.

    Transcribed from
      parser/src/primitive.rs:159   enum Purity { Mutating, Impure, Pure } (derived Ord: Mutating < Impure < Pure)
      src/tree.rs:861               Node::is_min_purity  (recurse)
      src/tree.rs:938               Node::is_limit_bounded
      src/compile/pre_eval.rs:32    PreEvalMode::matches_nodes
      src/compile/pre_eval.rs:89    Compiler::pre_eval (section scan)
      src/compile/pre_eval.rs:140   Compiler::comptime_node (backend choice)
      src/run.rs:473                Uiua::exec_impl (which node kinds run which sub-trees)
    Executable definitions only.  Trees are those of Model/Node.v (the spine exporter's format). *)
From Coq Require Import List Arith NArith Bool String Lia.
From UV Require Import Model.Node.
Import ListNotations.

(** * Purity labels *)
Inductive purity := Mutating | Impure | Pure.
Definition prank (p : purity) : nat := match p with Mutating => 0 | Impure => 1 | Pure => 2 end.
(** a >= b in the derived order *)
Definition pge (a b : purity) : bool := prank b <=? prank a.
Definition purity_eqb (a b : purity) : bool := Nat.eqb (prank a) (prank b).

Inductive pmode := Lazy | Line | Normal | Lsp.
Definition is_lsp (m : pmode) : bool := match m with Lsp => true | _ => false end.
Definition is_lazy (m : pmode) : bool := match m with Lazy => true | _ => false end.
(** pre_eval.rs:72-75: the purity a node must have to be evaluated at compile time *)
Definition mode_min (m : pmode) : purity := if is_lsp m then Impure else Pure.

(** the backend of the scratch runtime that evaluates a section at compile time:
    a fresh SafeSys, the process-wide native backend, or the backend the compiler was given *)
Inductive backend := BSafe | BNative | BOwn.
(** pre_eval.rs:167-172 as it stands (fix 2bf92f0): editor mode runs system functions on the
    compiler's own backend, every other mode on a fresh safe backend *)
Definition comptime_backend (m : pmode) : backend := if is_lsp m then BOwn else BSafe.
(** RECORD: the choice before 2bf92f0 (feature native_sys on): Uiua::with_native_sys() in editor mode *)
Definition comptime_backend_pre (m : pmode) : backend := if is_lsp m then BNative else BSafe.

(** BindingKind as far as the gate looks at it (assembly.rs:709) *)
Inductive bkind := BConst (has_value : bool) | BFunc (f : nat) | BOther.

(** what the gate needs to know about a primitive: its purity, whether it is a system function,
    whether it is send/recv (is_limit_bounded) *)
Record pinfo := PI { pi_pur : purity; pi_sys : bool; pi_sendrecv : bool }.

(** purity of the modifier kinds of Model/Node.v.  The named kinds are hand-classified here
    (defs.rs: spawn, pool = Impure; dump = Mutating; every other named one has no label = Pure) and
    compared with the implementation's `purity()` on every run (Gen/Purity.v, Proofs/GateTables.v);
    other modifiers are looked up by id. *)
Definition modk_purity (other : N -> purity) (m : modk) : purity :=
  match m with
  | MSpawn | MPool => Impure
  | MDump => Mutating
  | MOther id _ => other id
  | _ => Pure
  end.

Definition is_push (n : node) : bool := match n with Push _ => true | _ => false end.
(** Node::as_slice (tree.rs:345) *)
Definition as_slice (n : node) : list node := match n with Run ns => ns | x => [x] end.

Section Gate.
  Variable lprim : N -> pinfo.
  Variable lmod : modk -> purity.
  Variable asm : list node.          (* Assembly::functions *)
  Variable fext : list bool.         (* per function: bound by a binding whose meta.external is set *)
  Variable binds : list bkind.       (* Assembly::bindings *)
  Variable big : sval -> bool.       (* pre_eval.rs:45-52: more than 1000 elements or rank above 4 *)

  Definition mem (f : nat) (vis : list nat) : bool := existsb (Nat.eqb f) vis.

  (** tree.rs:861 `recurse`.  [vis] is the IndexSet of functions on the current path (inserted before
      a body is entered, truncated back afterwards); fuel decreases at every step and running out of
      it answers false. *)
  Fixpoint is_min_purity (fuel : nat) (min : purity) (vis : list nat) (n : node) {struct fuel} : bool :=
    match fuel with O => false | S k =>
    let rec := is_min_purity k min in
    let body (f : nat) : bool :=
      negb (mem f vis) && match nth_error asm f with Some b => rec (f :: vis) b | None => false end in
    match n with
    | Run ns => forallb (rec vis) ns
    | Prim id _ _ | PrimIndet id => pge (pi_pur (lprim id)) min
    | Mod m args => pge (lmod m) min && forallb (fun a => rec vis (snd a)) args
    | Arr _ inner _ => rec vis inner
    | Call f _ => if nth f fext false then false else body f
    | CallGlobal i _ =>
        match nth_error binds i with
        | Some (BConst _) => true
        | Some (BFunc f) => body f
        | _ => false end
    | Switch brs _ _ => forallb (fun a => rec vis (snd a)) brs
    | CustomInv _ has _ normal =>
        (* (cust.normal.ok()).or(cust.un): the exported tree carries only `normal`; a custom inverse
           without it is answered false here and kept out of the correspondence check *)
        if has then rec vis normal else false
    | TrackCaller _ i => rec vis i
    | NoInline i => rec vis i
    | Dynamic _ => false
    | _ => true
    end end.

  (** tree.rs:938 *)
  Fixpoint is_limit_bounded (fuel : nat) (vis : list nat) (n : node) {struct fuel} : bool :=
    match fuel with O => false | S k =>
    let rec := is_limit_bounded k in
    let body (f : nat) : bool :=
      negb (mem f vis) && match nth_error asm f with Some b => rec (f :: vis) b | None => false end in
    match n with
    | Run ns => forallb (rec vis) ns
    | Prim id _ _ | PrimIndet id =>
        let i := lprim id in
        negb (pi_sendrecv i) && negb (pi_sys i && negb (pge (pi_pur i) Impure))
    | Mod _ args => forallb (fun a => rec vis (snd a)) args
    | Arr _ inner _ => rec vis inner
    | Call f _ => body f
    | CallGlobal i _ =>
        match nth_error binds i with
        | Some (BConst true) => true
        | Some (BFunc f) => body f
        | _ => false end
    | Switch brs _ _ => forallb (fun a => rec vis (snd a)) brs
    | CustomInv _ has _ normal => if has then rec vis normal else false
    | TrackCaller _ i => rec vis i
    | NoInline i => rec vis i
    | _ => true
    end end.

  Definition is_big_push (n : node) : bool := match n with Push v => big v | _ => false end.

  (** pre_eval.rs:39-80 `recurse`, one node of the slice; [sl x] is the recursive call on the
      slice of x (a `&Node` derefs to `as_slice`) *)
  Fixpoint mnode (fuel : nat) (mode : pmode) (n : node) {struct fuel} : bool :=
    match fuel with O => false | S k =>
    let sl (x : node) : bool :=
      negb (existsb is_big_push (as_slice x)) && forallb (mnode k mode) (as_slice x) in
    match n with
    | Run ns => forallb sl ns
    | Mod m args => purity_eqb (lmod m) Pure && forallb (fun a => sl (snd a)) args
    | NoInline _ => false
    | Arr _ inner _ => sl inner
    | Call f _ => match nth_error asm f with Some b => sl b | None => false end
    | CustomInv _ false _ _ => false
    | x => is_limit_bounded k [] x && is_min_purity k (mode_min mode) [] x
    end end.
  Definition mrec (fuel : nat) (mode : pmode) (ns : list node) : bool :=
    negb (existsb is_big_push ns) && forallb (mnode fuel mode) ns.

  (** pre_eval.rs:32 *)
  Definition matches_nodes (fuel : nat) (mode : pmode) (ns : list node) : bool :=
    if forallb is_push ns then false
    else if is_lazy mode then false
    else mrec fuel mode ns.

  (** * The section scan of pre_eval (pre_eval.rs:89-139) *)
  Variable sigok : list node -> bool.   (* nodes_clean_sig(section) = Some sig with 0 arguments and >0 outputs *)

  (** a section is handed to run-time evaluation by comptime_node iff it is not all pushes and
      can_pre_eval accepts it (pre_eval.rs:141-153) *)
  Definition evaluated (fuel : nat) (mode : pmode) (sec : list node) : bool :=
    negb (forallb is_push sec) && matches_nodes fuel mode sec.

  (** the longest prefix length l in 1..len whose prefix is accepted: `for end in (start+1..=len).rev()` *)
  Fixpoint longest (ok : list node -> bool) (ns : list node) (len : nat) : option nat :=
    match len with O => None | S l =>
      if ok (firstn (S l) ns) then Some (S l) else longest ok ns l end.

  (** the sections handed to comptime_node by one call of pre_eval, in order *)
  Fixpoint scan (sfuel : nat) (ok : list node -> bool) (ns : list node) : list (list node) :=
    match sfuel with O => [] | S k =>
      match ns with [] => [] | _ :: tl =>
        match longest ok ns (List.length ns) with
        | Some l => firstn l ns :: scan k ok (skipn l ns)
        | None => scan k ok tl end end end.

  Definition pre_eval_sections (fuel : nat) (mode : pmode) (root : list node) : list (list node) :=
    if is_lazy mode || forallb is_push root then []
    else filter (evaluated fuel mode)
           (scan (S (List.length root)) (fun sec => matches_nodes fuel mode sec && sigok sec) root).
End Gate.

(** * Backend methods and events *)

(** an event of the trace: a call of the SysBackend method with that name
    ("open_file:w" / "open_file:r" distinguish the write flag) *)
Definition event := string.

Inductive mclass :=
| Ambient      (* bookkeeping of the interpreter itself: casts, the clock of the execution limit, flags *)
| ReadOnly     (* observes the host, changes nothing *)
| Changing.    (* writes, consumes input, opens/creates handles, talks to the network, spawns, ... *)

(** hand classification of the SysBackend trait methods (src/sys/mod.rs:193-640); the list of
    methods is regenerated from the source on every run and every one must appear here *)
Definition method_classes : list (string * mclass) := [
  ("any", Ambient); ("any_mut", Ambient); ("save_error_color", Ambient); ("output_enabled", Ambient);
  ("set_output_enabled", Ambient); ("allow_thread_spawning", Ambient); ("now", Ambient);
  ("var", ReadOnly); ("term_size", ReadOnly); ("file_exists", ReadOnly); ("list_dir", ReadOnly);
  ("is_file", ReadOnly); ("open_file:r", ReadOnly); ("file_read_all", ReadOnly); ("clipboard", ReadOnly);
  ("audio_sample_rate", ReadOnly); ("get_raw_mode", ReadOnly); ("get_current_directory", ReadOnly);
  ("webcam_list", ReadOnly); ("timezone", ReadOnly); ("big_constant", ReadOnly); ("tcp_addr", ReadOnly);
  ("open_file", Changing); ("open_file:w", Changing);
  ("print_str_stdout", Changing); ("print_bytes_stdout", Changing); ("print_str_stderr", Changing);
  ("print_bytes_stderr", Changing); ("print_str_trace", Changing); ("show", Changing);
  ("scan_line_stdin", Changing); ("scan_stdin", Changing); ("scan_until_stdin", Changing);
  ("set_raw_mode", Changing); ("exit", Changing); ("delete", Changing); ("trash", Changing);
  ("read", Changing); ("read_all", Changing); ("read_until", Changing); ("read_lines", Changing);
  ("write", Changing); ("seek", Changing); ("create_file", Changing); ("make_dir", Changing);
  ("file_write_all", Changing); ("set_clipboard", Changing); ("sleep", Changing);
  ("show_image", Changing); ("show_gif", Changing); ("show_apng", Changing); ("play_audio", Changing);
  ("stream_audio", Changing); ("tcp_listen", Changing); ("tls_listen", Changing); ("tcp_accept", Changing);
  ("tcp_connect", Changing); ("tls_connect", Changing); ("tcp_set_non_blocking", Changing);
  ("tcp_set_read_timeout", Changing); ("tcp_set_write_timeout", Changing); ("fetch", Changing);
  ("udp_bind", Changing); ("udp_recv", Changing); ("udp_send", Changing); ("udp_set_max_msg_length", Changing);
  ("close", Changing); ("invoke", Changing); ("run_command_inherit", Changing);
  ("run_command_capture", Changing); ("run_command_stream", Changing); ("change_directory", Changing);
  ("webcam_capture", Changing); ("ffi", Changing); ("mem_copy", Changing); ("mem_set", Changing);
  ("mem_free", Changing); ("mem_allocate", Changing); ("load_git_module", Changing)
]%string.

Fixpoint assoc {A} (k : string) (l : list (string * A)) : option A :=
  match l with [] => None | (k', v) :: t => if String.eqb k k' then Some v else assoc k t end.
Definition method_class (m : string) : option mclass := assoc m method_classes.
(** read-only in the sense of the property: ambient or observing; unknown methods are not *)
Definition read_only (e : event) : bool :=
  match method_class e with Some Ambient | Some ReadOnly => true | _ => false end.
Definition ambient (e : event) : bool :=
  match method_class e with Some Ambient => true | _ => false end.

(** what a trace may contain under a purity level *)
Definition allowed (p : purity) (e : event) : Prop :=
  match p with Pure => False | Impure => read_only e = true | Mutating => True end.

(** * The safe backend (src/sys/mod.rs:660-698): the methods SafeSys overrides, all in memory *)
Definition safe_overrides : list string :=
  ["any"; "any_mut"; "print_str_stdout"; "print_str_stderr"; "print_bytes_stdout"; "print_bytes_stderr";
   "allow_thread_spawning"; "big_constant"]%string.
(** trait defaults that do not answer "not supported" and call no other method: what each does *)
Definition benign_defaults : list string :=
  ["save_error_color";      (* {}  *)
   "output_enabled";        (* true *)
   "set_output_enabled";    (* true *)
   "print_str_trace";       (* {}  *)
   "var";                   (* None *)
   "file_exists";           (* false *)
   "allow_thread_spawning"; (* false *)
   "audio_sample_rate";     (* 44100 *)
   "now";                   (* the wall clock (read only) *)
   "close";                 (* Ok(()) *)
   "timezone"               (* the local UTC offset through the `time` crate (read only) *)
  ]%string.

(** the default bodies that are neither a denial nor a composition, verbatim (whitespace normalised):
    each is a constant answer or a no-op, except the two that read the host's clock / time zone.
    A default whose text changes has to be classified again. *)
Definition benign_bodies : list (string * string) := [
  ("save_error_color", ""); ("output_enabled", "true"); ("set_output_enabled", "true");
  ("print_str_trace", ""); ("var", "None"); ("file_exists", "false");
  ("allow_thread_spawning", "false"); ("audio_sample_rate", "44100"); ("close", "Ok(())");
  ("now", "now()")
]%string.
(** the only defaults that may touch the host: both read-only (wall clock, local UTC offset) *)
Definition host_reading_defaults : list string := ["now"; "timezone"]%string.

(** shape of a trait method's default body, as the table generator classifies it *)
Inductive dflt :=
| DRequired                    (* no default: any, any_mut *)
| DErr                         (* Err("... is not supported in this environment") *)
| DComp (callees : list string)  (* calls only other trait methods on self *)
| DOther.                      (* anything else *)

Definition smem (s : string) (l : list string) : bool := existsb (String.eqb s) l.

(** One trait method is confined under SafeSys: overridden by one of the in-memory methods, or its
    default denies, or is one of the listed benign defaults, or only composes confined methods. *)
Definition method_confined (all : list (string * dflt)) (m : string * dflt) : bool :=
  let '(name, d) := m in
  smem name safe_overrides ||
  match d with
  | DRequired => false
  | DErr => true
  | DOther => smem name benign_defaults
  | DComp cs => forallb (fun c =>
      smem c safe_overrides ||
      match assoc c all with
      | Some DErr => true
      | Some DOther => smem c benign_defaults
      | Some (DComp cs2) => forallb (fun c2 => smem c2 safe_overrides ||
            match assoc c2 all with Some DErr => true | Some DOther => smem c2 benign_defaults | _ => false end) cs2
      | _ => false end) cs
  end.

(** * The interpreter with an effect trace *)
Section Run.
  Variable St : Type.                                   (* the whole run-time state, abstract *)
  (** what a modifier does with its operands: it may emit calls of its own, run operand [i] on a
      state of its choice any number of times, in any order, depending on the results *)
  Inductive strat :=
  | SRet (r : option St)
  | SEmit (e : event) (k : strat)
  | SRun (i : nat) (s : St) (k : option St -> strat).

  Variable psem : N -> St -> option St * list event.    (* a primitive: result and emitted backend calls *)
  Variable msem : modk -> list sig -> St -> strat.      (* a modifier *)
  Variable nsem : node -> St -> option St.              (* the interpreter's own nodes: push, unpack, under-stack moves, labels, format, bind, constants *)
  Variable win : node -> St -> option St.               (* entering a frame (call, array, custom inverse, ...) *)
  Variable wout : node -> St -> option St -> option St. (* leaving it *)
  Variable swsel : list sig -> sig -> bool -> St -> option (nat * St).   (* switch: chosen branch *)
  Variable dynsem : sig -> St -> option St * list event.                 (* a Rust closure bound by the embedder: anything *)
  Variable asm : list node.
  Variable binds : list bkind.

  Definition out := (option St * list event)%type.
  Definition seq (r : out) (k : St -> out) : out :=
    match r with
    | (Some s, t) => let (r', t') := k s in (r', t ++ t')
    | (None, t) => (None, t) end.

  (** a frame around a sub-run *)
  Definition wrapd (n : node) (s : St) (r : St -> out) : out :=
    match win n s with
    | None => (None, [])
    | Some s1 => let (r', t) := r s1 in (wout n s r', t) end.

  (** a modifier's strategy played against its operands *)
  Fixpoint run_strat (runk : node -> St -> out) (args : list (sig * node)) (t : strat) : out :=
    match t with
    | SRet r => (r, [])
    | SEmit e t' => let (r, tr) := run_strat runk args t' in (r, e :: tr)
    | SRun i s' kont =>
        match nth_error args i with
        | None => (None, [])
        | Some (_, f) =>
            let (r, tr) := runk f s' in
            let (r2, tr2) := run_strat runk args (kont r) in (r2, tr ++ tr2) end
    end.

  (** Uiua::exec_impl (run.rs:473): which sub-trees a node runs.  (None, t): failed or out of fuel
      after emitting t. *)
  Fixpoint run (fuel : nat) (n : node) (s : St) {struct fuel} : out :=
    match fuel with O => (None, []) | S k =>
    let callf (f : nat) : out :=
      match nth_error asm f with None => (None, []) | Some body => wrapd n s (run k body) end in
    match n with
    | Prim id _ _ | PrimIndet id => psem id s
    | Run ns => fold_left (fun r x => seq r (run k x)) ns (Some s, [])
    | Mod m args => run_strat (run k) args (msem m (map fst args) s)
    | Call f _ => callf f
    | CallGlobal i _ =>                          (* run.rs:511 *)
        match nth_error binds i with
        | Some (BFunc f) => callf f
        | Some (BConst _) => (nsem n s, [])
        | _ => (None, []) end
    | CallMacro i _ =>                           (* run.rs:558: calls the function the binding holds *)
        match nth_error binds i with
        | Some (BFunc f) => callf f
        | _ => (None, []) end
    | Arr _ inner _ => wrapd n s (run k inner)
    | NoInline inner => wrapd n s (run k inner)
    | TrackCaller _ inner => wrapd n s (run k inner)
    | CustomInv _ has _ normal => if has then wrapd n s (run k normal) else (None, [])
    | Switch brs sg uc =>
        match swsel (map fst brs) sg uc s with
        | None => (None, [])
        | Some (i, s1) =>
            match nth_error brs i with
            | None => (None, [])
            | Some (_, f) => wrapd n s1 (run k f) end end
    | Dynamic sg => dynsem sg s
    | _ => (nsem n s, [])
    end end.
End Run.
Arguments SRet {St}. Arguments SEmit {St}. Arguments SRun {St}.

(** recursive-macro calls occurring syntactically in a tree all go to bindings of [mt] *)
Fixpoint mac_in (mt : list nat) (n : node) : bool :=
  match n with
  | CallMacro i _ => existsb (Nat.eqb i) mt
  | Run ns => forallb (mac_in mt) ns
  | Mod _ args => forallb (fun a => mac_in mt (snd a)) args
  | Switch brs _ _ => forallb (fun a => mac_in mt (snd a)) brs
  | Arr _ i _ => mac_in mt i
  | NoInline i => mac_in mt i
  | TrackCaller _ i => mac_in mt i
  | CustomInv _ _ _ i => mac_in mt i
  | _ => true
  end.

(** * Correspondence helpers (evaluated by the check on exported trees) *)
Record gitem := GI { gi_node : node; gi_pure : bool; gi_impure : bool; gi_mutating : bool; gi_bounded : bool }.
Definition gitem_ok (lprim : N -> pinfo) (lmod : modk -> purity) (asm : list node) (fext : list bool)
    (binds : list bkind) (fuel : nat) (g : gitem) : bool :=
  Bool.eqb (is_min_purity lprim lmod asm fext binds fuel Pure [] (gi_node g)) (gi_pure g) &&
  Bool.eqb (is_min_purity lprim lmod asm fext binds fuel Impure [] (gi_node g)) (gi_impure g) &&
  Bool.eqb (is_min_purity lprim lmod asm fext binds fuel Mutating [] (gi_node g)) (gi_mutating g) &&
  Bool.eqb (is_limit_bounded lprim asm binds fuel [] (gi_node g)) (gi_bounded g).
Fixpoint failing_items (ok : gitem -> bool) (i : N) (l : list gitem) : list N :=
  match l with [] => [] | g :: t =>
    if ok g then failing_items ok (i + 1)%N t else i :: failing_items ok (i + 1)%N t end.

Fixpoint nassoc {A} (k : N) (l : list (N * A)) : option A :=
  match l with [] => None | (k', v) :: t => if N.eqb k k' then Some v else nassoc k t end.
(** labels from a table; an unknown primitive is treated as a Mutating system function *)
Definition lprim_of (tbl : list (N * pinfo)) (id : N) : pinfo :=
  match nassoc id tbl with Some i => i | None => PI Mutating true false end.
Definition lmod_of (tbl : list (N * pinfo)) : modk -> purity :=
  modk_purity (fun id => pi_pur (lprim_of tbl id)).

(** * Which backend methods each system function (and each labelled primitive) may call.
    Hand table, read off run_sys_op / run_sys_op_mod (src/sys/mod.rs:743-1599) and run_prim.rs;
    validated on every run three ways: against the methods observed on the recording backend,
    against the method names occurring in each match arm of the source, and against the purity
    labels.  Ambient methods are left out.  A name that is absent may call nothing. *)
Definition effects_of : list (string * list string) := [
  ("Show", ["show"]); ("Prin", ["print_str_stdout"]); ("Print", ["print_str_stdout"]);
  ("PrinErr", ["print_str_stderr"]); ("PrintErr", ["print_str_stderr"]);
  ("ScanLine", ["scan_line_stdin"]); ("TermSize", ["term_size"]); ("Exit", ["exit"]);
  ("RawMode", ["set_raw_mode"]); ("EnvArgs", []); ("Var", ["var"]);
  ("FOpen", ["open_file:w"]); ("FCreate", ["create_file"]); ("FMakeDir", ["make_dir"]);
  ("FDelete", ["delete"]); ("FTrash", ["trash"]);
  ("ReadStr", ["read"; "read_all"; "scan_stdin"]); ("ReadBytes", ["read"; "read_all"; "scan_stdin"]);
  ("ReadUntil", ["read_until"; "scan_until_stdin"]);
  ("Write", ["write"; "print_bytes_stdout"; "print_bytes_stderr"]); ("Seek", ["seek"]);
  ("FReadAllStr", ["file_read_all"]); ("FReadAllBytes", ["file_read_all"]);
  ("FWriteAll", ["file_write_all"]); ("FExists", ["file_exists"]); ("FListDir", ["list_dir"]);
  ("FIsFile", ["is_file"]); ("Invoke", ["invoke"]); ("ImShow", ["show_image"]);
  ("GifShow", ["show_gif"]); ("ApngShow", ["show_apng"]);
  ("AudioPlay", ["play_audio"; "audio_sample_rate"]); ("AudioSampleRate", ["audio_sample_rate"]);
  ("AudioStream", ["stream_audio"]); ("Clip", ["clipboard"]); ("Sleep", ["sleep"]);
  ("TcpListen", ["tcp_listen"; "tcp_addr"]); ("TlsListen", ["tls_listen"; "tcp_addr"]);
  ("TcpAccept", ["tcp_accept"; "tcp_addr"]); ("TcpConnect", ["tcp_connect"; "tcp_addr"]);
  ("TlsConnect", ["tls_connect"; "tcp_addr"]); ("TcpAddr", ["tcp_addr"]);
  ("TcpSetNonBlocking", ["tcp_set_non_blocking"]); ("TcpSetReadTimeout", ["tcp_set_read_timeout"]);
  ("TcpSetWriteTimeout", ["tcp_set_write_timeout"]); ("Fetch", ["fetch"]);
  ("UdpBind", ["udp_bind"]); ("UdpReceive", ["udp_recv"]); ("UdpSend", ["udp_send"]);
  ("UdpSetMaxMsgLength", ["udp_set_max_msg_length"]); ("Close", ["close"]);
  ("RunInherit", ["run_command_inherit"]); ("RunCapture", ["run_command_capture"]);
  ("RunStream", ["run_command_stream"]); ("ChangeDirectory", ["change_directory"]);
  ("WebcamCapture", ["webcam_capture"; "webcam_list"]); ("WebcamList", ["webcam_list"]);
  ("Ffi", ["ffi"]); ("MemCopy", ["mem_copy"]); ("MemSet", ["mem_set"]); ("MemFree", ["mem_free"]);
  ("Malloc", ["mem_allocate"]); ("ReadLines", ["read_lines"]);
  (* primitives that are not system functions *)
  ("TimeZone", ["timezone"]); ("Args", ["print_str_trace"]); ("Dump", ["print_str_trace"]);
  ("StackN", ["print_str_trace"]); ("UnStack", ["print_str_trace"]); ("UnDump", ["print_str_trace"]);
  ("UnRawMode", ["get_raw_mode"]); ("UnChangeDirectory", ["get_current_directory"]);
  ("UnClip", ["set_clipboard"]); ("TryClose", ["close"])
]%string.

Definition effects (op : string) : list string :=
  match assoc op effects_of with Some l => l | None => [] end.
(** an observation (op, methods seen) stays within the table *)
Definition obs_ok (o : string * list string) : bool :=
  forallb (fun m => ambient m || smem m (effects (fst o))) (snd o).
Fixpoint failing_obs (i : N) (l : list (string * list string)) : list N :=
  match l with [] => [] | o :: t =>
    if obs_ok o then failing_obs (i + 1)%N t else i :: failing_obs (i + 1)%N t end.

(** an entry of the table agrees with the purity label of its operation *)
Definition label_ok (p : purity) (ms : list string) : bool :=
  match p with
  | Pure => forallb ambient ms
  | Impure => forallb read_only ms
  | Mutating => true end.
(** RECORD (code before fix commits 1cead72, d78a439, 06086d8): the operations whose label then
    disagreed with what they call - &fo (Impure) opens with write access, un-trace / un-dump (Impure)
    print, the closing half of an under-open (Pure) closes.  All four are labelled Mutating now; the
    statement about the current tables (Proofs/GateTables.v effects_respect_labels) has no exceptions. *)
Definition label_exceptions_pre : list string := ["FOpen"; "UnStack"; "UnDump"; "TryClose"]%string.
Definition labels_pre : list (string * purity) :=
  [("FOpen", Impure); ("UnStack", Impure); ("UnDump", Impure); ("TryClose", Pure)]%string.

(** * The compile-time state a reused compiler carries from snippet to snippet.
    Transcribed from
      src/compile/mod.rs:73-91        fields comptime_depth, in_try, in_fill, pre_eval_mode
      src/compile/modifier.rs:1388    inline_modifier, `Fill` arm: the filled function is compiled with
                                      pre_eval_mode = Lsp and in_fill = true, both restored BEFORE the `?`
      src/compile/mod.rs:2284         try_: in_try = true around the branches, restored before the `?`
      src/compile/modifier.rs:1766    the macro expansion function: comptime_depth += 1, a depth check that
                                      returns Err, `?` on the expansion, comptime_depth -= 1 at the end only
      src/compile/modifier.rs:2225    quote (the generated code of a code macro): parse errors return first;
                                      then pre_eval_mode = min(mode, Line), comptime_depth += 1, a depth
                                      check that returns Err, `items` (collects the errors of its lines and
                                      answers Ok), comptime_depth -= 1, mode restored
    The words are abstracted to what matters for that state. *)
Record cstate := CS { cs_mode : pmode; cs_in_fill : bool; cs_in_try : bool; cs_depth : nat }.

Inductive cword :=
| WLeaf (ok : bool)                       (* a word that touches none of the saved state; compiles or returns Err *)
| WSeq (ws : list cword)                  (* operands of any other modifier: compiled in order, `?` on each *)
| WParen (ws : list cword)                (* ( ... ) / lines through Compiler::items: errors collected, answers Ok *)
| WFill (f fillw : cword)
| WTry (branches : list cword)
| WCodeMacro (parse_ok : bool) (body : cword).   (* use of a code macro whose output parses (or not) to [body] *)

Definition mode_rank (m : pmode) : nat := match m with Lazy => 0 | Line => 1 | Normal => 2 | Lsp => 3 end.
Definition mode_min_line (m : pmode) : pmode := if mode_rank m <=? 1 then m else Line.
Definition MAX_COMPTIME_DEPTH : nat := 20.     (* release builds; 5 with debug assertions *)

Definition set_fill (s : cstate) (m : pmode) (b : bool) : cstate := CS m b (cs_in_try s) (cs_depth s).
Definition set_try (s : cstate) (b : bool) : cstate := CS (cs_mode s) (cs_in_fill s) b (cs_depth s).
Definition set_depth (s : cstate) (d : nat) : cstate := CS (cs_mode s) (cs_in_fill s) (cs_in_try s) d.
Definition set_mode (s : cstate) (m : pmode) : cstate := CS m (cs_in_fill s) (cs_in_try s) (cs_depth s).

(** operands compiled in order with `?` on each *)
Fixpoint cseq (cc : cstate -> cword -> bool * cstate) (s0 : cstate) (ws : list cword) : bool * cstate :=
  match ws with
  | [] => (true, s0)
  | x :: t => let (ok, s1) := cc s0 x in if ok then cseq cc s1 t else (false, s1) end.
(** lines through Compiler::items: every line is compiled, the errors are collected *)
Definition clines (cc : cstate -> cword -> bool * cstate) (s0 : cstate) (ws : list cword) : cstate :=
  fold_left (fun s1 x => snd (cc s1 x)) ws s0.

(** [fixed_fill = true], [fixed_macro = true]: the code as it stands.
    [fixed_fill = false]: the fill arm with the `?` before the restore (the shape of a seeded defect),
    kept to show that the invariant can fail.
    [fixed_macro = false]: RECORD of the code before fix 501199d - the depth check of the macro
    expansion, the `?` on the expansion and the depth check of `quote` returned before
    comptime_depth (and, in quote, pre_eval_mode) were restored. *)
Fixpoint ccompile (fixed_fill fixed_macro : bool) (fuel : nat) (s : cstate) (w : cword) {struct fuel} : bool * cstate :=
  match fuel with O => (false, s) | S k =>
  let cc := ccompile fixed_fill fixed_macro k in
  match w with
  | WLeaf ok => (ok, s)
  | WSeq ws => cseq cc s ws
  | WParen ws => (true, clines cc s ws)
  | WFill f fw =>
      let (ok, s2) := cc (set_fill s Lsp true) f in
      if negb ok && negb fixed_fill then (false, s2) else
      let s3 := set_fill s2 (cs_mode s) (cs_in_fill s) in
      if ok then cc s3 fw else (false, s3)
  | WTry bs =>
      let (ok, s2) := cseq cc (set_try s true) bs in
      (ok, set_try s2 (cs_in_try s))
  | WCodeMacro pok body =>
      (* modifier.rs:1767: comptime_depth += 1; res = modifier_ref_expand(..); comptime_depth -= 1; res *)
      let s1 := set_depth s (S (cs_depth s)) in
      let res : bool * cstate :=
        if MAX_COMPTIME_DEPTH <? cs_depth s1 then (false, s1) else
        if negb pok then (false, s1) else              (* quote: the parse error returns first *)
        let s2 := set_depth (set_mode s1 (mode_min_line (cs_mode s1))) (S (cs_depth s1)) in
        if MAX_COMPTIME_DEPTH <? cs_depth s2
        then (false, if fixed_macro then s1 else s2)   (* quote's depth check: restores both since 501199d *)
        else
          let s3 := snd (cc s2 body) in
          (true, set_mode (set_depth s3 (pred (cs_depth s3))) (cs_mode s1)) in
      if fixed_macro then (fst res, set_depth (snd res) (pred (cs_depth (snd res))))
      else if fst res then (true, set_depth (snd res) (pred (cs_depth (snd res)))) else res
  end end.

Fixpoint no_macro (w : cword) : bool :=
  match w with
  | WLeaf _ => true
  | WSeq ws | WParen ws | WTry ws => forallb no_macro ws
  | WFill f fw => no_macro f && no_macro fw
  | WCodeMacro _ _ => false
  end.

Definition cstate_eqb (a b : cstate) : bool :=
  Nat.eqb (mode_rank (cs_mode a)) (mode_rank (cs_mode b)) && Bool.eqb (cs_in_fill a) (cs_in_fill b) &&
  Bool.eqb (cs_in_try a) (cs_in_try b) && Nat.eqb (cs_depth a) (cs_depth b).
(** correspondence: (state before, abstraction of the snippet, state observed after) *)
Fixpoint failing_states (i : N) (l : list (cstate * cword * cstate)) : list N :=
  match l with [] => [] | (b, w, a) :: t =>
    if cstate_eqb (snd (ccompile true true 200 b w)) a then failing_states (i + 1)%N t
    else i :: failing_states (i + 1)%N t end.
Fixpoint nest_macro (n : nat) (w : cword) : cword :=
  match n with O => w | S k => WCodeMacro true (nest_macro k w) end.

(** * The pre-evaluation cache (pre_eval.rs:154-197): thread-local, keyed on the evaluated node ONLY -
    neither the backend nor the assembly is part of the key.  A hit answers without evaluating. *)
Section PreCache.
  Variable key : Type.
  Variable keyb : key -> key -> bool.
  Variable val : Type.
  (** evaluating a section on backend number [b]: its values and the calls it makes on that backend *)
  Variable eval : nat -> key -> val * list event.
  Fixpoint clookup (k : key) (c : list (key * val)) : option val :=
    match c with [] => None | (k', v) :: t => if keyb k k' then Some v else clookup k t end.
  (** RECORD (before fix 49da69f): every result was cached and served, whatever the node.
      One comptime_node call by a compiler whose backend is [b]: value, calls made on [b], new cache *)
  Definition comptime_cached_pre (c : list (key * val)) (b : nat) (k : key) : val * list event * list (key * val) :=
    match clookup k c with
    | Some v => (v, [], c)
    | None => let (v, t) := eval b k in (v, t, (k, v) :: c) end.
  (** the code as it stands (pre_eval.rs:161-200): only a node that is_pure is looked up and stored *)
  Variable cacheable : key -> bool.      (* node.is_pure(&self.asm) *)
  Definition comptime_cached (c : list (key * val)) (b : nat) (k : key) : val * list event * list (key * val) :=
    if cacheable k then comptime_cached_pre c b k
    else let (v, t) := eval b k in (v, t, c).
End PreCache.

(** * What a whole compile runs: the items of a program and the backend calls each makes at compile time.
    Transcribed from
      src/compile/mod.rs:866-893      a top-level line is handed to pre_eval only when the mode is above
                                      Line (the preceding pushes it consumes are part of the node list)
      src/compile/binding.rs:486-515  a binding of signature |0.1 that is not a literal is evaluated by
                                      comptime_node only if `node.is_pure(&self.asm)` - in EVERY mode
      src/compile/mod.rs:575-585      at the end of a load every function body is handed to pre_eval
      src/compile/modifier.rs:1880ff  index macros: operands are substituted and compiled, nothing runs
      src/compile/modifier.rs:2262ff  comptime(...): runs on the compiler's own runtime (explicit)
    and the two routes that are NOT gated and stay explicit exceptions (open findings):
      src/compile/modifier.rs:2067ff  code macros run their function on the compiler's backend
      src/compile/import.rs:150-223   imports read files and write the cache through the backend *)
Inductive citem :=
| ILine (ns : list node)          (* a top-level line, with the pushes it consumes *)
| IConstBind (ns : list node)     (* Name <- words of signature |0.1 *)
| IFuncBind                       (* any other binding: nothing runs when it is bound *)
| IIndexMacro                     (* definition / expansion of an index macro (its expansion is compiled as lines) *)
| IFuncBodies                     (* the pass over all function bodies at the end of a load *)
| IComptime (ns : list node)      (* explicit comptime(...) *)
| ICodeMacro (ns : list node)     (* EXCEPTION: a code macro's function *)
| IImport.                        (* EXCEPTION: an import *)

Definition gated_item (it : citem) : bool :=
  match it with IComptime _ | ICodeMacro _ | IImport => false | _ => true end.
Definition item_nodes (it : citem) : list node :=
  match it with ILine ns | IConstBind ns | IComptime ns | ICodeMacro ns => ns | _ => [] end.
Definition single_push (ns : list node) : bool := match ns with [Push _] => true | _ => false end.
Definition is_nil {A} (l : list A) : bool := match l with [] => true | _ => false end.

Section CompileItems.
  Variable lprim : N -> pinfo.
  Variable lmod : modk -> purity.
  Variable asm : list node.
  Variable fext : list bool.
  Variable binds : list bkind.
  Variable big : sval -> bool.
  Variable sigok : list node -> bool.
  Variable gfuel : nat.

  (** mod.rs:873 `self.pre_eval_mode > PreEvalMode::Line` *)
  Definition line_sections (mode : pmode) (ns : list node) : list (list node) :=
    if mode_rank mode <=? 1 then []
    else pre_eval_sections lprim lmod asm fext binds big sigok gfuel mode ns.
  (** binding.rs:494-499 *)
  Definition const_evaluated (mode : pmode) (ns : list node) : bool :=
    negb (single_push ns) &&
    is_min_purity lprim lmod asm fext binds gfuel Pure [] (Run ns) &&
    evaluated lprim lmod asm fext binds big gfuel mode ns.
  (** mod.rs:579-584 *)
  Definition body_sections (mode : pmode) : list (list node) :=
    flat_map (fun b => pre_eval_sections lprim lmod asm fext binds big sigok gfuel mode (as_slice b)) asm.

  (** does compiling the item evaluate anything at compile time through the gate? (for the tie) *)
  Definition item_evaluates (mode : pmode) (it : citem) : bool :=
    match it with
    | ILine ns => negb (is_nil (line_sections mode ns))
    | IConstBind ns => const_evaluated mode ns
    | IFuncBodies => negb (is_nil (body_sections mode))
    | _ => false end.

  Variable St : Type.
  Variable psem : N -> St -> option St * list event.
  Variable msem : modk -> list sig -> St -> strat St.
  Variable nsem : node -> St -> option St.
  Variable win : node -> St -> option St.
  Variable wout : node -> St -> option St -> option St.
  Variable swsel : list sig -> sig -> bool -> St -> option (nat * St).
  Variable dynsem : sig -> St -> option St * list event.
  Variable rfuel : nat.
  Variable s0 : St.                          (* the scratch runtime's initial state *)
  Variable import_events : list event.       (* whatever an import does *)

  Definition eval_trace (sec : list node) : list event :=
    snd (run St psem msem nsem win wout swsel dynsem asm binds rfuel (Run sec) s0).

  (** the backend calls made while the item is compiled *)
  Definition ctrace (mode : pmode) (it : citem) : list event :=
    match it with
    | ILine ns => flat_map eval_trace (line_sections mode ns)
    | IConstBind ns => if const_evaluated mode ns then eval_trace ns else []
    | IFuncBind | IIndexMacro => []
    | IFuncBodies => flat_map eval_trace (body_sections mode)
    | IComptime ns | ICodeMacro ns => eval_trace ns
    | IImport => import_events
    end.
  Definition compile_trace (mode : pmode) (items : list citem) : list event := flat_map (ctrace mode) items.
End CompileItems.
