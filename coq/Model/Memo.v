(** C12 — the thread-local memo caches of the compiler and runtime.

    Part 1: a generic memo table (lookup by key, insert on miss), also in the form
    the code uses (the key is a 64-bit hash of what the key function feeds).
    Part 2: a small model of [Node] WITH span indices and function indices, the
    key every real cache computes on it (which ingredients it feeds / forgets) and
    the ingredients the cached computation reads ([deps]).

    Executable definitions only; proofs are in Proofs/Memo.v. *)
From Coq Require Import List NArith Bool.
Import ListNotations.
Open Scope N_scope.

(* ------------------------------------------------------------------ part 1 *)

Section MemoTable.
  Context {X K V : Type}.
  Variable keqb : K -> K -> bool.
  Variable usable : V -> bool.       (* un.rs:45-51: a hit is only used when the cached value passes a filter *)
  Variable key : X -> K.
  Variable f : X -> V.

  Fixpoint lookup (k : K) (t : list (K * V)) : option V :=
    match t with
    | [] => None
    | (k', v) :: r => if keqb k k' then Some v else lookup k r
    end.

  (** [cache.get(&key)] ... else compute, [cache.insert(key, res)]
      (un.rs:43-58, under.rs:49-60, check.rs:57-66, tree.rs:923-926, pre_eval.rs:157-193, zip.rs:141-147).
      The newest entry shadows older ones ([HashMap::insert] overwrites). *)
  Fixpoint run_memo_from (t : list (K * V)) (history : list X) : list V :=
    match history with
    | [] => []
    | x :: h =>
        match lookup (key x) t with
        | Some v => if usable v then v :: run_memo_from t h
                    else f x :: run_memo_from ((key x, f x) :: t) h
        | None => f x :: run_memo_from ((key x, f x) :: t) h
        end
    end.

  Definition run_memo (history : list X) : list V := run_memo_from [] history.
End MemoTable.

Definition always {V : Type} (_ : V) : bool := true.

(** The table consulted and filled only for inputs that pass a gate (pre_eval.rs:159-163,
    since 49da69f: [cacheable = node.is_pure(..)] guards both the lookup and the inserts) *)
Section MemoTableGated.
  Context {X K V : Type}.
  Variable keqb : K -> K -> bool.
  Variable gate : X -> bool.
  Variable key : X -> K.
  Variable f : X -> V.

  Fixpoint run_memo_gated_from (t : list (K * V)) (history : list X) : list V :=
    match history with
    | [] => []
    | x :: h =>
        if gate x then
          match lookup keqb (key x) t with
          | Some v => v :: run_memo_gated_from t h
          | None => f x :: run_memo_gated_from ((key x, f x) :: t) h
          end
        else f x :: run_memo_gated_from t h
    end.

  Definition run_memo_gated (history : list X) : list V := run_memo_gated_from [] history.
End MemoTableGated.

(** The same table with a side condition on the STORE step (invert/mod.rs:53-63 [cacheable],
    un.rs:62-66, under.rs, since 868269f): a result whose computation read something the key
    does not feed (there: the length of the spans table, un.rs:598-601) is returned but not
    put into the table. *)
Section MemoTableStore.
  Context {X K V : Type}.
  Variable keqb : K -> K -> bool.
  Variable usable : V -> bool.
  Variable store : X -> bool.
  Variable key : X -> K.
  Variable f : X -> V.

  Fixpoint run_memo_store_from (t : list (K * V)) (history : list X) : list V :=
    match history with
    | [] => []
    | x :: h =>
        let miss := f x :: run_memo_store_from (if store x then (key x, f x) :: t else t) h in
        match lookup keqb (key x) t with
        | Some v => if usable v then v :: run_memo_store_from t h else miss
        | None => miss
        end
    end.

  Definition run_memo_store (history : list X) : list V := run_memo_store_from [] history.
End MemoTableStore.

(* ------------------------------------------------------------------ part 2 *)

(** Model of [Node] (tree.rs:26-98).  Primitives, values, signatures, function ids are
    opaque codes ([N]).  A call carries everything the [Function] handle has
    (assembly.rs:65-73: id, sig, index into [asm.functions], hash of the body, origin
    binding) AND the body it denotes in its own assembly ([asm.functions[index]], with
    that assembly's span indices): the model tree is the node together with the slice
    of the assembly it reaches.  Variants not listed are [NOther] (content = their
    content hash). *)
Inductive node : Type :=
| NPrim (p span : N)                                   (* Prim / ImplPrim *)
| NMod (p : N) (args : list (node * N)) (span : N)     (* Mod / ImplMod / Array / Switch: args are SigNodes (node, sig) *)
| NCall (id fsig index bhash origin : N) (body : node) (span : N)
| NGlobal (index sig : N)                              (* CallGlobal(index, sig): no span *)
| NPush (v : N)                                        (* Push(val): no span *)
| NRun (ns : list node)
| NOther (content : N) (span : option N).

(** What [impl Hash for Node] feeds (tree.rs:1220-1238): the discriminant and every field
    except those named [span]; a [Function] feeds its body hash and (since 8592559) its
    signature field, which a declared signature can make differ from the body's (assembly.rs:89-96);
    a SigNode feeds node and sig (derive).  The fed content as a tree with the forgotten
    ingredients zeroed (the body is not fed: only its hash). *)
Fixpoint erase (x : node) : node :=
  match x with
  | NPrim p _ => NPrim p 0
  | NMod p args _ => NMod p (map (fun a => (erase (fst a), snd a)) args) 0
  | NCall _ fs _ h _ _ _ => NCall 0 fs 0 h 0 (NRun []) 0
  | NGlobal i s => NGlobal i s
  | NPush v => NPush v
  | NRun ns => NRun (map erase ns)
  | NOther c _ => NOther c None
  end.

(** before 8592559 a [Function] fed ONLY its body hash *)
Fixpoint erase_pre (x : node) : node :=
  match x with
  | NPrim p _ => NPrim p 0
  | NMod p args _ => NMod p (map (fun a => (erase_pre (fst a), snd a)) args) 0
  | NCall _ _ _ h _ _ _ => NCall 0 0 0 h 0 (NRun []) 0
  | NGlobal i s => NGlobal i s
  | NPush v => NPush v
  | NRun ns => NRun (map erase_pre ns)
  | NOther c _ => NOther c None
  end.

(** [Node::span] (tree.rs:1176-1189): the first span in a [Run], the node's own span field otherwise *)
Fixpoint first_span (x : node) : option N :=
  match x with
  | NPrim _ s | NMod _ _ s | NCall _ _ _ _ _ _ s => Some s
  | NGlobal _ _ | NPush _ => None
  | NRun ns =>
      (fix go (l : list node) : option N :=
         match l with
         | [] => None
         | n :: r => match first_span n with Some s => Some s | None => go r end
         end) ns
  | NOther _ o => o
  end.

(** The tree with every span kept, but the function handles' id/index/origin dropped:
    what a computation reads that inlines the bodies of called functions and copies span
    indices into its result (the inverses: invert/mod.rs, un.rs, under.rs). *)
Fixpoint with_spans (x : node) : node :=
  match x with
  | NPrim p s => NPrim p s
  | NMod p args s => NMod p (map (fun a => (with_spans (fst a), snd a)) args) s
  | NCall _ fs _ h _ b s => NCall 0 fs 0 h 0 (with_spans b) s
  | NGlobal i s => NGlobal i s
  | NPush v => NPush v
  | NRun ns => NRun (map with_spans ns)
  | NOther c o => NOther c o
  end.

(** The tree with all spans of the INPUT (recursively) but not those of called bodies:
    the first repair one thinks of (hash every span of the input) *)
Fixpoint input_spans (x : node) : node :=
  match x with
  | NPrim p s => NPrim p s
  | NMod p args s => NMod p (map (fun a => (input_spans (fst a), snd a)) args) s
  | NCall _ _ _ h _ _ s => NCall 0 0 0 h 0 (NRun []) s
  | NGlobal i s => NGlobal i s
  | NPush v => NPush v
  | NRun ns => NRun (map input_spans ns)
  | NOther c o => NOther c o
  end.

(** What [Node::hash_deep] feeds (tree.rs:643-675; commits 25aa9f6, 7da4086): [hash_with_span]
    (content and first span), then recursively every span index and, for every call, the
    function INDEX and the function ID (name); with [Some(asm)] (un.rs, under.rs) the same
    for the bodies of called functions ([deep]), with [None] (zip.rs) not ([shallow]).
    The handle's sig field is fed through [Hash] (8592559).  Not fed: the origin.
    Why the index is fed although the body is walked: a [Call] that survives in a cached
    inverse or closure is EXECUTED THROUGH ITS INDEX ([asm.functions[f.index]],
    assembly.rs:611-620, run.rs:604), so two inputs with the same callee body at different
    indices have different cached values ([inv_key_without_index_refuted] in Proofs/Memo.v).
    (The walk visits a body once per function index; the model does not carry that guard:
    two calls with the same index in one assembly have the same body.) *)
Fixpoint deep (x : node) : node :=
  match x with
  | NPrim p s => NPrim p s
  | NMod p args s => NMod p (map (fun a => (deep (fst a), snd a)) args) s
  | NCall id fs i h _ b s => NCall id fs i h 0 (deep b) s
  | NGlobal i s => NGlobal i s
  | NPush v => NPush v
  | NRun ns => NRun (map deep ns)
  | NOther c o => NOther c o
  end.
Fixpoint shallow (x : node) : node :=
  match x with
  | NPrim p s => NPrim p s
  | NMod p args s => NMod p (map (fun a => (shallow (fst a), snd a)) args) s
  | NCall id fs i h _ _ s => NCall id fs i h 0 (NRun []) s
  | NGlobal i s => NGlobal i s
  | NPush v => NPush v
  | NRun ns => NRun (map shallow ns)
  | NOther c o => NOther c o
  end.

(** [hash_deep] between 25aa9f6 and 7da4086: the id was not fed *)
Fixpoint deep_pre (x : node) : node :=
  match x with
  | NPrim p s => NPrim p s
  | NMod p args s => NMod p (map (fun a => (deep_pre (fst a), snd a)) args) s
  | NCall _ _ i h _ b s => NCall 0 0 i h 0 (deep_pre b) s
  | NGlobal i s => NGlobal i s
  | NPush v => NPush v
  | NRun ns => NRun (map deep_pre ns)
  | NOther c o => NOther c o
  end.
Fixpoint shallow_pre (x : node) : node :=
  match x with
  | NPrim p s => NPrim p s
  | NMod p args s => NMod p (map (fun a => (shallow_pre (fst a), snd a)) args) s
  | NCall _ _ i h _ _ s => NCall 0 0 i h 0 (NRun []) s
  | NGlobal i s => NGlobal i s
  | NPush v => NPush v
  | NRun ns => NRun (map shallow_pre ns)
  | NOther c o => NOther c o
  end.

(** a key that walks the body INSTEAD of feeding the index (what one might think is enough) *)
Fixpoint deep_no_index (x : node) : node :=
  match x with
  | NPrim p s => NPrim p s
  | NMod p args s => NMod p (map (fun a => (deep_no_index (fst a), snd a)) args) s
  | NCall id fs _ h _ b s => NCall id fs 0 h 0 (deep_no_index b) s
  | NGlobal i s => NGlobal i s
  | NPush v => NPush v
  | NRun ns => NRun (map deep_no_index ns)
  | NOther c o => NOther c o
  end.

(** everything but the origins of the function handles (names included) *)
Fixpoint no_origin (x : node) : node :=
  match x with
  | NPrim p s => NPrim p s
  | NMod p args s => NMod p (map (fun a => (no_origin (fst a), snd a)) args) s
  | NCall id fs i h _ b s => NCall id fs i h 0 (no_origin b) s
  | NGlobal i s => NGlobal i s
  | NPush v => NPush v
  | NRun ns => NRun (map no_origin ns)
  | NOther c o => NOther c o
  end.

(** everything but the names and origins of the function handles (bodies included / dropped) *)
Fixpoint no_names (x : node) : node :=
  match x with
  | NPrim p s => NPrim p s
  | NMod p args s => NMod p (map (fun a => (no_names (fst a), snd a)) args) s
  | NCall _ fs i h _ b s => NCall 0 fs i h 0 (no_names b) s
  | NGlobal i s => NGlobal i s
  | NPush v => NPush v
  | NRun ns => NRun (map no_names ns)
  | NOther c o => NOther c o
  end.
Fixpoint no_bodies (x : node) : node :=
  match x with
  | NPrim p s => NPrim p s
  | NMod p args s => NMod p (map (fun a => (no_bodies (fst a), snd a)) args) s
  | NCall id fs i h o _ s => NCall id fs i h o (NRun []) s
  | NGlobal i s => NGlobal i s
  | NPush v => NPush v
  | NRun ns => NRun (map no_bodies ns)
  | NOther c o => NOther c o
  end.

(** [wf_sig] through the bodies as well *)
Fixpoint wf_sigd (T : N -> N) (x : node) : bool :=
  match x with
  | NMod _ args _ => forallb (fun a => wf_sigd T (fst a)) args
  | NCall _ fs _ h _ b _ => N.eqb fs (T h) && wf_sigd T b
  | NRun ns => forallb (wf_sigd T) ns
  | _ => true
  end.

(** What the signature checker reads (check.rs:179-...): the content, and for a call the
    handle's [sig] field (check.rs:194 [handle_sig(func.sig)]) — not the body *)
Fixpoint sig_deps (x : node) : node :=
  match x with
  | NPrim p _ => NPrim p 0
  | NMod p args _ => NMod p (map (fun a => (sig_deps (fst a), snd a)) args) 0
  | NCall _ fs _ h _ _ _ => NCall 0 fs 0 h 0 (NRun []) 0
  | NGlobal i s => NGlobal i s
  | NPush v => NPush v
  | NRun ns => NRun (map sig_deps ns)
  | NOther c _ => NOther c None
  end.

(** The content with the bodies of called functions (spans erased): what running the node
    computes on (pre_eval.rs:161-174 runs it in a clone of the current assembly) *)
Fixpoint content (x : node) : node :=
  match x with
  | NPrim p _ => NPrim p 0
  | NMod p args _ => NMod p (map (fun a => (content (fst a), snd a)) args) 0
  | NCall _ fs _ h _ b _ => NCall 0 fs 0 h 0 (content b) 0
  | NGlobal i s => NGlobal i s
  | NPush v => NPush v
  | NRun ns => NRun (map content ns)
  | NOther c _ => NOther c None
  end.

(** binding indices read through [CallGlobal] (bodies included), origin bindings of calls *)
Fixpoint globals (x : node) : list N :=
  match x with
  | NMod _ args _ => flat_map (fun a => globals (fst a)) args
  | NCall _ _ _ _ _ b _ => globals b
  | NGlobal i _ => [i]
  | NRun ns => flat_map globals ns
  | _ => []
  end.
Fixpoint origins (x : node) : list N :=
  match x with
  | NMod _ args _ => flat_map (fun a => origins (fst a)) args
  | NCall _ _ _ _ o b _ => o :: origins b
  | NRun ns => flat_map origins ns
  | _ => []
  end.

(** every call's [sig] field is the one table [T] assigns to its body hash
    ([add_function] computes both from the same body: assembly.rs:183-203) *)
Fixpoint wf_sig (T : N -> N) (x : node) : bool :=
  match x with
  | NMod _ args _ => forallb (fun a => wf_sig T (fst a)) args
  | NCall _ fs _ h _ _ _ => N.eqb fs (T h)
  | NRun ns => forallb (wf_sig T) ns
  | _ => true
  end.

(** every call's body has the content the table [B] assigns to its body hash (no collision
    of the 64-bit body hash among the functions in play) *)
Fixpoint wf_body (B : N -> node) (node_eqb : node -> node -> bool) (x : node) : bool :=
  match x with
  | NMod _ args _ => forallb (fun a => wf_body B node_eqb (fst a)) args
  | NCall _ _ _ h _ b _ => node_eqb (content b) (B h) && wf_body B node_eqb b
  | NRun ns => forallb (wf_body B node_eqb) ns
  | _ => true
  end.

(** boolean equality of trees (used by the tie and by [wf_body]) *)
Definition opt_eqb (a b : option N) : bool :=
  match a, b with Some x, Some y => N.eqb x y | None, None => true | _, _ => false end.

Fixpoint node_eqb (x y : node) {struct x} : bool :=
  match x, y with
  | NPrim p s, NPrim p' s' => N.eqb p p' && N.eqb s s'
  | NMod p a s, NMod p' a' s' =>
      N.eqb p p' && N.eqb s s' &&
      (fix go (l : list (node * N)) (l' : list (node * N)) : bool :=
         match l, l' with
         | [], [] => true
         | (n, g) :: r, (n', g') :: r' => node_eqb n n' && N.eqb g g' && go r r'
         | _, _ => false
         end) a a'
  | NCall i f x h o b s, NCall i' f' x' h' o' b' s' =>
      N.eqb i i' && N.eqb f f' && N.eqb x x' && N.eqb h h' && N.eqb o o' && N.eqb s s' && node_eqb b b'
  | NGlobal i s, NGlobal i' s' => N.eqb i i' && N.eqb s s'
  | NPush v, NPush v' => N.eqb v v'
  | NRun l, NRun l' =>
      (fix go (l : list node) (l' : list node) : bool :=
         match l, l' with
         | [], [] => true
         | n :: r, n' :: r' => node_eqb n n' && go r r'
         | _, _ => false
         end) l l'
  | NOther c o, NOther c' o' => N.eqb c c' && opt_eqb o o'
  | _, _ => false
  end.

Fixpoint list_eqb {A} (e : A -> A -> bool) (l l' : list A) : bool :=
  match l, l' with
  | [], [] => true
  | a :: r, a' :: r' => e a a' && list_eqb e r r'
  | _, _ => false
  end.

(* ------------------------------------------------------------------ the caches *)

(** inputs: the node slice handed to the cache together with the assembly slice it
    reaches (bodies inside the calls), the bindings table, and the extra arguments *)
Record binding := { b_kind : N; b_external : bool }.   (* kind: 0 Const, 1 pure Func, 2 impure Func, 3 other *)
Definition nth_binding (bs : list binding) (i : N) : option binding := nth_error bs (N.to_nat i).

(** 1-3. un / anti / under inverse (un.rs:30-59, 93-111; under.rs:30-61).
    key (since 25aa9f6 / 7da4086): [hash_deep(Some(asm))] of each node of the slice; under adds
    (g_sig, inverse).  The cached value is a tree of nodes (or an error) carrying span
    indices copied from the input and from the inlined bodies, function handles kept as
    they are (executed later through their index), and in errors the names of the
    functions that could not be inverted (invert/mod.rs:258-264 [InversionError::func]). *)
Definition inv_input : Type := list node * (N * bool).      (* nodes, (g_sig, inverse) — (0,false) for un/anti *)
Definition inv_key (x : inv_input) : list node * (N * bool) := (map deep (fst x), snd x).
Definition inv_deps (x : inv_input) : list node * (N * bool) := x.
(** the dependencies other than the origins of the handles: spans, indices, bodies, NAMES *)
Definition inv_deps_named (x : inv_input) : list node * (N * bool) := (map no_origin (fst x), snd x).
(** the dependencies other than the names/origins of the handles *)
Definition inv_deps_no_names (x : inv_input) : list node * (N * bool) := (map no_names (fst x), snd x).
(** a key that also feeds the handles' origins *)
Definition inv_key_fix (x : inv_input) : list node * (N * bool) := x.
(** ... and one more thing the inversion reads: the "match a constant exactly" inverse takes
    [asm.spans.len() - 1] as the span of its MatchPattern (un.rs:588-597 [MatchConst]); the
    length of the spans table at the time of the inversion is not fed to the key *)
Definition inv_input_l : Type := inv_input * N.
Definition inv_key_l (x : inv_input_l) : list node * (N * bool) := inv_key (fst x).
Definition inv_deps_l (x : inv_input_l) : (list node * (N * bool)) * N := (inv_deps_named (fst x), snd x).
Definition inv_key_l_fix (x : inv_input_l) : (list node * (N * bool)) * N := (inv_key (fst x), snd x).
(** since 868269f: whether the inversion takes that span is decided by what it inverts ([u] of the
    keyed dependencies: does the "match a constant exactly" pattern fire); if it does the
    result depends on the table length and is NOT stored *)
Definition inv_f_l {V : Type} (u : list node * (N * bool) -> bool) (g : list node * (N * bool) -> option N -> V)
  (x : inv_input_l) : V :=
  g (inv_deps_named (fst x)) (if u (inv_deps_named (fst x)) then Some (snd x) else None).
Definition inv_store_l (u : list node * (N * bool) -> bool) (x : inv_input_l) : bool :=
  negb (u (inv_deps_named (fst x))).
(** the anti-inverse cache: the second component is (0, for_un) — [anti_inverse_impl] tries fewer
    patterns when the inverse is for un (un.rs:139); before 261768c the key did not feed it *)
Definition anti_key_pre (x : inv_input) : list node := map deep (fst x).
(** the under cache by itself (under.rs:30-68): the table is keyed by the TUPLE
    (hash_deep of the nodes, g_sig, inverse) — the two extra arguments are stored verbatim, not
    hashed; [under_inverse_impl] passes them to every pattern (under.rs:85) *)
Definition under_input : Type := list node * (N * bool).            (* nodes, (g_sig, inverse) *)
Definition under_key (x : under_input) : list node * (N * bool) := (map deep (fst x), snd x).
Definition under_deps (x : under_input) : list node * (N * bool) := (map no_origin (fst x), snd x).
(** the anti cache by itself (un.rs:99-129): the hash feeds [for_un] FIRST, then hash_deep of each
    node; [anti_inverse_impl] tries fewer patterns when [for_un] (un.rs:146) *)
Definition anti_input : Type := list node * bool.                   (* nodes, for_un *)
Definition anti_key (x : anti_input) : bool * list node := (snd x, map deep (fst x)).
Definition anti_deps (x : anti_input) : list node * bool := (map no_origin (fst x), snd x).
(** all three wrappers (un.rs:62-66, 124-128; under.rs:62-67) store a result only when its making
    did not take [asm.spans.len() - 1] ([cacheable], invert/mod.rs:53-63): for any key [k] and
    dependencies [d], the cached function reads [d x] and — where [u (d x)] — the table length *)
Definition len_f {X D V : Type} (d : X -> D) (u : D -> bool) (g : D -> option N -> V) (x : X * N) : V :=
  g (d (fst x)) (if u (d (fst x)) then Some (snd x) else None).
Definition len_store {X D : Type} (d : X -> D) (u : D -> bool) (x : X * N) : bool := negb (u (d (fst x))).
(** the key between 25aa9f6 and 7da4086 (no names) *)
Definition inv_key_pre_names (x : inv_input) : list node * (N * bool) := (map deep_pre (fst x), snd x).
(** a key that hashes the callee's body instead of its index *)
Definition inv_key_no_index (x : inv_input) : list node * (N * bool) := (map deep_no_index (fst x), snd x).

(** the key before 25aa9f6: content hash and [Node::span()] of each node of the slice *)
Definition inv_key_pre (x : inv_input) : list (node * option N) * (N * bool) :=
  (map (fun n => (erase n, first_span n)) (fst x), snd x).
Definition inv_deps_pre (x : inv_input) : list node * (N * bool) := (map with_spans (fst x), snd x).
(** "hash every span of the input recursively" (not enough: the spans of inlined bodies) *)
Definition inv_key_fix1 (x : inv_input) : list node * (N * bool) := (map input_spans (fst x), snd x).

(** 4. signature (check.rs:49-67): key = content hash of the slice *)
Definition sig_key (x : list node) : list node := map erase x.
Definition sig_cache_deps (x : list node) : list node := map sig_deps x.
Definition sig_key_pre (x : list node) : list node := map erase_pre x.     (* before 8592559 *)

(** 5. purity (tree.rs:856-927): key = (content hash, min purity); the computation follows
    calls into bodies, reads [asm.bindings[origin].meta.external] (tree.rs:882) and
    [asm.bindings[index].kind] for CallGlobal (tree.rs:888-900) *)
Definition pur_input : Type := (node * list binding) * N.
Definition pur_key (x : pur_input) : node * N := (erase (fst (fst x)), snd x).
Definition look (bs : list binding) (is : list N) : list (option (N * bool)) :=
  map (fun i => match nth_binding bs i with Some b => Some (b_kind b, b_external b) | None => None end) is.
Definition pur_deps (x : pur_input) : (node * (list (option (N * bool)) * list (option (N * bool)))) * N :=
  let n := fst (fst x) in let bs := snd (fst x) in
  ((content n, (look bs (globals n), look bs (origins n))), snd x).

(** the repair: feed the key what the computation reads of the bindings table *)
Definition pur_key_fix (x : pur_input) := pur_deps x.

(** 6. comptime evaluation (pre_eval.rs:140-194): key = the node (Eq and Hash by content
    hash: tree.rs:1205-1216); the cached stack is computed by running the node in the
    current assembly: bodies of calls, values of bindings read through CallGlobal *)
Definition pre_input : Type := node * list binding.
Definition pre_key (x : pre_input) : node := erase (fst x).
Definition pre_deps (x : pre_input) : node * list (option (N * bool)) :=
  (content (fst x), look (snd x) (globals (fst x))).

(** ... and, in Lsp pre-evaluation mode only, the system backend (and the outside world it
    shows): [matches_nodes] then admits impure system functions (pre_eval.rs:73), which run on
    the compiler's backend (pre_eval.rs:168-171, since 2bf92f0; on the native one before);
    the key is still the node only.  [impure p]: primitive [p] reads the backend. *)
Fixpoint reads_backend (impure : N -> bool) (x : node) : bool :=
  match x with
  | NPrim p _ => impure p
  | NMod p args _ => impure p || existsb (fun a => reads_backend impure (fst a)) args
  | NCall _ _ _ _ _ b _ => reads_backend impure b
  | NRun ns => existsb (reads_backend impure) ns
  | _ => false
  end.
Definition pre_input_b : Type := pre_input * N.        (* with the backend / world the compiler was given *)
Definition pre_key_b (x : pre_input_b) : node := pre_key (fst x).
Definition pre_deps_b (impure : N -> bool) (x : pre_input_b) : (node * list (option (N * bool))) * option N :=
  (pre_deps (fst x), if reads_backend impure (fst (fst x)) then Some (snd x) else None).

(** 7. fast row functions (zip.rs:133-158): key (since 25aa9f6) = [hash_deep(None)] of the
    node; the cached value is a closure that bakes the span indices of the node
    (zip.rs:33-38, 50-81) and, for reduce, a clone of the operand nodes with their [Function]
    handles (zip.rs:186-195), executed later BY INDEX in whatever assembly is current
    (assembly.rs:611-620): the bodies are not part of the closure, the handles (name
    included: it labels the trace frames, run.rs:840) are. *)
Definition zip_key (x : node) : node := shallow x.
Definition zip_deps (x : node) : node := no_bodies x.
Definition zip_deps_no_names (x : node) : node := no_bodies (no_names x).
Definition zip_deps_named (x : node) : node := no_bodies (no_origin x).
Definition zip_key_fix (x : node) : node := no_bodies x.
(** between 25aa9f6 and 7da4086 (no names) *)
Definition zip_key_pre_names (x : node) : node := shallow_pre x.
(** before 25aa9f6: the node by content hash *)
Definition zip_key_pre (x : node) : node := erase x.

(* ------------------------------------------------------------------ tie support *)

(** one tie case: two exported real node slices, and what the implementation said about
    the equality of their keys: content hash of the slice (check.rs), content hash of the
    node (tree.rs / pre_eval.rs), inverse key (un.rs / under.rs), fast-function key (zip.rs) *)
Record tcase := TC { t_x : list node; t_y : list node; t_sig_eq : bool; t_node_eq : bool; t_inv_eq : bool; t_zip_eq : bool;
                     t_fx : bool; t_fy : bool; t_anti_eq : bool;      (* for_un of x, of y; equal anti keys *)
                     t_gx : N; t_gy : N; t_ix : bool; t_iy : bool }.  (* g_sig and inverse flag given to under for x, for y *)

Definition content_eqb (x y : list node) : bool := list_eqb node_eqb (map erase x) (map erase y).
Definition inv_eqb (x y : list node) : bool := list_eqb node_eqb (map deep x) (map deep y).
Definition zip_eqb (x y : list node) : bool := list_eqb node_eqb (map shallow x) (map shallow y).
Definition anti_key_eqb (a b : bool * list node) : bool := Bool.eqb (fst a) (fst b) && list_eqb node_eqb (snd a) (snd b).
Definition under_key_eqb (a b : list node * (N * bool)) : bool :=
  list_eqb node_eqb (fst a) (fst b) && N.eqb (fst (snd a)) (fst (snd b)) && Bool.eqb (snd (snd a)) (snd (snd b)).

Definition tcase_ok (c : tcase) : bool :=
  Bool.eqb (content_eqb (t_x c) (t_y c)) (t_sig_eq c) &&
  Bool.eqb (content_eqb (t_x c) (t_y c)) (t_node_eq c) &&
  Bool.eqb (inv_eqb (t_x c) (t_y c)) (t_inv_eq c) &&
  Bool.eqb (zip_eqb (t_x c) (t_y c)) (t_zip_eq c) &&
  Bool.eqb (anti_key_eqb (anti_key (t_x c, t_fx c)) (anti_key (t_y c, t_fy c))) (t_anti_eq c).

(** the model's verdicts on a pair, for the dependency tie: same inverse modulo handles
    ([no_names] also forgetting the index: [with_spans]) / same [sig_deps] / identical,
    same inverse key, same under key (1 = same) *)
Definition deps_eq (c : tcase) : list N :=
  map (fun b : bool => if b then 1 else 0)
  [ list_eqb node_eqb (map with_spans (t_x c)) (map with_spans (t_y c));
    list_eqb node_eqb (map sig_deps (t_x c)) (map sig_deps (t_y c));
    list_eqb node_eqb (t_x c) (t_y c);
    inv_eqb (t_x c) (t_y c);
    under_key_eqb (under_key (t_x c, (t_gx c, t_ix c))) (under_key (t_y c, (t_gy c, t_iy c))) ].

(** one store case: a real slice, the length of its assembly's spans table, and whether the real
    inversion of it reads that length (measured: the fresh result changes with the length);
    the model's verdict: is the result put into the table (1) *)
Record scase := SC { s_x : list node; s_len : N; s_reads : bool }.
Definition scase_stored (c : scase) : N :=
  if len_store inv_deps_named (fun _ => s_reads c) ((s_x c, (0, false)), s_len c) then 1 else 0.

Fixpoint failing_from {A} (ok : A -> bool) (i : N) (l : list A) : list N :=
  match l with
  | [] => []
  | a :: r => if ok a then failing_from ok (i + 1) r else i :: failing_from ok (i + 1) r
  end.
