(** C17 model, part (i): the framing of the textual .uasm form.
    Transcribed from src/assembly.rs: [Assembly::to_uasm] and the head of [Assembly::from_uasm]
    (the local fn split_marker, the cascade of cuts with its trims, and the per-section line
    iterators below it).  [from_uasm] is the code after /repo 0f91cb1 (a section marker is a
    whole line); [from_uasm_pre] is the code before it ([str::split_once(&str)] on the bare
    marker word: the FIRST occurrence anywhere in the text, not line aligned).
    Text is a list of Unicode scalar values ([N]); searching code points is the same as
    searching UTF-8 bytes because UTF-8 is self-synchronising.
    Executable definitions only; proofs are in Proofs/Uasm.v. *)
From Coq Require Import List NArith Bool.
Import ListNotations.
Open Scope N_scope.

Definition text := list N.
Definition NL : N := 10.
Definition CR : N := 13.

(** char::is_whitespace (Unicode White_Space) *)
Definition is_ws (c : N) : bool :=
  ((9 <=? c) && (c <=? 13)) || (c =? 32) || (c =? 133) || (c =? 160) || (c =? 5760) ||
  ((8192 <=? c) && (c <=? 8202)) || (c =? 8232) || (c =? 8233) || (c =? 8239) || (c =? 8287) || (c =? 12288).

(** [s.strip_prefix(p)] *)
Fixpoint strip_prefix (p s : text) : option text :=
  match p with
  | [] => Some s
  | c :: p' => match s with
               | [] => None
               | d :: s' => if c =? d then strip_prefix p' s' else None
               end
  end.

(** [s.split_once(p)]: the text before and after the first occurrence of [p] *)
Fixpoint split_once (p s : text) : option (text * text) :=
  match strip_prefix p s with
  | Some r => Some ([], r)
  | None => match s with
            | [] => None
            | c :: s' => match split_once p s' with
                         | Some (a, b) => Some (c :: a, b)
                         | None => None
                         end
            end
  end.

Definition contains (p s : text) : bool :=
  match split_once p s with Some _ => true | None => false end.

(** [str::trim_start], [str::trim_end], [str::trim] *)
Fixpoint trim_start (s : text) : text :=
  match s with
  | [] => []
  | c :: s' => if is_ws c then trim_start s' else s
  end.
Fixpoint trim_end (s : text) : text :=
  match s with
  | [] => []
  | c :: s' => match trim_end s' with
               | [] => if is_ws c then [] else [c]
               | t => c :: t
               end
  end.
Definition trim (s : text) : text := trim_end (trim_start s).
Definition all_ws (s : text) : bool := forallb is_ws s.

(** [s.split('\n')]: always at least one piece *)
Fixpoint split_nl (s : text) : list text :=
  match s with
  | [] => [[]]
  | c :: s' => if c =? NL then [] :: split_nl s'
               else match split_nl s' with
                    | p :: ps => (c :: p) :: ps
                    | [] => [[c]]
                    end
  end.
Fixpoint drop_last_empty (l : list text) : list text :=
  match l with
  | [] => []
  | [[]] => []
  | x :: t => x :: drop_last_empty t
  end.
Fixpoint strip_cr (l : text) : text :=
  match l with
  | [] => []
  | [c] => if c =? CR then [] else [c]
  | c :: t => c :: strip_cr t
  end.
(** [s.lines()]: pieces between '\n', a final empty piece dropped, one trailing '\r' stripped *)
Definition lines (s : text) : list text := map strip_cr (drop_last_empty (split_nl s)).
(** [s.lines().filter(|line| !line.trim().is_empty())] *)
Definition lines_ne (s : text) : list text := filter (fun l => negb (all_ws l)) (lines s).

(** the marker words *)
Definition M_DEPENDENCIES : text := [68;69;80;69;78;68;69;78;67;73;69;83].
Definition M_EXPORTS : text := [69;88;80;79;82;84;83].
Definition M_BINDINGS : text := [66;73;78;68;73;78;71;83].
Definition M_FUNCTIONS : text := [70;85;78;67;84;73;79;78;83].
Definition M_INDEX_MACROS : text := [73;78;68;69;88;32;77;65;67;82;79;83].
Definition M_CODE_MACROS : text := [67;79;68;69;32;77;65;67;82;79;83].
Definition M_SPANS : text := [83;80;65;78;83].
Definition M_FILES : text := [70;73;76;69;83].
Definition M_MACRO_EXPANSIONS : text := [77;65;67;82;79;32;69;88;80;65;78;83;73;79;78;83].
Definition M_STRING_INPUTS : text := [83;84;82;73;78;71;32;73;78;80;85;84;83].
Definition M_TEST_ASSERTS : text := [84;69;83;84;32;65;83;83;69;82;84;83].
Definition markers : list text :=
  [M_DEPENDENCIES; M_EXPORTS; M_BINDINGS; M_FUNCTIONS; M_INDEX_MACROS; M_CODE_MACROS; M_SPANS;
   M_FILES; M_MACRO_EXPANSIONS; M_STRING_INPUTS; M_TEST_ASSERTS].

(** An assembly at the level of framing: the lines of each section, as the writer emits them
    (root nodes, dependencies, exports, bindings with their comment/deprecation lines,
    functions, index macros, code macros, spans (an empty line = Span::Builtin), files,
    macro expansions, string inputs). *)
Record sections := Sections {
  s_root : list text; s_deps : list text; s_exports : list text; s_bindings : list text;
  s_functions : list text; s_imacros : list text; s_cmacros : list text; s_spans : list text;
  s_files : list text; s_expansions : list text; s_strings : list text;
  s_asserts : list text   (* the TEST ASSERTS section: no line (count 0) or the count *) }.

(** every line is pushed followed by '\n' *)
Definition unlines (ls : list text) : text := concat (map (fun l => l ++ [NL]) ls).

(** [uasm.push_str("\nMARKER\n")] *)
Definition mark (m : text) : text := NL :: m ++ [NL].

(** [to_uasm] before 69a2f06 (no TEST ASSERTS section) *)
Definition to_uasm_pre (a : sections) : text :=
  unlines (s_root a) ++ mark M_DEPENDENCIES ++ unlines (s_deps a) ++ mark M_EXPORTS ++
  unlines (s_exports a) ++ mark M_BINDINGS ++ unlines (s_bindings a) ++ mark M_FUNCTIONS ++
  unlines (s_functions a) ++ mark M_INDEX_MACROS ++ unlines (s_imacros a) ++ mark M_CODE_MACROS ++
  unlines (s_cmacros a) ++ mark M_SPANS ++ unlines (s_spans a) ++ mark M_FILES ++
  unlines (s_files a) ++ mark M_MACRO_EXPANSIONS ++ unlines (s_expansions a) ++
  match s_strings a with
  | [] => []                                          (* if !self.inputs.strings.is_empty() *)
  | ss => mark M_STRING_INPUTS ++ unlines ss
  end.
(** [Assembly::to_uasm] now: ... if self.test_assert_count > 0 { "\nTEST ASSERTS\n" count "\n" } *)
Definition to_uasm (a : sections) : text :=
  to_uasm_pre a ++ match s_asserts a with [] => [] | l => mark M_TEST_ASSERTS ++ unlines l end.

(** The raw [*_src] strings of from_uasm up to MACRO EXPANSIONS, and the rest after that marker;
    failure = the index of the marker that was not found ("No dependencies", "No exports", ...). *)
Record rawh := RawH {
  r_root : text; r_deps : text; r_exports : text; r_bindings : text; r_functions : text;
  r_imacros : text; r_cmacros : text; r_spans : text; r_files : text }.

Definition split_head (sp : text -> text -> option (text * text)) (src : text) : nat + (rawh * text) :=
  match sp M_DEPENDENCIES src with None => inl 0%nat | Some (root, rest) =>
  match sp M_EXPORTS rest with None => inl 1%nat | Some (deps, rest) =>
  match sp M_BINDINGS rest with None => inl 2%nat | Some (exports, rest) =>
  match sp M_FUNCTIONS (trim rest) with None => inl 3%nat | Some (bindings, rest) =>
  match sp M_INDEX_MACROS (trim rest) with None => inl 4%nat | Some (functions, rest) =>
  match sp M_CODE_MACROS (trim rest) with None => inl 5%nat | Some (imacros, rest) =>
  match sp M_SPANS (trim rest) with None => inl 6%nat | Some (cmacros, rest) =>
  match sp M_FILES (trim rest) with None => inl 7%nat | Some (spans, rest) =>
  match sp M_MACRO_EXPANSIONS (trim rest) with None => inl 8%nat | Some (files, rest) =>
  inr (RawH root deps exports bindings functions imacros cmacros spans files, rest)
  end end end end end end end end end.

(** the spans section is read with [split('\n')], one span per piece (an empty piece is
    Span::Builtin), and the last one is popped (the assertion that the popped one is Builtin is
    part of the per-line parsers, not of the framing) *)
Definition span_lines (s : text) : list text := removelast (split_nl s).

Definition head_sections (h : rawh) (exps strings asserts : list text) : sections :=
  Sections (lines_ne (r_root h)) (lines_ne (r_deps h)) (lines_ne (r_exports h))
    (lines_ne (r_bindings h)) (lines_ne (r_functions h)) (lines_ne (r_imacros h))
    (lines_ne (r_cmacros h)) (span_lines (r_spans h)) (lines_ne (r_files h)) exps strings asserts.

(** the readers before 69a2f06: after MACRO EXPANSIONS only the optional STRING INPUTS *)
Definition from_uasm_with (sp : text -> text -> option (text * text)) (src : text) : nat + sections :=
  match split_head sp src with
  | inl k => inl k
  | inr (h, rest) =>
      let '(expansions, rest') :=
        match sp M_STRING_INPUTS (trim rest) with
        | Some p => p
        | None => (rest, [])                              (* .unwrap_or((rest, "")) *)
        end in
      inr (head_sections h (lines_ne expansions) (lines (trim rest')) [])
  end.
(** the reader before 0f91cb1: bare marker words found with split_once *)
Definition from_uasm_pre := from_uasm_with split_once.

(** what the reader is expected to give back: everything, plus one more Builtin span after a
    non-empty span list (the blank line before "FILES"; harmless) *)
Definition reread (a : sections) : sections :=
  Sections (s_root a) (s_deps a) (s_exports a) (s_bindings a) (s_functions a) (s_imacros a)
    (s_cmacros a) (match s_spans a with [] => [] | l => l ++ [[]] end) (s_files a)
    (s_expansions a) (s_strings a) (s_asserts a).
Definition reread_pre (a : sections) : sections :=
  Sections (s_root a) (s_deps a) (s_exports a) (s_bindings a) (s_functions a) (s_imacros a)
    (s_cmacros a) (match s_spans a with [] => [] | l => l ++ [[]] end) (s_files a)
    (s_expansions a) (s_strings a) [].

(** ---- the current reader (fn split_marker inside from_uasm): a marker is a whole line.  Same cascade, but the text is cut at
    the first LINE that equals the marker (a line ends at '\n', one '\r' before it is ignored):
      fn split_marker(s, m) { for line in s.split_inclusive('\n') { if line sans '\n', sans '\r' == m {cut here} } } *)
Fixpoint text_eqb (a b : text) : bool :=
  match a, b with
  | [], [] => true
  | x :: a', y :: b' => (x =? y) && text_eqb a' b'
  | _, _ => false
  end.
(** at the beginning of a line: is this line the marker?  gives the text after the line *)
Definition at_marker (m s : text) : option text :=
  match strip_prefix m s with
  | Some [] => Some []
  | Some (c :: r) => if c =? NL then Some r
                     else if c =? CR then match r with
                                          | [] => Some []
                                          | d :: r' => if d =? NL then Some r' else None
                                          end
                     else None
  | None => None
  end.
Fixpoint split_marker_aux (m : text) (bol : bool) (s : text) : option (text * text) :=
  match (if bol then at_marker m s else None) with
  | Some r => Some ([], r)
  | None => match s with
            | [] => None
            | c :: s' => match split_marker_aux m (c =? NL) s' with
                         | Some (a, b) => Some (c :: a, b)
                         | None => None
                         end
            end
  end.
Definition split_marker (m s : text) : option (text * text) := split_marker_aux m true s.
(** the reader between 0f91cb1 and 69a2f06 *)
Definition from_uasm_mid := from_uasm_with split_marker.
(** the current reader: the optional TEST ASSERTS section is WRITTEN last but cut off FIRST:
      let (rest, test_asserts_src) = split_marker(rest.trim(), "TEST ASSERTS").unwrap_or((rest, ""));
      let (expansions_src, rest) = split_marker(rest.trim(), "STRING INPUTS").unwrap_or((rest, ""));
      let strings_src = rest.trim();   ...   match test_asserts_src.trim() { "" => 0, count => count.parse() } *)
Definition from_uasm (src : text) : nat + sections :=
  match split_head split_marker src with
  | inl k => inl k
  | inr (h, rest) =>
      let '(rest1, ta) :=
        match split_marker M_TEST_ASSERTS (trim rest) with Some p => p | None => (rest, []) end in
      let '(expansions, rest') :=
        match split_marker M_STRING_INPUTS (trim rest1) with Some p => p | None => (rest1, []) end in
      inr (head_sections h (lines_ne expansions) (lines (trim rest')) (lines (trim ta)))
  end.

(** premises of the round trip, as executable predicates *)
Definition line_ok (l : text) : bool :=
  negb (existsb (N.eqb NL) l) && negb (all_ws l) &&
  match rev l with c :: _ => negb (is_ws c) | [] => false end.
Definition head_ok (ls : list text) : bool :=
  match ls with (c :: _) :: _ => negb (is_ws c) | [] => true | [] :: _ => false end.
Definition span_line_ok (l : text) : bool := negb (existsb (N.eqb NL) l).

Definition sections_wf (a : sections) : bool :=
  forallb line_ok (s_root a) && forallb line_ok (s_deps a) && forallb line_ok (s_exports a) &&
  forallb line_ok (s_bindings a) && forallb line_ok (s_functions a) && forallb line_ok (s_imacros a) &&
  forallb line_ok (s_cmacros a) && forallb span_line_ok (s_spans a) && forallb line_ok (s_files a) &&
  forallb line_ok (s_expansions a) && forallb line_ok (s_strings a) && forallb line_ok (s_asserts a) &&
  head_ok (s_bindings a) && head_ok (s_functions a) && head_ok (s_imacros a) && head_ok (s_cmacros a) &&
  head_ok (s_spans a) && head_ok (s_files a) && head_ok (s_expansions a) && head_ok (s_strings a) && head_ok (s_asserts a).

(** no section body contains the marker that ends it *)
Definition no_marker_in_bodies (a : sections) : bool :=
  negb (contains M_DEPENDENCIES (unlines (s_root a))) &&
  negb (contains M_EXPORTS (unlines (s_deps a))) &&
  negb (contains M_BINDINGS (unlines (s_exports a))) &&
  negb (contains M_FUNCTIONS (unlines (s_bindings a))) &&
  negb (contains M_INDEX_MACROS (unlines (s_functions a))) &&
  negb (contains M_CODE_MACROS (unlines (s_imacros a))) &&
  negb (contains M_SPANS (unlines (s_cmacros a))) &&
  negb (contains M_FILES (unlines (s_spans a))) &&
  negb (contains M_MACRO_EXPANSIONS (unlines (s_files a))) &&
  negb (contains M_STRING_INPUTS (unlines (s_expansions a))).

(** for the repaired reader: no LINE of a section equals the marker that ends it.  Every line the
    writer emits is a JSON text or starts with a path / name / "private " / "external " / a kind
    key in lower case / two blanks / a digit; [line_not_marker] is what is needed of them. *)
Definition no_line_is (m : text) (ls : list text) : bool := negb (existsb (fun l => text_eqb (strip_cr l) m) ls).
Definition no_marker_lines (a : sections) : bool :=
  no_line_is M_DEPENDENCIES (s_root a) && no_line_is M_EXPORTS (s_deps a) &&
  no_line_is M_BINDINGS (s_exports a) && no_line_is M_FUNCTIONS (s_bindings a) &&
  no_line_is M_INDEX_MACROS (s_functions a) && no_line_is M_CODE_MACROS (s_imacros a) &&
  no_line_is M_SPANS (s_cmacros a) && no_line_is M_FILES (s_spans a) &&
  no_line_is M_MACRO_EXPANSIONS (s_files a) && no_line_is M_STRING_INPUTS (s_expansions a).

(** Every line [to_uasm] writes contains a character that is neither an upper-case letter nor a
    blank (JSON lines: a quote, bracket, brace or digit; dependency/export/binding lines: the
    digits of the hash/index/span; comment lines: a colon; macro lines: the index digits; span
    lines: brackets, or the line is empty; file lines: a colon and quotes).  The markers consist
    of upper-case letters and blanks only. *)
Definition is_marker_char (c : N) : bool := ((65 <=? c) && (c <=? 90)) || (c =? 32).
Definition has_low (l : text) : bool := existsb (fun c => negb (is_marker_char c)) l.
Definition span_shape (l : text) : bool :=
  match l with [] => true | _ => has_low l && match rev l with c :: _ => negb (is_ws c) | [] => false end end.
Definition written_shape (a : sections) : bool :=
  forallb has_low (s_root a) && forallb has_low (s_deps a) && forallb has_low (s_exports a) &&
  forallb has_low (s_bindings a) && forallb has_low (s_functions a) && forallb has_low (s_imacros a) &&
  forallb has_low (s_cmacros a) && forallb span_shape (s_spans a) && forallb has_low (s_files a) &&
  forallb has_low (s_expansions a) && forallb has_low (s_strings a) && forallb has_low (s_asserts a).

(** a JSON line starts with a double quote, [ { digit - t f n : never with an upper-case letter *)
Definition json_start (c : N) : bool :=
  (c =? 34) || (c =? 91) || (c =? 123) || (c =? 45) || ((48 <=? c) && (c <=? 57)) ||
  (c =? 116) || (c =? 102) || (c =? 110).
Definition json_line (l : text) : bool := match l with c :: _ => json_start c | [] => false end.

Definition sections_eqb (a b : sections) : bool :=
  let le := fix le (x y : list text) := match x, y with
      | [], [] => true | p :: x', q :: y' => text_eqb p q && le x' y' | _, _ => false end in
  le (s_root a) (s_root b) && le (s_deps a) (s_deps b) && le (s_exports a) (s_exports b) &&
  le (s_bindings a) (s_bindings b) && le (s_functions a) (s_functions b) && le (s_imacros a) (s_imacros b) &&
  le (s_cmacros a) (s_cmacros b) && le (s_spans a) (s_spans b) && le (s_files a) (s_files b) &&
  le (s_expansions a) (s_expansions b) && le (s_strings a) (s_strings b) && le (s_asserts a) (s_asserts b).

(** summary used by the tie: failure index, or the number of items of each section
    (bindings: lines that are not "  comment: " / "  deprecation: " continuation lines) *)
Definition P_COMMENT : text := [32;32;99;111;109;109;101;110;116;58;32].
Definition P_DEPRECATION : text := [32;32;100;101;112;114;101;99;97;116;105;111;110;58;32].
Definition is_cont (l : text) : bool :=
  match strip_prefix P_COMMENT l, strip_prefix P_DEPRECATION l with None, None => false | _, _ => true end.
Definition N_len {A} (l : list A) : N := N.of_nat (length l).
Definition summary (r : nat + sections) : list N :=
  match r with
  | inl k => [0; N.of_nat k]
  | inr a => [1; N_len (s_root a); N_len (s_deps a); N_len (s_exports a); N_len (filter (fun l => negb (is_cont l)) (s_bindings a));
              N_len (s_functions a); N_len (s_imacros a); N_len (s_cmacros a); N_len (s_spans a);
              N_len (s_files a); N_len (s_expansions a); N_len (s_strings a); N_len (s_asserts a);
              (if sections_wf a && written_shape a then 1 else 0)]
  end.
