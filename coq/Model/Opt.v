(** C01 — the compile-time rewriter: a transcription of src/compile/optimize.rs
    (rule table [UNSORTED_OPTS], [match_and_replace], [replace_nodes], the fix-point driver
    [optimize_impl]) and of [Node::push]'s inlining (src/tree.rs:447-468).
    Executable definitions only.

    Primitive ids are those of the exporter in harness/src/bin/c01.rs ([pid]/[ipid]):
    the spine's 1..20, fixed ids 31..60 for primitives named in rules, 101..129 for the
    implementation primitives the rules produce, 150+n = DeshapeSub(n), 2^50+2^31+n = TransposeN(n),
    modifiers without a constructor in [modk] are [MOther 900..913 None]. *)
From Coq Require Import List ZArith NArith Bool Lia.
From UV Require Import Model.Node Model.Sig.
Import ListNotations.

(* ------------------------------------------------------------------ nodes of the rules *)

Definition nDup := Prim 2 1 2.      Definition nFlip := Prim 3 2 2.     Definition nPop := Prim 4 1 0.
Definition nAdd := Prim 5 2 1.      Definition nMul := Prim 7 2 1.      Definition nNeg := Prim 8 1 1.
Definition nEq := Prim 9 2 1.       Definition nNot := Prim 13 1 1.     Definition nNe := Prim 16 2 1.
Definition nLe := Prim 17 2 1.      Definition nAbs := Prim 19 1 1.     Definition nSign := Prim 20 1 1.
Definition nFirst := Prim 31 1 1.   Definition nLast := Prim 32 1 1.    Definition nReverse := Prim 33 1 1.
Definition nRise := Prim 34 1 1.    Definition nFall := Prim 35 1 1.    Definition nWhere := Prim 36 1 1.
Definition nLen := Prim 37 1 1.     Definition nRange := Prim 38 1 1.   Definition nMemberOf := Prim 39 2 1.
Definition nRerank := Prim 40 2 1.  Definition nDeduplicate := Prim 41 1 1. Definition nSelect := Prim 42 2 1.
Definition nSort := Prim 43 1 1.    Definition nRand := Prim 44 0 1.    Definition nPow := Prim 45 2 1.
Definition nComplex := Prim 46 2 1. Definition nTranspose := Prim 47 1 1. Definition nRotate := Prim 48 2 1.
Definition nMatch := Prim 49 2 1.   Definition nType := Prim 50 1 1.    Definition nMask := Prim 51 2 1.
Definition nPrimes := Prim 52 1 1.  Definition nTake := Prim 58 2 1.    Definition nJoin := Prim 59 2 1.
Definition nReciprocal := Prim 60 1 1.
Definition nPseudoIsPrime := Prim 101 1 1.  Definition nFirstMinIndex := Prim 102 1 1.
Definition nLastMinIndex := Prim 103 1 1.   Definition nFirstMaxIndex := Prim 104 1 1.
Definition nLastMaxIndex := Prim 105 1 1.   Definition nFirstWhere := Prim 106 1 1.
Definition nLastWhere := Prim 107 1 1.      Definition nLenWhere := Prim 108 1 1.
Definition nMemberOfRange := Prim 109 2 1.  Definition nMultidimMemberOfRange := Prim 110 2 1.
Definition nRandomRow := Prim 111 1 1.      Definition nCountUnique := Prim 112 1 1.
Definition nSortDown := Prim 113 1 1.       Definition nFirstSort := Prim 114 1 1.
Definition nLastSort := Prim 115 1 1.       Definition nReplaceRand := Prim 116 1 1.
Definition nReplaceRand2 := Prim 117 2 1.   Definition nAbsComplex := Prim 118 2 1.
Definition nSquareAbs := Prim 119 1 1.      Definition nNegAbs := Prim 120 1 1.
Definition nUnSort := Prim 121 1 1.         Definition nAllSame := Prim 123 1 1.
Definition nOneUnique := Prim 124 1 1.      Definition nSortedUp := Prim 125 1 1.
Definition nMatchPattern := Prim 126 2 0.   Definition nValidateTypeOld := Prim 127 2 1.
Definition nValidateTypeConsume := Prim 128 2 0.
Definition nDeshapeSub2 := Prim 152 1 1.
Definition idUnBox : N := 129.
(** TransposeN(n), n : i32, has id 2^50 + 2^31 + n: a range above every other id *)
Definition T50 : N := 1125899906842624.
Definition T0 : Z := 1125902054326272.
Definition nTransposeN (n : Z) : node := Prim (Z.to_N (T0 + n)) 1 1.
Definition transposeN_of (id : N) : option Z :=
  if (T50 <=? id)%N then Some (Z.of_N id - T0)%Z else None.
Definition valI : sval := SOpq 7.            (* the exporter's id of Complex::I *)

Definition mPath := MOther 900 None.         Definition mReduceTable := MOther 901 None.
Definition mPathFirst := MOther 902 None.    Definition mPathSignLen := MOther 903 None.
Definition mPathTake := MOther 904 None.     Definition mPathPop := MOther 905 None.
Definition mAstar := MOther 906 None.        Definition mAstarFirst := MOther 907 None.
Definition mAstarSignLen := MOther 908 None. Definition mAstarTake := MOther 909 None.
Definition mAstarPop := MOther 910 None.     Definition mSplitByScalar := MOther 911 None.
Definition mSplitBy := MOther 912 None.      Definition mReduceConjoinInventory := MOther 913 None.

Definition is_prim (id : N) (n : node) : bool :=
  match n with Prim i _ _ => N.eqb i id | _ => false end.
Definition is_other (id : N) (m : modk) : bool :=
  match m with MOther i _ => N.eqb i id | _ => false end.
Definition sig_is (s : sig) (a o : nat) : bool := Nat.eqb (sa s) a && Nat.eqb (so s) o.
(** [Value == i32] (value.rs:2762): a scalar number equal to the integer *)
Definition val_is (v : sval) (z : Z) : bool := match v with SInt x => Z.eqb x z | SOpq _ => false end.

(* ------------------------------------------------------------------ tree.rs *)

Definition as_slice (n : node) : list node := match n with Run ns => ns | _ => [n] end.
(** what [replace_nodes] splices in: the replacement's items, each flattened once more
    (optimize.rs:670-672 [for new in new { nodes.extend(new) }]) *)
Definition flat2 (n : node) : list node := flat_map as_slice (as_slice n).

(** [Node::push]'s inlining after a literal (tree.rs:447-468).  On the exported values
    ([sval]) only a scalar integer is interpreted; [SOpq 0] stands for "some other value". *)
Definition inlinable_ids : list N := [53; 54; 37; 55; 33; 47; 56; 43; 57]%N.   (* Box Fix Len Shape Reverse Transpose Deshape Sort Classify *)
Definition inlinable (id : N) : bool := existsb (N.eqb id) inlinable_ids.
Definition inline_val (id : N) (v : sval) : sval :=
  match v with
  | SInt z => if N.eqb id 37 then SInt 1                       (* row_count of a scalar *)
              else if existsb (N.eqb id) [33; 47; 43]%N then SInt z   (* reverse / transpose / sort of a scalar *)
              else SOpq 0
  | SOpq _ => SOpq 0 end.
Definition label_val (v : sval) : sval := match v with SInt z => SInt z | SOpq _ => SOpq 0 end.

Definition push_no_inline (self n : node) : node :=
  match self with
  | Run [] => n
  | Run nodes => match n with Run other => Run (nodes ++ other) | _ => Run (nodes ++ [n]) end
  | _ => match n with
         | Run [] => self
         | Run other => Run (self :: other)
         | _ => Run [self; n] end
  end.
Definition last_node (self : node) : option node :=
  match self with Run nodes => last (map Some nodes) None | x => Some x end.
Definition set_last (self x : node) : node :=
  match self with Run nodes => Run (removelast nodes ++ [x]) | _ => x end.
Definition npush (self n : node) : node :=
  match last_node self with
  | Some (Push v) =>
      match n with
      | Prim id _ _ => if inlinable id then set_last self (Push (inline_val id v)) else push_no_inline self n
      | Label => set_last self (Push (label_val v))
      | _ => push_no_inline self n end
  | _ => push_no_inline self n end.
(** FromIterator / From<[Node; N]> / From<&[Node]> (tree.rs:693-726) *)
Definition from_list (l : list node) : node :=
  match l with [] => Run [] | x :: t => fold_left npush t x end.
(** Extend (tree.rs:728-734) *)
Definition nextend (self : node) (l : list node) : node := fold_left npush (flat_map as_slice l) self.

Definition is_run (n : node) : bool := match n with Run _ => true | _ => false end.
(** Node::normalize (tree.rs:398-408) *)
Fixpoint normalize (fuel : nat) (n : node) : node :=
  match fuel with O => n | S fuel =>
  match n with
  | Run [x] => normalize fuel x
  | Run nodes => if existsb is_run nodes then normalize fuel (from_list (flat_map as_slice nodes)) else n
  | _ => n end end.

(** Node::sig_node: the signature of [as_slice] *)
Definition sig_node (n : node) : option (sig * node) := option_map (fun s => (s, n)) (root_sig n).
(** check.rs nodes_clean_sig *)
Definition clean_sig (ns : list node) : option sig :=
  match root_sig (Run ns) with
  | Some s => if Nat.eqb (sua s) 0 && Nat.eqb (suo s) 0 then Some s else None
  | None => None end.

(* ------------------------------------------------------------------ rules *)

(** a positional rule: match at position 0 -> number of nodes consumed, nodes spliced in *)
Definition prule := list node -> option (nat * list node).
(** an [Optimization]: one application somewhere in a run *)
Definition lrule := list node -> option (list node).

(** optimize.rs:677-688 [match_and_replace] + :664-675 [replace_nodes] *)
Fixpoint mar (f : prule) (ns : list node) : option (list node) :=
  match ns with
  | [] => None
  | x :: t => match f ns with
              | Some (k, new) => Some (new ++ skipn k ns)
              | None => option_map (cons x) (mar f t) end
  end.

(** tuple rules: OptPattern (optimize.rs:596-643, 719-757) *)
Inductive pat := PP (id : N) | PI (z : Z) | PCI | POr (a b : pat).
(** Some has_span *)
Fixpoint pat_match (p : pat) (n : node) : option bool :=
  match p with
  | PP id => if is_prim id n then Some true else None
  | PI z => match n with Push v => if val_is v z then Some false else None | _ => None end
  | PCI => match n with Push (SOpq 7) => Some false | _ => None end
  | POr a b => match pat_match a n with Some s => Some s | None => pat_match b n end
  end.
Fixpoint tuple_match (ps : list pat) (ns : list node) : option (nat * bool) :=
  match ps with
  | [] => Some (O, false)
  | p :: ps' =>
      match ns with
      | [] => None
      | n :: ns' =>
          match pat_match p n with
          | None => None
          | Some s => match tuple_match ps' ns' with
                      | Some (k, s') => Some (S k, s' || s)      (* span = sp.or(span): any *)
                      | None => None end
          end
      end
  end.
(** optimize.rs:581-594: a match needs a span (some primitive in the pattern) *)
Definition tuple_rule (ps : list pat) (rhs : list node) : prule :=
  fun ns => match tuple_match ps ns with
            | Some (k, true) => Some (k, flat2 (from_list rhs))
            | _ => None end.

(** UNSORTED_OPTS, the 29 tuple rules in source order (commits 5e4b2d1 and 9f3362f removed
    (-1, Pow) -> Reciprocal and (i, Mul, Add) -> Complex) *)
Definition tuple_table : list (list pat * list node) := [
  ([PP 2; PP 52; PP 32; PP 9], [nPseudoIsPrime]);
  ([PP 33; PP 31], [nLast]);
  ([PP 33; PP 32], [nFirst]);
  ([PP 34; PP 31], [nFirstMinIndex]);
  ([PP 35; PP 32], [nLastMinIndex]);
  ([PP 35; PP 31], [nFirstMaxIndex]);
  ([PP 34; PP 32], [nLastMaxIndex]);
  ([PP 36; PP 31], [nFirstWhere]);
  ([PP 36; PP 32], [nLastWhere]);
  ([PP 36; PP 37], [nLenWhere]);
  ([PP 38; PP 39], [nMemberOfRange]);
  ([PP 38; PI 1; PP 40; PP 39], [nMultidimMemberOfRange]);
  ([PP 38; PP 152; PP 39], [nMultidimMemberOfRange]);
  ([PP 121; POr (PP 31) (PP 32)], [nRandomRow]);
  ([PP 41; PP 37], [nCountUnique]);
  ([PP 2; PP 34; PP 42], [nSort]);
  ([PP 2; PP 35; PP 42], [nSortDown]);
  ([PP 43; PP 33], [nSortDown]);
  ([PP 113; PP 33], [nSort]);
  ([PP 43; PP 31], [nFirstSort]);
  ([PP 43; PP 32], [nLastSort]);
  ([PP 4; PP 44], [nReplaceRand]);
  ([PP 4; PP 4; PP 44], [nReplaceRand2]);
  ([PI 2; PP 45], [nDup; nMul]);
  ([PI 3; PP 45], [nDup; nDup; nMul; nMul]);
  ([PI 4; PP 45], [nDup; nMul; nDup; nMul]);
  ([PP 46; PP 19], [nAbsComplex]);
  ([PP 19; PP 2; PP 7], [nSquareAbs]);
  ([PP 19; PP 8], [nNegAbs])
]%N%Z.

(* ---- the hand-written Optimizations *)

(** opt!(InlineCustomInverse ...) optimize.rs:157-161 *)
Definition r_inline_custom : prule := fun ns =>
  match ns with CustomInv _ true _ normal :: _ => Some (1, flat2 normal) | _ => None end.
(** opt!(PopConst ...) :163 *)
Definition r_pop_const : prule := fun ns =>
  match ns with Push _ :: Prim 4%N _ _ :: _ => Some (2, []) | _ => None end.
(** opt!(TransposeOpt ...) :165-179 *)
Definition r_transpose : prule := fun ns =>
  match ns with
  | Prim a _ _ :: Prim b _ _ :: _ =>
      if N.eqb a 47 && N.eqb b 47 then Some (2, [nTransposeN 2]) else
      match transposeN_of a with
      | Some x =>
          if N.eqb b 47 then Some (2, [nTransposeN (x + 1)]) else
          match transposeN_of b with
          | Some y => Some (2, [nTransposeN (x + y)])
          | None => None end
      | None => None end
  | _ => None end.
(** opt!(ReduceTableOpt ...) :181-193 *)
Definition r_reduce_table : prule := fun ns =>
  match ns with
  | Mod MTable targs :: Mod MReduce rargs :: _ =>
      match targs, rargs with
      | (ts, _) :: _, (rs, _) :: _ =>
          if sig_is ts 2 1 && sig_is rs 2 1 then Some (2, [Mod mReduceTable (rargs ++ targs)]) else None
      | _, _ => None end
  | _ => None end.
(** opt!(ValidateTypeOpt ...) :195-210 *)
Definition r_validate_type : prule := fun ns =>
  match ns with
  | Prim 2%N _ _ :: Prim 50%N _ _ :: Push v :: Prim 126%N _ _ :: _ =>
      Some (4, flat2 (from_list [Push v; nValidateTypeOld]))
  | Prim 50%N _ _ :: Push v :: Prim 126%N _ _ :: _ =>
      Some (3, flat2 (from_list [Push v; nValidateTypeConsume]))
  | _ => None end.
(** ReduceDepthOpt :212-234 *)
Definition r_reduce_depth : prule := fun ns =>
  match ns with
  | Mod MRows [(_, f)] :: _ =>
      match as_slice f with
      | [Mod MReduce rargs] => Some (1, [Mod (MReduceDepth 1) rargs])
      | [Mod (MReduceDepth d) rargs] => Some (1, [Mod (MReduceDepth (d + 1)) rargs])
      | _ => None end
  | _ => None end.
(** ReduceContentOpt :236-266 (level Early) *)
Definition r_reduce_content : prule := fun ns =>
  match ns with
  | Mod MReduce [(fs, f)] :: _ =>
      if negb (sig_is fs 2 1) then None else
      match as_slice f with
      | Mod MBoth [(_, g)] :: rest =>
          if is_prim idUnBox g then
            match sig_node (from_list rest) with
            | Some inner => Some (1, [Mod MReduceContent [inner]])
            | None => None end
          else None
      | _ => None end
  | _ => None end.
(** ReduceConjoinInventoryOpt :268-294 *)
Definition r_conjoin_inventory : prule := fun ns =>
  match ns with
  | Mod MInventory [(is_, invf)] :: Mod MReduceContent [(_, rcf)] :: _ =>
      if Nat.eqb (so is_) 1 && is_prim 59 rcf then Some (2, [Mod mReduceConjoinInventory [(is_, invf)]]) else None
  | _ => None end.
(** SimplePathOpt :296-330 *)
Definition r_simple_path : prule := fun ns =>
  match ns with
  | Mod m args :: rest =>
      let go (first signlen take pop : modk) :=
        match rest with
        | Prim 31%N _ _ :: _ => Some (2, [Mod first args])
        | Prim 37%N _ _ :: Prim 20%N _ _ :: _ => Some (3, [Mod signlen args])
        | Push n :: Prim 58%N _ _ :: _ => Some (3, flat2 (from_list [Push n; Mod take args]))
        | Prim 4%N _ _ :: _ => Some (2, [Mod pop args])
        | _ => None end in
      if is_other 900 m then go mPathFirst mPathSignLen mPathTake mPathPop
      else if is_other 906 m then go mAstarFirst mAstarSignLen mAstarTake mAstarPop
      else None
  | _ => None end.
(** AllSameOpt :377-426 *)
Definition pm1 (v : sval) : bool := val_is v 1 || val_is v (-1).
Definition r_all_same : prule := fun ns =>
  match ns with
  | Prim 2%N _ _ :: Push v :: Prim 48%N _ _ :: Prim 49%N _ _ :: _ =>
      if pm1 v then Some (4, [nAllSame]) else None
  | Mod MBy args :: Prim 49%N _ _ :: _ | Mod MOn args :: Prim 49%N _ _ :: _ =>
      match args with
      | [(_, f)] => match as_slice f with
                    | [Push v; Prim 48%N _ _] => if pm1 v then Some (2, [nAllSame]) else None
                    | _ => None end
      | _ => None end
  | Prim 112%N _ _ :: Push v :: Prim c _ _ :: _ =>
      if val_is v 1 then
        if N.eqb c 17 then Some (3, [nAllSame])
        else if N.eqb c 9 then Some (3, [nOneUnique])
        else if N.eqb c 16 then Some (3, flat2 (from_list [nOneUnique; nNot]))
        else None
      else None
  | Mod MStencil [(_, sf)] :: Mod MReduce [(_, rf)] :: _ =>
      if is_prim 49 sf && is_prim 7 rf then Some (2, [nAllSame]) else None
  | _ => None end.
(** SortedUpOpt :428-442 (level Early) *)
Definition r_sorted_up : prule := fun ns =>
  match ns with
  | Mod MBy [(_, f)] :: Prim 49%N _ _ :: _ | Mod MOn [(_, f)] :: Prim 49%N _ _ :: _ =>
      if is_prim 43 f then Some (2, [nSortedUp]) else None
  | _ => None end.
(** SplitByOpt :444-495 *)
Definition par_f (n : node) : option (sig * node) :=
  match n with
  | Mod MPartition [(fs, f)] => if Nat.eqb (sa fs) 1 then Some (fs, f) else None
  | _ => None end.
Definition r_split_by : prule := fun ns =>
  match ns with
  | Mod MBy [(_, g)] :: rest =>
      if is_prim 16 g then
        match rest with
        | last :: _ => match par_f last with Some f => Some (2, [Mod mSplitByScalar [f]]) | None => None end
        | _ => None end
      else if is_prim 51 g then
        match rest with
        | Prim 13%N _ _ :: last :: _ => match par_f last with Some f => Some (3, [Mod mSplitBy [f]]) | None => None end
        | _ => None end
      else None
  | Prim 2%N _ _ :: Push d :: Prim 16%N _ _ :: last :: _ =>
      match par_f last with Some f => Some (4, flat2 (from_list [Push d; Mod mSplitByScalar [f]])) | None => None end
  | Prim 2%N _ _ :: Push d :: Prim 51%N _ _ :: Prim 13%N _ _ :: last :: _ =>
      match par_f last with Some f => Some (5, flat2 (from_list [Push d; Mod mSplitBy [f]])) | None => None end
  | _ => None end.
(** RowsFlipOpt :550-572 *)
Definition r_rows_flip : prule := fun ns =>
  match ns with
  | Mod MRows [(fs, f)] :: _ =>
      if negb (sig_is fs 2 1) then None else
      match as_slice f with
      | Prim 3%N a o :: rest =>
          match sig_node (from_list rest) with
          | Some inner => Some (1, flat2 (from_list [Prim 3 a o; Mod MRows [inner]]))
          | None => None end
      | _ => None end
  | _ => None end.

(** ByToDup :497-548 — scans the whole run and looks back from the [by] *)
Definition sig_01_or_12 (s : sig) : bool := sig_is s 0 1 || sig_is s 1 2.
(** the largest j < i (searching downwards) whose fragment [j, i) has clean signature |0.1 or |1.2;
    [pre] is nodes[..i] *)
Fixpoint look_back (pre : list node) (j : nat) : option nat :=
  match j with
  | O => None
  | S j' =>
      match clean_sig (skipn j' pre) with
      | Some s => if sig_01_or_12 s then Some j' else look_back pre j'
      | None => look_back pre j' end
  end.
Definition is_single_dup (l : list node) : bool :=
  match l with [Prim 2%N _ _] => true | _ => false end.
Definition by_to_dup_at (pre : list node) (f : sig * node) (post : list node) : option (list node) :=
  let fs := fst f in
  let '(go, back, dip) :=
    if sig_is fs 1 1 then (true, O, false)
    else if sig_is fs 2 1 then
      match look_back pre (length pre) with
      | Some j => (true, length pre - j, negb (is_single_dup (skipn j pre)))
      | None => (true, O, true) end
    else (false, O, false) in
  if negb go then None else
  let i := length pre in
  let composed := from_list (skipn (i - back) pre) in
  let dup := if dip then Mod MDip [(sig2 1 2, nDup)] else nDup in
  let composed := npush composed dup in
  let composed := npush composed (snd f) in
  let composed := nextend composed post in
  Some (firstn (i - back) pre ++ flat2 composed).
Fixpoint by_to_dup_go (pre : list node) (ns : list node) : option (list node) :=
  match ns with
  | [] => None
  | x :: t =>
      let next := by_to_dup_go (pre ++ [x]) t in
      match x with
      | Mod MBy [f] => match by_to_dup_at pre f t with Some r => Some r | None => next end
      | _ => next end
  end.
Definition r_by_to_dup : lrule := by_to_dup_go [].

(* ------------------------------------------------------------------ the table *)

Inductive level := Early | Full.
Definition level_leb (a b : level) : bool := match a, b with Full, Early => false | _, _ => true end.

Inductive rname :=
| RTuple (i : nat)
| RByToDup | RRowsFlip | RInlineCustomInverse | RTranspose | RReduceTable | RReduceDepth
| RReduceContent | RReduceConjoinInventory | RPath | RSplitBy | RAllSame | RSortedUp | RPopConst
| RValidateType.

(** PathOpt :332-375: SimplePathOpt, then the two `fill` shapes.  The fill shapes need the
    signature of [path]/[astar], which the spine's checker does not model: NOT transcribed
    (trees with a fill right after a path are kept out of the tie). *)
Definition r_path : lrule := mar r_simple_path.

Definition struct_opts : list (rname * level * lrule) := [
  (RByToDup, Full, r_by_to_dup);
  (RRowsFlip, Full, mar r_rows_flip);
  (RInlineCustomInverse, Full, mar r_inline_custom);
  (RTranspose, Full, mar r_transpose);
  (RReduceTable, Full, mar r_reduce_table);
  (RReduceDepth, Full, mar r_reduce_depth);
  (RReduceContent, Early, mar r_reduce_content);
  (RReduceConjoinInventory, Full, mar r_conjoin_inventory);
  (RPath, Full, r_path);
  (RSplitBy, Full, mar r_split_by);
  (RAllSame, Full, mar r_all_same);
  (RSortedUp, Early, mar r_sorted_up);
  (RPopConst, Full, mar r_pop_const);
  (RValidateType, Full, mar r_validate_type)
].
Definition tuple_opts : list (rname * level * lrule) :=
  map (fun ip => (RTuple (fst ip), Full, mar (tuple_rule (fst (snd ip)) (snd (snd ip)))))
      (combine (seq 0 (length tuple_table)) tuple_table).
(** UNSORTED_OPTS in source order *)
Definition unsorted_opts : list (rname * level * lrule) := tuple_opts ++ struct_opts.
Definition opt_level (o : rname * level * lrule) : level := snd (fst o).
Definition opt_name (o : rname * level * lrule) : rname := fst (fst o).
Definition is_early (l : level) : bool := match l with Early => true | Full => false end.
(** OPTIMIZATIONS: stable sort by level (optimize.rs:151-155) *)
Definition optimizations : list (rname * level * lrule) :=
  filter (fun o => is_early (opt_level o)) unsorted_opts ++
  filter (fun o => negb (is_early (opt_level o))) unsorted_opts.
Definition rules_at (lv : level) : list (rname * level * lrule) :=
  filter (fun o => level_leb (opt_level o) lv) optimizations.

(* ------------------------------------------------------------------ the driver *)

(** one round of `OPTIMIZATIONS.iter().filter(level).any(match_and_replace)`: the first rule,
    in table order, that applies anywhere in the run *)
Fixpoint apply_first (rules : list (rname * level * lrule)) (ns : list node) : option (rname * list node) :=
  match rules with
  | [] => None
  | r :: rs => match snd r ns with Some ns' => Some (opt_name r, ns') | None => apply_first rs ns end
  end.
(** the `while` loop; None = out of fuel.  Also returns the names of the rules applied. *)
Fixpoint fix_rules (fuel : nat) (rules : list (rname * level * lrule)) (ns : list node) : option (list rname * list node) :=
  match fuel with O => None | S fuel =>
    match apply_first rules ns with
    | Some (nm, ns') => match fix_rules fuel rules ns' with
                        | Some (used, r) => Some (nm :: used, r) | None => None end
    | None => Some ([], ns) end
  end.

Fixpoint mapM_o {A B} (f : A -> option (list rname * B)) (l : list A) : option (list rname * list B) :=
  match l with
  | [] => Some ([], [])
  | x :: t => match f x with
              | Some (u, y) => match mapM_o f t with Some (u', r) => Some (u ++ u', y :: r) | None => None end
              | None => None end
  end.

Definition NORM_FUEL : nat := 64.
(** optimize_impl (optimize.rs:32-120, with optimize_patterns / optimize_run / optimize_single);
    returns the rules used (non-empty = the Rust function returns true) and the new tree *)
Fixpoint opt_impl (fuel : nat) (lv : level) (single : bool) (n : node) {struct fuel} : option (list rname * node) :=
  match fuel with O => None | S fuel =>
  let orun (nodes : list node) (single : bool) : option (list rname * list node) :=
    match fix_rules fuel (rules_at lv) nodes with
    | Some (u, nodes1) =>
        match mapM_o (opt_impl fuel lv single) nodes1 with
        | Some (u', r) => Some (u ++ u', r) | None => None end
    | None => None end in
  let oargs (args : list (sig * node)) : option (list rname * list (sig * node)) :=
    mapM_o (fun a => match opt_impl fuel lv true (snd a) with
                     | Some (u, x) => Some (u, (fst a, x)) | None => None end) args in
  (* optimize_single (since commit 402368c): the patterns on the run [self]; the parts are
     optimised again only if a pattern applied or optimising the parts changed something *)
  let osingle (self : node) (u : list rname) : option (list rname * node) :=
    if single then
      match fix_rules fuel (rules_at lv) [self] with
      | Some (u1, nodes1) =>
          match u1, u with
          | [], [] => Some ([], normalize NORM_FUEL (Run nodes1))
          | _, _ =>
              match mapM_o (opt_impl fuel lv false) nodes1 with
              | Some (u2, r) => Some (u ++ u1 ++ u2, normalize NORM_FUEL (Run r)) | None => None end
          end
      | None => None end
    else Some (u, self) in
  match n with
  | Run nodes =>
      match orun nodes single with
      | Some (u, l) => Some (u, normalize NORM_FUEL (Run l)) | None => None end
  | Mod m args =>
      match oargs args with Some (u, args') => osingle (Mod m args') u | None => None end
  | Switch brs s uc =>
      match oargs brs with Some (u, brs') => osingle (Switch brs' s uc) u | None => None end
  | Arr len inner b =>
      match opt_impl fuel lv true inner with Some (u, i) => Some (u, Arr len i b) | None => None end
  | NoInline inner =>
      match opt_impl fuel Early true inner with Some (u, i) => Some (u, NoInline i) | None => None end
  | TrackCaller s inner =>
      match opt_impl fuel lv true inner with Some (u, i) => Some (u, TrackCaller s i) | None => None end
  | CustomInv s true ns normal =>
      match opt_impl fuel lv true normal with Some (u, i) => Some (u, CustomInv s true ns i) | None => None end
  | _ => Some ([], n)
  end end.

Definition optimize_model (fuel : nat) (full : bool) (n : node) : option node :=
  option_map snd (opt_impl fuel (if full then Full else Early) true n).

(* ------------------------------------------------------------------ tie helpers *)

(** the model's [SOpq 0] stands for a value it does not compute *)
Definition sval_match (model real : sval) : bool :=
  match model, real with
  | SInt a, SInt b => Z.eqb a b
  | SOpq 0%N, _ => true
  | SOpq a, SOpq b => N.eqb a b
  | _, _ => false end.
Definition modk_code (m : modk) : N * N :=
  match m with
  | MDip => (1,0) | MGap => (2,0) | MOn => (3,0) | MBy => (4,0) | MWith => (5,0) | MOff => (6,0)
  | MAbove => (7,0) | MBelow => (8,0) | MBoth => (9,0) | MFork => (10,0) | MBracket => (11,0) | MReach => (12,0)
  | MTry => (13,0) | MPattern => (14,0) | MCase => (15,0) | MFill => (16,0) | MUnFill => (17,0) | MSidedFill => (18,0)
  | MRepeat => (19,0) | MDo => (20,0) | MReduce => (21,0) | MScan => (22,0) | MFold => (23,0)
  | MRows => (24,0) | MEach => (25,0) | MInventory => (26,0) | MTable => (27,0) | MTuples => (28,0)
  | MStencil => (29,0) | MGroup => (30,0) | MPartition => (31,0)
  | MContent => (32,0) | MMemo => (33,0) | MComptime => (34,0) | MUn => (35,0) | MAnti => (36,0)
  | MSpawn => (37,0) | MPool => (38,0) | MDump => (39,0)
  | MOnSub n => (40, N.of_nat n) | MBySub n => (41, N.of_nat n) | MWithSub n => (42, N.of_nat n)
  | MOffSub n => (43, N.of_nat n) | MDipN n => (44, N.of_nat n)
  | MReduceDepth d => (45, N.of_nat d) | MReduceContent => (46,0) | MUndoRows => (47,0) | MUndoInventory => (48,0)
  | MEachSub => (49,0) | MFixMatchRanks => (50,0) | MUnBracket => (51,0) | MUnScan => (52,0)
  | MRepeatWithInverse => (53,0) | MRepeatCountConv => (54,0)
  | MBothImpl r n => (55, N.of_nat r * 1000 + N.of_nat n) | MHandleSig => (56,0)
  | MUnBothImpl r n => (58, N.of_nat r * 1000 + N.of_nat n)
  | MOther id _ => (57, id) end%N.
Definition modk_eqb (a b : modk) : bool :=
  N.eqb (fst (modk_code a)) (fst (modk_code b)) && N.eqb (snd (modk_code a)) (snd (modk_code b)).
Definition osig_eqb' (a b : option sig) : bool :=
  match a, b with Some x, Some y => sig_eqb x y | None, None => true | _, _ => false end.

Fixpoint node_match (a b : node) {struct a} : bool :=
  let args_match :=
    fix go (l l' : list (sig * node)) {struct l} : bool :=
      match l, l' with
      | [], [] => true
      | (s, x) :: t, (s', y) :: t' => sig_eqb s s' && node_match x y && go t t'
      | _, _ => false end in
  match a, b with
  | Push v, Push w => sval_match v w
  | Prim i x y, Prim j x' y' => N.eqb i j && Nat.eqb x x' && Nat.eqb y y'
  | PrimIndet i, PrimIndet j => N.eqb i j
  | Run l, Run l' =>
      (fix go (l l' : list node) {struct l} : bool :=
         match l, l' with
         | [], [] => true
         | x :: t, y :: t' => node_match x y && go t t'
         | _, _ => false end) l l'
  | Mod m l, Mod m' l' => modk_eqb m m' && args_match l l'
  | Call f s, Call g s' => Nat.eqb f g && sig_eqb s s'
  | CallGlobal f s, CallGlobal g s' => Nat.eqb f g && sig_eqb s s'
  | CallMacro f s, CallMacro g s' => Nat.eqb f g && sig_eqb s s'
  | BindGlobal, BindGlobal => true
  | Arr n x bx, Arr n' y by_ => Nat.eqb n n' && node_match x y && Bool.eqb bx by_
  | Unpack c u, Unpack c' u' => Nat.eqb c c' && Bool.eqb u u'
  | Switch l s u, Switch l' s' u' => args_match l l' && sig_eqb s s' && Bool.eqb u u'
  | PushUnder n, PushUnder n' | CopyToUnder n, CopyToUnder n' | PopUnder n, PopUnder n' => Nat.eqb n n'
  | NoInline x, NoInline y => node_match x y
  | TrackCaller s x, TrackCaller s' y => sig_eqb s s' && node_match x y
  | CustomInv s h ns x, CustomInv s' h' ns' y =>
      osig_eqb' s s' && Bool.eqb h h' && sig_eqb ns ns' && node_match x y
  | Label, Label | RemoveLabel, RemoveLabel | SetOutputComment, SetOutputComment => true
  | Format p, Format p' | MatchFormat p, MatchFormat p' => Nat.eqb p p'
  | Dynamic s, Dynamic s' => sig_eqb s s'
  | _, _ => false end.

(** V tie: 0 = the model reproduces the optimiser's output, 1 = it does not, 2 = out of fuel *)
Record vcase := VC { vc_in : node; vc_out : node; vc_full : bool }.
Definition vcase_code (fuel : nat) (c : vcase) : N :=
  match optimize_model fuel (vc_full c) (vc_in c) with
  | Some o => if node_match o (vc_out c) then 0%N else 1%N
  | None => 2%N end.
Fixpoint vcodes_from (fuel : nat) (i : N) (l : list vcase) : list (N * N) :=
  match l with [] => [] | c :: t =>
    let k := vcase_code fuel c in
    if N.eqb k 0 then vcodes_from fuel (i + 1)%N t else (i, k) :: vcodes_from fuel (i + 1)%N t end.
(** push tie: Node::from_iter of a raw run *)
Record pcase := PC { pc_in : list node; pc_out : node }.
Fixpoint pcodes_from (i : N) (l : list pcase) : list N :=
  match l with [] => [] | c :: t =>
    if node_match (from_list (pc_in c)) (pc_out c) then pcodes_from (i + 1)%N t
    else i :: pcodes_from (i + 1)%N t end.

(** T tie: the tuple table regenerated from the source text must be this one *)
Fixpoint pat_eqb (a b : pat) : bool :=
  match a, b with
  | PP x, PP y => N.eqb x y
  | PI x, PI y => Z.eqb x y
  | PCI, PCI => true
  | POr a1 a2, POr b1 b2 => pat_eqb a1 b1 && pat_eqb a2 b2
  | _, _ => false end.
Fixpoint list_eqb' {A} (e : A -> A -> bool) (l l' : list A) : bool :=
  match l, l' with [], [] => true | x :: t, y :: t' => e x y && list_eqb' e t t' | _, _ => false end.
Definition tuple_table_eqb (t t' : list (list pat * list node)) : bool :=
  list_eqb' (fun a b => list_eqb' pat_eqb (fst a) (fst b) && list_eqb' node_match (snd a) (snd b)) t t'.
Definition rname_code (r : rname) : N :=
  match r with
  | RTuple i => N.of_nat i
  | RByToDup => 100 | RRowsFlip => 101 | RInlineCustomInverse => 102 | RTranspose => 103 | RReduceTable => 104
  | RReduceDepth => 105 | RReduceContent => 106 | RReduceConjoinInventory => 107 | RPath => 108 | RSplitBy => 109
  | RAllSame => 110 | RSortedUp => 111 | RPopConst => 112 | RValidateType => 113 end%N.
Definition rname_eqb (a b : rname) : bool := N.eqb (rname_code a) (rname_code b).
(** names and levels (0 = Early) of the struct rules, in source order *)
Definition struct_order : list (N * N) :=
  map (fun o => (rname_code (opt_name o), if is_early (opt_level o) then 0%N else 1%N)) struct_opts.
