(** C08 — reference semantics of the core first-order array primitives, written from the
    DOCUMENTATION (doc comments of /repo/parser/src/defs.rs, cited as [defs.rs:LINE]), not from
    the Rust algorithms.  Executable definitions only.

    Arrays are row-major, integer-valued numbers / code points / boxes.  A primitive returns
    [Ok v], [Err] (the documentation says, or plainly implies, that the call fails) or [Unspec]
    (the documentation does not determine the outcome: the reference claims nothing and the tie
    skips the case; every [Unspec] is a reported carve-out). *)
From Coq Require Import List ZArith NArith Bool Arith Lia.
Import ListNotations.

Inductive ety := TNum | TChar | TBox.
Inductive elem :=
| ENum (z : Z)
| EChar (c : N)
| EBox (t : ety) (sh : list nat) (d : list elem).
Record arr := Arr { aty : ety; ash : list nat; adata : list elem }.

Inductive res (A : Type) := Ok (a : A) | Err | Unspec.
Arguments Ok {A} a.
Arguments Err {A}.
Arguments Unspec {A}.
Definition bind {A B} (r : res A) (f : A -> res B) : res B :=
  match r with Ok a => f a | Err => Err | Unspec => Unspec end.
Notation "x <- e ;; f" := (bind e (fun x => f)) (at level 61, e at next level, right associativity).

(** index / amount arguments: an integer, an infinity, a non-integer or NaN *)
Inductive amount := AInt (z : Z) | AInf (neg : bool) | AFrac | ANaN.

(* ------------------------------------------------------------------ lists *)

Section ListHelpers.
  Context {A : Type}.
  (** [k] consecutive blocks of [n] elements *)
  Fixpoint chunk (n k : nat) (l : list A) : list (list A) :=
    match k with O => [] | S k' => firstn n l :: chunk n k' (skipn n l) end.
  Definition lastn (k : nat) (l : list A) : list A := skipn (length l - k) l.
  (** the first [n] elements of [l] repeated cyclically ([] when [l] is empty) *)
  Definition cyc (n : nat) (l : list A) : list A :=
    firstn n (concat (repeat l (S (n / Nat.max 1 (length l))))).
  Definition pad_to (n : nat) (f : A) (l : list A) : list A := firstn n l ++ repeat f (n - length l).
  (** rotate left by [k] (0 <= k <= length) *)
  Definition rotl (k : nat) (l : list A) : list A := skipn k l ++ firstn k l.
  (** columns of a list of [m]-element rows *)
  Fixpoint cols (m : nat) (rs : list (list A)) : list (list A) :=
    match m with O => [] | S m' => concat (map (firstn 1) rs) :: cols m' (map (skipn 1) rs) end.
  Fixpoint cart (ls : list (list A)) : list (list A) :=
    match ls with [] => [[]] | l :: r => flat_map (fun x => map (cons x) (cart r)) l end.
  Fixpoint list_eqb (e : A -> A -> bool) (l l' : list A) : bool :=
    match l, l' with
    | [], [] => true
    | a :: r, b :: r' => e a b && list_eqb e r r'
    | _, _ => false end.
  (** position of the first element satisfying [p], or the length *)
  Fixpoint index_where (p : A -> bool) (l : list A) : nat :=
    match l with [] => O | x :: t => if p x then O else S (index_where p t) end.
  (** keep the first occurrence of every element, in order of first appearance *)
  Fixpoint dedup (e : A -> A -> bool) (l : list A) : list A :=
    match l with [] => [] | x :: t => x :: filter (fun y => negb (e x y)) (dedup e t) end.
  (** stable insertion sort; [le x y = true] means x may stay before y *)
  Fixpoint insert (le : A -> A -> bool) (x : A) (l : list A) : list A :=
    match l with [] => [x] | y :: t => if le x y then x :: l else y :: insert le x t end.
  Fixpoint isort (le : A -> A -> bool) (l : list A) : list A :=
    match l with [] => [] | x :: t => insert le x (isort le t) end.
  Fixpoint mapM {B} (f : A -> res B) (l : list A) : res (list B) :=
    match l with [] => Ok [] | x :: t => y <- f x ;; r <- mapM f t ;; Ok (y :: r) end.
End ListHelpers.

Definition prodn (s : list nat) : nat := fold_right Nat.mul 1%nat s.
Definition zlen {A} (l : list A) : Z := Z.of_nat (length l).

(* ------------------------------------------------------------------ elements *)

Definition ety_eqb (a b : ety) : bool :=
  match a, b with TNum, TNum | TChar, TChar | TBox, TBox => true | _, _ => false end.

Fixpoint elem_eqb (x y : elem) : bool :=
  match x, y with
  | ENum a, ENum b => Z.eqb a b
  | EChar a, EChar b => N.eqb a b
  | EBox t s d, EBox t' s' d' =>
      ety_eqb t t' && list_eqb Nat.eqb s s' &&
      (fix go (l l' : list elem) : bool :=
         match l, l' with
         | [], [] => true
         | a :: r, b :: r' => elem_eqb a b && go r r'
         | _, _ => false end) d d'
  | _, _ => false end.
Definition row_eqb : list elem -> list elem -> bool := list_eqb elem_eqb.
Definition arr_eqb (a b : arr) : bool :=
  ety_eqb (aty a) (aty b) && list_eqb Nat.eqb (ash a) (ash b) && row_eqb (adata a) (adata b).

(** order of numbers and of characters; boxes are never ordered by the reference *)
Definition elem_cmp (x y : elem) : comparison :=
  match x, y with
  | ENum a, ENum b => Z.compare a b
  | EChar a, EChar b => N.compare a b
  | ENum _, _ => Lt
  | _, ENum _ => Gt
  | EChar _, _ => Lt
  | _, EChar _ => Gt
  | _, _ => Eq end.
Fixpoint row_cmp (l l' : list elem) : comparison :=
  match l, l' with
  | [], [] => Eq
  | [], _ => Lt
  | _, [] => Gt
  | a :: r, b :: r' => match elem_cmp a b with Eq => row_cmp r r' | c => c end end.
Definition row_le (l l' : list elem) : bool := match row_cmp l l' with Gt => false | _ => true end.
Definition row_ge (l l' : list elem) : bool := match row_cmp l l' with Lt => false | _ => true end.

Definition zero_elem : elem := ENum 0.
(** a fill value is set and the array is a box array: the implementation boxes the fill value;
    the documentation does not say so *)
Definition box_fill (fill : option elem) (t : ety) : bool :=
  match fill, t with Some _, TBox => true | _, _ => false end.
Definition num (z : Z) : arr := Arr TNum [] [ENum z].
Definition bool_elem (b : bool) : elem := ENum (if b then 1 else 0)%Z.
Definition nat_elem (n : nat) : elem := ENum (Z.of_nat n).

(** a fill value is a scalar; it is usable for an array of the same element type only
    (fill, defs.rs:2598-2616: "a different one depending on the arguments") *)
Definition fill_for (fill : option elem) (t : ety) : option elem :=
  match fill with
  | Some (ENum z) => match t with TNum => Some (ENum z) | _ => None end
  | Some (EChar c) => match t with TChar => Some (EChar c) | _ => None end
  | Some (EBox a b c) => match t with TBox => Some (EBox a b c) | _ => None end
  | None => None end.

(* ------------------------------------------------------------------ rows *)

(** data of the rows (major cells) of an array; a scalar has itself as only row *)
Definition drows (sh : list nat) (d : list elem) : list (list elem) :=
  match sh with [] => [d] | n :: s => chunk (prodn s) n d end.
Definition rowsh (sh : list nat) : list nat := tl sh.
Definition nrows (sh : list nat) : nat := match sh with [] => 1%nat | n :: _ => n end.
Definition of_drows (t : ety) (s : list nat) (l : list (list elem)) : arr :=
  Arr t (length l :: s) (concat l).
Definition rows (a : arr) : list arr := map (Arr (aty a) (rowsh (ash a))) (drows (ash a) (adata a)).
Definition from_rows (t : ety) (s : list nat) (rs : list arr) : arr := of_drows t s (map adata rs).
Definition wf (a : arr) : Prop := length (adata a) = prodn (ash a).
Definition wfb (a : arr) : bool := Nat.eqb (length (adata a)) (prodn (ash a)).

(* ------------------------------------------------------------------ monadic structural *)

(* length, defs.rs:962-981: "equivalent to the first of the shape"; a scalar has length 1 *)
Definition p_len (a : arr) : arr := num (Z.of_nat (nrows (ash a))).
(* shape, defs.rs:982-996 *)
Definition p_shape (a : arr) : arr := Arr TNum [length (ash a)] (map nat_elem (ash a)).
(* deshape, defs.rs:1061-1083: "Make an array 1-dimensional" *)
Definition p_deshape (a : arr) : arr := Arr (aty a) [prodn (ash a)] (adata a).
(* fix, defs.rs:1084-1105: "Add a length-1 axis" *)
Definition p_fix (a : arr) : arr := Arr (aty a) (1%nat :: ash a) (adata a).
(* reverse, defs.rs:1055-1060: "Reverse the rows" *)
Definition p_reverse (a : arr) : arr :=
  match ash a with
  | [] => a
  | n :: s => Arr (aty a) (n :: s) (concat (rev (chunk (prodn s) n (adata a)))) end.
(* first / last, defs.rs:1025-1054: first row; a scalar is returned; an empty array fails.
   With a fill value set the documentation does not say what an empty array gives. *)
Definition p_first (fill : option elem) (a : arr) : res arr :=
  match ash a with
  | [] => Ok a
  | O :: s => match fill with None => Err | Some _ => Unspec end
  | S n :: s => Ok (Arr (aty a) s (firstn (prodn s) (adata a))) end.
Definition p_last (fill : option elem) (a : arr) : res arr :=
  match ash a with
  | [] => Ok a
  | O :: s => match fill with None => Err | Some _ => Unspec end
  | S n :: s => Ok (Arr (aty a) s (skipn (n * prodn s) (adata a))) end.
(* transpose, defs.rs:1134-1147: "Rotate the shape"; shape(transpose) = rotate 1 shape:
   the leading axis becomes the last one *)
Definition p_transpose (a : arr) : arr :=
  match ash a with
  | n :: (_ :: _) as s => Arr (aty a) (s ++ [n]) (concat (cols (prodn s) (chunk (prodn s) n (adata a))))
  | _ => a end.

(* range, defs.rs:997-1024 *)
Definition zrange (z : Z) : list Z :=
  if (0 <=? z)%Z then map Z.of_nat (seq 0 (Z.to_nat z))
  else map (fun i => (- Z.of_nat i - 1)%Z) (seq 0 (Z.to_nat (- z))).
Definition num_data (d : list elem) : res (list Z) :=
  mapM (fun e => match e with ENum z => Ok z | _ => Err end) d.
Definition range_limit : Z := 4096.
(** sizes beyond which the reference declines to compute (resource guard, not semantics) *)
Definition amt_limit : Z := 64.
Definition size_limit : Z := 100000.
Definition zprod (l : list Z) : Z := fold_right Z.mul 1%Z l.
Definition p_range (a : arr) : res arr :=
  match aty a with
  | TBox => Unspec
  | TChar => Err
  | TNum =>
    zs <- num_data (adata a) ;;
    if existsb (fun z => (range_limit <? Z.abs z)%Z) zs then Unspec else
    if (size_limit <? zprod (map Z.abs zs) * zlen zs)%Z then Unspec else
    if (8 <? zlen zs)%Z then Unspec else      (* the implementation limits the number of axes *)
    match ash a, zs with
    | [], [z] => Ok (Arr TNum [Z.to_nat (Z.abs z)] (map ENum (zrange z)))
    | [k], _ =>
        (* an axis of length 0: no index at all (said separately only so that the reference does not
           enumerate the indices of the other axes first) *)
        if existsb (fun z => (z =? 0)%Z) zs then Ok (Arr TNum (map (fun z => Z.to_nat (Z.abs z)) zs ++ [k]) []) else
        Ok (Arr TNum (map (fun z => Z.to_nat (Z.abs z)) zs ++ [k])
                (map ENum (concat (cart (map zrange zs)))))
    | _, _ => Err       (* "The rank of the input must be 0 or 1" *)
    end
  end.

(* ------------------------------------------------------------------ sorting *)

(* sort / rise / fall, defs.rs:1148-1200: rows ordered lexicographically; rise = the indices
   that sort ascending when used with select; ties keep their original order (stability is
   the reference's reading of "the" list of indices); boxes are not ordered by the reference *)
Definition sortable (a : arr) : bool := match aty a with TBox => false | _ => true end.
Definition irows (a : arr) : list (nat * list elem) :=
  combine (seq 0 (nrows (ash a))) (drows (ash a) (adata a)).
Definition rise_list (rs : list (list elem)) : list nat :=
  map fst (isort (fun x y => row_le (snd x) (snd y)) (combine (seq 0 (length rs)) rs)).
Definition fall_list (rs : list (list elem)) : list nat :=
  map fst (isort (fun x y => row_ge (snd x) (snd y)) (combine (seq 0 (length rs)) rs)).
Definition p_sort (a : arr) : res arr :=
  if negb (sortable a) then Unspec else
  match ash a with
  | [] => Ok a
  | n :: s => Ok (of_drows (aty a) s (isort row_le (chunk (prodn s) n (adata a)))) end.
Definition p_rise (a : arr) : res arr :=
  if negb (sortable a) then Unspec else
  match ash a with
  | [] => Unspec
  | n :: s => Ok (Arr TNum [n] (map nat_elem (rise_list (chunk (prodn s) n (adata a))))) end.
Definition p_fall (a : arr) : res arr :=
  if negb (sortable a) then Unspec else
  match ash a with
  | [] => Unspec
  | n :: s => Ok (Arr TNum [n] (map nat_elem (fall_list (chunk (prodn s) n (adata a))))) end.

(* deduplicate / classify, defs.rs:1227-1244 *)
Definition p_dedup (a : arr) : res arr :=
  match ash a with
  | [] => Unspec
  | n :: s => Ok (of_drows (aty a) s (dedup row_eqb (chunk (prodn s) n (adata a)))) end.
Definition classify_list (rs : list (list elem)) : list nat :=
  let u := dedup row_eqb rs in map (fun r => index_where (row_eqb r) u) rs.
Definition p_classify (a : arr) : res arr :=
  match ash a with
  | [] => Unspec
  | n :: s => Ok (Arr TNum [n] (map nat_elem (classify_list (chunk (prodn s) n (adata a))))) end.

(* where, defs.rs:1201-1226: indices repeated by their counts; multidimensional -> rank-2 list
   of indices; a scalar acts as a singleton list; counts are naturals *)
Definition p_where (a : arr) : res arr :=
  match aty a with
  | TBox => Unspec
  | TChar => Err
  | TNum =>
    zs <- num_data (adata a) ;;
    if existsb (fun z => (z <? 0)%Z) zs then Err else
    if existsb (fun z => (range_limit <? z)%Z) zs then Unspec else
    if (size_limit <? fold_right Z.add 0%Z zs * Z.max 1 (zlen (ash a)))%Z then Unspec else
    let cs := map Z.to_nat zs in
    match ash a with
    | [] | [_] =>
        let out := concat (map (fun ic => repeat (nat_elem (fst ic)) (snd ic)) (combine (seq 0 (length cs)) cs)) in
        Ok (Arr TNum [length out] out)
    | sh =>
        let idx := cart (map (fun n => map nat_elem (seq 0 n)) sh) in
        let out := concat (map (fun ic => repeat (fst ic) (snd ic)) (combine idx cs)) in
        Ok (Arr TNum [length out; length sh] (concat out))
    end
  end.

(* box / un box, defs.rs:1269-1335 *)
Definition p_box (a : arr) : arr := Arr TBox [] [EBox (aty a) (ash a) (adata a)].
Definition p_unbox (a : arr) : res arr :=
  match aty a, ash a, adata a with
  | TBox, [], [EBox t s d] => Ok (Arr t s d)
  | _, _, _ => Unspec end.

(* ------------------------------------------------------------------ pervasive *)

Definition valid_char (z : Z) : bool := ((0 <=? z) && (z <? 55296))%Z.  (* below the surrogates *)
Definition big : Z := 9007199254740992.  (* 2^53: beyond it the doubles of the implementation are inexact *)
Definition znum (z : Z) : res elem := if (Z.abs z <? big)%Z then Ok (ENum z) else Unspec.
Definition zchar (z : Z) : res elem := if valid_char z then Ok (EChar (Z.to_N z)) else Unspec.

Inductive pop2 := PAdd | PSub | PMul | PEq | PNe | PLt | PLe | PGt | PGe | PMin | PMax.
Inductive pop1 := PNeg | PAbs | PSign | PNot.

(** [a] is the first argument (top of the stack), [b] the second.
    add defs.rs:575-583, subtract :584-591 ("The first value is subtracted from the second"),
    multiply :592-608, comparisons :494-574 ("The second value is checked to be less than the first") *)
Definition pty2 (o : pop2) (ta tb : ety) : res ety :=
  match ta, tb with
  | TBox, _ | _, TBox => Unspec
  | TNum, TNum => Ok TNum
  | TChar, TChar =>
      match o with PAdd => Err | PSub => Ok TNum | PMul => Unspec
              | PMin | PMax => Ok TChar | _ => Ok TNum end
  | TNum, TChar =>      (* a number, b character *)
      match o with PAdd | PSub => Ok TChar | _ => Unspec end
  | TChar, TNum =>
      match o with PAdd => Ok TChar | PSub => Err | _ => Unspec end
  end.
Definition cmp_res (o : pop2) (c : comparison) : elem :=   (* c = compare b a *)
  bool_elem match o, c with
            | PEq, Eq => true | PNe, Eq => false | PNe, _ => true
            | PLt, Lt => true | PLe, Gt => false | PLe, _ => true
            | PGt, Gt => true | PGe, Lt => false | PGe, _ => true
            | _, _ => false end.
Definition pel2 (o : pop2) (a b : elem) : res elem :=
  match a, b with
  | ENum x, ENum y =>
      match o with
      | PAdd => znum (y + x) | PSub => znum (y - x) | PMul => znum (y * x)
      | PMin => Ok (ENum (Z.min x y)) | PMax => Ok (ENum (Z.max x y))
      | _ => Ok (cmp_res o (Z.compare y x)) end
  | EChar x, EChar y =>
      match o with
      | PSub => Ok (ENum (Z.of_N y - Z.of_N x))
      | PMin => Ok (EChar (N.min x y)) | PMax => Ok (EChar (N.max x y))
      | PAdd | PMul => Unspec
      | _ => Ok (cmp_res o (N.compare y x)) end
  | ENum x, EChar y =>
      match o with PAdd => zchar (Z.of_N y + x) | PSub => zchar (Z.of_N y - x) | _ => Unspec end
  | EChar x, ENum y =>
      match o with PAdd => zchar (y + Z.of_N x) | _ => Unspec end
  | _, _ => Unspec end.

Definition is_prefix (s t : list nat) : bool :=
  Nat.leb (length s) (length t) && list_eqb Nat.eqb s (firstn (length s) t).
Fixpoint zipcatM (g : list elem -> list elem -> res (list elem)) (l l' : list (list elem)) : res (list elem) :=
  match l, l' with
  | a :: r, b :: r' => y <- g a b ;; t <- zipcatM g r r' ;; Ok (y ++ t)
  | _, _ => Ok [] end.
Fixpoint catM {A} (g : A -> res (list elem)) (l : list A) : res (list elem) :=
  match l with [] => Ok [] | a :: r => y <- g a ;; t <- catM g r ;; Ok (y ++ t) end.

(* Leading-axis agreement: axes are matched from the leading one; matched axes must have the same
   length or one of them has length 1 and is repeated (fix, defs.rs:1097-1102: "- ¤1_3 [3_4 5_6 7_8]"
   works while "- 1_3 [3_4 5_6 7_8]" fails); the argument of lower rank is repeated along the
   remaining axes of the other; a scalar extends to anything. *)
Fixpoint perv_shape (sa sb : list nat) : option (list nat) :=
  match sa, sb with
  | [], s | s, [] => Some s
  | a :: ra, b :: rb =>
      if Nat.eqb a b || Nat.eqb a 1 || Nat.eqb b 1
      then option_map (cons (if Nat.eqb a 1 then b else a)) (perv_shape ra rb) else None
  end.
Fixpoint perv_data (f : elem -> elem -> res elem) (sa sb : list nat) (da db : list elem) : res (list elem) :=
  match sa, sb with
  | [], _ => match da with [x] => mapM (fun y => f x y) db | _ => Err end
  | _, [] => match db with [y] => mapM (fun x => f x y) da | _ => Err end
  | a :: ra, b :: rb =>
      let ca := chunk (prodn ra) a da in
      let cb := chunk (prodn rb) b db in
      if Nat.eqb a b then zipcatM (perv_data f ra rb) ca cb
      else if Nat.eqb a 1 then match ca with [r] => catM (fun r' => perv_data f ra rb r r') cb | _ => Err end
      else match cb with [r'] => catM (fun r => perv_data f ra rb r r') ca | _ => Err end
  end.
(** some matched pair of axes needs the length-1 repetition *)
Fixpoint needs_ext (sa sb : list nat) : bool :=
  match sa, sb with
  | a :: ra, b :: rb => (negb (Nat.eqb a b) && (Nat.eqb a 1 || Nat.eqb b 1)) || needs_ext ra rb
  | _, _ => false end.

(** take-with-fill along every axis up to the target shape (used by fill-pervasive, couple, join) *)
Fixpoint pad_data (f : elem) (sh tsh : list nat) (d : list elem) : list elem :=
  match sh, tsh with
  | n :: s, t :: ts =>
      let rs := map (pad_data f s ts) (chunk (prodn s) n d) in
      concat (firstn t rs ++ repeat (repeat f (prodn ts)) (t - n))
  | _, _ => d end.
Fixpoint max_shape (s t : list nat) : list nat :=
  match s, t with a :: r, b :: r' => Nat.max a b :: max_shape r r' | _, _ => [] end.

(* With a fill value (fill, defs.rs:2598-2607: "extend the shape of one or both of the operands")
   arrays of the same rank whose shapes disagree are padded to their common maximum shape.
   Whether a length-1 axis is repeated or padded when a fill is set is not documented. *)
Definition p_perv2 (o : pop2) (fill : option elem) (a b : arr) : res arr :=
  t <- pty2 o (aty a) (aty b) ;;
  let sa := ash a in let sb := ash b in
  match fill, needs_ext sa sb with
  | Some _, true => Unspec
  | _, _ =>
    match perv_shape sa sb with
    | Some s => d <- perv_data (pel2 o) sa sb (adata a) (adata b) ;; Ok (Arr t s d)
    | None =>
      match fill with
      | None => Err
      | Some _ =>
        if negb (Nat.eqb (length sa) (length sb)) then Unspec else
        let ts := max_shape sa sb in
        let need (s : list nat) (t : ety) := if list_eqb Nat.eqb s ts then Ok zero_elem
             else match fill_for fill t with Some f => Ok f | None => Err end in
        fa <- need sa (aty a) ;; fb <- need sb (aty b) ;;
        d <- perv_data (pel2 o) ts ts (pad_data fa sa ts (adata a)) (pad_data fb sb ts (adata b)) ;; Ok (Arr t ts d)
      end
    end
  end.

Definition p_perv1 (o : pop1) (a : arr) : res arr :=
  match aty a with
  | TNum =>
    d <- mapM (fun e => match e with
       | ENum z => Ok (ENum match o with PNeg => (- z)%Z | PAbs => Z.abs z | PSign => Z.sgn z | PNot => (1 - z)%Z end)
       | _ => Unspec end) (adata a) ;;
    Ok (Arr TNum (ash a) d)
  | _ => Unspec end.

(* ------------------------------------------------------------------ match couple join *)

(* match, defs.rs:1370-1378: "exactly the same"; the element type of an EMPTY array is not
   observable from the documentation, so empty arrays of different types are left open *)
Definition p_match (a b : arr) : res arr :=
  if negb (ety_eqb (aty a) (aty b)) && list_eqb Nat.eqb (ash a) (ash b) && Nat.eqb (prodn (ash a)) 0
  then Unspec else Ok (Arr TNum [] [bool_elem (arr_eqb a b)]).

Definition is_suffix (s t : list nat) : bool :=
  Nat.leb (length s) (length t) && list_eqb Nat.eqb s (skipn (length t - length s) t).
Definition fill_or_err (fill : option elem) (t : ety) (needed : bool) : res elem :=
  if needed then match fill_for fill t with Some f => Ok f | None => Err end else Ok zero_elem.

(* couple, defs.rs:1379-1407 *)
Definition box_mix (a b : arr) : bool :=   (* exactly one of the two is a box array *)
  negb (ety_eqb (aty a) (aty b)) && (ety_eqb (aty a) TBox || ety_eqb (aty b) TBox).
Definition p_couple (fill : option elem) (a b : arr) : res arr :=
  if box_mix a b || box_fill fill (aty a) then Unspec else
  if negb (ety_eqb (aty a) (aty b)) then Err else
  let sa := ash a in let sb := ash b in
  if list_eqb Nat.eqb sa sb then Ok (Arr (aty a) (2%nat :: sa) (adata a ++ adata b))
  else if match fill with Some _ => true | None => false end && negb (Nat.eqb (length sa) (length sb)) then Unspec
  else if is_suffix sa sb then
    Ok (Arr (aty a) (2%nat :: sb) (concat (repeat (adata a) (prodn (firstn (length sb - length sa) sb))) ++ adata b))
  else if is_suffix sb sa then
    Ok (Arr (aty a) (2%nat :: sa) (adata a ++ concat (repeat (adata b) (prodn (firstn (length sa - length sb) sa)))))
  else match fill with
  | None => Err
  | Some _ =>
    if negb (Nat.eqb (length sa) (length sb)) then Unspec else
    let ts := max_shape sa sb in
    fa <- fill_or_err fill (aty a) (negb (list_eqb Nat.eqb sa ts)) ;;
    fb <- fill_or_err fill (aty b) (negb (list_eqb Nat.eqb sb ts)) ;;
    Ok (Arr (aty a) (2%nat :: ts) (pad_data fa sa ts (adata a) ++ pad_data fb sb ts (adata b)))
  end.

(* join, defs.rs:1408-1454.  [la]/[lb]: the arguments seen as lists of rows of a common row
   shape.  An empty rank-1 list on either side is not covered by the documented cases. *)
Definition join_rows (fill : option elem) (t : ety) (ra rb : list nat) (na nb : nat) (da db : list elem) : res arr :=
  (* [na] rows of shape [ra], then [nb] rows of shape [rb] *)
  if list_eqb Nat.eqb ra rb then Ok (Arr t ((na + nb)%nat :: ra) (da ++ db))
  else match fill with
  | None => Err
  | Some _ =>
    if negb (Nat.eqb (length ra) (length rb)) then Unspec else
    let ts := max_shape ra rb in
    fa <- fill_or_err fill t (negb (list_eqb Nat.eqb ra ts)) ;;
    fb <- fill_or_err fill t (negb (list_eqb Nat.eqb rb ts)) ;;
    Ok (Arr t ((na + nb)%nat :: ts)
          (pad_data fa (na :: ra) (na :: ts) da ++ pad_data fb (nb :: rb) (nb :: ts) db))
  end.
Definition p_join (fill : option elem) (a b : arr) : res arr :=
  if box_mix a b || box_fill fill (aty a) then Unspec else
  if negb (ety_eqb (aty a) (aty b)) then Err else
  let sa := ash a in let sb := ash b in
  let t := aty a in
  match sa, sb with
  | [O], _ | _, [O] => Unspec
  | [], [] => Ok (Arr t [2%nat] (adata a ++ adata b))
  | _, _ =>
    let ra := length sa in let rb := length sb in
    if Nat.eqb ra rb then join_rows fill t (tl sa) (tl sb) (nrows sa) (nrows sb) (adata a) (adata b)
    else if Nat.eqb ra (S rb) then join_rows fill t (tl sa) sb (nrows sa) 1 (adata a) (adata b)
    else if Nat.eqb rb (S ra) then join_rows fill t sa (tl sb) 1 (nrows sb) (adata a) (adata b)
    else if match fill with Some _ => true | None => false end then Unspec
    else if Nat.ltb rb ra then
      (* b is repeated as rows to the shape of a row of a, then appended *)
      if is_suffix sb (tl sa)
      then Ok (Arr t (S (nrows sa) :: tl sa) (adata a ++ concat (repeat (adata b) (prodn (firstn (ra - 1 - rb) (tl sa))))))
      else match fill with None => Err | Some _ => Unspec end
    else
      if is_suffix sa (tl sb)
      then Ok (Arr t (S (nrows sb) :: tl sb) (concat (repeat (adata a) (prodn (firstn (rb - 1 - ra) (tl sb)))) ++ adata b))
      else match fill with None => Err | Some _ => Unspec end
  end.

(* ------------------------------------------------------------------ amounts *)

Definition amounts_of (a : arr) : res (list amount) :=
  match aty a with
  | _ => if Nat.eqb (prodn (ash a)) 0 && negb (ety_eqb (aty a) TNum) then Unspec else
  match aty a with
  | TNum => mapM (fun e => match e with ENum z => Ok (AInt z) | _ => Err end) (adata a)
  | TChar => Err
  | TBox => Unspec end end.
Definition all_int (l : list amount) : res (list Z) :=
  mapM (fun m => match m with AInt z => Ok z | _ => Err end) l.

(** per-axis machinery for take / drop / rotate with a list of amounts *)
Fixpoint axes_shape (lenf : amount -> nat -> nat) (amts : list amount) (sh : list nat) : list nat :=
  match amts, sh with
  | m :: ms, n :: s => lenf m n :: axes_shape lenf ms s
  | _, _ => sh end.
Fixpoint axes_check (okf : amount -> nat -> res unit) (amts : list amount) (sh : list nat) : res unit :=
  match amts, sh with
  | m :: ms, n :: s => _ <- okf m n ;; axes_check okf ms s
  | _ :: _, [] => Err        (* "a list to take along multiple axes": there is no axis for the extra amount *)
  | [], _ => Ok tt end.
Fixpoint axes_data (lenf : amount -> nat -> nat)
    (rowf : amount -> list elem -> list (list elem) -> list (list elem))
    (f : elem) (amts : list amount) (sh : list nat) (d : list elem) : list elem :=
  match amts, sh with
  | m :: ms, n :: s =>
      concat (rowf m (repeat f (prodn (axes_shape lenf ms s)))
                (map (axes_data lenf rowf f ms s) (chunk (prodn s) n d)))
  | _, _ => d end.

(* take, defs.rs:1589-1616 *)
Definition take_len (m : amount) (n : nat) : nat :=
  match m with AInt z => Z.to_nat (Z.abs z) | _ => n end.
Definition take_ok (hasfill : bool) (m : amount) (n : nat) : res unit :=
  match m with
  | AInt z => if (Z.abs z <=? Z.of_nat n)%Z then Ok tt
              else if (amt_limit <? Z.abs z)%Z then Unspec
              else if hasfill then Ok tt else Err
  | AInf false => Ok tt       (* "infinity can be used to take every row along an axis" *)
  | AInf true => Unspec
  | AFrac | ANaN => Err end.
Definition take_rows (m : amount) (frow : list elem) (rs : list (list elem)) : list (list elem) :=
  match m with
  | AInt z =>
      let k := Z.to_nat (Z.abs z) in
      if (0 <=? z)%Z then firstn k rs ++ repeat frow (k - length rs)
      else repeat frow (k - length rs) ++ lastn k rs
  | _ => rs end.
(* drop, defs.rs:1617-1635 *)
Definition drop_len (m : amount) (n : nat) : nat :=
  match m with AInt z => (n - Z.to_nat (Z.abs z))%nat | AInf _ => O | _ => n end.
Definition drop_ok (m : amount) (n : nat) : res unit :=
  match m with AInt _ => Ok tt | AInf _ => Unspec | AFrac | ANaN => Err end.
Definition drop_rows (m : amount) (frow : list elem) (rs : list (list elem)) : list (list elem) :=
  match m with
  | AInt z => if (0 <=? z)%Z then skipn (Z.to_nat z) rs else firstn (length rs - Z.to_nat (- z)) rs
  | AInf _ => []
  | _ => rs end.
(* rotate, defs.rs:1661-1681: "↻1 ⇡5" = 1 2 3 4 0; with a fill, elements are shifted out and
   the fill shifted in *)
Definition rot_ok (m : amount) (n : nat) : res unit :=
  match m with AInt _ => Ok tt | _ => Err end.
Definition rot_rows (fl : bool) (m : amount) (frow : list elem) (rs : list (list elem)) : list (list elem) :=
  match m with
  | AInt z =>
      let n := length rs in
      if fl then
        if (0 <=? z)%Z then skipn (Z.to_nat z) rs ++ repeat frow (Nat.min (Z.to_nat z) n)
        else repeat frow (Nat.min (Z.to_nat (- z)) n) ++ firstn (n - Z.to_nat (- z)) rs
      else match n with O => rs | _ => rotl (Z.to_nat (z mod Z.of_nat n)) rs end
  | _ => rs end.

(** [sc]: the amount argument was a scalar; a scalar array argument is not covered *)
Definition p_take (fill : option elem) (amts : list amount) (a : arr) : res arr :=
  if box_fill fill (aty a) then Unspec else
  match ash a with [] => Unspec | _ =>
  let f := fill_for fill (aty a) in
  _ <- axes_check (take_ok (match f with Some _ => true | None => false end)) amts (ash a) ;;
  let fe := match f with Some e => e | None => zero_elem end in
  Ok (Arr (aty a) (axes_shape take_len amts (ash a)) (axes_data take_len take_rows fe amts (ash a) (adata a)))
  end.
Definition p_drop (amts : list amount) (a : arr) : res arr :=
  match ash a with [] => Unspec | _ =>
  _ <- axes_check drop_ok amts (ash a) ;;
  Ok (Arr (aty a) (axes_shape drop_len amts (ash a)) (axes_data drop_len drop_rows zero_elem amts (ash a) (adata a)))
  end.
Definition p_rotate (fill : option elem) (amts : list amount) (a : arr) : res arr :=
  if box_fill fill (aty a) then Unspec else
  match ash a with [] => Unspec | _ =>
  if Nat.ltb (length (ash a)) (length amts) then
    (* more amounts than axes: an error, except that an array in which nothing is left to rotate
       is returned unchanged.  The exception is not in the doc comment; its source is the
       repository's own tests (tests/dyadic.ua:72-73: `↻0_1[]` and `↻1_1[]` are `[]`), i.e.
       intended behaviour (an earlier version of this reference claimed an error: false alarm,
       rotate half of C08-F8). *)
    if existsb (fun m => match m with AInt _ => false | _ => true end) amts then Err
    else if Nat.eqb (prodn (ash a)) 0 then Ok a else Err
  else
  _ <- axes_check rot_ok amts (ash a) ;;
  let f := fill_for fill (aty a) in
  let fe := match f with Some e => e | None => zero_elem end in
  let fl := match f with Some _ => true | None => false end in
  Ok (Arr (aty a) (ash a) (axes_data (fun _ n => n) (rot_rows fl) fe amts (ash a) (adata a)))
  end.

(* select, defs.rs:1455-1494.  [ish]: shape of the index array. *)
Definition sel_row (f : option elem) (rsz : nat) (rs : list (list elem)) (m : amount) : res (list elem) :=
  let n := length rs in
  match m with
  | AInt z =>
      if (0 <=? z)%Z then
        match nth_error rs (Z.to_nat z) with
        | Some r => Ok r
        | None => match f with Some e => Ok (repeat e rsz) | None => Err end end
      else match f with
        | Some e => Ok (repeat e rsz)   (* "Negative indices will always use the fill value if there is one" *)
        | None => if (- z <=? Z.of_nat n)%Z
                  then match nth_error rs (n - Z.to_nat (- z)) with Some r => Ok r | None => Err end
                  else Err end
  | _ => match f with None => Err | Some _ => Unspec end end.
Definition p_select (fill : option elem) (ish : list nat) (idx : list amount) (a : arr) : res arr :=
  match ash a with
  | [] => Unspec
  | n :: s =>
    match box_fill fill (aty a) with true => Unspec | false =>
    rs <- mapM (sel_row (fill_for fill (aty a)) (prodn s) (chunk (prodn s) n (adata a))) idx ;;
    Ok (Arr (aty a) (ish ++ s) (concat rs)) end
  end.

(* pick, defs.rs:1495-1522: an index of rank 0 or 1 picks one row or element; rank >= 2 picks
   several.  Negative indices together with a fill value are not documented for pick. *)
Fixpoint pick_one (f : option elem) (tuple : list amount) (sh : list nat) (d : list elem) : res (list elem) :=
  match tuple with
  | [] => Ok d
  | m :: ms =>
    match sh with
    | [] => Err
    | n :: s =>
      match m, f with
      | AInt z, Some _ => if (z <? 0)%Z then Unspec else
          r <- sel_row f (prodn s) (chunk (prodn s) n d) m ;; pick_one f ms s r
      | _, _ => r <- sel_row f (prodn s) (chunk (prodn s) n d) m ;; pick_one f ms s r
      end
    end
  end.
Definition p_pick (fill : option elem) (ish : list nat) (idx : list amount) (a : arr) : res arr :=
  match box_fill fill (aty a) with true => Unspec | false =>
  let k := match ish with [] => 1%nat | _ => last ish 0%nat end in
  let lead := removelast ish in
  if Nat.ltb (length (ash a)) k then Err else
  rs <- mapM (fun t => pick_one (fill_for fill (aty a)) t (ash a) (adata a)) (chunk k (prodn lead) idx) ;;
  Ok (Arr (aty a) (lead ++ skipn k (ash a)) (concat rs)) end.

(* reshape, defs.rs:1523-1569 *)
Fixpoint rev_axes (flags : list bool) (sh : list nat) (d : list elem) : list elem :=
  match flags, sh with
  | fl :: fs, n :: s =>
      let rs := map (rev_axes fs s) (chunk (prodn s) n d) in
      concat (if fl then rev rs else rs)
  | _, _ => d end.
Definition amt_neg (m : amount) : bool :=
  match m with AInt z => (z <? 0)%Z | AInf b => b | _ => false end.
Definition p_reshape (fill : option elem) (sc : bool) (amts : list amount) (a : arr) : res arr :=
  if existsb (fun m => match m with AFrac | ANaN => true | _ => false end) amts then Err else
  if existsb (fun m => match m with AInt z => (amt_limit <? Z.abs z)%Z | _ => false end) amts then Unspec else
  if (size_limit <? zprod (map (fun m => match m with AInt z => Z.abs z | _ => 1%Z end) amts) * Z.max 1 (zlen (adata a)))%Z then Unspec else
  if sc then
    match amts with
    | [AInt z] => if (z <? 0)%Z then Unspec   (* "↯¯3 [1 2 3 4]" is only shown, not described *)
                  else if match fill with Some _ => true | None => false end then Unspec  (* copies or fill rows? *)
                  else Ok (Arr (aty a) (Z.to_nat z :: ash a) (concat (repeat (adata a) (Z.to_nat z))))
    | _ => Unspec end
  else
    let ninf := length (filter (fun m => match m with AInf _ => true | _ => false end) amts) in
    if Nat.ltb 1 ninf then Err else
    let total := length (adata a) in
    (* element counts are multiplied out in Z: a product of unary naturals is evaluated from the
       trailing axes on and can be astronomically large before it meets an axis of length 0 *)
    let knownz := zprod (map (fun m => match m with AInt z => Z.abs z | _ => 1%Z end) amts) in
    let known := Z.to_nat knownz in
    let f := fill_for fill (aty a) in
    match box_fill fill (aty a) with true => Unspec | false =>
    if Nat.eqb ninf 1 && (knownz =? 0)%Z then Unspec else
    let derived := match f with
                   | None => (total / known)%nat
                   | Some _ => ((total + known - 1) / known)%nat end in
    let sh := map (fun m => match m with AInt z => Z.to_nat (Z.abs z) | _ => derived end) amts in
    let nz := zprod (map Z.of_nat sh) in
    if (nz =? 0)%Z then Ok (Arr (aty a) sh []) else      (* some axis has length 0: no elements *)
    let n := Z.to_nat nz in
    match f with
    | Some e => Ok (Arr (aty a) sh (rev_axes (map amt_neg amts) sh (pad_to n e (adata a))))
    | None =>
        if Nat.eqb total 0 && negb (Nat.eqb n 0) then Unspec   (* nothing to cycle *)
        else Ok (Arr (aty a) sh (rev_axes (map amt_neg amts) sh (cyc n (adata a))))
    end end.

(* keep, defs.rs:1758-1805 *)
Definition p_keep (fill : option elem) (sc : bool) (amts : list amount) (a : arr) : res arr :=
  if existsb (fun m => match m with AInt z => (amt_limit <? (if sc then Z.abs z else z))%Z | _ => false end) amts then Unspec else
  match ash a with
  | [] => Unspec
  | n :: s =>
    let rs := chunk (prodn s) n (adata a) in
    if sc then
      match amts with
      | [AInt z] =>
          (* "Negative numbers are treated like 0s" (defs.rs:1767) is said of, and shown with, a LIST of
             counts.  A negative SCALAR count keeps |count| copies of every row and reverses the
             rows: this is not in the doc comment; the source is the repository's own test
             tests/dyadic.ua:164 (`▽ ¯0.5 [1_2 3_4 5_6 7_8]` = [5_6 1_2]), i.e. intended behaviour
             (an earlier version of this reference read the sentence as covering scalars: false alarm C08-F3). *)
          let rs' := flat_map (fun r => repeat r (Z.to_nat (Z.abs z))) rs in
          Ok (of_drows (aty a) s (if (z <? 0)%Z then rev rs' else rs'))
      | _ => Unspec end            (* non-integer scalar counts: "at regular intervals" *)
    else
      if existsb (fun m => match m with AInt _ => false | _ => true end) amts then
        (if existsb (fun m => match m with AFrac | ANaN => true | _ => false end) amts then Err else Unspec)
      else
      cs <- all_int amts ;;
      let m := length cs in
      if Nat.ltb n m then Unspec else
      cs' <- (if Nat.eqb m n then Ok cs else
              match fill with
              | Some (ENum z) => Ok (pad_to n z cs)            (* "The counts list can also be filled" *)
              | Some _ => Unspec
              | None => match m with O => Err | _ => Ok (cyc n cs) end end) ;;   (* "The counts list is repeated" *)
      Ok (of_drows (aty a) s (concat (map (fun cr => repeat (snd cr) (Z.to_nat (fst cr))) (combine cs' rs))))
  end.

(* ------------------------------------------------------------------ searching *)

(* memberof / indexin, defs.rs:1836-1872.  [h] is the first argument (searched in), [x] the
   second (searched for).  Covered: every rank-(rank h - 1) cell of x is looked up among the
   rows of h.  Lower-rank x and a scalar h are shown only by example. *)
Definition lookup_cells (h x : arr) : res (list nat * list nat) :=   (* result shape, indices *)
  match ash h with
  | [] => Unspec
  | n :: s =>
    if negb (ety_eqb (aty h) (aty x)) then Unspec else
    let rx := length (ash x) in let rc := length s in
    if Nat.ltb rx rc then Unspec else
    let lead := firstn (rx - rc) (ash x) in
    if negb (list_eqb Nat.eqb (skipn (rx - rc) (ash x)) s) then Unspec else
    let hs := chunk (prodn s) n (adata h) in
    Ok (lead, map (fun c => index_where (row_eqb c) hs) (chunk (prodn s) (prodn lead) (adata x)))
  end.
Definition p_member (h x : arr) : res arr :=
  r <- lookup_cells h x ;;
  Ok (Arr TNum (fst r) (map (fun i => bool_elem (Nat.ltb i (nrows (ash h)))) (snd r))).
Definition p_indexin (fill : option elem) (h x : arr) : res arr :=
  r <- lookup_cells h x ;;
  let n := nrows (ash h) in
  match fill with
  | None => Ok (Arr TNum (fst r) (map nat_elem (snd r)))
  | Some (ENum z) => Ok (Arr TNum (fst r) (map (fun i => if Nat.ltb i n then nat_elem i else ENum z) (snd r)))
  | Some _ => if existsb (fun i => negb (Nat.ltb i n)) (snd r) then Unspec else Ok (Arr TNum (fst r) (map nat_elem (snd r)))
  end.

(* find, defs.rs:1806-1816: 1 at the minimum-index corner of every occurrence *)
Fixpoint lookup (sh : list nat) (d : list elem) (idx : list nat) : option elem :=
  match sh, idx with
  | [], [] => match d with [e] => Some e | _ => None end
  | n :: s, i :: is => if Nat.ltb i n then lookup s (firstn (prodn s) (skipn (i * prodn s) d)) is else None
  | _, _ => None end.
Definition all_idx (sh : list nat) : list (list nat) := cart (map (seq 0) sh).
Definition p_find (fill : option elem) (p a : arr) : res arr :=
  match fill with Some _ => Unspec | None =>     (* a fill value changes find; not documented *)
  if negb (ety_eqb (aty p) (aty a)) then Unspec else
  let rp := length (ash p) in let ra := length (ash a) in
  if Nat.ltb ra rp then Unspec else
  match ash a with [] => Unspec | _ =>
  let psh := repeat 1%nat (ra - rp) ++ ash p in
  let offs := all_idx psh in
  if Nat.eqb (prodn psh) 0 then Unspec else
  Ok (Arr TNum (ash a)
        (map (fun i => bool_elem (forallb (fun o =>
                match lookup (ash a) (adata a) (map (fun io => (fst io + snd io)%nat) (combine i o)), lookup psh (adata p) o with
                | Some x, Some y => elem_eqb x y
                | _, _ => false end) offs)) (all_idx (ash a)))) end end.

(* ------------------------------------------------------------------ programs *)

Inductive aop := ATake | ADrop | ARotate | AReshape | ASelect | APick | AKeep.
Inductive op :=
| OP2 (o : pop2) | OP1 (o : pop1)
| OLen | OShape | ORange | OFirst | OLast | OReverse | ODeshape | OFix | OTranspose
| OSort | ORise | OFall | OWhere | OClassify | ODedup | OBox | OUnbox
| OMatch | OCouple | OJoin | OMember | OIndexIn | OFind
| OAmt (o : aop)                                   (* amount / index argument taken from the stack *)
| OLit (o : aop) (sc : bool) (amts : list amount)  (* ... or written as a literal of rank 0 / 1 *)
| ODup | OFlip.

Definition amt_prim (fill : option elem) (o : aop) (ish : list nat) (amts : list amount) (a : arr) : res arr :=
  let sc := match ish with [] => true | _ => false end in
  let rank_le1 := Nat.leb (length ish) 1 in
  match o with
  | ATake => if rank_le1 then p_take fill amts a else Unspec
  | ADrop => if rank_le1 then p_drop amts a else Unspec
  | ARotate => if rank_le1 then p_rotate fill amts a else Unspec
  | AReshape => if rank_le1 then p_reshape fill sc amts a else Unspec
  | AKeep => if rank_le1 then p_keep fill sc amts a else Unspec
  | ASelect => p_select fill ish amts a
  | APick => p_pick fill ish amts a end.

Definition step (fill : option elem) (o : op) (st : list arr) : res (list arr) :=
  match o, st with
  | OP2 p, a :: b :: r => v <- p_perv2 p fill a b ;; Ok (v :: r)
  | OP1 p, a :: r => v <- p_perv1 p a ;; Ok (v :: r)
  | OLen, a :: r => Ok (p_len a :: r)
  | OShape, a :: r => Ok (p_shape a :: r)
  | ORange, a :: r => v <- p_range a ;; Ok (v :: r)
  | OFirst, a :: r => v <- p_first fill a ;; Ok (v :: r)
  | OLast, a :: r => v <- p_last fill a ;; Ok (v :: r)
  | OReverse, a :: r => Ok (p_reverse a :: r)
  | ODeshape, a :: r => Ok (p_deshape a :: r)
  | OFix, a :: r => Ok (p_fix a :: r)
  | OTranspose, a :: r => Ok (p_transpose a :: r)
  | OSort, a :: r => v <- p_sort a ;; Ok (v :: r)
  | ORise, a :: r => v <- p_rise a ;; Ok (v :: r)
  | OFall, a :: r => v <- p_fall a ;; Ok (v :: r)
  | OWhere, a :: r => v <- p_where a ;; Ok (v :: r)
  | OClassify, a :: r => v <- p_classify a ;; Ok (v :: r)
  | ODedup, a :: r => v <- p_dedup a ;; Ok (v :: r)
  | OBox, a :: r => Ok (p_box a :: r)
  | OUnbox, a :: r => v <- p_unbox a ;; Ok (v :: r)
  | OMatch, a :: b :: r => v <- p_match a b ;; Ok (v :: r)
  | OCouple, a :: b :: r => v <- p_couple fill a b ;; Ok (v :: r)
  | OJoin, a :: b :: r => v <- p_join fill a b ;; Ok (v :: r)
  | OMember, a :: b :: r => v <- p_member a b ;; Ok (v :: r)
  | OIndexIn, a :: b :: r => v <- p_indexin fill a b ;; Ok (v :: r)
  | OFind, a :: b :: r => v <- p_find fill a b ;; Ok (v :: r)
  | OAmt o, i :: a :: r => amts <- amounts_of i ;; v <- amt_prim fill o (ash i) amts a ;; Ok (v :: r)
  | OLit o sc amts, a :: r =>
      v <- amt_prim fill o (if sc then [] else [length amts]) amts a ;; Ok (v :: r)
  | ODup, a :: r => Ok (a :: a :: r)
  | OFlip, a :: b :: r => Ok (b :: a :: r)
  | _, _ => Err           (* not enough arguments on the stack *)
  end.

Fixpoint run (fill : option elem) (p : list op) (st : list arr) : res (list arr) :=
  match p with [] => Ok st | o :: p' => st' <- step fill o st ;; run fill p' st' end.

(* ------------------------------------------------------------------ tie *)

Record tcase := TC { tc_fill : option elem; tc_prog : list op; tc_stack : list arr;
                     tc_expect : option (list arr) }.
(** 0 = agreement, 1 = disagreement, 2 = the reference does not determine the outcome *)
Definition check_case (c : tcase) : N :=
  match run (tc_fill c) (tc_prog c) (tc_stack c), tc_expect c with
  | Unspec, _ => 2%N
  | Err, None => 0%N
  | Ok st, Some st' => if list_eqb arr_eqb st st' then 0%N else 1%N
  | _, _ => 1%N end.
Fixpoint check_from (i : N) (cs : list tcase) : list (N * N) :=
  match cs with
  | [] => []
  | c :: r => match check_case c with
              | 0%N => check_from (N.succ i) r
              | k => (i, k) :: check_from (N.succ i) r end end.
